"""Translator for C14: the formulas by which `BasisFunctionalData` computes in coefficient space
-> `lean/FDAModel/Generated/CoefSpaceFormulas.lean`.

Read off `FDApy/representation/functional_data.py` (class `BasisFunctionalData`), syntactically, onto the combinators
of `lean/FDAModel/Core/NpMat.lean` (`matmul`, `transpose`, `divc`, `meanAxis0/1`, `subRow`, `newaxis`, `diag`), with the
shapes tracked symbolically (`coefficients`: N × K, Gram matrix of the basis: K × K, basis values: K × m):

* `to_grid`: the `np.einsum` subscripts (a plain contraction `"ij,j...->i..."` is `coefficients @ values`);
* `mean`, `center`: `np.mean(coefficients, axis=…)`, the subtraction;
* `inner_product`: the product `coefficients @ G @ coefficients.T` with its transposes, in the order written;
* `covariance`: which data are used (`self.center()`), `coefficients.T @ coefficients / n_obs`;
* `norm`: `np.diag` of the inner product and the exponent of `np.power` / `np.sqrt`;
* `rescale`: the test that decides to re-estimate the weight (`weights == 0.0`) and the power of the weight the
  coefficients are divided by;
* `normalize`: whether every keyword argument it accepts is handed to `self.norm`.

`C14.basis_formulas_match_source` proves each equal to the model's `toGrid`, `meanCoef`, `center`, `innerBasis`,
`covCoef`, `normSqBasis`, `rescaleReestimates`, `rescalePower`, `normPower`.  An unrecognised shape raises `Shape`:
no alarm (see `translate()` in `harness/c14.py`).
"""
import ast
from fractions import Fraction


class Shape(ValueError):
    pass


def _q(c):
    if isinstance(c, bool) or not isinstance(c, (int, float)):
        raise Shape(f"constant {c!r} is not a number")
    f = Fraction(c) if isinstance(c, int) else Fraction(repr(c))
    return f"({f.numerator} : ℚ)" if f.denominator == 1 else f"(({f.numerator} : ℚ) / {f.denominator})"


def _const(e):
    if isinstance(e, ast.Constant) and not isinstance(e.value, bool) and isinstance(e.value, (int, float)):
        return e.value
    if isinstance(e, ast.UnaryOp) and isinstance(e.op, ast.USub) and isinstance(e.operand, ast.Constant):
        return -e.operand.value
    return None


def _is_np(e, name):
    return (isinstance(e, ast.Call) and isinstance(e.func, ast.Attribute) and e.func.attr == name
            and isinstance(e.func.value, ast.Name) and e.func.value.id in ("np", "numpy"))


def _body(fn):
    return [s for s in fn.body if not (isinstance(s, ast.Expr) and isinstance(s.value, ast.Constant))]


class _Env:
    """Names bound to (lean term, (rows, cols)) with symbolic dimensions 'N', 'K', 'm'."""

    def __init__(self, coef="c"):
        self.names = {}
        self.coef = coef

    def mat(self, e):
        # self.coefficients / <obj>.coefficients
        if isinstance(e, ast.Attribute) and e.attr == "coefficients" and isinstance(e.value, ast.Name):
            if e.value.id == "self":
                return self.coef, ("N", "K")
            if e.value.id in self.names:
                return self.names[e.value.id]
            raise Shape(f"coefficients of an unknown object {e.value.id}")
        if isinstance(e, ast.Name) and e.id in self.names:
            return self.names[e.id]
        if isinstance(e, ast.Attribute) and e.attr == "T":
            t, (r, c) = self.mat(e.value)
            return f"(FDA.NpM.transpose {t})", (c, r)
        if isinstance(e, ast.BinOp) and isinstance(e.op, ast.MatMult):
            a, (ra, ca) = self.mat(e.left)
            b, (rb, cb) = self.mat(e.right)
            if ca != rb:
                raise Shape(f"matrix product with inner dimensions {ca} and {rb}")
            return f"(FDA.NpM.matmul {ca} {a} {b})", (ra, cb)
        if isinstance(e, ast.BinOp) and isinstance(e.op, ast.Div):
            a, sh = self.mat(e.left)
            return f"(FDA.NpM.divc {a} {self.scalar(e.right)})", sh
        if isinstance(e, ast.BinOp) and isinstance(e.op, ast.Sub):
            a, sh = self.mat(e.left)
            v, n = self.vec(e.right)
            if n != sh[1]:
                raise Shape("subtraction of a vector that is not indexed by the columns")
            return f"(FDA.NpM.subRow {a} {v})", sh
        raise Shape(f"array expression not recognised: {ast.unparse(e)[:70]}")

    def vec(self, e):
        if _is_np(e, "mean") and len(e.args) == 1:
            a, (r, c) = self.mat(e.args[0])
            ax = {k.arg: _const(k.value) for k in e.keywords}.get("axis")
            if ax == 0:
                return f"(FDA.NpM.meanAxis0 {r} {a})", c
            if ax == 1:
                return f"(FDA.NpM.meanAxis1 {c} {a})", r
            raise Shape("np.mean without axis=0/1")
        raise Shape(f"vector expression not recognised: {ast.unparse(e)[:70]}")

    def scalar(self, e):
        if _const(e) is not None:
            return _q(_const(e))
        if isinstance(e, ast.Attribute) and e.attr == "n_obs":
            return "(N : ℚ)"
        if isinstance(e, ast.BinOp) and isinstance(e.op, (ast.Sub, ast.Add)):
            op = "-" if isinstance(e.op, ast.Sub) else "+"
            return f"({self.scalar(e.left)} {op} {self.scalar(e.right)})"
        raise Shape(f"scalar not recognised: {ast.unparse(e)[:50]}")


def _method(tree, name):
    c = next((n for n in tree.body if isinstance(n, ast.ClassDef) and n.name == "BasisFunctionalData"), None)
    if c is None:
        raise Shape("class BasisFunctionalData not found")
    f = next((n for n in c.body if isinstance(n, ast.FunctionDef) and n.name == name), None)
    if f is None:
        raise Shape(f"BasisFunctionalData.{name} not found")
    return f


def _assigned(fn, name):
    for s in ast.walk(fn):
        if isinstance(s, ast.Assign) and len(s.targets) == 1 and isinstance(s.targets[0], ast.Name) and s.targets[0].id == name:
            return s.value
    return None


def _to_grid(fn):
    calls = [n for n in ast.walk(fn) if _is_np(n, "einsum")]
    if len(calls) != 1 or len(calls[0].args) != 3 or not isinstance(calls[0].args[0], ast.Constant):
        raise Shape("to_grid: not one np.einsum(<subscripts>, a, b)")
    sub = calls[0].args[0].value.replace(" ", "")
    if "->" not in sub or "," not in sub:
        raise Shape("to_grid: einsum subscripts without explicit output")
    ins, out = sub.split("->")
    a, b = ins.split(",")
    ops = [ast.unparse(x) for x in calls[0].args[1:]]
    if ops != ["self.coefficients", "self.basis.values"]:
        raise Shape(f"to_grid: einsum operands {ops}")
    if not (len(a) == 2 and len(b) == 4 and b[1:] == "..." and len(out) == 4 and out[1:] == "..." and a[0] != a[1]):
        raise Shape(f"to_grid: einsum subscripts {sub}")
    if b[0] == a[1] and out[0] == a[0]:
        return "FDA.NpM.matmul K c Φ"
    if b[0] == a[0] and out[0] == a[1]:
        return "FDA.NpM.matmul K (FDA.NpM.transpose c) Φ"  # contraction over the OBSERVATION index
    raise Shape(f"to_grid: einsum subscripts {sub}")


def _mean(fn):
    rets = [s for s in _body(fn) if isinstance(s, ast.Return)]
    v = _assigned(fn, "mean")
    if v is None or not rets:
        raise Shape("mean: no `mean = ...`")
    if isinstance(v, ast.Subscript) and ast.unparse(v.slice) in ("np.newaxis", "None"):
        t, n = _Env().vec(v.value)
        if n != "K":
            return f"FDA.NpM.newaxis (fun k => {t} k)"  # mean over the wrong axis: still a function of the column index
        return f"FDA.NpM.newaxis {t}"
    raise Shape("mean: not `np.mean(...)[np.newaxis]`")


def _center(fn):
    v = _assigned(fn, "new_coefs")
    if v is None:
        raise Shape("center: no `new_coefs = ...`")
    return _Env().mat(v)[0]


def _inner(fn):
    env = _Env()
    g = _assigned(fn, "inner_product")
    if g is None or "self.basis.inner_product" not in ast.unparse(g):
        raise Shape("inner_product: Gram matrix of the basis not taken from self.basis.inner_product")
    env.names["inner_product"] = ("G", ("K", "K"))
    rets = [s for s in _body(fn) if isinstance(s, ast.Return)]
    if len(rets) != 1:
        raise Shape("inner_product: several returns")
    t, sh = env.mat(rets[0].value)
    if sh != ("N", "N"):
        raise Shape(f"inner_product: result of shape {sh}")
    return t


def _cov(fn, center_term):
    env = _Env()
    d = _assigned(fn, "data")
    if d is None:
        raise Shape("covariance: no `data = ...`")
    src = ast.unparse(d)
    if src == "self.center()":
        env.names["data"] = (f"({center_term})", ("N", "K"))
    elif src == "self":
        env.names["data"] = ("c", ("N", "K"))
    else:
        raise Shape(f"covariance: data = {src}")
    first = next((s for s in _body(fn) if isinstance(s, ast.Assign) and isinstance(s.targets[0], ast.Name) and s.targets[0].id == "cov"), None)
    if first is None:
        raise Shape("covariance: no `cov = ...`")
    t, sh = env.mat(first.value)
    if sh != ("K", "K"):
        raise Shape(f"covariance: coefficient covariance of shape {sh}")
    return t


def _power(e, var):
    """np.sqrt(x) -> 1/2, np.power(x, p) -> p, x -> 1 (x mentions `var`)."""
    if _is_np(e, "sqrt") and len(e.args) == 1 and var in ast.unparse(e.args[0]):
        return Fraction(1, 2)
    if _is_np(e, "power") and len(e.args) == 2 and var in ast.unparse(e.args[0]) and _const(e.args[1]) is not None:
        return Fraction(repr(_const(e.args[1]))) if isinstance(_const(e.args[1]), float) else Fraction(_const(e.args[1]))
    if var in ast.unparse(e) and isinstance(e, (ast.Name, ast.Call)) and not _is_np(e, "sqrt"):
        if isinstance(e, ast.Call) and not (isinstance(e.func, ast.Name) and e.func.id == "float"):
            raise Shape(f"power expression not recognised: {ast.unparse(e)}")
        return Fraction(1)
    raise Shape(f"power expression not recognised: {ast.unparse(e)}")


def _norm(fn):
    d = _assigned(fn, "norm_obs")
    if d is None or not _is_np(d, "diag"):
        raise Shape("norm: no `norm_obs = np.diag(...)`")
    ip = _assigned(fn, ast.unparse(d.args[0])) if isinstance(d.args[0], ast.Name) else d.args[0]
    if ip is None or "self.inner_product" not in ast.unparse(ip):
        raise Shape("norm: the diagonal is not that of self.inner_product(...)")
    rets = [s.value for s in ast.walk(fn) if isinstance(s, ast.Return)]
    pw = None
    for r in rets:
        if _is_np(r, "array") or (isinstance(r, ast.Name) and r.id == "norm_obs"):
            continue
        pw = _power(r, "norm_obs")
    if pw is None:
        raise Shape("norm: no root of the squared norms")
    return pw


def _rescale(fn):
    first = next((s for s in _body(fn) if isinstance(s, ast.If)), None)
    if first is None:
        raise Shape("rescale: no test on the weight")
    t = first.test
    if isinstance(t, ast.Compare) and len(t.ops) == 1 and isinstance(t.left, ast.Name) and t.left.id == "weights" \
            and _const(t.comparators[0]) is not None:
        c = _q(_const(t.comparators[0]))
        prop = {ast.Eq: f"w = {c}", ast.Lt: f"w < {c}", ast.LtE: f"w ≤ {c}", ast.NotEq: f"w ≠ {c}"}.get(type(t.ops[0]))
        if prop is None:
            raise Shape("rescale: comparison operator")
    elif _is_np(t, "isclose") and len(t.args) == 2 and isinstance(t.args[0], ast.Name) and t.args[0].id == "weights" \
            and _const(t.args[1]) is not None:
        kw = {k.arg: _const(k.value) for k in t.keywords}
        rtol, atol = kw.get("rtol", 1e-05), kw.get("atol", 1e-08)
        b = _q(_const(t.args[1]))
        prop = f"|w - {b}| ≤ {_q(atol)} + {_q(rtol)} * |{b}|"  # numpy.isclose: |a - b| <= atol + rtol * |b|
    else:
        raise Shape(f"rescale: test not recognised: {ast.unparse(t)}")
    v = _assigned(fn, "new_coefs")
    if not (isinstance(v, ast.BinOp) and isinstance(v.op, ast.Div) and ast.unparse(v.left) == "self.coefficients"):
        raise Shape("rescale: coefficients not divided by a function of the weight")
    return prop, _power(v.right, "weights")


def _normalize(fn):
    """Does `normalize` hand ALL its keyword arguments (`**kwargs`) to `self.norm`?"""
    calls = [n for n in ast.walk(fn) if isinstance(n, ast.Call) and isinstance(n.func, ast.Attribute) and n.func.attr == "norm"
             and isinstance(n.func.value, ast.Name) and n.func.value.id == "self"]
    if len(calls) != 1:
        raise Shape("normalize: not exactly one call of self.norm")
    star = fn.args.kwarg.arg if fn.args.kwarg is not None else None
    named = [a.arg for a in fn.args.args[1:]] + [a.arg for a in fn.args.kwonlyargs]
    fwd_star = star is not None and any(k.arg is None and isinstance(k.value, ast.Name) and k.value.id == star for k in calls[0].keywords)
    fwd_named = all(any(k.arg == a and isinstance(k.value, ast.Name) and k.value.id == a for k in calls[0].keywords) for a in named)
    return fwd_star and fwd_named


def _frac(f):
    return f"({f.numerator} : ℚ)" if f.denominator == 1 else f"(({f.numerator} : ℚ) / {f.denominator})"


def lean_source(path):
    tree = ast.parse(open(path).read())
    tg = _to_grid(_method(tree, "to_grid"))
    mean = _mean(_method(tree, "mean"))
    cen = _center(_method(tree, "center"))
    inner = _inner(_method(tree, "inner_product"))
    cov = _cov(_method(tree, "covariance"), cen)
    npw = _norm(_method(tree, "norm"))
    guard, rpw = _rescale(_method(tree, "rescale"))
    nfw = _normalize(_method(tree, "normalize"))
    return f"""/-
GENERATED by harness/c14_translate.py from FDApy/representation/functional_data.py (class BasisFunctionalData:
`to_grid`, `mean`, `center`, `inner_product`, `covariance`, `norm`, `rescale`).  Do not edit: regenerated on every run
of `./check C14`.  `C14.basis_formulas_match_source` proves these equal to the model's definitions in `Repr.lean`.
`c`: coefficients (N × K), `G`: Gram matrix of the basis (K × K), `Φ`: basis values (K × flat grid).
-/
import FDAModel.Core.NpMat

namespace FDA.Generated.BasisFormulas

/-- `to_grid`: the `np.einsum` contraction. -/
def toGridSrc (N K : ℕ) (c Φ : ℕ → ℕ → ℚ) : ℕ → ℕ → ℚ := {tg}

/-- `mean`: the coefficients of the mean (one row). -/
def meanSrc (N K : ℕ) (c : ℕ → ℕ → ℚ) : ℕ → ℕ → ℚ := {mean}

/-- `center`: the centred coefficients. -/
def centerSrc (N K : ℕ) (c : ℕ → ℕ → ℚ) : ℕ → ℕ → ℚ := {cen}

/-- `inner_product`: the product as written, with its transposes. -/
def innerSrc (N K : ℕ) (G c : ℕ → ℕ → ℚ) : ℕ → ℕ → ℚ := {inner}

/-- `covariance`: the covariance of the coefficients. -/
def covSrc (N K : ℕ) (c : ℕ → ℕ → ℚ) : ℕ → ℕ → ℚ := {cov}

/-- `norm(squared=True)`: `np.diag` of the inner product; `norm()`: that to the power `normPowerSrc`. -/
def normSqSrc (N K : ℕ) (G c : ℕ → ℕ → ℚ) : ℕ → ℚ := FDA.NpM.diag (innerSrc N K G c)
def normPowerSrc : ℚ := {_frac(npw)}

/-- `rescale`: when the weight is re-estimated, and the power of the weight the coefficients are divided by. -/
def rescaleReestimatesSrc (w : ℚ) : Bool := decide ({guard})
def rescalePowerSrc : ℚ := {_frac(rpw)}

/-- `normalize` hands every keyword argument it accepts (`**kwargs`: `squared`, `method_integration`, …) to `self.norm`. -/
def normalizeForwardsKeywords : Bool := {"true" if nfw else "false"}

end FDA.Generated.BasisFormulas
"""


if __name__ == "__main__":
    import sys
    print(lean_source(sys.argv[1]))
