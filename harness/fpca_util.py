"""Shared helpers of the FPCA checks C01 / C02 / C03 (owned by the fpca builder).

* `EigCapture` — wraps `numpy.linalg.eig` / `eigh` (and, as a fallback for
  refactors, `FDApy.misc.utils._compute_eigen` as imported by ufpca/mfpca) from
  OUTSIDE, in the harness process, and records what LAPACK returned inside the
  FDApy call.  The eigen-solver is a parameter of the Lean model: exactly these
  numbers are fed to it.
* dataset generators with exactly representable (dyadic) values, so the same
  numbers reach NumPy (float64) and Lean (num/den).
"""
from __future__ import annotations

import contextlib
import warnings
from fractions import Fraction

import numpy as np

from common import F, Rng, fl, rs


# --------------------------------------------------------------------------
# capture of the eigen-solver
# --------------------------------------------------------------------------

class EigCapture:
    """Context manager recording every `np.linalg.eig/eigh` call made inside."""

    def __init__(self):
        self.calls = []      # dicts: fn, a (input), w, v (real parts, as float arrays), complex (bool)
        self.helper = []     # (args, result) of `_compute_eigen` itself, if it could be wrapped

    def __enter__(self):
        self._eig, self._eigh = np.linalg.eig, np.linalg.eigh
        cap = self

        def eig(a, *args, **kw):
            res = cap._eig(a, *args, **kw)
            w, v = res[0], res[1]
            cap.calls.append(dict(fn="eig", a=np.array(a, dtype=float, copy=True), w=np.real(np.array(w)).copy(),
                                  v=np.real(np.array(v)).copy(),
                                  complex=bool(np.iscomplexobj(w) and np.abs(np.imag(w)).max(initial=0) > 0)))
            return res

        def eigh(a, *args, **kw):
            res = cap._eigh(a, *args, **kw)
            w, v = res[0], res[1]
            cap.calls.append(dict(fn="eigh", a=np.array(a, dtype=float, copy=True), w=np.real(np.array(w)).copy(),
                                  v=np.real(np.array(v)).copy(), complex=False))
            return res

        np.linalg.eig, np.linalg.eigh = eig, eigh
        return self

    def __exit__(self, *exc):
        np.linalg.eig, np.linalg.eigh = self._eig, self._eigh
        return False

    def last(self, size=None):
        """Last captured call (optionally: whose matrix has `size` rows)."""
        for c in reversed(self.calls):
            if size is None or c["a"].shape[0] == size:
                return c
        return None


def raw_from_call(call):
    """Captured solver output in the order the code sees it.

    `_compute_eigen` uses `np.linalg.eig` as is; `_eigh` (if a refactor routes
    through it) reverses `np.linalg.eigh`'s ascending output."""
    w, v = call["w"], call["v"]
    if call["fn"] == "eigh":
        w, v = w[::-1], v[:, ::-1]
    return [float(x) for x in w], [[float(x) for x in v[:, k]] for k in range(v.shape[1])]


def sel_to_py(sel):
    """Case encoding of `n_components` -> the Python object handed to FDApy."""
    kind = sel[0]
    if kind == "all":
        return None
    if kind == "int":
        return int(sel[1])
    if kind == "frac":
        return float(F(sel[1]))
    if kind == "bad":
        return {"np.int64": np.int64(2), "str": "2", "list": [1]}[sel[1]]
    raise ValueError(sel)


def sel_to_model(sel):
    kind = sel[0]
    if kind == "all":
        return "all"
    if kind == "int":
        return f"int:{int(sel[1])}"
    if kind == "frac":
        return f"frac:{rs(F(sel[1]))}"
    return "bad"


def non_increasing(v):
    return all(v[i + 1] <= v[i] for i in range(len(v) - 1))


# --------------------------------------------------------------------------
# data
# --------------------------------------------------------------------------

def dense(t_list, X, layout="C"):
    """Dense functional data; `layout` chooses the memory layout of the values handed to FDApy:
    "C" (contiguous), "F" (Fortran order) or "S" (a strided, non-contiguous view)."""
    from FDApy.representation.argvals import DenseArgvals
    from FDApy.representation.functional_data import DenseFunctionalData
    from FDApy.representation.values import DenseValues

    arg = DenseArgvals({f"input_dim_{k}": np.array(fl([F(x) for x in t])) for k, t in enumerate(t_list)})
    V = np.array(X, dtype=float)
    if layout == "F":
        V = np.asfortranarray(V)
    elif layout == "S":
        big = np.zeros(tuple(2 * d for d in V.shape))
        view = big[tuple(slice(None, None, 2) for _ in V.shape)]
        view[...] = V
        V = view
    return DenseFunctionalData(arg, DenseValues(V))


def grid(rng: Rng, m, uniform=None):
    """Sorted dyadic grid: equally spaced, generic non-uniform, or (uniform=None, m ≥ 5, one time in five) a
    regular schedule with one or two interior points displaced — first step and end points as on the regular
    grid, so that "regular grid" shortcuts that look at the first step / the range only are exercised."""
    lo = rng.choice([0, 0, -1, 1, 100, Fraction(-7, 2)])
    scale = rng.choice([1, 1, 2, 364, Fraction(1, 8)])
    if uniform is None and m >= 5 and rng.random() < 0.2:
        t = rng.grid(m, lo=lo, scale=scale, uniform=True)
        step = t[1] - t[0]
        for j in rng.sample(range(2, m - 1), min(2, m - 3)):
            t[j] += step * rng.choice([Fraction(1, 4), Fraction(-1, 4), Fraction(3, 8), Fraction(-1, 8)])
        return t
    return rng.grid(m, lo=lo, scale=scale, uniform=uniform)


def special_grids(rng: Rng, m):
    """Structured grids for the *offset / step ratio* and *non-uniform × tiny scale* classes (present in every run).
    All points are exact float64 values (returned as Fractions); the far-offset ones fill the 53-bit mantissa, so
    that sums of abscissae round while their differences do not."""
    jit = [Fraction(rng.choice([-3, -2, -1, 1, 2, 3]), 8) for _ in range(m)]
    jit[0] = jit[-1] = Fraction(0)
    steps = [Fraction(rng.choice([2, 3, 4, 5, 6]), 4) for _ in range(m - 1)]          # 0.5 … 1.5, irregular
    cum = [sum(steps[:k], Fraction(0)) for k in range(m)]
    return [(lab, _exact_floats(g)) for lab, g in [
        ("unix-1kHz", [Fraction(float(1700000000 + k / 1000)) for k in range(m)]),
        ("unix-1kHz-jittered", [Fraction(float(1700000000 + (k + float(jit[k])) / 1000)) for k in range(m)]),
        ("julian-1s", [Fraction(float(2460000 + k / 86400)) for k in range(m)]),
        ("dyadic-2^-22@1.7e9-irregular", [Fraction(1700000000) + 4 * c * Fraction(1, 2 ** 22) for c in cum]),   # 31 + 22 bits
        ("tiny-2^-27-irregular", [c * Fraction(1, 2 ** 27) for c in cum]),                  # steps ≈ 4e-9 … 1.1e-8, irregular
        ("tiny-decimal-irregular@100", [Fraction(float(100 + float(c) * 1e-8)) for c in cum]),
        ("tiny-decimal-irregular", [Fraction(float(float(c) * 1e-8)) for c in cum]),
    ]]


def _exact_floats(g):
    """Every abscissa must be exactly a float64 (the same number reaches NumPy and Lean) and the grid strictly increasing."""
    assert all(Fraction(float(x)) == x for x in g) and all(a < b for a, b in zip(g, g[1:])), g
    return g


def curves(rng: Rng, n, t, kind=None, rank=None):
    """`n` curves on the grid `t` (Fractions) with dyadic values.

    kinds: rough (iid dyadics), smooth (random low-degree polynomials in the
    standardised argument, dyadic coefficients), lowrank (rank ≤ `rank`
    combinations of smooth shapes), offset (smooth + large common offset),
    const (zero variance)."""
    m = len(t)
    kind = kind or rng.choice(["rough", "smooth", "smooth", "lowrank", "offset"])
    lo, hi = t[0], t[-1]
    # standardised argument rounded to a dyadic with 6 bits: exact in float64 and Lean
    u = [Fraction(round((x - lo) / (hi - lo) * 64), 64) if hi != lo else Fraction(0) for x in t]
    if kind == "rough":
        return [rng.dyadics(m, -8, 8, 3) for _ in range(n)], kind
    if kind == "const":
        row = rng.dyadics(m, -4, 4, 2)
        return [list(row) for _ in range(n)], kind
    shapes = [[Fraction(1)] * m, u, [x * x for x in u], [x * x * x - x for x in u],
              [(2 * x - 1) ** 4 for x in u]]
    if kind in ("smooth", "offset"):
        deg = rng.randint(1, 3)
        out = []
        off = rng.choice([64, -100, 1000]) if kind == "offset" else 0
        for _ in range(n):
            cs = [rng.dyadic(-4, 4, 3) for _ in range(deg + 1)]
            out.append([off + sum(c * shapes[k][j] for k, c in enumerate(cs)) for j in range(m)])
        return out, kind
    if kind == "lowrank":
        r = rank or rng.randint(1, 3)
        base = [shapes[k] for k in rng.sample(range(1, 5), r)]
        mean = rng.dyadics(m, -2, 2, 2)
        out = []
        for _ in range(n):
            cs = [rng.dyadic(-4, 4, 3) for _ in range(r)]
            out.append([mean[j] + sum(c * b[j] for c, b in zip(cs, base)) for j in range(m)])
        return out, kind
    raise ValueError(kind)


def trapz_weights(t):
    """Trapezoid quadrature weights of a grid, computed by the harness itself (the oracles must
    not inherit a defect of FDApy's `_integration_weights`)."""
    t = np.asarray(t, dtype=float)
    w = np.empty(len(t))
    w[0] = (t[1] - t[0]) / 2
    w[-1] = (t[-1] - t[-2]) / 2
    w[1:-1] = (t[2:] - t[:-2]) / 2
    return w


def multi_lowrank(rng: Rng, P, n, R=3):
    """`P` correlated components (different grid sizes, uniform and non-uniform grids) of `n` curves each,
    every component of rank ≤ R with smooth shapes, shared dyadic coefficients whose columns sum to zero
    (so the sample mean is exactly zero and any smoothing of the mean reproduces it)."""
    coef = [[rng.dyadic(-4, 4, 2) for _ in range(R)] for _ in range(n - 1)]
    coef.append([-sum(c[r] for c in coef) for r in range(R)])
    comps = []
    for _ in range(P):
        m = rng.randint(8, 16)
        t = grid(rng, m)
        lo, hi = t[0], t[-1]
        u = [Fraction(round((x - lo) / (hi - lo) * 64), 64) for x in t]
        shapes = [[Fraction(1)] * m, u, [x * x for x in u], [x * x * x - x for x in u], [(2 * x - 1) ** 4 for x in u]]
        idx = rng.sample(range(5), R)
        mix = [[rng.dyadic(-2, 2, 1) for _ in range(R)] for _ in range(R)]
        X = [[sum(sum(c[r] * mix[r][q] for r in range(R)) * shapes[idx[q]][j] for q in range(R)) for j in range(m)]
             for c in coef]
        comps.append(dict(t=Svec(t), X=Smat(X)))
    return comps


def pow2(rng: Rng, wide=True):
    """A power-of-two data scale (exact in float64 and in ℚ): mostly 1, sometimes 2^±10 … 2^±30 (≈ 1e-9 … 1e9)."""
    return Fraction(2) ** rng.choice([0, 0, 0, -30, -20, -10, 10, 20, 30] if wide else [0])


def S(x):
    """Rational -> protocol string."""
    return rs(x)


def Svec(v):
    return [rs(x) for x in v]


def Smat(m):
    return [[rs(x) for x in r] for r in m]


def Fv(v):
    return [F(x) for x in v]


def Fm(m):
    return [[F(x) for x in r] for r in m]


@contextlib.contextmanager
def quiet():
    with warnings.catch_warnings():
        warnings.simplefilter("ignore")
        with np.errstate(all="ignore"):
            yield
