"""C02 — UFPCA eigenpairs solve the discretised covariance / Gram eigenproblem.

Correspondence: the harness fits `UFPCA` on dense 1-D data with exactly representable
values, captures what LAPACK returned inside `_compute_eigen`, and the Lean driver
recomputes — in exact rational arithmetic, square roots bracketed to 1e-24 — the
covariance `C`, the matrix handed to the solver (`S C S`, resp. `G − σ²I`), the
post-processing of the captured pairs (C01's `computeEigenImpl`), the back-transformed
eigenfunctions, the Mercer sum, the Gram-route eigenfunctions and eigenvalues.
The oracle evaluates the property's defining relations on what FDApy returned.
"""
from __future__ import annotations

import os
from fractions import Fraction

import numpy as np

import common
from common import F, Rng, close_all, digest, err_class, fl, pmat, pvec, rs
from fpca_util import (trapz_weights, pow2, special_grids, EigCapture, Fm, Fv, Smat, Svec, curves, dense, grid, quiet, raw_from_call, sel_to_model,
                       sel_to_py)

PROP = "C02"
MODULES = ["FDAProofs.Props.C02"]
DRIVER = "Drivers/C02.lean"
PARALLEL = True
RULE = (
    "dense 1-D datasets with dyadic values: n_obs 2..25, 3..40 grid points, uniform and non-uniform grids with any offset/scale, "
    "smooth / low-rank / rough / offset / zero-variance curves, both methods, n_components in {None, k, fraction}; "
    "non-trivial when the centred data are not all zero; distinct by content hash"
)
PARTIAL = [
    "translator (harness/c02_translate.py): the operators / powers / operand orders / transposes of _fit_covariance, _fit_inner_product, _compute_covariance are re-extracted with ast on every run into lean/FDAModel/Generated/UfpcaFormulas.lean and proved equal to the model (C02.*_src_eq_model); an unrecognised source shape falls back on harness/c02_ufpcaformulas_reference.lean with a note (coverage.translator) and the tie then rests on the correspondence only",
    "the eigen-solver is a parameter: the theorems assume its contract (A u = λ u, orthonormal vectors); the oracle measures the "
    "captured output's residual and orthonormality defect (coverage.solver_contract)",
    "square roots: theorems with exact roots as hypotheses (any field, ℝ included); the driver uses rational brackets within 1e-24 (C02.sqrt_bracket)",
    "the noise variance subtracted on the Gram route is taken from the fitted estimator (its estimator is C09's subject)",
]
THEOREMS_SRC = "C02.fit_flags_src, symMat_src_eq_model, backTransform_src_eq_model, gramEigfun_src_eq_model, gramEigval_src_eq_model, mercer_src_eq_model"
TRUSTED_EXTRA = ["translator harness/c02_translate.py (ast, syntax only: operators, powers, operand order, transposes, subscripts of "
                 "_fit_covariance, _fit_inner_product, _compute_covariance, UFPCA.transform/inverse_transform, rescale, NumInt, InnPro)"]
TIED = "tied_eigenvalues"
NONPOS = "gram_eigenvalue_nonpositive"
RTOL = 1e-9


# --------------------------------------------------------------------------
# translator: the UFPCA formulas as written -> lean/FDAModel/Generated/UfpcaFormulas.lean
# --------------------------------------------------------------------------

GEN_FORMULAS = os.path.join(common.LEAN_DIR, "FDAModel", "Generated", "UfpcaFormulas.lean")
TRANSLATOR_NOTE = "translator: not run"


def translate():
    """Regenerate Generated/UfpcaFormulas.lean from what the source says now (`harness/c02_translate.py`, syntax only).
    A source whose shape is not recognised (a refactor) is NOT an alarm: the reference translation stored beside the
    translator is used, a note is printed and recorded in the evidence, and the tie rests on the correspondence only.
    Only a successful translation can break THEOREMS_SRC."""
    global TRANSLATOR_NOTE
    import c02_translate

    try:
        src = c02_translate.lean_source(common.REPO)
        TRANSLATOR_NOTE = "translator: UFPCA formulas regenerated from the source and re-proved equal to the model (" + THEOREMS_SRC + ")"
    except (ValueError, SyntaxError, IndexError, AttributeError, KeyError, TypeError) as e:
        TRANSLATOR_NOTE = f"translator: shape of the UFPCA source not recognised, tie rests on the correspondence only ({str(e)[:140]})"
        print("note:", TRANSLATOR_NOTE)
        src = open(os.path.join(os.path.dirname(os.path.abspath(__file__)), "c02_ufpcaformulas_reference.lean")).read()
    except OSError as e:
        raise common.InfraError(f"translator: cannot read the UFPCA sources under {common.REPO}: {e}")
    old = open(GEN_FORMULAS).read() if os.path.exists(GEN_FORMULAS) else None
    if old != src:
        os.makedirs(os.path.dirname(GEN_FORMULAS), exist_ok=True)
        with open(GEN_FORMULAS, "w") as fh:
            fh.write(src)


# --------------------------------------------------------------------------
# generation
# --------------------------------------------------------------------------

def _sels(rng, size):
    return [["all"], ["all"], ["int", 1], ["int", 2], ["int", rng.randint(1, max(1, size))], ["int", size],
            ["frac", rs(rng.choice([Fraction(1, 2), Fraction(9, 10), Fraction(99, 100)]))]]


HISTORIES = ["mean-LP", "mean-PS", "covariance", "inner_product", "center", "smooth", "fit-smoothed", "values-reassigned"]


def _apply_history(fd, hist, X):
    """Use the data object before it is fitted (errors of these preliminary calls are irrelevant here)."""
    from FDApy.preprocessing.dim_reduction.ufpca import UFPCA
    from FDApy.representation.values import DenseValues

    try:
        if hist == "mean-LP":
            fd.mean(method_smoothing="LP")
        elif hist == "mean-PS":
            fd.mean(method_smoothing="PS")
        elif hist == "covariance":
            fd.covariance(method_smoothing="PS")
            fd.covariance()
        elif hist == "inner_product":
            fd.inner_product(method_smoothing="PS", noise_variance=0.0)
        elif hist == "center":
            fd.center(method_smoothing="LP")
            fd.center()
        elif hist == "smooth":
            fd.smooth(method="PS")
        elif hist == "fit-smoothed":
            UFPCA(method="covariance", n_components=1).fit(fd, method_smoothing="PS")
        elif hist == "values-reassigned":
            fd.values = DenseValues(np.array(X)[::-1] * 2.0 + 3.0)
            fd.mean()
            fd.mean(method_smoothing="PS")
            fd.values = DenseValues(np.array(X, dtype=float))
    except Exception:  # noqa: BLE001
        pass
    return fd


def _nearly_tied(rng, t, ratio):
    """Four curves ±a f₁ ± b f₂ (+ a small third direction) with f₁, f₂ orthonormal for the trapezoid weights of `t`
    and b²/a² = ratio: the two leading eigenvalues of the covariance operator (and of the Gram matrix) have that
    ratio.  Values are ordinary floats (exact dyadic rationals for the model)."""
    tf = np.array(fl(t))
    w = trapz_weights(tf)
    u = (tf - tf[0]) / (tf[-1] - tf[0])
    f = [np.sin(np.pi * u) + 0.3, np.cos(np.pi * u), u * u - 0.4]
    q = []
    for v in f:                                   # Gram–Schmidt for <x,y>_w
        for p_ in q:
            v = v - np.sum(w * v * p_) * p_
        q.append(v / np.sqrt(np.sum(w * v * v)))
    a = float(rng.choice([1, 2, 5]))
    b = a * np.sqrt(ratio)
    c = 0.05 * a
    signs = [(1, 1, 1), (-1, 1, -1), (1, -1, -1), (-1, -1, 1)]
    mean = 0.5 + u
    X = [mean + s1 * a * q[0] + s2 * b * q[1] + s3 * c * q[2] for s1, s2, s3 in signs]
    return [[F(float(x)) for x in r] for r in X]


def gen_cases(rng: Rng, tier):
    N = 1500 if tier == "thorough" else 100
    big = tier == "thorough"
    for k in range(N):
        method = "cov" if k % 2 == 0 else "gram"
        n = rng.choice([2, 3, 3, 4, 5, 6, 8, 10, 14]) if not (big and k % 9 == 0) else rng.randint(15, 25)
        m = rng.choice([3, 4, 5, 6, 8, 11, 16]) if not (big and k % 7 == 0) else rng.randint(17, 40)
        t = grid(rng, m)
        if method == "gram":
            kind = rng.choice(["smooth", "smooth", "lowrank", "lowrank", "offset", "rough", "const"])
        else:
            kind = rng.choice(["smooth", "lowrank", "rough", "rough", "offset", "const" if k % 10 == 0 else "rough"])
        X, ck = curves(rng, n, t, kind)
        sc = pow2(rng)  # data in small / large units: any scale
        X = [[x * sc for x in r] for r in X]
        size = m if method == "cov" else n
        case = dict(kind=method, t=Svec(t), X=Smat(X), sel=rng.choice(_sels(rng, size)), ck=ck, scale=rs(sc),
                    layout=rng.choice(["C", "C", "F", "S"]))
        if k % 3 == 0:
            # history: the same estimator is fitted again on other data (other size, other grid, other kind)
            nB, mB = rng.randint(2, 9), rng.randint(3, 12)
            tB = grid(rng, mB)
            XB, _ = curves(rng, nB, tB, rng.choice(["rough", "lowrank", "smooth"]))
            case["B"] = dict(t=Svec(tB), X=Smat(XB))
        yield case
    # offset / step ratio and non-uniform × tiny scale (every run, both routes): time stamps far from the origin whose
    # points fill the mantissa, and irregular grids with steps ≲ 1e-8 (at 0 and at an offset), combined with data scales
    for i, (label, t) in enumerate(special_grids(rng, rng.randint(6, 9))):
        for method in ("cov", "gram"):
            n = rng.randint(4, 7)
            X, ck = curves(rng, n, t, "smooth" if method == "gram" else rng.choice(["rough", "smooth"]))
            sc = Fraction(2) ** rng.choice([0, 0, -20, 20])
            yield dict(kind=method, t=Svec(t), X=Smat([[x * sc for x in r] for r in X]), sel=rng.choice([["int", 2], ["all"]]),
                       ck=f"grid:{label}", scale=rs(sc))
    # spectra with a long weak tail (every run, covariance route, all components kept): directions of amplitude 8^-k
    # (eigenvalue ratios 64^-k, i.e. down to ~1e-11 of the largest); the Mercer clause is judged per component
    for rep in range(4 if big else 2):
        n, m = 9, rng.randint(7, 9)
        t = rng.grid(m, lo=rng.choice([0, -1]), scale=1, uniform=bool(rep % 2))
        shapes, _ = curves(rng, 6, t, "rough")
        coef = [[rng.dyadic(-4, 4, 2) for _ in range(6)] for _ in range(n)]          # independent directions
        X = [[10 + sum(Fraction(1, 8 ** k) * shapes[k][j] * coef[i][k] for k in range(6)) for j in range(m)] for i in range(n)]
        yield dict(kind="cov", t=Svec(t), X=Smat(X), sel=["all"], ck="weak-tail", scale="1")
    # data objects WITH A HISTORY (every run, both routes): the object handed to fit has been used before — a smoothed mean,
    # a covariance, a Gram matrix, center(), smooth(), an earlier fit with method_smoothing, new values assigned after a
    # mean call; the clauses are judged against the covariance / Gram matrix of the plain values
    for hist in HISTORIES:
        for method in ("cov", "gram"):
            n, m = rng.randint(4, 7), rng.randint(8, 12)
            t = grid(rng, m, uniform=rng.random() < 0.5)
            X, ck = curves(rng, n, t, rng.choice(["rough", "offset"]) if method == "cov" else rng.choice(["smooth", "offset"]))
            yield dict(kind=method, t=Svec(t), X=Smat(X), sel=rng.choice([["int", 2], ["all"]]), ck=f"history:{hist}", scale="1",
                       history=hist)
    # nearly tied leading eigenvalues (every run): λ₂/λ₁ = 0.9 … 0.999 (NOT exactly tied — that is the open finding),
    # one, two and all components, both routes; iterative shortcuts stall here, LAPACK does not
    for ratio in (0.9, 0.97, 0.99, 0.999):
        for method in ("cov", "gram"):
            for sel in (["int", 1], ["int", 2]) + ((["all"],) if big else ()):
                m = rng.randint(6, 9)
                t = grid(rng, m, uniform=rng.random() < 0.5)
                X = _nearly_tied(rng, t, ratio)
                yield dict(kind=method, t=Svec(t), X=Smat(X), sel=list(sel), ck=f"nearly-tied-{ratio}", scale="1")
    # amplitude sweep (every run): data × 2^e, e = ±30, ±20 (≈ 1e-9 … 1e9), both routes
    for i, e in enumerate([-30, -30, 30, 30, -20, -20]):
        method = ["cov", "gram"][i % 2]
        n, m = rng.randint(3, 7), rng.randint(4, 9)
        t = grid(rng, m)
        X, ck = curves(rng, n, t, "smooth" if method == "gram" else "rough")
        sc = Fraction(2) ** e
        yield dict(kind=method, t=Svec(t), X=Smat([[x * sc for x in r] for r in X]), sel=rng.choice([["all"], ["int", 2]]),
                   ck=f"amplitude-2^{e}", scale=rs(sc))
    # sizes around fast-path thresholds (200, 250, 256): many grid points (covariance route) / many curves
    # (Gram route), the other dimension tiny, a few integer components
    for i, size in enumerate([201, 251, 257, 300, 513] if big else [rng.choice([201, 257]), 251]):
        if i % 2 == 0:
            t = grid(rng, size)
            X, ck = curves(rng, rng.randint(3, 4), t, "rough")
            yield dict(kind="cov", t=Svec(t), X=Smat(X), sel=["int", rng.randint(1, 2)], ck="large-m", scale="1")
        else:
            t = grid(rng, 3)
            X, ck = curves(rng, size, t, "rough")
            yield dict(kind="gram", t=Svec(t), X=Smat(X), sel=["int", rng.randint(1, 3)], ck="large-n", scale="1")
    # Gram route with a smoothed mean (method_smoothing="PS"/"LP" passed to fit): the curves are centred a second
    # time inside inner_product; eigenfunctions must come from the curves whose Gram matrix was decomposed
    for i in range(24 if big else 5):
        n, m = rng.randint(4, 9), rng.randint(8, 14)
        t = grid(rng, m, uniform=bool(i % 2))
        X, ck = curves(rng, n, t, rng.choice(["rough", "rough", "offset"]))
        yield dict(kind="gram", t=Svec(t), X=Smat(X), sel=rng.choice([["int", 1], ["int", 2], ["all"]]), ck=ck + "-smoothed-mean",
                   scale="1", smooth=["PS", "LP"][i % 2 if big else (0 if i < 4 else 1)])
    # Gram route with numbers of observations around typical block sizes (cheap: few grid points)
    for n in ([16, 17, 31, 32, 33, 63, 64, 65, 96, 97] if big else [17, 32, 33, 64, 65]):
        m = rng.choice([3, 4])
        t = grid(rng, m)
        X, ck = curves(rng, n, t, rng.choice(["rough", "smooth"]))
        yield dict(kind="gram", t=Svec(t), X=Smat(X), sel=rng.choice([["all"], ["int", 2], ["int", m]]), ck=ck + "-blocksize", scale="1")


def search_cases(rng, tier):
    yield from gen_cases(rng, tier)


# witness of C02-tied-eigenvalues: 3 curves on 6 points, all components kept: the covariance has rank 2,
# the null space has dimension 4 and the non-symmetric solver returns a non-orthonormal basis of it
W_TIED = dict(kind="cov", t=["0", "1/8", "1/4", "1/2", "3/4", "1"],
              X=[["1", "2", "0", "-1", "3", "1"], ["0", "1", "1", "2", "-2", "0"], ["2", "0", "-1", "1", "1", "3"]],
              sel=["all"], ck="witness")
# witness of C02-gram-nonpositive-eigenvalue: smooth curves, all components kept on the Gram route
W_GRAM = dict(kind="gram", t=["0", "1/4", "1/2", "3/4", "1"],
              X=[["0", "1/4", "1/2", "3/4", "1"], ["1", "1", "1", "1", "1"], ["0", "1/16", "1/4", "9/16", "1"], ["1", "3/4", "1/2", "1/4", "0"]],
              sel=["all"], ck="witness")


def witness_cases():
    return [dict(W_TIED), dict(W_GRAM)]


# --------------------------------------------------------------------------
# implementation side
# --------------------------------------------------------------------------

def _fit_stage(est, kind, t, X, layout="C", smooth=None, history=None):
    """Fit `est` on (t, X) under capture and read every observable of the property."""
    fd = dense([t], X, layout)
    if history:
        with quiet():
            fd = _apply_history(fd, history, X)
    out = {}
    with quiet(), EigCapture() as cap:
        try:
            if smooth:
                est.fit(fd, method_smoothing=smooth)
            else:
                est.fit(fd)
        except Exception as e:  # noqa: BLE001
            return dict(error=err_class(e), msg=str(e)[:200])
    size = len(t) if kind == "cov" else len(X)
    call = cap.last(size)
    if call is not None:
        out["raw_vals"], out["raw_vecs"] = raw_from_call(call)
        out["solver_in"] = call["a"].tolist()
        out["solver"] = call["fn"]
    out["vals"] = [float(x) for x in est.eigenvalues]
    out["phi"] = np.asarray(est.eigenfunctions.values, dtype=float).tolist()
    out["cov"] = np.asarray(est.covariance.values[0], dtype=float).tolist()
    out["noise"] = float(est._noise_variance)
    if kind == "cov":
        with quiet():
            out["data_cov"] = np.asarray(dense([t], X).covariance().values[0], dtype=float).tolist()
    else:
        out["V"] = np.asarray(est._eigenvectors, dtype=float).tolist()
        with quiet():
            out["gram0"] = np.asarray(dense([t], X).inner_product(noise_variance=0), dtype=float).tolist()
    # read-only-looking calls on the fitted estimator (scores by every method, dense and irregular input,
    # reconstruction), then every fitted attribute is read AGAIN: it must be unchanged and still satisfy the relations
    calls = []
    with quiet():
        for name, f in _readonly_calls(est, t, X):
            try:
                f()
                calls.append(name)
            except Exception as e:  # noqa: BLE001
                calls.append(name + ":" + err_class(e))
        out["after"] = dict(calls=calls, vals=[float(x) for x in est.eigenvalues],
                            phi=np.asarray(est.eigenfunctions.values, dtype=float).tolist(),
                            cov=np.asarray(est.covariance.values[0], dtype=float).tolist(),
                            noise=float(est._noise_variance))
    return out


def _readonly_calls(est, t, X):
    from FDApy.representation.argvals import DenseArgvals, IrregularArgvals
    from FDApy.representation.functional_data import IrregularFunctionalData
    from FDApy.representation.values import IrregularValues

    tf = np.array(fl(t))
    other = lambda: dense([t], X[::-1] * 0.5 + 1.0)  # noqa: E731

    def irregular():
        n = len(X)
        return IrregularFunctionalData(IrregularArgvals({i: DenseArgvals({"input_dim_0": tf}) for i in range(n)}),
                                       IrregularValues({i: np.array(X[i], dtype=float) for i in range(n)}))

    yield "transform(None,NumInt)", lambda: est.transform(None, method="NumInt")
    yield "transform(None,PACE)", lambda: est.transform(None, method="PACE")
    yield "transform(data,PACE)", lambda: est.transform(other(), method="PACE", method_smoothing=None)
    yield "transform(data,NumInt)", lambda: est.transform(other(), method="NumInt", method_smoothing=None)
    if len(X) <= 12 and len(tf) <= 20:
        yield "transform(irregular,PACE)", lambda: est.transform(irregular(), method="PACE", method_smoothing="LP")
    yield "inverse_transform", lambda: est.inverse_transform(np.ones((2, len(est.eigenvalues))))


def run_impl(case):
    from FDApy.preprocessing.dim_reduction.ufpca import UFPCA

    method = "covariance" if case["kind"] == "cov" else "inner-product"
    mk = lambda: UFPCA(method=method, n_components=sel_to_py(case["sel"]), normalize=False)  # noqa: E731
    est = mk()
    out = _fit_stage(est, case["kind"], Fv(case["t"]), np.array(fl(Fm(case["X"]))), case.get("layout", "C"), case.get("smooth"),
                     case.get("history"))
    if case.get("smooth") and "error" not in out:
        out["train"] = np.asarray(est._training_data.values, dtype=float).tolist()
    if "B" in case and "error" not in out:
        tB, XB = Fv(case["B"]["t"]), np.array(fl(Fm(case["B"]["X"])))
        out["B"] = _fit_stage(est, case["kind"], tB, XB)            # the SAME object, second fit
        fresh = _fit_stage(mk(), case["kind"], tB, XB)
        out["fresh"] = {k: fresh.get(k) for k in ("vals", "phi", "cov", "error")}
    return out


# --------------------------------------------------------------------------
# model side
# --------------------------------------------------------------------------

def _ratvec(v):
    return ",".join(rs(F(x)) for x in v) if len(v) else "-"


def _stages(case, impl):
    """(label, t, X, stage-impl) of the first fit and, for histories, of the refit of the same object."""
    st = [("", case["t"], case["X"], impl)]
    if "B" in case and isinstance(impl.get("B"), dict):
        st.append(("refit: ", case["B"]["t"], case["B"]["X"], impl["B"]))
    return st


def _stage_line(case, t, X, st):
    if "error" in st or "raw_vals" not in st:
        return None
    if len(st["raw_vals"]) > 64 or case.get("smooth"):
        return None  # large sizes / smoothed means (smoothers are C05/C06's subject): oracle only
    J = ",".join
    M = lambda m: ";".join(",".join(r) for r in m)  # noqa: E731
    cols = ";".join(_ratvec(c) for c in st["raw_vecs"])
    sel = sel_to_model(case["sel"])
    if case["kind"] == "cov":
        return f"covfit {J(t)} {M(X)} {sel} {_ratvec(st['raw_vals'])} {cols}"
    return f"gramfit {J(t)} {M(X)} {rs(F(st['noise']))} {sel} {_ratvec(st['raw_vals'])} {cols}"


def model_lines(case, impl):
    if "__crash__" in impl:
        return []
    return [l for l in (_stage_line(case, t, X, st) for _, t, X, st in _stages(case, impl)) if l is not None]


def parse_model(case, outs):
    return dict(outs=outs)


def _cmp_mat(name, A, Q, rtol=RTOL):
    A = np.asarray(A, dtype=float)
    if A.shape != (len(Q), len(Q[0]) if Q else 0) and not (A.size == 0 and not Q):
        return [f"{name}: shape {A.shape} vs model {(len(Q), len(Q[0]) if Q else 0)}"]
    scale = max([abs(float(x)) for r in Q for x in r] + [1e-300])
    for i, (ar, qr) in enumerate(zip(A.tolist(), Q)):
        j = close_all(ar, qr, scale, rtol)
        if j is not None:
            return [f"{name}[{i}][{j}]: impl {ar[j]!r} vs exact {float(qr[j])!r} (scale {scale:.3g})"]
    return []


def compare(case, impl, model):
    if "__crash__" in impl:
        return [f"implementation crashed: {impl['__crash__']} {impl.get('msg')}"]
    ds = []
    outs = list(model["outs"])
    for label, t, X, st in _stages(case, impl):
        if _stage_line(case, t, X, st) is None:
            continue
        ds += [label + d for d in _compare_stage(case, X, st, outs.pop(0))]
    return ds


def _compare_stage(case, Xs, impl, out):
    toks = out.split(" ")
    if toks[0].startswith("error:"):
        cls = toks[0][6:]
        if cls == "shape":
            return [f"model rejects the shapes of {case['kind']} case"]
        return [] if impl.get("error") == cls else [f"model: {cls}, implementation: {impl.get('error', 'no error')}"]
    if toks[0] != "ok":
        return [f"driver answered {out[:80]}"]
    if "error" in impl:
        return [f"implementation raised {impl['error']}: {impl.get('msg')}"]
    ds = []
    if case["kind"] == "cov":
        C, A, lam, Phi, Mer = pmat(toks[1]), pmat(toks[2]), pvec(toks[3]), pmat(toks[4]), pmat(toks[5])
        ds += _cmp_mat("covariance of the data", impl["data_cov"], C)
        ds += _cmp_mat("matrix handed to the solver (S C S)", impl["solver_in"], A)
        if [F(x) for x in impl["vals"]] != lam:
            ds.append(f"eigenvalues {impl['vals'][:6]} vs model {[float(x) for x in lam][:6]}")
        if lam:
            ds += _cmp_mat("eigenfunctions (W^-1/2 u)", impl["phi"], Phi)
        elif np.asarray(impl["phi"]).size:
            ds.append("eigenfunctions returned although no component is kept")
        ds += _cmp_mat("reported covariance (Mercer sum)", impl["cov"], Mer)
    else:
        G, lam = pmat(toks[1]), pvec(toks[2])
        rows = [] if toks[3] == "-" else toks[3].split(";")
        ds += _cmp_mat("matrix handed to the solver (G − σ²I)", impl["solver_in"], G)
        sig = F(impl["noise"])
        G0 = [[x + (sig if i == k else 0) for k, x in enumerate(r)] for i, r in enumerate(G)]
        ds += _cmp_mat("DenseFunctionalData.inner_product(noise_variance=0)", impl["gram0"], G0)
        i = close_all(impl["vals"], lam, None, 1e-12)
        if i is not None:
            ds.append(f"eigenvalues (l/n) differ at {i}: {impl['vals'][:6]} vs {[float(x) for x in lam][:6]}")
        phi = np.asarray(impl["phi"], dtype=float)
        Xf = np.array(fl(Fm(Xs)))
        Xc_abs = np.abs(Xf - Xf.mean(axis=0))
        if len(rows) != len(phi):
            ds.append(f"{len(phi)} eigenfunctions vs model {len(rows)}")
        else:
            for k, (row, pr) in enumerate(zip(rows, phi)):
                if row == "div0":
                    if np.all(np.isfinite(pr)):
                        ds.append(f"eigenfunction {k}: model divides by √0, implementation returns finite values")
                else:
                    q = pvec(row)
                    # scale = Σ|terms| of the combination Xcᵀ v_k / √l_k (a null-space vector of a noise-free Gram
                    # matrix gives pure cancellation: both sides are rounding noise of that size)
                    lk = max(impl["vals"][k] * len(Xc_abs), 1e-300)
                    terms = float((Xc_abs.T @ np.abs(np.asarray(impl["V"], dtype=float).reshape(len(Xc_abs), -1)[:, k])).max() / np.sqrt(lk))
                    scale = max([abs(float(x)) for x in q] + [terms, 1e-300])
                    j = close_all(pr.tolist(), q, scale, RTOL)
                    if j is not None:
                        ds.append(f"eigenfunction {k}[{j}]: impl {pr[j]!r} vs exact {float(q[j])!r}")
                if ds:
                    break
    return ds


# --------------------------------------------------------------------------
# the property's own predicate on the implementation's outputs
# --------------------------------------------------------------------------

def _weights(t):
    return trapz_weights(t)


def solver_contract(impl):
    """L3: how well the captured solver output meets the contract the theorems assume."""
    if "raw_vals" not in impl:
        return None
    A = np.array(impl["solver_in"])
    w = np.array(impl["raw_vals"])
    V = np.array(impl["raw_vecs"]).T
    sc = max(np.abs(A).max(), 1e-300)
    res = float(np.abs(A @ V - V * w).max() / sc) if V.size else 0.0
    orth = float(np.abs(V.T @ V - np.eye(V.shape[1])).max()) if V.size else 0.0
    return res, orth


def oracle(case, impl):
    entry = "UFPCA.fit[covariance]" if case["kind"] == "cov" else "UFPCA.fit[inner-product]"
    if "__crash__" in impl:
        return [dict(clause="runs", entry=entry, msg=f"crash {impl['__crash__']}: {impl.get('msg')}")]
    vs = []
    for label, t, X, st in _stages(case, impl):
        vs += _oracle_stage(case, entry, label, t, X, st)
        aft = st.get("after") if isinstance(st, dict) else None
        if aft and "error" not in st:
            changed = [k for k in ("vals", "phi", "cov", "noise")
                       if not np.array_equal(np.array(st[k], dtype=float), np.array(aft[k], dtype=float), equal_nan=True)]
            if changed:
                names = {"vals": "eigenvalues", "phi": "eigenfunctions", "cov": "covariance", "noise": "noise variance"}
                vs.append(dict(clause="readonly_mutates", entry=entry, causes=[],
                               msg=f"{label}after the read-only calls {aft['calls']} the fitted {', '.join(names[k] for k in changed)} changed"))
                # … and the defining relations are evaluated again on the estimator as it is now
                st2 = dict(st, **{k: aft[k] for k in ("vals", "phi", "cov", "noise")})
                vs += _oracle_stage(case, entry, label + "after transform()/inverse_transform(): ", t, X, st2)
    # history: the refit of the same object must be what a fresh estimator reports on the same data
    if isinstance(impl.get("B"), dict) and isinstance(impl.get("fresh"), dict):
        b, f = impl["B"], impl["fresh"]
        if b.get("error") != f.get("error"):
            vs.append(dict(clause="stale_state", entry=entry, causes=[], msg=f"refit of the same estimator: {b.get('error')}, fresh estimator: {f.get('error')}"))
        elif "error" not in b:
            for key in ("vals", "phi", "cov"):
                a1, a2 = np.array(b[key], dtype=float), np.array(f[key], dtype=float)
                if a1.shape != a2.shape or not np.array_equal(a1, a2, equal_nan=True):
                    vs.append(dict(clause="stale_state", entry=entry, causes=[],
                                   msg=f"after a second fit of the same estimator `{ {'vals': 'eigenvalues', 'phi': 'eigenfunctions', 'cov': 'covariance'}[key] }` (shape {a1.shape}) differs from a fresh estimator's (shape {a2.shape})"))
                    break
    return vs


def _oracle_stage(case, entry, label, ts, Xs, impl):
    if "error" in impl:
        return [dict(clause="runs", entry=entry, msg=f"{label}fit failed with {impl['error']}: {impl.get('msg')}")]
    vs = []

    def bad(clause, msg, causes=()):
        vs.append(dict(clause=clause, entry=entry, msg=label + msg, causes=list(causes)))

    t = np.array(fl(Fv(ts)))
    X = np.array(fl(Fm(Xs)))
    n, m = X.shape
    w = _weights(t)
    if not np.all(w > 0):
        bad("weights", "non-positive quadrature weight on a strictly increasing grid")
    Xc = X - X.mean(axis=0)
    vals = np.array(impl["vals"])
    K = len(vals)
    Phi = np.array(impl["phi"], dtype=float).reshape(K, -1)
    if Phi.shape != (K, m):
        bad("shape", f"{K} eigenvalues but eigenfunctions of shape {Phi.shape} on a grid of {m} points")
        return vs
    cov = np.array(impl["cov"], dtype=float)
    if cov.shape != (m, m):
        bad("mercer", f"reported covariance has shape {cov.shape} on a grid of {m} points")
        return vs
    lam_max = max(np.abs(vals).max() if K else 0.0, 1e-300)
    if case["kind"] == "cov":
        C = Xc.T @ Xc / (n - 1)
        csc = max(np.abs(C).max(), 1e-300)
        if np.abs(np.array(impl["data_cov"]) - C).max() > 1e-9 * csc:
            bad("data_covariance", f"DenseFunctionalData.covariance() differs from XcᵀXc/(n−1) by {np.abs(np.array(impl['data_cov']) - C).max():.3g}")
        lam_max = max(lam_max, float(np.linalg.eigvalsh(C * np.sqrt(np.outer(w, w))).max()))
        Gm = (Phi * w) @ Phi.T
        raw = impl.get("raw_vals")
        for a in range(K):
            for b in range(a, K):
                want = 1.0 if a == b else 0.0
                if not abs(Gm[a, b] - want) <= 1e-8 * max(1.0, np.sqrt(abs(Gm[a, a] * Gm[b, b]))):
                    causes = []
                    spectrum = np.maximum(np.array(raw), 0.0) if raw is not None else vals
                    tied_a = np.sum(np.abs(spectrum - vals[a]) <= 1e-8 * lam_max) >= 2
                    if (a != b and abs(vals[a] - vals[b]) <= 1e-8 * lam_max) or (a == b and tied_a):
                        causes.append(TIED)  # the pair lies inside a repeated eigenvalue of the matrix decomposed
                    bad("orthonormal", f"<phi_{a},phi_{b}>_w = {Gm[a, b]!r}, expected {want} (eigenvalues {vals[a]!r}, {vals[b]!r})", causes)
                    break
            else:
                continue
            break
        for k in range(K):
            r = C @ (w * Phi[k]) - vals[k] * Phi[k]
            if np.abs(r).max() > 1e-8 * csc * np.abs(w).sum() * max(np.abs(Phi[k]).max(), 1e-300):
                bad("eigen_equation", f"pair {k}: max |∫C(t_i,·)φ − λφ(t_i)| = {np.abs(r).max():.3g} (λ = {vals[k]!r}, max |C| = {csc:.3g})")
                break
        if K == m:
            if np.abs(cov - C).max() > 1e-8 * csc:
                bad("mercer", f"all {m} components kept but the reported covariance differs from the covariance surface by {np.abs(cov - C).max():.3g} (max |C| = {csc:.3g})")
        else:
            D = C - cov
            D = (D + D.T) / 2
            if np.linalg.eigvalsh(D).min() < -1e-8 * csc:
                bad("mercer_truncated", f"C − Mercer sum of the {K} kept components is not PSD (min eigenvalue {np.linalg.eigvalsh(D).min():.3g})")
        # Mercer identity component by component (sensitive to weak components that are tiny relative to ‖C‖): for every
        # retained eigenfunction the quadratic form φ_kᵀ W · W φ_k of the reported covariance must be that of the surface
        # (= λ_k); tolerance 1e-3 relative + the absolute accuracy LAPACK has on small eigenvalues (1e-11 λ_max)
        if K == m and np.all(np.isfinite(Phi)):
            lmx = max(np.abs(vals).max(), 1e-300)
            for k in range(K):
                v = w * Phi[k]
                nk = Phi[k] @ v
                if not (abs(nk - 1.0) < 1e-6):
                    continue   # not a unit eigenfunction (repeated eigenvalue: the open finding)
                qC, qM = v @ C @ v, v @ cov @ v
                if abs(qM - qC) > 1e-3 * abs(qC) + 1e-11 * lmx:
                    bad("mercer_component", f"all {m} components kept: along eigenfunction {k} (eigenvalue {vals[k]!r} = {vals[k] / lmx:.2e} of the largest) the reported covariance has variance {qM!r}, the covariance surface {qC!r}")
                    break
        # the reported covariance is the Mercer sum of the reported pairs
        mer = (Phi.T * vals) @ Phi
        if np.all(np.isfinite(mer)) and np.abs(cov - mer).max() > 1e-9 * max(np.abs(mer).max(), csc):
            bad("mercer_sum", f"reported covariance is not Σ λ_k φ_k φ_kᵀ of the reported pairs (deviation {np.abs(cov - mer).max():.3g})")
    else:
        sig = impl["noise"]
        V = np.array(impl["V"], dtype=float).reshape(n, K)
        G = (Xc * w) @ Xc.T                                   # own Gram matrix of the centred curves
        smoothed = bool(case.get("smooth")) and "solver_in" in impl
        if smoothed:
            # the mean was smoothed (not reproducible independently): the curves are whatever the matrix handed to
            # the solver is the Gram matrix of; every relation below is stated through that matrix
            G = np.array(impl["solver_in"], dtype=float) + sig * np.eye(n)
            G = (G + G.T) / 2
        gsc = max(np.abs(G).max(), abs(sig), 1e-300)
        if not smoothed and np.abs(np.array(impl["gram0"]) - G).max() > 1e-9 * gsc:
            i, j = np.unravel_index(np.abs(np.array(impl["gram0"]) - G).argmax(), G.shape)
            bad("gram_matrix", f"inner_product(noise_variance=0)[{i},{j}] = {impl['gram0'][i][j]!r}, Gram matrix of the centred curves: {G[i, j]!r} (n_obs = {n})")
        lprime = vals * n
        # Rayleigh quotients of the returned Gram eigenvectors for G − σ²I: the eigenvalue each one belongs to
        ray = np.array([V[:, k] @ (G @ V[:, k]) - sig * (V[:, k] @ V[:, k]) for k in range(K)])
        lmax = max(np.abs(lprime).max() if K else 0.0, float(np.linalg.eigvalsh(G).max()) - sig, 1e-300)
        for k in range(K):
            if abs(lprime[k] - max(ray[k], 0.0)) > 1e-8 * max(lmax, gsc):
                bad("gram_eigenvalue", f"reported eigenvalue {vals[k]!r}·n = {lprime[k]!r} but its Gram eigenvector has Rayleigh quotient {ray[k]!r} for G − σ²I")
                break
        finite = [bool(np.all(np.isfinite(Phi[k]))) for k in range(K)]
        for k in range(K):
            if not finite[k]:
                causes = [NONPOS] if ray[k] <= 1e-10 * lmax else []   # the eigenvalue of G − σ²I really is ≤ 0
                bad("gram_finite", f"eigenfunction {k} is not finite (reported Gram eigenvalue {lprime[k]!r}, Rayleigh quotient of its vector {ray[k]!r})", causes)
                break
        good = [k for k in range(K) if finite[k] and lprime[k] > 1e-10 * lmax]
        with np.errstate(all="ignore"):
            Gm = (Phi * w) @ Phi.T if K else np.zeros((0, 0))
        done = False
        for i, a in enumerate(good):
            for b in good[i + 1:]:
                if abs(Gm[a, b]) > 1e-7 * np.sqrt(abs(Gm[a, a] * Gm[b, b])):
                    causes = [TIED] if abs(vals[a] - vals[b]) <= 1e-8 * lam_max else []
                    bad("gram_orthogonal", f"<phi_{a},phi_{b}>_w = {Gm[a, b]!r} (norms² {Gm[a, a]!r}, {Gm[b, b]!r})", causes)
                    done = True
                    break
            if done:
                break
        if smoothed:
            # consistency of the two code paths: <phi_k, phi_l>_w must be v_kᵀ G v_l / √(l_k l_l) for the decomposed G
            for i, a in enumerate(good):
                for b in good[i:]:
                    want = V[:, a] @ (G @ V[:, b]) / np.sqrt(lprime[a] * lprime[b])
                    if abs(Gm[a, b] - want) > 1e-7 * max(np.sqrt(abs(Gm[a, a] * Gm[b, b])), abs(want), 1.0):
                        bad("gram_consistent", f"<phi_{a},phi_{b}>_w = {Gm[a, b]!r} but the Gram matrix that was decomposed gives {want!r}: the eigenfunctions are not built from the curves whose Gram matrix was decomposed (mean smoothed with {case['smooth']})")
                        return vs
            return vs
        for k in good:
            comb = Xc.T @ V[:, k] / np.sqrt(lprime[k])
            if np.abs(comb - Phi[k]).max() > 1e-8 * max(np.abs(comb).max(), 1e-300):
                bad("gram_combination", f"eigenfunction {k} is not Xcᵀ v_k / √l_k (max deviation {np.abs(comb - Phi[k]).max():.3g})")
                break
            want = (lprime[k] + sig) / lprime[k]
            if abs(Gm[k, k] - want) > 1e-7 * max(abs(want), 1.0) * max(1.0, lmax / lprime[k] * 1e-3):
                bad("gram_norm", f"‖phi_{k}‖²_w = {Gm[k, k]!r}, expected (l+σ²)/l = {want!r}")
                break
    return vs


def nontrivial(case, impl):
    if case.get("ck") == "const":
        return None
    return digest({k: v for k, v in case.items() if k != "corpus"})


def classify(case, impl):
    tags = ["kind:" + case["kind"], "sel:" + case["sel"][0], "content:" + str(case.get("ck")),
            "n_obs:" + ("2" if len(case["X"]) == 2 else "3-9" if len(case["X"]) < 10 else "10+"),
            "gridpts:" + ("3-5" if len(case["t"]) <= 5 else "6-16" if len(case["t"]) <= 16 else "17+")]
    if "phi" in impl and case["kind"] == "gram":
        phi = np.array(impl["phi"], dtype=float)
        tags.append("gram_nonfinite_components:" + str(int(sum(0 if np.all(np.isfinite(r)) else 1 for r in phi)) > 0))
        good = int(sum(1 for r, v in zip(phi, impl["vals"]) if np.all(np.isfinite(r)) and v > 0))
        tags.append("gram_checkable_components:" + ("0" if good == 0 else "1" if good == 1 else "2+"))
    if "error" in impl:
        tags.append("error:" + impl["error"])
    return tags


def extra_coverage(cases, impls, models):
    res, orth = 0.0, 0.0
    for i in impls:
        sc = solver_contract(i) if isinstance(i, dict) and "solver_in" in i else None
        if sc:
            res, orth = max(res, sc[0]), max(orth, sc[1])
    return dict(translator=TRANSLATOR_NOTE, solver_contract=dict(max_relative_eigen_residual=res, max_orthonormality_defect=orth,
                                     note="orthonormality defects of order 1 occur inside repeated eigenvalues (np.linalg.eig on a symmetric matrix); see finding C02-tied-eigenvalues"))
