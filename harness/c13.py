"""C13 — sub-selection and concatenation are inverse; subsets are first-class datasets.

Implementation side: real dense / irregular / basis / multivariate objects of the tree under
test; `__getitem__` (int / slice / index array), iteration, `concatenate` in every grouping,
and every analysis method on a subset versus on a freshly built twin with the same content.
Model side: `FDA.Slice`, `FDA.Select` (`lean/Drivers/C13.lean`): positions, retained labels,
contents (observations are opaque row identifiers), label arithmetic of the concatenation.
Oracle: the property's own predicate on the real objects only.
"""
from __future__ import annotations

import itertools

import numpy as np

import common
import containers_util as cu
from common import Rng, digest, err_class

PROP = "C13"
MODULES = ["FDAProofs.Props.C13"]
DRIVER = "Drivers/C13.lean"
PARALLEL = True
RULE = (
    "slice: n 0..6, start/stop/step in {None,-3..3} (thorough: all 3 584 combinations; quick: a sample + boundary "
    "cases) against CPython and NumPy; get: dense, irregular (canonical and arbitrary labels), basis and multivariate "
    "datasets with n_obs 1..6, every integer index -n-1..n, slices as above, index arrays up to length 3 (with "
    "repeats and out-of-range entries); iter: every kind, iterated twice; cat: partitions of a dataset by consecutive "
    "slices, singletons from iteration / integer indexing, reversed and array-selected pieces, concatenated flat, "
    "left-nested and right-nested; fc: every analysis method (default and non-default options, called twice) on a "
    "subset versus a freshly built twin; overlapping iterations (zip, nested loops, two live iterators, analysis calls "
    "inside a loop over the dataset) for every data class; >= 3 freshly built canonically labelled irregular / "
    "multivariate pieces in every grouping (thorough: every composition of n <= 6 into >= 3 parts); non-trivial when the selection is non-empty and not the whole dataset, or "
    "when a concatenation has >= 2 non-empty pieces; distinct by content hash"
)
PARTIAL = [
    "a boolean index array on IRREGULAR data is read by the code as the integers 0 / 1 (`labels[int(o)]`); mirrored by the "
    "model (`Comp.getMask`), not judged — the property's index kinds for irregular data are int / slice / integer array; "
    "on dense and basis data boolean masks have NumPy semantics and are judged (`mask_select`)",
    "numeric results of the analysis methods on subsets are compared implementation-vs-implementation (subset vs twin); "
    "the model covers which observations / labels a result is keyed by, not the smoothers themselves",
    "an index array with repeated entries on irregular data keeps one observation per label (a dictionary cannot hold "
    "duplicates); mirrored by the model (`ofList`), the content theorem `select_content_irreg` assumes distinct positions",
]
EXHAUSTIVE = {"quick": False, "thorough": True}

FINDING_CONCAT = "C13-concat-labels"

# --------------------------------------------------------------------------
# translator: the label arithmetic of the two irregular `concatenate`s, re-read from the source
# --------------------------------------------------------------------------
import ast
import os

GEN_FILE = os.path.join(common.LEAN_DIR, "FDAModel", "Generated", "ConcatLabels.lean")
TRUSTED_EXTRA = [
    "harness/c13.py `_concat_shape` / `lean_source`: syntax-only translation of the label arithmetic of IrregularArgvals.concatenate / "
    "IrregularValues.concatenate into lean/FDAModel/Generated/ConcatLabels.lean",
]
TRANSLATOR = {"note": None}


def _concat_shape(path, cls):
    """Recognise, in `cls.concatenate` of the file, the shape

        new = {}                          (or dict())
        [temp = len(new)]                 <- offset computed ONCE, before the loop over the pieces
        for el in <pieces>:
            [temp = len(new)]             <- offset computed PER PIECE
            for key, v in el.items():
                new[temp + key] = v       (or key + temp, or plain key)
        return Cls(new)

    and return ("perpiece" | "once" | "noshift"); raise ValueError when the source has another shape."""
    tree = ast.parse(open(path).read())
    fn = None
    for node in tree.body:
        if isinstance(node, ast.ClassDef) and node.name == cls:
            for it in node.body:
                if isinstance(it, ast.FunctionDef) and it.name == "concatenate":
                    fn = it
    if fn is None:
        raise ValueError(f"{cls}.concatenate not found")
    body = [b for b in fn.body if not (isinstance(b, ast.Expr) and isinstance(getattr(b, "value", None), ast.Constant))]

    def is_len_of(node, name):
        return (isinstance(node, ast.Call) and isinstance(node.func, ast.Name) and node.func.id == "len"
                and len(node.args) == 1 and isinstance(node.args[0], ast.Name) and node.args[0].id == name)

    if len(body) not in (3, 4):
        raise ValueError("unexpected number of statements")
    init = body[0]
    if not (isinstance(init, ast.Assign) and len(init.targets) == 1 and isinstance(init.targets[0], ast.Name)):
        raise ValueError("no accumulator initialisation")
    acc = init.targets[0].id
    v = init.value
    if not ((isinstance(v, ast.Dict) and not v.keys) or (isinstance(v, ast.Call) and isinstance(v.func, ast.Name) and v.func.id == "dict" and not v.args and not v.keywords)):
        raise ValueError("accumulator is not an empty dictionary")
    k = 1
    once = None
    if len(body) == 4:
        st = body[1]
        if not (isinstance(st, ast.Assign) and isinstance(st.targets[0], ast.Name) and is_len_of(st.value, acc)):
            raise ValueError("unexpected statement before the loop")
        once = st.targets[0].id
        k = 2
    loop, ret = body[k], body[k + 1]
    if not (isinstance(loop, ast.For) and isinstance(loop.target, ast.Name) and not loop.orelse):
        raise ValueError("no loop over the pieces")
    el = loop.target.id
    inner_body = list(loop.body)
    per = None
    if len(inner_body) == 2 and isinstance(inner_body[0], ast.Assign) and isinstance(inner_body[0].targets[0], ast.Name) and is_len_of(inner_body[0].value, acc):
        per = inner_body[0].targets[0].id
        inner_body = inner_body[1:]
    if len(inner_body) != 1 or not isinstance(inner_body[0], ast.For):
        raise ValueError("no loop over the entries of a piece")
    inner = inner_body[0]
    it = inner.iter
    if not (isinstance(it, ast.Call) and isinstance(it.func, ast.Attribute) and it.func.attr == "items" and isinstance(it.func.value, ast.Name) and it.func.value.id == el):
        raise ValueError("inner loop is not over el.items()")
    if not (isinstance(inner.target, ast.Tuple) and len(inner.target.elts) == 2 and all(isinstance(e, ast.Name) for e in inner.target.elts)):
        raise ValueError("inner loop target")
    key, val = inner.target.elts[0].id, inner.target.elts[1].id
    if len(inner.body) != 1 or not isinstance(inner.body[0], ast.Assign):
        raise ValueError("inner loop body")
    asg = inner.body[0]
    tgt = asg.targets[0]
    if not (isinstance(tgt, ast.Subscript) and isinstance(tgt.value, ast.Name) and tgt.value.id == acc and isinstance(asg.value, ast.Name) and asg.value.id == val):
        raise ValueError("assignment into the accumulator")
    idx = tgt.slice
    off = per or once
    if isinstance(idx, ast.Name) and idx.id == key:
        kind = "noshift"
    elif (isinstance(idx, ast.BinOp) and isinstance(idx.op, ast.Add) and isinstance(idx.left, ast.Name) and isinstance(idx.right, ast.Name)
          and {idx.left.id, idx.right.id} == {key, off} and off is not None):
        kind = "perpiece" if per else "once"
    else:
        raise ValueError("label expression")
    if not (isinstance(ret, ast.Return) and isinstance(ret.value, ast.Call) and isinstance(ret.value.func, ast.Name) and ret.value.func.id == cls
            and len(ret.value.args) == 1 and isinstance(ret.value.args[0], ast.Name) and ret.value.args[0].id == acc):
        raise ValueError("return statement")
    return kind


_LEAN_BODY = {
    "perpiece": "pieces.foldl (fun acc d => setAll acc (shift (acc.length : Int) d)) []",
    "once": "pieces.foldl (fun acc d => setAll acc (shift ((([] : D α).length : Nat) : Int) d)) []",
    "noshift": "pieces.foldl (fun acc d => setAll acc d) []",
}


def lean_source(ka, kv):
    return f"""/-
GENERATED by `harness/c13.py: translate()` from `FDApy/representation/argvals.py`
(`IrregularArgvals.concatenate`, recognised shape: {ka}) and `FDApy/representation/values.py`
(`IrregularValues.concatenate`, recognised shape: {kv}).  Do not edit.
`C13.concat_source_tie` proves that both are the hand-written `FDA.Select.concatImpl`.
-/
import FDAModel.Core.Dict

namespace FDA.Generated.ConcatLabels
open FDA.Dict

/-- Label arithmetic of `IrregularArgvals.concatenate` as read from the source. -/
def concatArgvals {{α : Type}} (pieces : List (D α)) : D α :=
  {_LEAN_BODY[ka]}

/-- Label arithmetic of `IrregularValues.concatenate` as read from the source. -/
def concatValues {{α : Type}} (pieces : List (D α)) : D α :=
  {_LEAN_BODY[kv]}

end FDA.Generated.ConcatLabels
"""


def translate():
    """Regenerate `Generated/ConcatLabels.lean`.  POLICY: a source shape that is not recognised is not an
    alarm — the reference translation beside the translator is used and the evidence says that the tie rests on the correspondence only."""
    rep = os.path.join(common.REPO, "FDApy", "representation")
    try:
        ka = _concat_shape(os.path.join(rep, "argvals.py"), "IrregularArgvals")
        kv = _concat_shape(os.path.join(rep, "values.py"), "IrregularValues")
    except (ValueError, SyntaxError, OSError, IndexError, AttributeError) as e:
        # fall back on the reference translation kept beside the translator, not on whatever an earlier run left behind
        TRANSLATOR["note"] = f"translator: source shape not recognised, tie rests on the correspondence only ({e})"
        print("note:", TRANSLATOR["note"])
        ref = open(os.path.join(os.path.dirname(os.path.abspath(__file__)), "c13_concatlabels_reference.lean")).read()
        if not os.path.exists(GEN_FILE) or open(GEN_FILE).read() != ref:
            with open(GEN_FILE, "w") as fh:
                fh.write(ref)
        return
    TRANSLATOR["note"] = f"translator: IrregularArgvals.concatenate = {ka}, IrregularValues.concatenate = {kv}; Generated/ConcatLabels.lean proved equal to concatImpl (C13.concat_source_tie)"
    src = lean_source(ka, kv)
    old = open(GEN_FILE).read() if os.path.exists(GEN_FILE) else None
    if old != src:
        os.makedirs(os.path.dirname(GEN_FILE), exist_ok=True)
        with open(GEN_FILE, "w") as fh:
            fh.write(src)


def extra_coverage(cases, impls, models):
    return {"translator": TRANSLATOR["note"]}


# --------------------------------------------------------------------------
# descriptors <-> real objects (discrete cases: observations are row identifiers)
# --------------------------------------------------------------------------
# comp := ["D", [rowids]] | ["B", [rowids]] | ["I", [[label, rowid], ...]]     obj := ["U", comp] | ["M", [comp, ...]]

N_BASIS = 3


def _pts_of(r):
    return 2 + (r % 3)


def _dense_row(r, m=4):
    """Content of dense observation r: integer-valued for r < 100, with a fractional part (+ 1/4) for r >= 100, so that a
    cast to an integer type is visible."""
    v = cu.obs_values([m], r)
    return v + 0.25 if r >= 100 else v


def build_comp(c):
    A, V, FD = cu._fd()
    k = c[0]
    if k == "D":
        rows = c[1]
        vals = np.stack([_dense_row(r) for r in rows]) if rows else np.zeros((0, 4))
        if len(c) > 2 and c[2]:
            vals = vals.astype(np.dtype(c[2]))       # the piece's own value dtype
        return FD.DenseFunctionalData(A.DenseArgvals({"input_dim_0": cu.grid(4, 1)}), V.DenseValues(vals))
    if k == "B":
        from FDApy.representation.basis import Basis

        rows = c[1]
        basis = Basis("fourier", n_functions=N_BASIS, argvals=A.DenseArgvals({"input_dim_0": np.linspace(0, 1, 11)}))
        coefs = np.stack([cu.obs_values([N_BASIS], r) for r in rows]) if rows else np.zeros((0, N_BASIS))
        return FD.BasisFunctionalData(basis, coefs)
    obs = c[1]
    arg = {int(l): A.DenseArgvals({"input_dim_0": cu.grid(_pts_of(r), r % 8)}) for l, r in obs}
    vobs = obs
    if len(c) > 2 and c[2] == "rev":          # the values dictionary lists the same labels in another order
        vobs = list(reversed(obs))
    elif len(c) > 2 and c[2] == "rot":
        vobs = obs[1:] + obs[:1]
    val = {int(l): cu.obs_values([_pts_of(r)], r) for l, r in vobs}
    return FD.IrregularFunctionalData(A.IrregularArgvals(arg), V.IrregularValues(val))


def build_obj(o):
    A, V, FD = cu._fd()
    if o[0] == "U":
        return build_comp(o[1])
    return FD.MultivariateFunctionalData([build_comp(c) for c in o[1]])


def read_comp(x):
    """Real object -> (descriptor string as the driver prints it, list of problems with the observations' own points)."""
    A, V, FD = cu._fd()
    bad = []
    if isinstance(x, FD.DenseFunctionalData):
        rows = [cu._rtag(x.values[i]) for i in range(x.values.shape[0])]
        for i, r in enumerate(rows):
            if not np.array_equal(np.asarray(x.values[i], dtype=float), _dense_row(r)):
                bad.append(f"row {i} is not observation {r}: {np.asarray(x.values[i]).tolist()} (dtype {np.asarray(x.values).dtype})")
        return "D:" + cu.nv(rows), bad
    if isinstance(x, FD.BasisFunctionalData):
        rows = [cu._rtag(x.coefficients[i]) for i in range(x.coefficients.shape[0])]
        for i, r in enumerate(rows):
            if not np.array_equal(np.asarray(x.coefficients[i]), cu.obs_values([N_BASIS], r)):
                bad.append(f"row {i} is not observation {r}")
        return "B:" + cu.nv(rows), bad
    if isinstance(x, FD.IrregularFunctionalData):
        ent = []
        if set(x.argvals.keys()) != set(x.values.keys()):
            bad.append(f"labels of argvals {list(x.argvals.keys())} and values {list(x.values.keys())} differ")
        # observations are read BY LABEL, in the order of the sampling points (the two dictionaries may list the
        # labels in different orders)
        for l in x.argvals.keys():
            if l not in x.values:
                continue
            arr = x.values[l]
            r = cu._rtag(arr)
            ent.append(f"{l}/{r}")
            if not np.array_equal(np.asarray(arr), cu.obs_values([_pts_of(r)], r)):
                bad.append(f"label {l}: values are not those of observation {r}")
            t = x.argvals.get(l)
            if t is None or not np.array_equal(t["input_dim_0"], cu.grid(_pts_of(r), r % 8)):
                bad.append(f"label {l}: sampling points are not those of observation {r}")
        return "I:" + (",".join(ent) if ent else "-"), bad
    return "?" + type(x).__name__, ["unexpected class " + type(x).__name__]


def read_obj(x):
    A, V, FD = cu._fd()
    if isinstance(x, FD.MultivariateFunctionalData):
        parts, bad = [], []
        for c in x.data:
            s, b = read_comp(c)
            parts.append(s)
            bad += b
        ns = {c.n_obs for c in x.data}
        if len(ns) > 1:
            bad.append(f"components have different numbers of observations {sorted(ns)}")
        return "M " + ("|".join(parts) if parts else "-"), bad
    s, b = read_comp(x)
    return "U " + s, b


def comp_tokens(c):
    if c[0] in ("D", "B"):
        return [c[0], cu.nv(c[1])]
    return ["I", str(len(c[1]))] + [str(t) for e in c[1] for t in e]


def obj_tokens(o):
    if o[0] == "U":
        return ["U"] + comp_tokens(o[1])
    return ["M", str(len(o[1]))] + [t for c in o[1] for t in comp_tokens(c)]


def index_tokens(ix):
    if ix[0] == "m":
        return [cu.nv([1 if b else 0 for b in ix[1]])]
    if ix[0] == "i":
        return ["i", str(ix[1])]
    if ix[0] == "s":
        return ["s"] + ["N" if v is None else str(v) for v in ix[1:]]
    return ["a", cu.nv(ix[1])]


NP_INTS = {"int64": np.int64, "int32": np.int32, "intp": np.intp, "int16": np.int16, "uint8": np.uint8}


def py_index(ix):
    if ix[0] == "m":
        return np.array([bool(b) for b in ix[1]], dtype=bool)
    if ix[0] == "i":
        if len(ix) > 2 and ix[2] in NP_INTS and not (ix[2] == "uint8" and ix[1] < 0):
            return NP_INTS[ix[2]](ix[1])      # a NumPy integer scalar (np.arange / np.argmax give these): same as the int
        return int(ix[1])
    if ix[0] == "s":
        return slice(*ix[1:])
    return np.array(ix[1], dtype=int)


def comp_ids(c):
    return list(c[1]) if c[0] in ("D", "B") else [r for _, r in c[1]]


def comp_labels(c):
    return None if c[0] in ("D", "B") else [l for l, _ in c[1]]


def obj_nobs(o):
    c = o[1] if o[0] == "U" else (o[1][0] if o[1] else ["D", []])
    return len(c[1])


# --------------------------------------------------------------------------
# generation
# --------------------------------------------------------------------------

_NEXT = itertools.count(0)


def rand_comp(rng: Rng, n, kind=None, labels=None):
    kind = kind or rng.choice(["D", "I", "I", "B"])
    ids = rng.sample(range(0, 60), n)
    if kind in ("D", "B"):
        return [kind, ids]
    if labels is None:
        labels = list(range(n)) if rng.random() < 0.55 else rng.sample(range(0, 12), n)
    return ["I", [[l, r] for l, r in zip(labels, ids)]]


def rand_obj(rng: Rng, n=None, kind=None):
    n = rng.randint(1, 6) if n is None else n
    if kind == "M" or (kind is None and rng.random() < 0.3):
        P = rng.randint(1, 3)
        return ["M", [rand_comp(rng, n, rng.choice(["D", "I", "I"])) for _ in range(P)]]
    return ["U", rand_comp(rng, n, kind)]


def rand_oint(rng, lo=-3, hi=3):
    return None if rng.random() < 0.3 else rng.randint(lo, hi)


def rand_index(rng: Rng, n):
    c = rng.random()
    if c < 0.3:
        if rng.random() < 0.45:
            return ["i", rng.randint(-n - 1, n), rng.choice(list(NP_INTS))]
        return ["i", rng.randint(-n - 1, n)]
    if c < 0.7:
        return ["s", rand_oint(rng, -n - 1, n + 1), rand_oint(rng, -n - 1, n + 1), rng.choice([None, None, 1, 2, 3, -1, -2, -3, 0])]
    k = rng.randint(0, 3)
    return ["a", [rng.randint(-n - 1, n) for _ in range(k)]]


def partition_slices(rng: Rng, n):
    cuts = sorted(rng.sample(range(1, n), rng.randint(0, min(2, n - 1)))) if n > 1 else []
    b = [0] + cuts + [n]
    return [["s", b[k], b[k + 1], None] for k in range(len(b) - 1)]


def groupings(leaves):
    flat = ["N", leaves]
    out = [flat]
    if len(leaves) >= 3:
        left = leaves[0]
        for l in leaves[1:]:
            left = ["N", [left, l]]
        right = leaves[-1]
        for l in reversed(leaves[:-1]):
            right = ["N", [l, right]]
        out += [left, right]
    return out


def _select_desc(o, ix):
    """Descriptor of `o[ix]` by plain Python list semantics (used by generators and the oracle)."""
    def sel(c):
        ids, labels = comp_ids(c), comp_labels(c)
        pos = list(range(len(ids)))
        if ix[0] == "m":
            if ix[1] and len(ix[1]) != len(pos):      # NumPy lets an empty boolean array through
                raise IndexError("boolean index did not match")
            ps = [p for p, b in zip(pos, ix[1]) if b]
        elif ix[0] == "i":
            ps = [pos[ix[1]]]
        elif ix[0] == "s":
            ps = pos[slice(*ix[1:])]
        else:
            ps = [pos[i] for i in ix[1]]
        if labels is None:
            return [c[0], [ids[p] for p in ps]]
        seen, ent = set(), []
        for p in ps:
            if labels[p] not in seen:
                seen.add(labels[p])
                ent.append([labels[p], ids[p]])
        return ["I", ent]

    if o[0] == "U":
        return ["U", sel(o[1])]
    return ["M", [sel(c) for c in o[1]]]


def gen_cat(rng: Rng):
    n = rng.randint(2, 6)
    base = rand_obj(rng, n, rng.choice(["D", "I", "I", "I", "M", "B"]))
    mode = rng.random()
    if mode < 0.45:
        pieces = [_select_desc(base, s) for s in partition_slices(rng, n)]
        how = "partition"
    elif mode < 0.7:
        pieces = [_select_desc(base, ["i", k]) for k in range(n)]
        how = "singletons"
    elif mode < 0.85:
        k = rng.randint(1, n - 1)
        pieces = [_select_desc(base, ["a", list(range(k, n))]), _select_desc(base, ["s", None, k, None])]
        how = "rotated"
    else:
        pieces = [_select_desc(base, ["s", None, None, -1]), _select_desc(base, ["a", [rng.randrange(n)]])]
        how = "reversed"
    leaves = [["L", p] for p in pieces]
    for tree in groupings(leaves):
        yield dict(kind="cat", base=base, how=how, tree=tree)


def gen_cat_permuted(rng: Rng):
    """A subset taken with an UNSORTED index array, cut into consecutive pieces (or kept whole) and
    concatenated: the observations must come back in the order of the pieces (by position)."""
    n = rng.randint(3, 6)
    base = rand_obj(rng, n, rng.choice(["I", "I", "I", "M"]))
    k = rng.randint(2, n)
    perm = rng.sample(range(n), k)
    if perm == sorted(perm):
        perm = perm[::-1]
    sub = _select_desc(base, ["a", perm])
    cuts = partition_slices(rng, k) if rng.random() < 0.75 else [["s", None, None, None]]
    pieces = [_select_desc(sub, c) for c in cuts]
    leaves = [["L", p] for p in pieces]
    for tree in groupings(leaves)[:2]:
        yield dict(kind="cat", base=base, how="permuted", tree=tree, perm=perm)


def _dtype_cat_cases():
    """In every run: dense pieces (alone and as components of multivariate pieces) whose values have different dtypes, in every
    order and grouping: the concatenation holds the exact values of the pieces (NumPy's promotion), whatever the grouping."""
    dts = ["int64", "int32", "float32", "float64"]
    nxt = itertools.count(1)

    def piece(dt, k):
        frac = dt.startswith("float")
        return ["D", [(100 if frac else 0) + next(nxt) % 90 + 1 for _ in range(k)], dt]

    for a in dts:
        for b in dts:
            if a != b:
                yield dict(kind="cat", base=None, how="dtypes", tree=["N", [["L", ["U", piece(a, 2)]], ["L", ["U", piece(b, 1)]]]])
    for trio in itertools.permutations(["int64", "float64", "float32"], 3):
        leaves = [["L", ["U", piece(dt, 1 + j % 2)]] for j, dt in enumerate(trio)]
        for tree in groupings(leaves):
            yield dict(kind="cat", base=None, how="dtypes", tree=tree)
    for a, b in (("int64", "float64"), ("float32", "int32"), ("int32", "float64")):
        yield dict(kind="cat", base=None, how="dtypes",
                   tree=["N", [["L", ["M", [piece(a, 2), ["I", [[0, 10], [1, 11]]]]]], ["L", ["M", [piece(b, 1), ["I", [[0, 12]]]]]]]])


def _iter_fixed_cases():
    """In every run: iteration over every iterable class, with the pieces kept."""
    yield dict(kind="iter", comp=["D", [3, 14, 15, 9]])
    yield dict(kind="iter", comp=["D", [26]])
    yield dict(kind="iter", comp=["B", [5, 35, 8]])
    yield dict(kind="iter", comp=["I", [[0, 10], [1, 11], [2, 12]]])
    yield dict(kind="iter", comp=["I", [[4, 10], [2, 11], [7, 12]]])
    yield dict(kind="iter", obj=["M", [["D", [1, 2, 3]], ["I", [[0, 10], [1, 11], [2, 12]]]]])
    yield dict(kind="iter", obj=["M", [["D", [1, 2, 3]], ["D", [4, 5, 6]]]])


def _vorder_cases():
    """In every run: irregular pieces whose argvals and values dictionaries list the same labels in DIFFERENT orders
    (user-built, or an arithmetic result of such an object), through selection, iteration and concatenation."""
    for vo in ("rev", "rot"):
        a = ["I", [[0, 10], [1, 11], [2, 12]], vo]
        b = ["I", [[0, 20], [1, 21]], vo]
        plain = ["I", [[0, 30], [1, 31]]]
        for ix in (["i", 0], ["i", -1], ["s", 1, None, None], ["s", None, None, -1], ["a", [2, 0]], ["m", [True, False, True]]):
            yield dict(kind="get", obj=["U", a], ix=ix)
            yield dict(kind="get", obj=["M", [["D", [1, 2, 3]], a]], ix=ix)
        yield dict(kind="iter", comp=a)
        yield dict(kind="iter", obj=["M", [a, ["D", [4, 5, 6]]]])
        for leaves in ([a, b], [b, a], [plain, a], [a, plain, b], [a], [["I", [[0, 40]]], b, plain]):
            for tree in groupings([["L", ["U", p]] for p in leaves])[:2]:
                yield dict(kind="cat", base=None, how="vorder", tree=tree)
        yield dict(kind="cat", base=None, how="vorder",
                   tree=["N", [["L", ["M", [["D", [1, 2, 3]], a]]], ["L", ["M", [["D", [4, 5]], b]]]]])


def _compositions(n, kmin=3):
    def rec(rest):
        if rest == 0:
            yield []
        for first in range(1, rest + 1):
            for tail in rec(rest - first):
                yield [first] + tail
    return [c for c in rec(n) if len(c) >= kmin]


def gen_cat_fresh(rng: Rng, sizes=None):
    """>= 3 *freshly built* pieces (each labelled 0..k-1): nothing here is excused by the open finding."""
    sizes = sizes or [rng.randint(1, 3) for _ in range(rng.randint(3, 5))]
    shape = rng.choice([["I"], ["I"], ["I", "D"], ["D", "I"], ["I", "I"], ["D"]])
    pieces = []
    for k in sizes:
        comps = [rand_comp(rng, k, kind, labels=list(range(k))) for kind in shape]
        pieces.append(["U", comps[0]] if len(shape) == 1 else ["M", comps])
    leaves = [["L", p] for p in pieces]
    trees = groupings(leaves)
    for tree in (trees if rng.random() < 0.5 else trees[:1]):
        yield dict(kind="cat", base=None, how="fresh", tree=tree)


def _slice_cases_all():
    vals = [None, -3, -2, -1, 0, 1, 2, 3]
    for n in range(0, 7):
        for a in vals:
            for b in vals:
                for c in vals:
                    yield dict(kind="slice", n=n, a=a, b=b, c=c)


def _fixed_fc_cases():
    """In every run: irregular (and mixed multivariate) subsets that leave out the observations reaching the
    parent's global minimum / maximum of the sampling points."""
    for data in ("I", "MI"):
        for ix in (["s", 1, None, None], ["s", None, -1, None], ["s", 1, -1, None], ["a", [2, 1]], ["i", 1]):
            yield dict(kind="fc", data=data, n=4, seed=20240 + len(data), ix=ix)
    for ix in (["s", 1, None, None], ["i", 1], ["a", [2, 0]], ["s", None, None, None]):
        yield dict(kind="fc", data="B", n=4, seed=20260, ix=ix)
    for data in ("Ir", "MIr", "In"):
        for ix in (["s", None, None, None], ["s", 1, None, None], ["a", [2, 0, 1]]):
            yield dict(kind="fc", data=data, n=4, seed=20250 + len(data), ix=ix)


def gen_fc(rng: Rng, k):
    kinds = ["I", "I", "D", "D2", "B", "M", "MI", "I2", "I2"]
    kind = kinds[k % len(kinds)]
    n = rng.randint(3, 6)
    ix = rng.choice([["s", 1, None, None], ["s", None, None, -1], ["s", None, n - 1, None], ["a", [n - 1, 1]], ["a", [2, 0, 1]],
                     ["i", rng.randint(0, n - 1)], ["s", None, None, 2], ["s", 1, n, 1]])
    return dict(kind="fc", data=kind, n=n, seed=rng.subseed(), ix=ix)


def gen_cases(rng: Rng, tier):
    common.use_repo()
    cu._fd()             # import FDApy before the worker pool forks
    import FDApy.representation.basis  # noqa: F401
    cases = list(_gen_cases(rng, tier))
    rng.shuffle(cases)   # spreads the slow first-class cases over the worker chunks
    return cases


def _gen_cases(rng: Rng, tier):
    big = tier == "thorough"
    # index semantics
    if big:
        yield from _slice_cases_all()
    else:
        for _ in range(250):
            yield dict(kind="slice", n=rng.randint(0, 6), a=rand_oint(rng, -7, 7), b=rand_oint(rng, -7, 7),
                       c=rng.choice([None, 1, 2, 3, -1, -2, -3, 0, 5, -5]))
    # selection
    if big:
        for kind in ("D", "I", "B", "M"):
            for n in range(1, 7):
                o = rand_obj(rng, n, kind)
                for i in range(-n - 1, n + 1):
                    yield dict(kind="get", obj=o, ix=["i", i])
                    yield dict(kind="get", obj=o, ix=["i", i, rng.choice(list(NP_INTS))])
                vals = [None, -3, -2, -1, 0, 1, 2, 3]
                for a in vals:
                    for b in vals:
                        for c in vals:
                            yield dict(kind="get", obj=o, ix=["s", a, b, c])
                for L in range(0, 4):
                    for _ in range(12):
                        yield dict(kind="get", obj=o, ix=["a", [rng.randint(-n - 1, n) for _ in range(L)]])
    for _ in range(4000 if big else 320):
        o = rand_obj(rng)
        yield dict(kind="get", obj=o, ix=rand_index(rng, obj_nobs(o)))
    # NumPy integer scalars as indices, every data class
    for kind in ("D", "I", "B", "M"):
        for _ in range(12 if big else 4):
            o = rand_obj(rng, rng.randint(1, 5), kind)
            n = obj_nobs(o)
            yield dict(kind="get", obj=o, ix=["i", rng.randint(-n, n - 1), rng.choice(["int64", "int32", "intp"])])
    # boolean masks (NumPy semantics on dense / basis data; irregular data read them as 0 / 1: mirrored only)
    for _ in range(600 if big else 70):
        o = rand_obj(rng, None, rng.choice(["D", "D", "B", "I", "M"]))
        n = obj_nobs(o)
        L = n if rng.random() < 0.8 else rng.choice([max(n - 1, 0), n + 1])
        yield dict(kind="get", obj=o, ix=["m", [rng.random() < 0.5 for _ in range(L)]])
    # chained selection
    for _ in range(1500 if big else 120):
        o = rand_obj(rng, rng.randint(2, 6))
        n = obj_nobs(o)
        ix1 = rng.choice([["s", 1, None, None], ["s", None, None, -1], ["a", [n - 1, 0]], ["s", None, None, 2], ["s", 1, n, None]])
        try:
            sub = _select_desc(o, ix1)
        except IndexError:
            continue
        yield dict(kind="get", obj=sub, ix=rand_index(rng, obj_nobs(sub)), chained=ix1)
    # iteration
    for _ in range(300 if big else 60):
        o = rand_obj(rng, rng.randint(1, 6), rng.choice(["D", "I", "I", "B"]))
        yield dict(kind="iter", comp=o[1])
    for _ in range(100 if big else 20):
        yield dict(kind="iter", obj=rand_obj(rng, rng.randint(1, 5), "M"))
    # concatenation in every grouping
    for _ in range(1500 if big else 80):
        yield from gen_cat(rng)
    for _ in range(400 if big else 45):
        yield from gen_cat_fresh(rng)
    for _ in range(400 if big else 50):
        yield from gen_cat_permuted(rng)
    yield from _vorder_cases()
    yield from _iter_fixed_cases()
    yield from _dtype_cat_cases()
    if big:
        for n in range(3, 7):
            for comp in _compositions(n):
                yield from gen_cat_fresh(rng, comp)
    # first-class
    yield from _fixed_fc_cases()
    for k in range(420 if big else 28):
        yield gen_fc(rng, k)


def search_cases(rng, tier):
    yield from gen_cases(rng, "quick")


def witness_cases():
    yield dict(kind="cat", base=["U", ["I", [[0, 10], [1, 11]]]], how="witness",
               tree=["N", [["L", ["U", ["I", [[0, 10]]]]], ["L", ["U", ["I", [[1, 11]]]]]]], witness=FINDING_CONCAT)


# --------------------------------------------------------------------------
# implementation side
# --------------------------------------------------------------------------

def _outcome(f):
    try:
        return f(), None
    except (TypeError, ValueError, IndexError, KeyError, NotImplementedError) as e:
        return None, err_class(e)
    except (StopIteration, RuntimeError, AttributeError, ZeroDivisionError) as e:
        return None, "Other"


def _eval_tree(t):
    if t[0] == "L":
        return build_obj(t[1])
    xs = [_eval_tree(s) for s in t[1]]
    return type(xs[0]).concatenate(*xs)


def _tree_leaves(t):
    if t[0] == "L":
        return [t[1]]
    return [l for s in t[1] for l in _tree_leaves(s)]


def run_impl(case):
    common.use_repo()
    cu.quiet()
    kind = case["kind"]
    if kind == "slice":
        n, sl = case["n"], (case["a"], case["b"], case["c"])
        try:
            py = list(range(n))[slice(*sl)]
            nz = np.arange(n)[slice(*sl)].tolist()
            return dict(py=py, np=nz)
        except ValueError:
            return dict(py="ValueError", np="ValueError")
    if kind == "get":
        x = build_obj(case["obj"])
        before = read_obj(x)[0]
        res, err = _outcome(lambda: x[py_index(case["ix"])])
        out = dict(err=err, unchanged=read_obj(x)[0] == before)
        if err is None:
            out["res"], out["bad"] = read_obj(res)
        return out
    if kind == "iter":
        multi = "obj" in case
        x = build_obj(case["obj"]) if multi else build_comp(case["comp"])
        rd = (lambda o: read_obj(o)) if multi else (lambda o: read_comp(o))
        first = [rd(o) for o in x]
        second = [rd(o) for o in x]
        out = dict(pieces=[s for s, _ in first], bad=[b for _, bb in first for b in bb], again=[s for s, _ in second])
        # overlapping iterations over one object: zip, nested loops, two live iterators
        out["zip"] = [[rd(a)[0], rd(b)[0]] for a, b in zip(x, x)]
        outer, inners = [], []
        for a in x:
            inners.append([rd(b)[0] for b in x])
            outer.append(rd(a)[0])
        out["nested_outer"], out["nested_inner"] = outer, inners
        it1, it2 = iter(x), iter(x)
        l1, l2 = [], []
        for _ in range(len(first) + 1):
            for it, acc in ((it1, l1), (it2, l2)):
                try:
                    acc.append(rd(next(it))[0])
                except StopIteration:
                    pass
        out["live1"], out["live2"] = l1, l2
        # pieces KEPT across the iteration steps: distinct objects, piece i still holds observation i after the loop
        kept = list(x)
        out["kept"] = [rd(o)[0] for o in kept]
        out["kept_distinct"] = len({id(o) for o in kept}) == len(kept)
        pairs_ok = True
        prev = None
        seen = []
        for cur in x:
            if prev is not None and rd(prev)[0] != seen[-1]:
                pairs_ok = False
            seen.append(rd(cur)[0])
            prev = cur
        out["prev_ok"] = pairs_ok
        out["zip_kept"] = [[rd(a)[0], rd(b)[0]] for a, b in list(zip(x, x))]
        if kept:
            back, err = _outcome(lambda: type(kept[0]).concatenate(*kept))
            out["concat_back"] = err if err else (read_obj(back)[0] if multi else read_comp(back)[0])
            out["whole"] = read_obj(x)[0] if multi else read_comp(x)[0]
        return out
    if kind == "cat":
        res, err = _outcome(lambda: _eval_tree(case["tree"]))
        out = dict(err=err)
        if err is None:
            out["res"], out["bad"] = read_obj(res)
        return out
    if kind == "fc":
        return run_fc(case)
    raise ValueError(kind)


# --------------------------------------------------------------------------
# first-class: every analysis method on a subset vs a freshly built twin
# --------------------------------------------------------------------------

def _fc_data(case):
    A, V, FD = cu._fd()
    rng = Rng(f"fc-{case['seed']}")
    n = case["n"]

    def dense(m=9, dim=1):
        t = np.array([float(x) for x in rng.grid(m, 0, 1, uniform=False)])
        if dim == 1:
            X = np.array([[float(rng.dyadic(-2, 2, 5)) + (k + 1) * np.sin(3 * u) for u in t] for k in range(n)])
            return FD.DenseFunctionalData(A.DenseArgvals({"input_dim_0": t}), V.DenseValues(X))
        s = np.array([float(x) for x in rng.grid(5, 0, 1, uniform=False)])
        X = np.array([[[float(rng.dyadic(-2, 2, 5)) + (k + 1) * u * v for v in s] for u in t] for k in range(n)])
        return FD.DenseFunctionalData(A.DenseArgvals({"input_dim_0": t, "input_dim_1": s}), V.DenseValues(X))

    def irreg():
        a, v = {}, {}
        for k in range(n):
            m = rng.randint(6, 9)
            # the global minimum / maximum of the sampling points are reached by the first / last observation
            # only: a subset that leaves them out is standardised differently from its parent
            pool = range(2, 15) if 0 < k < n - 1 else (range(0, 15) if k == 0 else range(2, 17))
            t = sorted(rng.sample(pool, m))
            if k == 0:
                t[0] = 0
            if k == n - 1:
                t[-1] = 16
            t = np.array(t) / 16.0
            a[k] = A.DenseArgvals({"input_dim_0": t})
            v[k] = np.array([float(rng.dyadic(-1, 1, 5)) + (k + 1) * np.sin(3 * u) for u in t])
        return FD.IrregularFunctionalData(A.IrregularArgvals(a), V.IrregularValues(v))

    def basis():
        from FDApy.representation.basis import Basis

        # a basis / grid on which the integration rules give different Gram matrices (Fourier on a uniform grid does not)
        name = rng.choice(["legendre", "legendre", "fourier"])
        t = np.linspace(0, 1, 11) if name == "legendre" and rng.random() < 0.5 else np.array([0, 0.05, 0.2, 0.3, 0.45, 0.5, 0.7, 0.8, 0.9, 0.95, 1.0])
        b = Basis(name, n_functions=3, argvals=A.DenseArgvals({"input_dim_0": t}))
        return FD.BasisFunctionalData(b, np.array([[float(rng.dyadic(-2, 2, 4)) for _ in range(3)] for _ in range(n)]))

    def irreg2():
        a, v = {}, {}
        for k in range(n):
            m1, m2 = rng.randint(3, 5), rng.randint(3, 4)
            t = np.array(sorted(rng.sample(range(0, 9), m1))) / 8.0
            u = np.array(sorted(rng.sample(range(0, 9), m2))) / 8.0
            a[k] = A.DenseArgvals({"input_dim_0": t, "input_dim_1": u})
            v[k] = np.array([[float(rng.dyadic(-1, 1, 5)) + (k + 1) * x * (1 + y) for y in u] for x in t])
        return FD.IrregularFunctionalData(A.IrregularArgvals(a), V.IrregularValues(v))

    def reorder(fd_):
        """The same irregular dataset with the values dictionary listing the labels in reverse order."""
        return FD.IrregularFunctionalData(fd_.argvals, V.IrregularValues({l: fd_.values[l] for l in reversed(list(fd_.values.keys()))}))

    def with_nan(fd_):
        """Missing values: some entries of every second observation are NaN."""
        for j, (l, arr) in enumerate(fd_.values.items()):
            if j % 2 == 0 and arr.size > 3:
                arr[1] = np.nan
                arr[-2] = np.nan
        return fd_

    d = case["data"]
    if d == "Ir":
        return reorder(irreg())
    if d == "MIr":
        return FD.MultivariateFunctionalData([dense(), reorder(irreg())])
    if d == "In":
        return with_nan(irreg())
    if d == "I2":
        return irreg2()
    if d == "I":
        return irreg()
    if d == "D":
        return dense()
    if d == "D2":
        return dense(6, 2)
    if d == "B":
        return basis()
    if d == "M":
        return FD.MultivariateFunctionalData([dense(), dense(7)])
    return FD.MultivariateFunctionalData([dense(), irreg()])


def twin_of(x):
    """A freshly built dataset with the same content (new arrays, labels 0..k-1)."""
    A, V, FD = cu._fd()
    if isinstance(x, FD.MultivariateFunctionalData):
        return FD.MultivariateFunctionalData([twin_of(c) for c in x.data])
    if isinstance(x, FD.IrregularFunctionalData):
        a = {k: A.DenseArgvals({d: np.array(t) for d, t in x.argvals[l].items()}) for k, l in enumerate(x.argvals)}
        v = {k: np.array(x.values[l]) for k, l in enumerate(x.argvals)}
        return FD.IrregularFunctionalData(A.IrregularArgvals(a), V.IrregularValues(v))
    if isinstance(x, FD.DenseFunctionalData):
        return FD.DenseFunctionalData(A.DenseArgvals({d: np.array(t) for d, t in x.argvals.items()}), V.DenseValues(np.array(x.values)))
    from FDApy.representation.basis import Basis

    b = x.basis
    try:    # a freshly built basis object too: nothing the parent may have cached on its basis is inherited
        fresh = Basis(name=b.name, n_functions=b.n_functions, argvals=A.DenseArgvals({k: np.array(t) for k, t in b.argvals.items()}),
                      is_normalized=getattr(b, "is_normalized", False), add_intercept=getattr(b, "add_intercept", True))
        if np.shape(fresh.values) != np.shape(b.values) or not np.array_equal(np.asarray(fresh.values), np.asarray(b.values)):
            fresh = b
    except Exception:  # noqa: BLE001
        fresh = b
    return FD.BasisFunctionalData(fresh, np.array(x.coefficients))


def summarise(r):
    """Result -> (labels-or-None, nested floats); labels are reported separately."""
    A, V, FD = cu._fd()
    import pandas as pd

    if isinstance(r, A.IrregularArgvals):
        return ["IA", [int(k) for k in r.keys()], [summarise(d) for d in r.values()]]
    if isinstance(r, A.DenseArgvals):
        return ["DA", list(r.keys()), [np.asarray(t, dtype=float).ravel().tolist() for t in r.values()]]
    if isinstance(r, dict):
        return ["dict", [str(k) for k in r.keys()], [summarise(v) for v in r.values()]]
    if isinstance(r, tuple):
        return ["tuple"] + [summarise(x) for x in r]
    if isinstance(r, FD.IrregularFunctionalData):
        return ["I", [int(k) for k in r.values.keys()], [np.asarray(a, dtype=float).ravel().tolist() for a in r.values.values()],
                [np.concatenate([np.asarray(t, dtype=float) for t in d.values()]).tolist() for d in r.argvals.values()]]
    if isinstance(r, FD.DenseFunctionalData):
        return ["D", list(np.shape(r.values)), np.asarray(r.values, dtype=float).ravel().tolist()]
    if isinstance(r, FD.BasisFunctionalData):
        return ["B", list(np.shape(r.coefficients)), np.asarray(r.coefficients, dtype=float).ravel().tolist(),
                np.asarray(r.basis.values, dtype=float).ravel().tolist()]
    if isinstance(r, FD.MultivariateFunctionalData):
        return ["M"] + [summarise(c) for c in r.data]
    if isinstance(r, pd.DataFrame):
        return ["df", list(r.columns), r.to_numpy(dtype=float).ravel().tolist()]
    if isinstance(r, list):
        return ["list"] + [summarise(x) for x in r]
    if r is None:
        return ["none"]
    return ["num", np.asarray(r, dtype=float).ravel().tolist()]


def _methods(x):
    A, V, FD = cu._fd()
    multi = isinstance(x, FD.MultivariateFunctionalData)
    irr = isinstance(x, FD.IrregularFunctionalData)
    basis = isinstance(x, FD.BasisFunctionalData)
    pts = A.DenseArgvals({"input_dim_0": np.linspace(0.1, 0.9, 5)})
    M = {
        "to_long": lambda o: o.to_long(),
        "to_long(reindex=True)": lambda o: o.to_long(reindex=True),
        "to_long(reindex=False)": lambda o: o.to_long(reindex=False),
        "noise_variance": lambda o: o.noise_variance(),
        "noise_variance(order=1)": lambda o: o.noise_variance(order=1),
        "smooth": lambda o: o.smooth(),
        "smooth(LP)": lambda o: o.smooth(method="LP", bandwidth=0.5),
        "mean": lambda o: o.mean(),
        "center": lambda o: o.center(),
        "norm": lambda o: o.norm(),
        "norm(squared)": lambda o: o.norm(squared=True),
        "norm(stand)": lambda o: o.norm(use_argvals_stand=True),
        "normalize": lambda o: o.normalize(),
        "standardize": lambda o: o.standardize(),
        "standardize(center=False)": lambda o: o.standardize(center=False),
        "rescale": lambda o: o.rescale(),
        "rescale(weights)": lambda o: o.rescale(weights=2.0) if not multi else o.rescale(weights=np.full(o.n_functional, 2.0)),
        "inner_product": lambda o: o.inner_product(),
        "covariance": lambda o: o.covariance(),
        # derived attributes of the object itself, of its items and of what is built from it
        "attr:n_points": lambda o: o.n_points,
        "attr:n_dimension": lambda o: o.n_dimension,
        "attr:argvals_stand": lambda o: [c.argvals_stand for c in o.data] if multi else (None if basis else o.argvals_stand),
        "attr:min_max": lambda o: [c.argvals.min_max for c in o.data] if multi else (None if basis else o.argvals.min_max),
        "attr:stand of items": lambda o: [([c.argvals_stand for c in p.data] if multi else (None if basis else p.argvals_stand)) for p in o],
        "attr:stand of [0]": lambda o: [c.argvals_stand for c in o[0].data] if multi else (None if basis else o[0].argvals_stand),
        "attr:stand of [::-1]": lambda o: [c.argvals_stand for c in o[::-1].data] if multi else (None if basis else o[::-1].argvals_stand),
        "attr:stand of concat": lambda o: (lambda r: [c.argvals_stand for c in r.data] if multi else r.argvals_stand)(type(o).concatenate(o, o)),
        "normalize(stand)": lambda o: o.normalize(use_argvals_stand=True),
        "rescale(stand)": lambda o: o.rescale(use_argvals_stand=True),
        "getitem0": lambda o: o[0],
        "getitem-1": lambda o: o[-1],
        "getitem(np.int64)": lambda o: o[np.int64(0)],
        "getitem(arange loop)": lambda o: [o[i] for i in np.arange(o.n_obs)],
        "getitem(np.argmax)": lambda o: o[np.argmax(np.arange(o.n_obs))],
        "getitem[::-1]": lambda o: o[::-1],
        "iter": lambda o: [p for p in o],
        "concat(x,x)": lambda o: type(o).concatenate(o, o),
        "concat(x[0],x)": lambda o: type(o).concatenate(o[0], o),
    }
    if not multi and not basis:
        M["smooth(points)"] = lambda o: o.smooth(points=pts, method="LP", bandwidth=0.5) if o.n_dimension == 1 else o.smooth()
        M["add"] = lambda o: o + o
        M["mul2"] = lambda o: 2 * o
        M["eq"] = lambda o: o == o
        M["center(PS)"] = lambda o: o.center(method_smoothing="PS")
        M["mean(PS)"] = lambda o: o.mean(method_smoothing="PS")
        M["to_basis"] = lambda o: o.to_basis()
    if irr:
        M["smooth(interpolation)"] = lambda o: o.smooth(method="interpolation")
    if basis or multi:
        M["to_grid"] = lambda o: o.to_grid()
    if multi:
        M["to_basis"] = lambda o: o.to_basis()
    return M


_AGAIN = {"iter", "getitem0", "norm", "center", "smooth", "to_long", "normalize", "mean", "inner_product", "concat(x,x)"}


def _snap(x):
    """Bytes of every values / coefficient array of an object (NaN pattern included)."""
    A, V, FD = cu._fd()
    if isinstance(x, FD.MultivariateFunctionalData):
        return [_snap(c) for c in x.data]
    if isinstance(x, FD.IrregularFunctionalData):
        return [(int(l), np.asarray(a).tobytes()) for l, a in x.values.items()] + [(int(l), [np.asarray(t).tobytes() for t in d.values()]) for l, d in x.argvals.items()]
    if isinstance(x, FD.DenseFunctionalData):
        return [np.asarray(x.values).tobytes()] + [np.asarray(t).tobytes() for t in x.argvals.values()]
    return [np.asarray(x.coefficients).tobytes(), np.asarray(x.basis.values).tobytes()]


def run_fc(case):
    x = _fc_data(case)
    sub, err = _outcome(lambda: x[py_index(case["ix"])])
    if err is not None:
        return dict(select_err=err, results={})
    tw = twin_of(sub)
    # the PARENT and a sibling are analysed first with OTHER options: nothing of that may leak into the subset's results
    # under the default options (objects shared between parent and subsets: basis, sampling points, arrays)
    primed = []
    for name, f in (("norm(simpson)", lambda o: o.norm(method_integration="simpson")),
                    ("norm(squared, stand)", lambda o: o.norm(squared=True, use_argvals_stand=True)),
                    ("inner_product(simpson)", lambda o: o.inner_product(method_integration="simpson")),
                    ("normalize(simpson)", lambda o: o.normalize(method_integration="simpson")),
                    ("rescale(simpson)", lambda o: o.rescale(method_integration="simpson"))):
        if case["data"] in ("I", "Ir", "In", "I2", "MI", "MIr") and name.startswith(("inner_product", "normalize", "rescale")):
            continue      # slow on irregular data; their norm goes through the same options
        _, e1 = _outcome(lambda: f(x))
        _, e2 = _outcome(lambda: f(x[::-1]))
        primed.append(name + (":" + str(e1) if e1 else ""))
    # read-only methods on a subset must not change the parent nor its other subsets (arrays are shared between them)
    n_par = x.n_obs
    sib_ix = slice(None, None, -1) if n_par < 2 else slice(0, max(1, n_par - 1))
    sibling, _ = _outcome(lambda: x[sib_ix])
    sib_twin = twin_of(sibling) if sibling is not None else None
    parent_snap = _snap(x)
    touched = {}
    results = {}
    for name, f in _methods(sub).items():
        rs, es = _outcome(lambda: summarise(f(sub)))
        now = _snap(x)
        if now != parent_snap:
            touched[name] = True
            parent_snap = now
        rt, et = _outcome(lambda: summarise(f(tw)))
        if name in _AGAIN:
            r2, e2 = _outcome(lambda: summarise(f(sub)))
        else:
            r2, e2 = rs, es
        results[name] = dict(sub=rs, sub_err=es, twin=rt, twin_err=et, again=r2, again_err=e2)
    A, V, FD = cu._fd()
    labels = None
    if isinstance(sub, FD.IrregularFunctionalData):
        labels = [int(k) for k in sub.argvals.keys()]
    # analysis calls on the dataset *inside* a loop over it must not disturb the loop
    plain, _ = _outcome(lambda: [summarise(sub[i]) for i in range(sub.n_obs)])
    loops = {}
    inner = {"noise_variance": lambda o: o.noise_variance(), "norm": lambda o: o.norm(), "iter": lambda o: [p for p in o]}
    if isinstance(sub, FD.DenseFunctionalData) and sub.n_dimension == 1:
        inner["smooth(LP)"] = lambda o: o.smooth(method="LP", bandwidth=0.5)
        inner["to_basis"] = lambda o: o.to_basis()
    if isinstance(sub, FD.MultivariateFunctionalData):
        inner["to_long"] = lambda o: o.to_long()
    for name, f in inner.items():
        def loop(f=f):
            acc = []
            for p in sub:
                try:
                    f(sub)
                except Exception:  # noqa: BLE001  (whether the call itself works is judged elsewhere)
                    pass
                acc.append(summarise(p))
            return acc
        got, err = _outcome(loop)
        loops[name] = dict(got=got, err=err)
    sib = {}
    if sibling is not None:
        for name, f in (("noise_variance", lambda o: o.noise_variance()), ("to_long", lambda o: o.to_long()), ("norm", lambda o: o.norm()),
                        ("values", lambda o: o)):
            a_, ea = _outcome(lambda: summarise(f(sibling)))
            b_, eb = _outcome(lambda: summarise(f(sib_twin)))
            sib[name] = dict(sub=a_, sub_err=ea, twin=b_, twin_err=eb)
    return dict(select_err=None, results=results, labels=labels, plain_pieces=plain, loops=loops, touched=sorted(touched), sibling=sib)


# --------------------------------------------------------------------------
# model side
# --------------------------------------------------------------------------

def _tree_tokens(t):
    if t[0] == "L":
        return ["L"] + obj_tokens(t[1])
    return ["N", str(len(t[1]))] + [x for s in t[1] for x in _tree_tokens(s)]


def model_lines(case, impl):
    kind = case["kind"]

    def oi(v):
        return "N" if v is None else str(v)

    if kind == "slice":
        return [f"slice {case['n']} {oi(case['a'])} {oi(case['b'])} {oi(case['c'])}"]
    if kind == "get":
        return [("getm " if case["ix"][0] == "m" else "get ") + " ".join(obj_tokens(case["obj"]) + index_tokens(case["ix"]))]
    if kind == "iter":
        if "obj" in case:
            return []     # iteration of a multivariate object = integer indexing (`get`); judged by the oracle
        return ["iter " + " ".join(comp_tokens(case["comp"]))]
    if kind == "cat":
        return ["cat " + " ".join(_tree_tokens(case["tree"]))]
    if kind == "fc":
        if impl.get("labels") is not None:
            ent = [[l, k] for k, l in enumerate(impl["labels"])]
            return ["keyed " + " ".join(comp_tokens(["I", ent]))]
        return []
    return []


def parse_model(case, outs):
    return dict(out=outs[0])


def compare(case, impl, model):
    if "__crash__" in impl:
        return [f"implementation crashed: {impl['__crash__']} {impl.get('msg')} {impl.get('tb', '')[-300:]}"]
    kind = case["kind"]
    out = model["out"]
    if out in ("bad", "bad-op"):
        return ["model could not parse the request"]
    if kind == "slice":
        exp = "ValueError" if impl["py"] == "ValueError" else "ok " + cu.nv(impl["py"])
        ds = [] if out == exp else [f"slice positions: CPython {exp} vs model {out}"]
        if impl["np"] != impl["py"]:
            ds.append(f"NumPy {impl['np']} and CPython {impl['py']} disagree")
        return ds
    if kind == "get":
        got = impl["err"] if impl["err"] else "ok " + impl["res"]
        return [] if got == out else [f"selection: impl {got} vs model {out}"]
    if kind == "iter":
        got = " | ".join(impl["pieces"])
        return [] if got == out else [f"iteration: impl {got} vs model {out}"]
    if kind == "cat":
        got = impl["err"] if impl["err"] else impl["res"].replace(" ", "~")
        m_impl = out.split(" ")[0][len("impl="):]
        return [] if got == m_impl else [f"concatenation: impl {got} vs model {m_impl}"]
    if kind == "fc":
        # labels of label-keyed results = labels of the subset
        ds = []
        if out.startswith("ok "):
            labels = [int(e.split("/")[0]) for e in out[3:].split(",")] if out != "ok -" else []
            for name in ("center", "normalize", "standardize", "add", "mul2"):
                r = impl["results"].get(name)
                if r and r["sub"] and r["sub"][0] == "I" and r["sub"][1] != labels:
                    ds.append(f"{name}: result labelled {r['sub'][1]} vs model {labels}")
        return ds
    return []


# --------------------------------------------------------------------------
# oracle: the property's own predicate on the implementation
# --------------------------------------------------------------------------

def _strip_labels(s):
    if isinstance(s, list) and s and s[0] == "IA":
        return ["IA", [_strip_labels(x) for x in s[2]]]
    if isinstance(s, list) and s and s[0] == "dict" and all(k.lstrip("-").isdigit() for k in s[1]):
        return ["dict", [_strip_labels(x) for x in s[2]]]
    if isinstance(s, list) and s and s[0] == "I":
        return ["I", s[2], s[3]]
    if isinstance(s, list) and s and s[0] == "df" and "id" in s[1]:
        return s
    if isinstance(s, list):
        return [_strip_labels(x) for x in s]
    return s


def _same(a, b, tol=1e-9):
    if isinstance(a, list) and isinstance(b, list):
        if len(a) != len(b):
            return False
        if a and all(isinstance(v, (int, float)) for v in a) and all(isinstance(v, (int, float)) for v in b):
            return bool(np.allclose(np.array(a, dtype=float), np.array(b, dtype=float), rtol=tol, atol=1e-12, equal_nan=True))
        return all(_same(x, y, tol) for x, y in zip(a, b))
    return a == b


def _spec_concat(leaves):
    """What the property asks of a concatenation: contents of the pieces in order, labels 0..n-1."""
    first = leaves[0]
    if first[0] == "U":
        if any(l[0] != "U" or (l[1][0] == "I") != (first[1][0] == "I") for l in leaves):
            return None
        ids = [r for l in leaves for r in comp_ids(l[1])]
        if first[1][0] == "I":
            return "U I:" + (",".join(f"{k}/{r}" for k, r in enumerate(ids)) if ids else "-")
        return "U D:" + cu.nv(ids)
    P = len(first[1])
    if any(l[0] != "M" or len(l[1]) != P for l in leaves):
        return None
    parts = []
    for k in range(P):
        sub = _spec_concat([["U", l[1][k]] for l in leaves])
        if sub is None:
            return None
        parts.append(sub[2:])
    return "M " + ("|".join(parts) if parts else "-")


def _ids_by_position(s):
    """`U I:3/10,1/11` / `M D:1,2|I:0/5` -> per component the row identifiers in order."""
    body = s.split(" ", 1)[1] if " " in s else ""
    out = []
    for c in body.split("|"):
        if ":" not in c:
            continue
        ent = c.split(":", 1)[1]
        out.append([] if ent == "-" else [int(e.split("/")[-1]) for e in ent.split(",")])
    return out


def _noncanonical(leaves):
    for l in leaves:
        comps = [l[1]] if l[0] == "U" else l[1]
        for c in comps:
            if c[0] == "I" and [e[0] for e in c[1]] != list(range(len(c[1]))):
                return True
    return False


def oracle(case, impl):
    if "__crash__" in impl:
        return [dict(clause="runs", entry=case["kind"], msg=f"crash {impl['__crash__']}: {impl.get('msg')} {impl.get('tb', '')[-300:]}")]
    kind = case["kind"]
    vs = []
    if kind == "get" and case["ix"][0] == "m" and any(c[0] == "I" for c in ([case["obj"][1]] if case["obj"][0] == "U" else case["obj"][1])):
        return vs      # boolean masks on irregular data: mirrored by the model, not judged (see PARTIAL)
    if kind == "get":
        o, ix = case["obj"], case["ix"]
        entry = {"D": "DenseFunctionalData.__getitem__", "I": "IrregularFunctionalData.__getitem__",
                 "B": "BasisFunctionalData.__getitem__"}[o[1][0]] if o[0] == "U" else "MultivariateFunctionalData.__getitem__"
        try:
            exp = _select_desc(o, ix)
            exp_err = None
        except IndexError:
            exp, exp_err = None, "IndexError"
        except ValueError:
            exp, exp_err = None, "ValueError"
        if exp is not None and exp[0] == "M" and len({len(c[1]) for c in exp[1]}) > 1:
            exp, exp_err = None, "ValueError"  # repeated labels collapse in an irregular component only
        if exp_err:
            if impl["err"] is None:
                vs.append(dict(clause="select_rejects", entry=entry, causes=[],
                               msg=f"index {ix} on {o} should be rejected ({exp_err}) but gave {impl['res']}"))
            elif impl["err"] != exp_err:
                vs.append(dict(clause="select_rejects", entry=entry, causes=["class_" + str(impl["err"])],
                               msg=f"index {ix} on {o}: rejected with {impl['err']}, expected {exp_err}"))
        else:
            want = " ".join([exp[0], comp_str(exp[1])]) if exp[0] == "U" else "M " + "|".join(comp_str(c) for c in exp[1])
            if impl["err"] is not None:
                vs.append(dict(clause="select_content", entry=entry, causes=["raises_" + impl["err"]] + (["chained"] if case.get("chained") else []),
                               msg=f"index {ix} on {o} raised {impl['err']}; expected {want}"))
            else:
                if impl["res"] != want:
                    vs.append(dict(clause="select_content", entry=entry, causes=["chained"] if case.get("chained") else [],
                                   msg=f"index {ix} on {o} gave {impl['res']}; the selected observations are {want}"))
                if impl["bad"]:
                    vs.append(dict(clause="select_own_points", entry=entry, causes=[], msg="; ".join(impl["bad"][:3])))
        if not impl["unchanged"]:
            vs.append(dict(clause="select_pure", entry=entry, causes=[], msg=f"indexing changed the indexed object {o}"))
    elif kind == "iter":
        if "obj" in case:
            o = case["obj"]
            c = o
            entry = "iter(M)"
            want = [obj_str(_select_desc(o, ["i", k])) for k in range(obj_nobs(o))]
            if impl["pieces"] != want:
                vs.append(dict(clause="iter_content", entry=entry, causes=[], msg=f"iteration over {o} yielded {impl['pieces']}; the observations are {want}"))
        else:
            c = case["comp"]
            entry = "iter(" + c[0] + ")"
            ids = comp_ids(c)
            got = [p.split(":")[1] for p in impl["pieces"]]
            got_ids = [int(p.split("/")[-1]) if p != "-" else None for p in got]
            if got_ids != ids:
                vs.append(dict(clause="iter_content", entry=entry, causes=[], msg=f"iteration over {c} yielded {impl['pieces']}"))
        # overlapping iterations yield the same pieces as a single one
        P = impl["pieces"]
        for name, got2 in (("zip(x, x)", [a for a, _ in impl["zip"]]), ("zip(x, x) second", [b for _, b in impl["zip"]]),
                           ("outer loop of a nested loop", impl["nested_outer"]), ("two live iterators (first)", impl["live1"]),
                           ("two live iterators (second)", impl["live2"])):
            if got2 != P:
                vs.append(dict(clause="iter_overlap", entry=entry, causes=[], msg=f"{name} over {c} yielded {got2}; a single iteration yields {P}"))
                break
        if "kept" in impl:
            if impl["kept"] != P or [a for a, _ in impl["zip_kept"]] != P or [b for _, b in impl["zip_kept"]] != P:
                vs.append(dict(clause="iter_kept", entry=entry, causes=["piece_overwritten"],
                               msg=f"the pieces of list(x) over {c} read {impl['kept']} after the loop; during the loop they read {P}"))
            if not impl["kept_distinct"]:
                vs.append(dict(clause="iter_kept", entry=entry, causes=["same_object"], msg=f"list(x) over {c} holds the same object several times"))
            if not impl["prev_ok"]:
                vs.append(dict(clause="iter_kept", entry=entry, causes=["previous_piece_changed"], msg=f"iterating over {c}: the previous piece changed when the next one was produced"))
            cb = impl.get("concat_back")
            if cb is not None and cb != "NotImplementedError":
                whole = impl["whole"]
                has_irreg = "I:" in whole        # label collisions of the open finding may lose observations there
                is_err = ":" not in cb
                if is_err:
                    if not has_irreg:
                        vs.append(dict(clause="iter_kept", entry=entry, causes=["concat_of_pieces"], msg=f"concatenate(*list(x)) over {c} raised {cb}"))
                else:
                    wrap = lambda t: t if t.startswith(("U ", "M ")) else "U " + t  # noqa: E731
                    got_ids, want_ids = _ids_by_position(wrap(cb)), _ids_by_position(wrap(whole))
                    lost = [sorted(a) for a in got_ids] != [sorted(b) for b in want_ids]
                    if got_ids != want_ids and not (lost and has_irreg):
                        vs.append(dict(clause="iter_kept", entry=entry, causes=["concat_of_pieces"],
                                       msg=f"concatenate(*list(x)) over {c} holds the observations {got_ids}; the dataset holds {want_ids}"))
        if any(inner != P for inner in impl["nested_inner"]) or len(impl["nested_inner"]) != len(P):
            vs.append(dict(clause="iter_overlap", entry=entry, causes=[], msg=f"inner loops of a nested loop over {c} yielded {impl['nested_inner']}; a single iteration yields {P}"))
        if impl["again"] != impl["pieces"]:
            vs.append(dict(clause="iter_repeatable", entry=entry, causes=[], msg=f"second iteration yielded {impl['again']} (first {impl['pieces']})"))
        if impl["bad"]:
            vs.append(dict(clause="select_own_points", entry=entry, causes=[], msg="; ".join(impl["bad"][:3])))
    elif kind == "cat":
        leaves = _tree_leaves(case["tree"])
        first = leaves[0]
        is_basis = any((c[0] == "B") for l in leaves for c in ([l[1]] if l[0] == "U" else l[1]))
        entry = "concatenate"
        if is_basis:
            # `BasisFunctionalData.concatenate` is documented as not implemented: on a subset as on any dataset
            if impl["err"] != "NotImplementedError":
                vs.append(dict(clause="concat_basis", entry=entry, causes=[], msg=f"basis concatenation gave {impl}"))
            return vs
        want = _spec_concat(leaves)
        causes = ["noncanonical_piece_labels"] if _noncanonical(leaves) else []
        got = impl["err"] if impl["err"] else impl["res"]
        if want is not None and got != want:
            vs.append(dict(clause="concat_pieces", entry=entry, causes=causes,
                           msg=f"concatenating {[obj_str(l) for l in leaves]} ({case['how']}) gave {got}; the pieces in order, labelled as a fresh dataset, are {want}"))
        if impl["err"] is None and impl["bad"]:
            vs.append(dict(clause="concat_own_points", entry=entry, causes=causes, msg="; ".join(impl["bad"][:3])))
        if impl["err"] is None and want is not None:
            # content IN ORDER, by position (labels aside): judged whenever no observation was lost, so that it
            # stays clear of the label collisions of the open finding
            got_ids, want_ids = _ids_by_position(impl["res"]), _ids_by_position(want)
            if got_ids != want_ids and [sorted(c) for c in got_ids] == [sorted(c) for c in want_ids]:
                vs.append(dict(clause="concat_order", entry=entry, causes=[],
                               msg=f"concatenating {[obj_str(l) for l in leaves]} ({case['how']}) returned the observations in the order {got_ids}; "
                                   f"the pieces in order are {want_ids}"))
    elif kind == "fc":
        if impl.get("select_err"):
            return [dict(clause="select_content", entry="__getitem__", causes=["raises_" + impl["select_err"]],
                         msg=f"selection {case['ix']} on {case['data']} data with {case['n']} observations raised {impl['select_err']}")]
        for name in impl.get("touched") or []:
            vs.append(dict(clause="subset_pure", entry=name.split("(")[0], causes=["parent_changed"],
                           msg=f"{name} on the subset ({case['data']} data, n_obs={case['n']}, subset {case['ix']}) changed the values / sampling points of the PARENT dataset"))
        for name, r in (impl.get("sibling") or {}).items():
            if r["sub_err"] != r["twin_err"] or (r["sub_err"] is None and not _same(_strip_labels(r["sub"]), _strip_labels(r["twin"]))):
                vs.append(dict(clause="subset_pure", entry=name, causes=["sibling_changed"],
                               msg=f"after the method calls on the subset {case['ix']} ({case['data']} data, n_obs={case['n']}), {name} of ANOTHER subset of the same parent "
                                   f"differs from its twin built before those calls"))
        for name, r in (impl.get("loops") or {}).items():
            if impl.get("plain_pieces") is None:
                break
            if r["err"] is not None or not _same(_strip_labels(r["got"]), _strip_labels(impl["plain_pieces"])):
                vs.append(dict(clause="iter_overlap", entry="iter+" + name.split("(")[0], causes=[],
                               msg=f"looping over the subset ({case['data']} data, n_obs={case['n']}, subset {case['ix']}) while calling {name} on it "
                                   f"yielded {('an exception ' + str(r['err'])) if r['err'] else str(len(r['got'])) + ' pieces that are not the observations'}"
                                   f" ({len(impl['plain_pieces'])} observations)"))
        for name, r in impl["results"].items():
            entry = name.split("(")[0]
            what = f"{case['data']} data, n_obs={case['n']}, subset {case['ix']}"
            # `MultivariateFunctionalData.normalize` concatenates the single observations `self[0], self[1], …`,
            # whose irregular components keep their labels: the concatenation clause fails inside it
            via_concat = ((name.startswith("concat") or name == "attr:stand of concat") and case["data"] in ("I", "MI", "I2", "Ir", "MIr", "In")) or (name.startswith("normalize") and case["data"] in ("MI", "MIr"))
            if via_concat:
                entry = "normalize" if name.startswith("normalize") else "concatenate"
            if r["sub_err"] != r["twin_err"] and via_concat:
                vs.append(dict(clause="concat_pieces", entry=entry, causes=["noncanonical_piece_labels"],
                               msg=f"{name} on the subset ({what}) -> {r['sub_err'] or 'a result'}, on the twin -> {r['twin_err'] or 'a result'}"))
                continue
            if r["sub_err"] != r["twin_err"]:
                vs.append(dict(clause="first_class", entry=entry, causes=["subset_raises_" + str(r["sub_err"])],
                               msg=f"{name} on the subset ({what}) -> {r['sub_err'] or 'a result'}, on the twin -> {r['twin_err'] or 'a result'}"))
                continue
            if r["sub_err"] is None and not _same(_strip_labels(r["sub"]), _strip_labels(r["twin"])):
                causes = ["noncanonical_piece_labels"] if via_concat else []
                clause = "concat_pieces" if (via_concat or name.startswith("concat")) else "first_class"
                vs.append(dict(clause=clause, entry="concatenate" if name.startswith("concat") else entry, causes=causes,
                               msg=f"{name} on the subset ({what}) differs from the twin: {str(r['sub'])[:160]} vs {str(r['twin'])[:160]}"))
            if r["again_err"] != r["sub_err"] or (r["sub_err"] is None and not _same(r["again"], r["sub"])):
                vs.append(dict(clause="first_class_repeatable", entry=entry, causes=[],
                               msg=f"{name} called twice on the same subset ({what}) gave different results"))
    return vs


def comp_str(c):
    if c[0] in ("D", "B"):
        return c[0] + ":" + cu.nv(c[1])
    return "I:" + (",".join(f"{l}/{r}" for l, r in c[1]) if c[1] else "-")


def obj_str(o):
    if o[0] == "U":
        return "U " + comp_str(o[1])
    return "M " + ("|".join(comp_str(c) for c in o[1]) if o[1] else "-")


def nontrivial(case, impl):
    kind = case["kind"]
    if "__crash__" in impl:
        return None
    if kind == "slice":
        return digest(case) if impl["py"] not in ("ValueError", []) and len(impl["py"]) < case["n"] else None
    if kind == "get":
        if impl["err"]:
            return None
        return digest(case)
    if kind == "cat":
        return digest(case) if len(_tree_leaves(case["tree"])) >= 2 else None
    return digest(case)


def classify(case, impl):
    kind = case["kind"]
    tags = ["kind:" + kind]
    if "__crash__" in impl:
        return tags + ["crash"]
    if kind == "get":
        o = case["obj"]
        tags.append("get:" + (o[1][0] if o[0] == "U" else "M") + ":" + case["ix"][0] + ":" + (impl["err"] or "ok"))
        if case.get("chained"):
            tags.append("get:chained")
    if kind == "cat":
        tags.append("cat:" + case["how"] + ":" + (impl["err"] or "ok"))
    if kind == "fc":
        tags.append("fc:" + case["data"] + ":" + case["ix"][0])
    return tags
