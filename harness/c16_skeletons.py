"""Which aliasing skeleton of `lean/FDAModel/Alias.lean` models which public method.

Key: (subject kind, method, option index) — `None` as option index means every option set.
A (kind, method) pair that does not occur here is *unmodelled*: it still gets the generic oracle."""

SKELETONS = {}


def _put(kinds, methods, name, opt=None):
    for k in kinds:
        for m in methods:
            SKELETONS[(k, m, opt)] = name


DENSE = ["dense1d", "dense2d"]
_put(DENSE, ["center"], "copy_argvals")
_put(DENSE, ["mean", "normalize", "smooth", "standardize", "concatenate"], "share_argvals")
_put(DENSE, ["rescale"], "rescale")
_put(["dense1d"], ["covariance"], "covariance_dense")
_put(DENSE, ["to_basis"], "to_basis_dense")
_put(DENSE, ["inner_product", "norm", "noise_variance", "to_long"], "fresh")

_put(["irregular"], ["center", "normalize", "standardize"], "share_argvals")
_put(["irregular"], ["rescale"], "rescale")
_put(["irregular"], ["concatenate"], "concat_irregular")
_put(["irregular"], ["mean", "covariance", "smooth", "to_basis", "inner_product", "norm", "noise_variance", "to_long"], "fresh")

_put(["basis"], ["center", "mean", "normalize"], "basis_share")
_put(["basis"], ["rescale"], "basis_rescale")
_put(["basis"], ["covariance"], "basis_covariance")
_put(["basis"], ["to_grid"], "basis_to_grid")
_put(["basis"], ["standardize"], "basis_standardize", 0)
_put(["basis"], ["standardize"], "basis_standardize_nocenter", 1)
_put(["basis"], ["inner_product", "norm"], "fresh")

_put(["multivariate"], ["center"], "multi_copy_argvals")
_put(["multivariate"], ["standardize"], "multi_copy_argvals", 0)
_put(["multivariate"], ["standardize"], "multi_share_argvals", 1)
_put(["multivariate"], ["mean", "normalize", "smooth", "concatenate"], "multi_share_argvals")
_put(["multivariate"], ["covariance"], "multi_covariance")
_put(["multivariate"], ["rescale"], "multi_rescale")
_put(["multivariate"], ["to_basis"], "multi_to_basis")
_put(["multivariate"], ["to_grid"], "multi_to_grid")
_put(["multivariate"], ["inner_product", "norm", "noise_variance", "to_long", "count", "index"], "fresh")

# indexing: int / slice give a view of the values (coefficients), an index array a copy
for _k in DENSE + ["basis"]:
    _put([_k], ["__getitem__"], "getitem_view", 0)
    _put([_k], ["__getitem__"], "getitem_view", 1)
_put(DENSE, ["__getitem__"], "share_argvals", 2)
_put(["basis"], ["__getitem__"], "basis_share", 2)
_put(["multivariate"], ["__getitem__"], "multi_getitem_view", 0)
_put(["multivariate"], ["__getitem__"], "multi_getitem_view", 1)
_put(["multivariate"], ["__getitem__"], "multi_share_argvals", 2)
_put(["irregular"], ["__getitem__"], "getitem_irregular:1", 0)
_put(["irregular"], ["__getitem__"], "getitem_irregular:1.2", 1)
_put(["irregular"], ["__getitem__"], "getitem_irregular:0.2", 2)

# a user-supplied `points` list: the result sits on the caller's argvals objects
_put(["multivariate"], ["mean"], "multi_share_argvals", 2)  # without smoothing the `points` list is not used: the mean stays on the grids of the data
_put(["multivariate"], ["mean"], "multi_on_points", 3)
_put(["multivariate"], ["smooth"], "multi_on_points", 2)
_put(["multivariate"], ["covariance"], "multi_covariance_on_points", 1)
