"""C06 through the entry points that smooth with local polynomials and an explicit bandwidth.

`DenseFunctionalData.smooth/.mean/.covariance`, `IrregularFunctionalData.smooth/.mean`,
`MultivariateFunctionalData.smooth/.mean` (method 'LP', bandwidth / kernel / degree given): the value reported at a
point must be the kernel-weighted polynomial least-squares fit of the DATA OF THE CASE with the REQUESTED bandwidth
(exact model + independent NumPy reference), invariant under a common shift/rescaling of sampling points, query points
and bandwidth, and must reproduce polynomials up to the degree — on domains such as 1..365, not only on [0,1].
Used by harness/c06.py (case kind "entry").
"""
from fractions import Fraction

import numpy as np

from common import F, Rng, close, fl, rs

ENTRIES = ["dense_smooth", "dense_smooth", "dense_mean", "dense_cov", "irr_smooth", "irr_mean", "dense_smooth2d",
           "multi_smooth", "multi_mean", "dense_smooth3d"]
ENTRY_NAME = {
    "dense_smooth": "DenseFunctionalData.smooth", "dense_mean": "DenseFunctionalData.mean", "dense_cov": "DenseFunctionalData.covariance",
    "irr_smooth": "IrregularFunctionalData.smooth", "irr_mean": "IrregularFunctionalData.mean", "dense_smooth2d": "DenseFunctionalData.smooth",
    "dense_smooth3d": "DenseFunctionalData.smooth",
    "multi_smooth": "MultivariateFunctionalData.smooth", "multi_mean": "MultivariateFunctionalData.mean",
}
DOMS = {"unit": (Fraction(0), Fraction(1)), "doy": (Fraction(1), Fraction(364)), "shift1000": (Fraction(1000), Fraction(1)),
        "neg": (Fraction(-3), Fraction(5)), "end0": (Fraction(-1), Fraction(1)), "milli": (Fraction(0), Fraction(1, 1024))}
COMPACT = ["epanechnikov", "tricube", "bisquare"]


def _grid(rng: Rng, m):
    inner = sorted(rng.sample(range(1, 128), m - 2))
    return [Fraction(0)] + [Fraction(j, 128) for j in inner] + [Fraction(1)]


def gen_entry_case(rng: Rng, tier, force=None):
    force = force or {}
    entry = force.get("entry", rng.choice(ENTRIES))
    dom = force.get("dom", rng.choice(["unit", "doy", "doy", "shift1000", "neg", "end0", "milli"]))
    lo, sc = DOMS[dom]
    kernel = rng.choice(COMPACT + ["gaussian"])
    degree = rng.choice([0, 1, 1, 2])
    hu = rng.choice([Fraction(3, 8), Fraction(1, 2), Fraction(3, 4), Fraction(1)])
    three_d = entry == "dense_smooth3d"
    two_d = entry == "dense_smooth2d"
    if three_d:
        degree, hu = min(degree, 1), Fraction(1)
    m = 4 if three_d else rng.choice([6, 7]) if two_d else rng.choice([8, 9] if entry == "dense_cov" else [9, 13, 17])
    g = _grid(rng, m)
    if entry == "dense_cov":
        degree, hu = min(degree, 1), max(hu, Fraction(1, 2))
    if entry == "multi_smooth":
        kernel, degree = "epanechnikov", 1
    intgrid = entry in ("dense_smooth", "dense_mean", "dense_smooth2d") and (force.get("intgrid") or rng.random() < 0.3)
    if intgrid:
        # integer-valued sampling points (day numbers): the argvals are also handed over as int64 / int32 arrays
        dom = "doy"
        lo, sc = DOMS[dom]
        g = [Fraction(j, 364) for j in sorted(rng.sample(range(0, 365), m))]
        degree = max(degree, 1)
    own = not intgrid and entry in ("dense_smooth", "dense_mean") and (force.get("own") or rng.random() < 0.35)
    if own:
        # a nearly regular grid (relative spacing jitter ~2^-r) smoothed at its OWN points (points=None)
        r = rng.choice([7, 10, 13, 17, 23])
        m = rng.choice([17, 33])
        kk = 4 if m == 17 else 5
        g = [Fraction(i, 2 ** kk) + Fraction(rng.randint(-1, 1) if 0 < i < m - 1 else 0, 2 ** (kk + r)) for i in range(m)]
        hu = rng.choice([Fraction(3, 16), Fraction(1, 4)])
        if kernel == "gaussian":
            kernel = rng.choice(COMPACT)
    case = dict(kind="entry", entry=entry, dom=dom, kernel=kernel, degree=degree, h=rs(sc * hu), m=m)
    X = lambda v: [rs(lo + sc * t) for t in v]  # noqa: E731
    coefs = [rng.dyadic(-2, 2, 2) for _ in range(degree + 1)]
    poly = lambda t: sum(c * t ** k for k, c in enumerate(coefs))  # noqa: E731
    if intgrid:
        case["intgrid"] = True
    if three_d:
        g2, g3 = _grid(rng, 3), _grid(rng, 3)
        case["x"], case["x2"], case["x3"] = X(g), X(g2), X(g3)
        case["Y"] = [[[[rs(rng.dyadic(-4, 4, 3)) for _ in g3] for _ in g2] for _ in g] for _ in range(rng.randint(1, 2))]
        case["q"], case["q2"], case["q3"] = X([Fraction(40, 128), Fraction(90, 128)]), X([Fraction(30, 128), Fraction(70, 128)]), X([Fraction(64, 128)])
    elif two_d:
        g2 = _grid(rng, rng.choice([5, 6]))
        if intgrid:
            g2 = [Fraction(j, 364) for j in sorted(rng.sample(range(0, 365), len(g2)))]
        case["x"], case["x2"] = X(g), X(g2)
        case["Y"] = [[[rs(rng.dyadic(-4, 4, 3)) for _ in g2] for _ in g]]
        q1 = sorted(rng.sample(range(8, 120), 3))
        q2 = sorted(rng.sample(range(8, 120), 2))
        case["q"], case["q2"] = X([Fraction(j, 128) for j in q1]), X([Fraction(j, 128) for j in q2])
    elif entry.startswith("irr"):
        nobs = rng.randint(2, 3)
        obs = []
        for k in range(nobs):
            idx = sorted(rng.sample(range(m), rng.randint(max(6, m - 4), m)))
            gi = [g[i] for i in idx]
            ys = [poly(t) for t in gi] if (k == 0 and entry == "irr_smooth") else rng.dyadics(len(gi), -4, 4, 3)
            obs.append(dict(t=X(gi), y=[rs(v) for v in ys]))
        case["obs"] = obs
        case["poly_obs"] = 0 if entry == "irr_smooth" else None
    else:
        nobs = rng.randint(3, 4) if entry in ("dense_mean", "dense_cov", "multi_mean") else rng.randint(2, 3)
        rows = [rng.dyadics(m, -4, 4, 3) for _ in range(nobs)]
        if entry in ("dense_smooth", "multi_smooth"):
            rows[0] = [poly(t) for t in g]
            case["poly_obs"] = 0
        case["x"] = X(g)
        case["X"] = [[rs(v) for v in r] for r in rows]
    if own:
        case["own"] = True
        case["q"] = case["x"]
        case["polyq"] = [rs(poly(t)) for t in g]
    elif not two_d and not three_d:
        nq = 4 if entry == "dense_cov" else 5
        qs = sorted(set([g[rng.randrange(m)]] + [Fraction(rng.randint(2, 126), 128) for _ in range(nq)]))[:nq]
        case["q"] = X(qs)
        case["polyq"] = [rs(poly(t)) for t in qs]
    case["a"] = rs(rng.choice([Fraction(2), Fraction(364), Fraction(1, 1024), Fraction(-1), Fraction(7, 4), Fraction(1, 4)]))
    case["b"] = rs(rng.choice([Fraction(0), Fraction(1), Fraction(1000), Fraction(-5, 2)]))
    case["b2"] = rs(rng.choice([Fraction(0), Fraction(3), Fraction(-100)]))
    return case


# --------------------------------------------------------------------------
# implementation side
# --------------------------------------------------------------------------

def _Fv(v):
    return [F(t) for t in v]


def _relayout(a, layout):
    """The same numbers in another memory layout (never C-contiguous for arrays of dimension >= 2)."""
    a = np.asarray(a)
    if layout is None:
        return a
    if layout == "F":
        return np.asfortranarray(a) if a.ndim > 1 else a[::-1].copy()[::-1]
    if layout == "T":                                    # a transposed view: the last axis is the slowest in memory
        return np.moveaxis(np.ascontiguousarray(np.moveaxis(a, -1, 0)), 0, -1) if a.ndim > 1 else a[::-1].copy()[::-1]
    if layout == "neg":                                  # negative strides along the last axis
        return a[..., ::-1].copy()[..., ::-1]
    if layout == "slice":                                # a non-contiguous slice of a wider array
        big = np.zeros(a.shape[:-1] + (2 * a.shape[-1] + 1,), dtype=a.dtype)
        big[..., 1::2] = a
        return big[..., 1::2]
    raise ValueError(layout)


def _build(case, mapx, dtype=None, layout=None):
    """Data object of the case with the sampling points mapped by `mapx(list of Fractions, axis)`; returns (object, exact).
    `dtype`: hand the (integer-valued) sampling points over with this integer dtype."""
    from FDApy.representation.argvals import DenseArgvals, IrregularArgvals
    from FDApy.representation.functional_data import DenseFunctionalData, IrregularFunctionalData, MultivariateFunctionalData
    from FDApy.representation.values import DenseValues, IrregularValues

    exact = True

    def arr(v, axis=0):
        nonlocal exact
        ex = mapx(_Fv(v), axis)
        fv = [float(t) for t in ex]
        exact = exact and all(Fraction(f) == t for f, t in zip(fv, ex))
        a = np.array(fv) if dtype is None else np.array([int(t) for t in ex], dtype=dtype)
        return _relayout(a, "neg" if layout else None)

    def vals(nested):
        def conv(z):
            return [conv(t) for t in z] if isinstance(z, list) else float(F(z))
        return _relayout(np.array(conv(nested)), layout)

    entry = case["entry"]
    if entry.startswith("irr"):
        arg = IrregularArgvals({i: DenseArgvals({"input_dim_0": arr(o["t"])}) for i, o in enumerate(case["obs"])})
        val = IrregularValues({i: _relayout(np.array(fl(_Fv(o["y"]))), "neg" if layout else None) for i, o in enumerate(case["obs"])})
        return IrregularFunctionalData(arg, val), exact
    if entry in ("dense_smooth2d", "dense_smooth3d"):
        keys = ["x", "x2", "x3"][: 3 if entry == "dense_smooth3d" else 2]
        arg = DenseArgvals({f"input_dim_{k}": arr(case[key], min(k, 1)) for k, key in enumerate(keys)})
        fd = DenseFunctionalData(arg, DenseValues(vals(case["Y"])))
        return fd, exact
    fd = DenseFunctionalData(DenseArgvals({"input_dim_0": arr(case["x"])}), DenseValues(vals(case["X"])))
    if entry.startswith("multi"):
        fd2 = DenseFunctionalData(DenseArgvals({"input_dim_0": arr(case["x"])}), DenseValues(_relayout(np.array(vals(case["X"]))[::-1].copy(), layout)))
        return MultivariateFunctionalData([fd, fd2]), exact
    return fd, exact


def _points(case, mapx):
    from FDApy.representation.argvals import DenseArgvals

    exact = True
    d = {}
    if case.get("own"):
        return None, True   # points=None: the entry point evaluates at the sampling points of the data
    for axis, key in enumerate(["q", "q2", "q3"][: {"dense_smooth2d": 2, "dense_smooth3d": 3}.get(case["entry"], 1)]):
        ex = mapx(_Fv(case[key]), min(axis, 1))
        fv = [float(t) for t in ex]
        exact = exact and all(Fraction(f) == t for f, t in zip(fv, ex))
        d[f"input_dim_{axis}"] = np.array(fv)
    return DenseArgvals(d), exact


def _call(case, fd, pts, h):
    entry = case["entry"]
    kw = dict(kernel_name=case["kernel"], degree=case["degree"])
    if entry in ("dense_smooth", "irr_smooth", "dense_smooth2d", "dense_smooth3d"):
        return np.asarray(fd.smooth(points=pts, method="LP", bandwidth=h, **kw).values)
    if entry in ("dense_mean", "irr_mean"):
        return np.asarray(fd.mean(points=pts, method_smoothing="LP", bandwidth=h, **kw).values)
    if entry == "dense_cov":
        # the mean used for centring is smoothed with the same explicit options (its default bandwidth is a function of
        # the number of points only and is documented as meant for [0,1])
        return np.asarray(fd.covariance(points=pts, method_smoothing="LP", bandwidth=h, kwargs_center=dict(bandwidth=h, **kw), **kw).values)
    if entry == "multi_smooth":
        # the wrapper takes its parameters as lists and forwards the remaining keyword arguments unchanged to every
        # component, so kernel / degree can only be left at their defaults (epanechnikov, 1)
        import FDApy.representation.functional_data as fdm

        seen = []
        orig = fdm.LocalPolynomial

        class Rec(orig):
            def __init__(self, *a, **k):
                orig.__init__(self, *a, **k)
                seen.append(float(self.bandwidth))

        fdm.LocalPolynomial = Rec
        try:
            res = fd.smooth(points=[pts, pts], method="LP", bandwidth=[h, h])
        finally:
            fdm.LocalPolynomial = orig
        _SEEN["h"] = seen[0] if seen else None
        return np.asarray(res.data[0].values)
    res = fd.mean(points=[pts, pts], method_smoothing="LP", bandwidth=h, **kw)
    return np.asarray(res.data[0].values)


_SEEN = {}


def _known_data(case):
    """[(x, y)] exact data of the local problems whose answers the entry point reports (one per output row), or None."""
    entry = case["entry"]
    if entry in ("dense_smooth", "multi_smooth"):
        return [(_Fv(case["x"]), _Fv(r)) for r in case["X"]]
    if entry in ("dense_mean", "multi_mean"):
        rows = [_Fv(r) for r in case["X"]]
        return [(_Fv(case["x"]), [sum(col) / len(rows) for col in zip(*rows)])]
    if entry == "irr_smooth":
        return [(_Fv(o["t"]), _Fv(o["y"])) for o in case["obs"]]
    if entry == "irr_mean":
        xs = [t for o in case["obs"] for t in _Fv(o["t"])]
        ys = [t for o in case["obs"] for t in _Fv(o["y"])]
        return [(xs, ys)]
    return None


def run_entry(case):
    import warnings

    import c06

    warnings.simplefilter("ignore")
    h = float(F(case["h"]))
    ident = lambda v, axis: v  # noqa: E731
    fd, _ = _build(case, ident)
    pts, _ = _points(case, ident)
    _SEEN.clear()
    out = dict(vals=_call(case, fd, pts, h).tolist())
    out["seen_h"] = _SEEN.get("h")
    if case.get("intgrid"):
        out["int_vals"] = {}
        for dt in (np.int64, np.int32):
            try:
                fdi, _ = _build(case, ident, dtype=dt)
                out["int_vals"][np.dtype(dt).name] = _call(case, fdi, pts, h).tolist()
            except Exception as e:  # noqa: BLE001
                out["int_vals"][np.dtype(dt).name] = f"{type(e).__name__}: {str(e)[:80]}"
    # memory layout of the values and of the grids: the same numbers must give the same estimates
    out["layouts"] = {}
    for lay in ("F", "T", "neg", "slice"):
        try:
            fdl, _ = _build(case, ident, layout=lay)
            out["layouts"][lay] = _call(case, fdl, pts, h).tolist()
        except Exception as e:  # noqa: BLE001
            out["layouts"][lay] = f"{type(e).__name__}: {str(e)[:80]}"
    aF, shifts = F(case["a"]), [F(case["b"]), F(case["b2"])]
    aff = lambda v, axis: [aF * t + shifts[axis] for t in v]  # noqa: E731
    fda, e1 = _build(case, aff)
    ptsa, e2 = _points(case, aff)
    hF = abs(aF) * F(case["h"])
    out["affine"] = _call(case, fda, ptsa, float(hF)).tolist()
    out["affine_exact"] = bool(e1 and e2 and Fraction(float(hF)) == hF)
    data = _known_data(case)
    if data is not None:
        q = np.array(fl(_Fv(case["q"])))
        ref, cond, npos = [], [], []
        for xs, ys in data:
            r, c, k = c06.reference_wls(np.array(fl(xs)), np.array(fl(ys)), q, h, case["kernel"], case["degree"])
            ref.append(r), cond.append(c), npos.append(k)
        out["_ref"], out["_cond"], out["_npos"] = ref, cond, npos
        if case["entry"] == "multi_smooth" and out.get("seen_h") is not None:
            out["_cond_impl"], out["_npos_impl"] = [], []
            for xs, ys in data:
                _, c, k = c06.reference_wls(np.array(fl(xs)), np.array(fl(ys)), q, float(out["seen_h"]), case["kernel"], case["degree"])
                out["_cond_impl"].append(c), out["_npos_impl"].append(k)
    elif case["entry"] == "dense_smooth3d":
        x = np.array([[float(F(a)), float(F(b)), float(F(c))] for a in case["x"] for b in case["x2"] for c in case["x3"]])
        q = np.array([[float(F(a)), float(F(b)), float(F(c))] for a in case["q"] for b in case["q2"] for c in case["q3"]])
        ref, cond, npos = [], [], []
        for Yk in case["Y"]:
            y = np.array([float(F(t)) for A in Yk for B in A for t in B])
            r, c, k = c06.reference_wls(x, y, q, h, case["kernel"], case["degree"])
            ref.append(r), cond.append(c), npos.append(k)
        out["_ref"], out["_cond"], out["_npos"] = ref, cond, npos
    elif case["entry"] == "dense_smooth2d":
        x = np.array([[float(F(a)), float(F(b))] for a in case["x"] for b in case["x2"]])
        q = np.array([[float(F(a)), float(F(b))] for a in case["q"] for b in case["q2"]])
        y = np.array([[float(F(t)) for t in r] for r in case["Y"][0]]).ravel()
        r, c, k = c06.reference_wls(x, y, q, h, case["kernel"], case["degree"])
        out["_ref"], out["_cond"], out["_npos"] = [r], [c], [k]
    return out


# --------------------------------------------------------------------------
# model side
# --------------------------------------------------------------------------

def _impl_bandwidth(case, impl=None):
    """Bandwidth the CODE AS IT IS uses (the `…Impl` side of the model).  Open finding
    C06-multivariate-smooth-bandwidth: `MultivariateFunctionalData.smooth` does not forward `bandwidth`, every component
    falls back to its default n^(-1/5).  Whether the tree under test forwards it is observed, not assumed: the value
    that reached the smoother is captured from outside in `run_entry`."""
    if case["entry"] == "multi_smooth" and impl is not None and impl.get("seen_h") is not None:
        return rs(F(float(impl["seen_h"])))
    return case["h"]


def entry_model_lines(case, impl):
    J = ",".join
    R = lambda v: J(rs(t) for t in v)  # noqa: E731
    data = _known_data(case)
    if data is not None:
        h = _impl_bandwidth(case, impl)
        return [f"lp1 {case['kernel']} {h} {case['degree']} {R(xs)} {R(ys)} {J(case['q'])}" for xs, ys in data]
    if case["entry"] == "dense_smooth2d":
        x1 = [a for a in case["x"] for _ in case["x2"]]
        x2 = [b for _ in case["x"] for b in case["x2"]]
        q1 = [a for a in case["q"] for _ in case["q2"]]
        q2 = [b for _ in case["q"] for b in case["q2"]]
        y = [t for r in case["Y"][0] for t in r]
        return [f"lp2 {case['kernel']} {case['h']} {case['degree']} {J(x1)} {J(x2)} {J(y)} {J(q1)} {J(q2)}"]
    return []


def _rows(case, vals):
    a = np.asarray(vals, dtype=float)
    return a.reshape(a.shape[0], -1)


def _scale_of(case, k):
    data = _known_data(case)
    if data is not None:
        return max([abs(float(t)) for t in data[min(k, len(data) - 1)][1]] + [1e-300])
    if case["entry"] == "dense_smooth3d":
        return max([abs(float(F(t))) for A in case["Y"][min(k, len(case["Y"]) - 1)] for B in A for t in B] + [1e-300])
    if case["entry"] == "dense_smooth2d":
        return max([abs(float(F(t))) for r in case["Y"][0] for t in r] + [1e-300])
    return max([abs(float(F(t))) for r in case["X"] for t in r] + [1e-300]) ** 2


def _ok(case, impl, k, j, as_impl=False):
    import c06

    need = {"dense_smooth2d": len(c06.monos2(case["degree"])), "dense_smooth3d": 1 + 3 * case["degree"]}.get(case["entry"], case["degree"] + 1)
    ck, nk = ("_cond_impl", "_npos_impl") if (as_impl and "_cond_impl" in impl) else ("_cond", "_npos")
    c, n = impl[ck][k][j], impl[nk][k][j]
    return np.isfinite(c) and c <= c06.COND_OK and n >= need


def entry_compare(case, impl, model):
    import c06

    if "__crash__" in impl:
        return [f"implementation crashed: {impl['__crash__']} {impl.get('msg')}"]
    ds = []
    outs = model.get("outs", [])
    if not outs:
        return ds
    rows = _rows(case, impl["vals"])
    if len(rows) != len(outs):
        return [f"{ENTRY_NAME[case['entry']]}: {len(rows)} output rows vs {len(outs)} local problems of the data"]
    for k, (row, o) in enumerate(zip(rows, outs)):
        est = o.split(",")
        sc = _scale_of(case, k)
        for j, (f, e) in enumerate(zip(row, est)):
            if e == "s" or not _ok(case, impl, k, j, as_impl=True):
                continue
            if not close(f, Fraction(e), sc, c06.RTOL_MODEL):
                ds.append(f"{ENTRY_NAME[case['entry']]}(LP, bandwidth={case['h']}, {case['kernel']}, degree {case['degree']}) on domain {case['dom']}: "
                          f"row {k}, point {j}: impl {f!r} vs exact weighted least squares of the data with the requested bandwidth {float(Fraction(e))!r}")
                break
    return ds[:3]


def entry_oracle(case, impl):
    import c06

    entry = ENTRY_NAME[case["entry"]]
    if "__crash__" in impl:
        return [dict(clause="runs", entry=entry, msg=f"crash {impl['__crash__']}: {impl.get('msg')} {impl.get('tb', '')[-300:]}", causes=[case["dom"]])]
    vs = []
    causes = [case["dom"]] + (["away_from_unit_interval"] if case["dom"] not in ("unit",) else [])

    def bad(clause, msg, extra=()):
        if not any(v["clause"] == clause for v in vs):
            vs.append(dict(clause=clause, entry=entry, msg=msg, causes=causes + list(extra)))

    where = f"{entry}(method LP, bandwidth={case['h']}, {case['kernel']}, degree {case['degree']}), domain {case['dom']}"
    rows = _rows(case, impl["vals"])
    arows = _rows(case, impl["affine"])
    if not np.all(np.isfinite(rows)):
        bad("finite", f"non-finite value from {where}")
    for name, r in impl.get("layouts", {}).items():
        desc = {"F": "Fortran order", "T": "a transposed (moveaxis) view", "neg": "negative strides", "slice": "a non-contiguous slice of a wider array"}[name]
        if isinstance(r, str):
            bad("memory_layout", f"values / grids in {desc}: raises {r} (the C-contiguous arrays with the same numbers are accepted) — {where}")
        else:
            rl = _rows(case, r)
            if rl.shape != rows.shape or not np.allclose(rl, rows, rtol=0, atol=1e-10 * max(_scale_of(case, 0), 1e-300)):
                i_ = int(np.argmax(np.abs(rl - rows))) if rl.shape == rows.shape else 0
                bad("memory_layout", f"values / grids in {desc}: value {rl.ravel()[i_]!r} but the C-contiguous arrays with the same numbers give {rows.ravel()[i_]!r} — {where}")
    for name, r in impl.get("int_vals", {}).items():
        if isinstance(r, str):
            bad("dtype_inputs", f"sampling points as {name}: raises {r} (the same numbers as float64 are accepted) — {where}")
        else:
            ri = _rows(case, r)
            if ri.shape != rows.shape or not np.allclose(ri, rows, rtol=0, atol=1e-9 * max(_scale_of(case, 0), 1e-300)):
                i_ = int(np.argmax(np.abs(ri - rows))) if ri.shape == rows.shape else 0
                bad("dtype_inputs", f"sampling points as {name}: value {ri.ravel()[i_]!r} but the same grid as float64 gives {rows.ravel()[i_]!r} — {where}")
    have_ref = "_ref" in impl
    for k, row in enumerate(rows):
        sc = _scale_of(case, k)
        for j, f in enumerate(row):
            ok = _ok(case, impl, min(k, len(impl["_cond"]) - 1), j) if have_ref and k < len(impl["_cond"]) else None
            if have_ref and k < len(impl["_ref"]) and ok:
                g = impl["_ref"][k][j]
                if not abs(f - g) <= c06.RTOL_ORACLE * sc:
                    extra = ["bandwidth_ignored"] if case["entry"] == "multi_smooth" else []
                    bad("wls", f"value {f!r} but the kernel-weighted polynomial least squares of the data with the requested bandwidth gives {g!r} (row {k}, point {case['q'][j] if case['entry'] != 'dense_smooth2d' else j}) — {where}", extra)
                if case.get("poly_obs") == k and case["entry"] != "multi_smooth":
                    pv = float(F(case["polyq"][j]))
                    if not abs(f - pv) <= c06.RTOL_ORACLE * sc:
                        extra = ["bandwidth_ignored"] if case["entry"] == "multi_smooth" else []
                        bad("reproduces_polynomials", f"a polynomial of degree {case['degree']} with value {pv!r} is estimated as {f!r} (point {case['q'][j]}) — {where}", extra)
            if impl.get("affine_exact") and (ok or (not have_ref)) and case["entry"] != "multi_smooth":
                g = arows[k][j]
                if not (np.isfinite(g) and abs(f - g) <= c06.RTOL_ORACLE * sc):
                    extra = ["bandwidth_ignored"] if case["entry"] == "multi_smooth" else []
                    bad("shift_scale", f"value {f!r} becomes {g!r} after t -> {case['a']} t + {case['b']} of sampling and query points with bandwidth x |a| — {where}", extra)
    return vs
