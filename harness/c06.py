"""C06 — local polynomial regression is the kernel-weighted least-squares fit per point."""
from fractions import Fraction

import ast
import os

import numpy as np

import c06_entries
import smooth_translate
import common
from common import F, InfraError, Rng, close, digest, err_class, fl, rs, vec

PROP = "C06"
MODULES = ["FDAProofs.Props.C06"]
DRIVER = "Drivers/C06.lean"
PARALLEL = True
RULE = (
    "seeded structured cases: 1-D and 2-D scattered designs (n 5..200; uniform, scattered, unsorted, with ties), "
    "kernels {gaussian, epanechnikov, tricube, bisquare}, degree 0..3, bandwidth from a few spacings to the whole "
    "range, 3-7 query points inside the design range (design points, off-grid points, end points); sampling domains "
    "[0,1], [1,365], [1000,1001], 2^-10-scaled, negative; plus kernel-value and parameter-rejection cases. A case is "
    "non-trivial when at least one query has a well-conditioned centred/scaled local problem (cond <= 1e5) and the "
    "responses are not all equal; distinct by content hash"
)
PARTIAL = [
    "IEEE rounding and LAPACK lstsq(rcond=1e-10) are not modelled: the float estimate is compared with the exact "
    "rational weighted-least-squares value at 1e-8 x response scale, only where the centred, bandwidth-scaled "
    "normal matrix has condition number <= 1e5 (otherwise: finiteness only)",
    "Gaussian weights (exp) and the square root inside the 2-D tricube weight are evaluated with Lean Float in the "
    "driver; the theorems about the Gaussian kernel are over the reals",
    "2-D shift/scale invariance: proved for every compact kernel given a distance function homogeneous on the data "
    "(C06.shift_scale_invariant_2d) and for arbitrary equal weights (…_weights); that the float Euclidean norm is such a "
    "function, and the Gaussian weights, are sampled",
    "the default bandwidth n^(-1/5): the count n per entry point is modelled exactly (bandwidthCount) and compared with "
    "the bandwidth captured at the smoother (C07 harness); the fifth root itself is float",
]
TRUSTED_EXTRA = ["translators harness/c06.py (kernels) and harness/smooth_translate.py (syntax -> lean/FDAModel/Core/NpLP.lean combinators; the meaning of each NumPy operation is stated there)", "sklearn.preprocessing.PolynomialFeatures: monomials of total degree <= d, graded order (re-checked by the correspondence on every run)"]

KERNELS = ["gaussian", "epanechnikov", "tricube", "bisquare"]
COND_OK = 1e5      # centred/scaled normal matrix: compare values only below this
RTOL_MODEL = 1e-8  # float estimate vs exact rational value, relative to the response scale
RTOL_ORACLE = 1e-7  # relations between two float runs of the implementation

DOMAINS = {
    # name: (lo, scale)
    "unit": (Fraction(0), Fraction(1)),
    "doy": (Fraction(1), Fraction(364)),
    "shift1000": (Fraction(1000), Fraction(1)),
    "milli": (Fraction(0), Fraction(1, 1024)),
    "neg": (Fraction(-3), Fraction(5)),
    "end0": (Fraction(-1), Fraction(1)),      # ends exactly at 0
    "allneg": (Fraction(-5), Fraction(3)),    # entirely negative
    "nano": (Fraction(0), Fraction(1, 2 ** 30)),          # ~1e-9 wide
    "julian": (Fraction(2 ** 21), Fraction(64)),          # offset ~2.1e6 >> spread
    "giga": (Fraction(0), Fraction(2 ** 30)),             # ~1e9 wide
}


# --------------------------------------------------------------------------
# translator: the kernels of local_polynomial.py -> lean/FDAModel/Generated/Kernels.lean
# --------------------------------------------------------------------------

GEN_FILE = os.path.join(common.LEAN_DIR, "FDAModel", "Generated", "Kernels.lean")
_KERNEL_FUNCS = [("_epanechnikov", "epanechnikovGen"), ("_tri_cube", "tricubeGen"), ("_bi_square", "bisquareGen")]


class _Shape(ValueError):
    pass


def _q(v):
    """A numeric literal of the source as an exact rational (its decimal text, not its binary rounding)."""
    if isinstance(v, bool) or not isinstance(v, (int, float)):
        raise _Shape(f"unsupported literal {v!r}")
    fr = Fraction(str(v))
    return f"(({fr.numerator} : ℚ) / {fr.denominator})" if fr.denominator != 1 else f"({fr.numerator} : ℚ)"


def _is_np(node, name):
    return isinstance(node, ast.Call) and isinstance(node.func, ast.Attribute) and node.func.attr == name and isinstance(node.func.value, ast.Name) and node.func.value.id == "np"


def _expr(node, arg, idx, env=None):
    """Python expression over the kernel argument -> Lean term over `u : ℚ` (`env`: simple local assignments to inline)."""
    if env:
        inner = lambda n, a, i: _expr_core(n, a, i, lambda m: _expr(m, arg, idx, env))  # noqa: E731
        if isinstance(node, ast.Name) and node.id in env and node.id != arg:
            return _expr(env[node.id], arg, idx, {k: v for k, v in env.items() if k != node.id})
        return inner(node, arg, idx)
    return _expr_core(node, arg, idx, lambda m: _expr(m, arg, idx))


def _expr_core(node, arg, idx, rec):
    if isinstance(node, ast.Constant):
        return _q(node.value)
    if isinstance(node, ast.Name) and node.id == arg:
        return "u"
    if isinstance(node, ast.Subscript) and isinstance(node.value, ast.Name) and node.value.id == arg and isinstance(node.slice, ast.Name) and node.slice.id == idx:
        return "u"
    if isinstance(node, ast.UnaryOp) and isinstance(node.op, ast.USub):
        return f"(-{rec(node.operand)})"
    if isinstance(node, ast.BinOp):
        if isinstance(node.op, ast.Pow):
            if not (isinstance(node.right, ast.Constant) and isinstance(node.right.value, int) and node.right.value >= 0):
                raise _Shape("exponent is not a non-negative integer literal")
            return f"({rec(node.left)} ^ {node.right.value})"
        ops = {ast.Add: "+", ast.Sub: "-", ast.Mult: "*", ast.Div: "/"}
        if type(node.op) not in ops:
            raise _Shape(f"unsupported operator {type(node.op).__name__}")
        return f"({rec(node.left)} {ops[type(node.op)]} {rec(node.right)})"
    if _is_np(node, "square") and len(node.args) == 1:
        return f"({rec(node.args[0])} ^ 2)"
    if _is_np(node, "abs") and len(node.args) == 1:
        return f"|{rec(node.args[0])}|"
    if _is_np(node, "power") and len(node.args) == 2:
        e = node.args[1]
        if not (isinstance(e, ast.Constant) and isinstance(e.value, int) and e.value >= 0):
            raise _Shape("np.power exponent is not a non-negative integer literal")
        return f"({rec(node.args[0])} ^ {e.value})"
    raise _Shape(f"unsupported expression {ast.dump(node)[:80]}")


_CMPOPS = {ast.Lt: "<", ast.LtE: "≤", ast.Gt: ">", ast.GtE: "≥"}


def _strip_doc(fn):
    return [st for st in fn.body if not (isinstance(st, ast.Expr) and isinstance(st.value, ast.Constant))]


def _compare(c, arg, idx, env=None):
    if not (isinstance(c, ast.Compare) and len(c.ops) == 1 and type(c.ops[0]) in _CMPOPS):
        raise _Shape("support condition is not a single comparison")
    return f"{_expr(c.left, arg, idx, env)} {_CMPOPS[type(c.ops[0])]} {_expr(c.comparators[0], arg, idx, env)}"


def _via_helper(fn, fns):
    """One level of helper call: `return helper(x, lambda u: <expr>, closed=<bool>)` where the helper selects
    `np.where(<c1>) if closed else np.where(<c2>)`, writes `kernel[support] = profile(x[support])` into zeros."""
    body = _strip_doc(fn)
    call = body[0].value
    helper = fns.get(call.func.id) if isinstance(call.func, ast.Name) else None
    if helper is None:
        raise _Shape("returns a call of an unknown function")
    params = [a.arg for a in helper.args.args]
    actual = dict(zip(params, call.args))
    actual.update({k.arg: k.value for k in call.keywords})
    lams = [(k, v) for k, v in actual.items() if isinstance(v, ast.Lambda)]
    flags = [(k, v) for k, v in actual.items() if isinstance(v, ast.Constant) and isinstance(v.value, bool)]
    xs = [k for k, v in actual.items() if isinstance(v, ast.Name) and v.id == fn.args.args[0].arg]
    if len(lams) != 1 or len(flags) > 1 or len(xs) != 1 or len(lams[0][1].args.args) != 1:
        raise _Shape("helper call is not (x, lambda u: ..., <bool>)")
    (pname, lam), xh = lams[0], xs[0]
    hb = _strip_doc(helper)
    env, where, zeros, store = {}, None, None, None
    for st in hb[:-1]:
        if not (isinstance(st, ast.Assign) and len(st.targets) == 1):
            raise _Shape("helper has a statement that is not a simple assignment")
        t, v = st.targets[0], st.value
        if isinstance(t, ast.Name) and _is_np(v, "zeros"):
            zeros = t.id
        elif isinstance(t, ast.Name) and (_is_np(v, "where") or isinstance(v, ast.IfExp)):
            if isinstance(v, ast.IfExp):
                if not (flags and isinstance(v.test, ast.Name) and v.test.id == flags[0][0] and _is_np(v.body, "where") and _is_np(v.orelse, "where")):
                    raise _Shape("helper support selection is not `np.where(c1) if <flag> else np.where(c2)`")
                v = v.body if flags[0][1].value else v.orelse
            where = (t.id, v.args[0])
        elif isinstance(t, ast.Name):
            env[t.id] = v
        elif isinstance(t, ast.Subscript):
            store = st
        else:
            raise _Shape("unsupported assignment in the helper")
    if zeros is None or where is None or store is None:
        raise _Shape("helper lacks zeros / np.where / the masked store")
    t, v = store.targets[0], store.value
    ok = (isinstance(t.value, ast.Name) and t.value.id == zeros and isinstance(t.slice, ast.Name) and t.slice.id == where[0]
          and isinstance(v, ast.Call) and isinstance(v.func, ast.Name) and v.func.id == pname and len(v.args) == 1
          and isinstance(v.args[0], ast.Subscript) and isinstance(v.args[0].value, ast.Name) and v.args[0].value.id == xh
          and isinstance(v.args[0].slice, ast.Name) and v.args[0].slice.id == where[0]
          and isinstance(hb[-1], ast.Return) and isinstance(hb[-1].value, ast.Name) and hb[-1].value.id == zeros)
    if not ok:
        raise _Shape("helper does not store profile(x[support]) into the zero array and return it")
    return _compare(where[1], xh, where[0], env), _expr(lam.body, lam.args.args[0].arg, None)


def _compact_kernel(fn, fns=None):
    """`k = np.zeros(x.shape); idx = np.where(<cond on x>); k[idx] = <expr>; return k` -> (cond, expr) in Lean."""
    arg = fn.args.args[0].arg
    body = _strip_doc(fn)
    if len(body) == 1 and isinstance(body[0], ast.Return) and isinstance(body[0].value, ast.Call) and fns is not None:
        return _via_helper(fn, fns)
    if len(body) != 4:
        raise _Shape(f"{len(body)} statements instead of 4")
    z, w, a, r = body
    if not (isinstance(z, ast.Assign) and _is_np(z.value, "zeros") and isinstance(z.targets[0], ast.Name)):
        raise _Shape("first statement is not `kernel = np.zeros(...)`")
    kname = z.targets[0].id
    if not (isinstance(w, ast.Assign) and _is_np(w.value, "where") and len(w.value.args) == 1 and isinstance(w.targets[0], ast.Name)):
        raise _Shape("second statement is not `idx = np.where(<condition>)`")
    idx = w.targets[0].id
    c = w.value.args[0]
    cond = _compare(c, arg, idx)
    if not (isinstance(a, ast.Assign) and isinstance(a.targets[0], ast.Subscript) and isinstance(a.targets[0].value, ast.Name)
            and a.targets[0].value.id == kname and isinstance(a.targets[0].slice, ast.Name) and a.targets[0].slice.id == idx):
        raise _Shape("third statement is not `kernel[idx] = <expression>`")
    if not (isinstance(r, ast.Return) and isinstance(r.value, ast.Name) and r.value.id == kname):
        raise _Shape("last statement is not `return kernel`")
    return cond, _expr(a.value, arg, idx)


def _gaussian_constants(fn):
    """`return np.exp(-np.square(x) / c1) / np.sqrt(c2 * np.pi)` -> (c1, c2)."""
    arg = fn.args.args[0].arg
    body = [st for st in fn.body if not (isinstance(st, ast.Expr) and isinstance(st.value, ast.Constant))]
    if not (len(body) == 1 and isinstance(body[0], ast.Return)):
        raise _Shape("body is not a single return")
    v = body[0].value
    ok = (isinstance(v, ast.BinOp) and isinstance(v.op, ast.Div) and _is_np(v.left, "exp") and _is_np(v.right, "sqrt"))
    if ok:
        e, sq = v.left.args[0], v.right.args[0]
        ok = (isinstance(e, ast.BinOp) and isinstance(e.op, ast.Div) and isinstance(e.left, ast.UnaryOp) and isinstance(e.left.op, ast.USub)
              and _is_np(e.left.operand, "square") and isinstance(e.left.operand.args[0], ast.Name) and e.left.operand.args[0].id == arg
              and isinstance(e.right, ast.Constant)
              and isinstance(sq, ast.BinOp) and isinstance(sq.op, ast.Mult) and isinstance(sq.left, ast.Constant)
              and isinstance(sq.right, ast.Attribute) and sq.right.attr == "pi")
    if not ok:
        raise _Shape("not of the form np.exp(-np.square(x) / c1) / np.sqrt(c2 * np.pi)")
    return _q(e.right.value), _q(sq.left.value)


def kernels_lean_source(path):
    tree = ast.parse(open(path).read())
    fns = {n.name: n for n in tree.body if isinstance(n, ast.FunctionDef)}
    lines = ["/-",
             "GENERATED by harness/c06.py `translate()` from FDApy/preprocessing/smoothing/local_polynomial.py",
             "(`_epanechnikov`, `_tri_cube`, `_bi_square`: support comparison and polynomial expression; `_gaussian`: constants).",
             "Do not edit: regenerated on every run of `./check C06`.  `C06.kernel_gen_eq_model` proves these equal the model's kernels.",
             "-/", "import FDAModel.Core.Quadrature", "", "namespace FDA.Generated", ""]
    for py, lean in _KERNEL_FUNCS:
        if py not in fns:
            raise _Shape(f"function {py} not found")
        try:
            cond, expr = _compact_kernel(fns[py], fns)
        except _Shape as e:
            raise _Shape(f"{py}: {e}")
        lines += [f"/-- `{py}` as the source has it. -/", f"def {lean} (u : ℚ) : ℚ := if {cond} then {expr} else 0", ""]
    if "_gaussian" not in fns:
        raise _Shape("function _gaussian not found")
    try:
        c1, c2 = _gaussian_constants(fns["_gaussian"])
    except _Shape as e:
        raise _Shape(f"_gaussian: {e}")
    lines += ["/-- `_gaussian(x) = exp(-x² / gaussExpDiv) / sqrt(gaussNormCoef · π)`: the two constants of the source. -/",
              f"def gaussExpDiv : ℚ := {c1}", f"def gaussNormCoef : ℚ := {c2}", "", "end FDA.Generated", ""]
    return "\n".join(lines)


TRANSLATOR_NOTE = None
KERNELS_REFERENCE = os.path.join(os.path.dirname(os.path.abspath(__file__)), "c06_kernels_reference.lean")


def translate():
    """Regenerate Generated/Kernels.lean and Generated/SmoothFormulas.lean from what the source says now.  A source whose
    shape is not recognised (a refactor) is NOT an alarm: the reference translation stored beside the translator is used
    (not what an earlier run left in Generated/), the evidence says that the tie to the source rests on the correspondence
    only for this run.  Only a successful translation can break a proof obligation."""
    global TRANSLATOR_NOTE
    path = os.path.join(common.REPO, "FDApy", "preprocessing", "smoothing", "local_polynomial.py")
    try:
        src = kernels_lean_source(path)
        note = "translator: kernels regenerated from the source and re-proved equal to the model (C06.kernel_gen_eq_model)"
    except (ValueError, SyntaxError, IndexError, AttributeError, KeyError, TypeError) as e:
        src = open(KERNELS_REFERENCE).read()
        note = f"translator: kernel source shape not recognised, reference translation used, tie rests on the correspondence only ({e})"
        print("note:", note)
    except OSError as e:
        raise InfraError(f"translator: cannot read {path}: {e}")
    old = open(GEN_FILE).read() if os.path.exists(GEN_FILE) else None
    if old != src:
        os.makedirs(os.path.dirname(GEN_FILE), exist_ok=True)
        with open(GEN_FILE, "w") as fh:
            fh.write(src)
    try:
        note2 = smooth_translate.regenerate(common.REPO, common.LEAN_DIR)
    except OSError as e:
        raise InfraError(f"translator: cannot read the sources under {common.REPO}: {e}")
    TRANSLATOR_NOTE = note + "; " + note2


# --------------------------------------------------------------------------
# generation
# --------------------------------------------------------------------------

def _unit_points(rng: Rng, n, kind):
    """n points of [0,1] as dyadic rationals (<= 10 bits)."""
    if kind == "uniform":
        k = 0
        while 2 ** k < n - 1:
            k += 1
        # uniform over the whole of [0,1] needs n-1 | 2^k; otherwise use step 2^-k on a sub-range and stretch by a dyadic
        pts = [Fraction(i, n - 1) if _pow2(n - 1) else Fraction(i, 2 ** k) for i in range(n)]
        return pts
    if kind == "hole":
        # two dense clusters [0, 3/16] and [13/16, 1] (spacing 2^-8) with a hole of 5/8 between them
        return [Fraction(i, 256) for i in range(0, 49)] + [Fraction(i, 256) for i in range(208, 257)]
    if kind.startswith("nearly_uniform"):
        # a regular grid whose spacings are jittered by a relative amount of about 2^-r (r = 7, 10, 17, 23: 1e-2 … 1e-7),
        # all points exact dyadic rationals; `nearly_uniform:<r>`
        r = int(kind.split(":")[1])
        k = 0
        while 2 ** k < n - 1:
            k += 1
        return [Fraction(i, 2 ** k) + Fraction(rng.randint(-1, 1) if 0 < i < n - 1 else 0, 2 ** (k + r)) for i in range(n)]
    bits = 10
    if kind == "ties":
        m = max(3, n // 2)
        base = sorted(rng.sample(range(0, 2 ** bits + 1), min(m, 2 ** bits)))
        pts = [Fraction(rng.choice(base), 2 ** bits) for _ in range(n)]
        pts[0], pts[-1] = Fraction(base[0], 2 ** bits), Fraction(base[-1], 2 ** bits)
        return sorted(pts)
    ints = sorted(rng.sample(range(0, 2 ** bits + 1), n))
    return [Fraction(j, 2 ** bits) for j in ints]


def _pow2(n):
    return n > 0 and (n & (n - 1)) == 0


def _poly_vals(coefs, pts):
    return [sum(c * t ** k for k, c in enumerate(coefs)) for t in pts]


def _poly2_vals(coefs, monos, p1, p2):
    return [sum(c * a ** e[0] * b ** e[1] for c, e in zip(coefs, monos)) for a, b in zip(p1, p2)]


def monos2(d):
    return [(t - s, s) for t in range(d + 1) for s in range(t + 1)]


def _responses(rng: Rng, n, g, kind):
    if kind == "const":
        c = rng.dyadic(-4, 4, 2)
        return [c] * n
    if kind == "smooth":
        a, b, c, d4 = (rng.dyadic(-2, 2, 2) for _ in range(4))
        return [a + b * t + c * t * t * 4 + d4 * (t - Fraction(1, 2)) ** 4 * 16 for t in g]
    if kind == "step":
        return [Fraction(1) if t > Fraction(1, 2) else Fraction(-1) for t in g]
    return rng.dyadics(n, -8, 8, 4)


def _bandwidth(rng: Rng, n, dim, wide):
    """Bandwidth in units of the domain scale."""
    if wide:
        return rng.choice([Fraction(1, 4), Fraction(3, 8), Fraction(1, 2), Fraction(3, 4), Fraction(1), Fraction(3, 2)])
    if dim == 1:
        # a few spacings
        k = rng.choice([2, 3, 4, 6, 8])
        h = Fraction(k, max(n - 1, 1))
    else:
        k = rng.choice([2, 3, 4])
        h = Fraction(k) / Fraction(max(int(round(n ** 0.5)), 1))
    # round to a dyadic with 8 bits, at least 2^-8
    h = Fraction(max(1, round(h * 256)), 256)
    return min(h, Fraction(3, 2))


def _lp_case(rng: Rng, tier, force=None):
    force = force or {}
    dim = force.get("dim", rng.choice([1, 1, 1, 2]))
    dom = force.get("dom", rng.choice(["unit", "unit", "doy", "shift1000", "milli", "neg", "end0", "allneg", "nano", "julian", "giga"]))
    lo, scale = DOMAINS[dom]
    kernel = force.get("kernel", rng.choice(KERNELS))
    degree = force.get("degree", rng.choice([0, 1, 1, 2, 2, 3]))
    big = tier == "thorough"
    if dim == 1:
        n = rng.choice([5, 6, 8, 12, 20, 33, 50, 64] + ([100, 129, 200, 201, 257] if big or rng.random() < 0.15 else []))
        kind = force.get("design", rng.choice(["uniform", "scattered", "scattered", "unsorted", "ties", "nearly_uniform:10", "nearly_uniform:20"]))
        if "n" in force:
            n = force["n"]
        if kind == "hole":
            n = 98
        if kind == "integers":
            # integer-valued sampling points (data coordinates lo + S*g with integer lo, S): day numbers 1..365, or 0..2^30
            if dom not in ("doy", "giga"):
                dom = "doy"
                lo, scale = DOMAINS[dom]
            S = int(scale)
            n = min(n, 64)
            step = 1 if dom == "doy" else 2 ** 20
            g = [Fraction(j * step, S) for j in sorted(rng.sample(range(0, S // step + 1), n))]
        else:
            g = _unit_points(rng, n, "scattered" if kind == "unsorted" else kind)
        g2 = None
    else:
        kind = force.get("design", rng.choice(["grid", "scattered", "scattered", "unsorted", "ties2d"]))
        if kind == "ties2d":
            # replicated sampling points with unequal multiplicities: draws with replacement from a small lattice
            n = force.get("n", rng.choice([12, 20, 30]))
            lat = [(Fraction(a, 4), Fraction(b, 4)) for a in range(5) for b in range(5)]
            base = rng.sample(lat, max(6, n // 3))
            pts = [rng.choice(base) for _ in range(n)]
            g, g2 = [p_[0] for p_ in pts], [p_[1] for p_ in pts]
        elif kind == "grid":
            m1, m2 = rng.randint(3, 9 if not big else 14), rng.randint(3, 9 if not big else 14)
            a1 = _unit_points(rng, m1, rng.choice(["uniform", "scattered"]))
            a2 = _unit_points(rng, m2, rng.choice(["uniform", "scattered"]))
            g = [u for u in a1 for _ in a2]
            g2 = [v for _ in a1 for v in a2]
            n = m1 * m2
        else:
            n = rng.choice([5, 8, 12, 20, 30, 50] + ([100, 200] if big or rng.random() < 0.1 else []))
            g = [Fraction(rng.randint(0, 256), 256) for _ in range(n)]
            g2 = [Fraction(rng.randint(0, 256), 256) for _ in range(n)]
    wide = rng.random() < 0.6
    hu = _bandwidth(rng, n, dim, wide)
    if "hu" in force:
        hu, wide = force["hu"], False
    ykind = rng.choice(["rand", "rand", "smooth", "step", "const"])
    amp = rng.choice([Fraction(1), Fraction(1), Fraction(1), Fraction(2 ** 20), Fraction(1, 2 ** 20)])
    y = [amp * t for t in _responses(rng, n, g, ykind)]
    if kind == "hole":
        # responses bounded away from 0, so that a spurious 0 is outside their range
        y = [amp * (Fraction(5) + rng.dyadic(-2, 2, 4)) for _ in range(n)]
        ykind = "rand"
    y2 = rng.dyadics(n, -4, 4, 3)
    if dim == 1:
        coefs = [rng.dyadic(-2, 2, 2) for _ in range(degree + 1)]
        if degree > 0 and coefs[-1] == 0:
            coefs[-1] = Fraction(1)
        ypoly = _poly_vals(coefs, g)
    else:
        ms = monos2(degree)
        coefs = [rng.dyadic(-2, 2, 2) for _ in ms]
        if coefs[-1] == 0:
            coefs[-1] = Fraction(1)
        ypoly = _poly2_vals(coefs, ms, g, g2)
    # order of the data
    if kind == "unsorted":
        order = list(range(n))
        rng.shuffle(order)
        g = [g[i] for i in order]
        if g2 is not None:
            g2 = [g2[i] for i in order]
        y, y2, ypoly = [y[i] for i in order], [y2[i] for i in order], [ypoly[i] for i in order]
    # queries inside the design range
    nq = rng.randint(3, 6)
    gq, gq2 = [], []
    lo1, hi1 = min(g), max(g)
    if dim == 2:
        lo2, hi2 = min(g2), max(g2)
    for j in range(nq):
        r = rng.random()
        if r < 0.3:
            i = rng.randrange(n)
            gq.append(g[i])
            if dim == 2:
                gq2.append(g2[i])
        elif r < 0.45:
            gq.append(rng.choice([lo1, hi1]))
            if dim == 2:
                gq2.append(rng.choice([lo2, hi2]))
        else:
            gq.append(lo1 + (hi1 - lo1) * Fraction(rng.randint(0, 64), 64))
            if dim == 2:
                gq2.append(lo2 + (hi2 - lo2) * Fraction(rng.randint(0, 64), 64))
    if kind == "hole":
        # query points inside the design range, 3, 6, 10 and 20 bandwidths (h = 2^-6) away from every observation,
        # plus two well-supported ones
        gq = [Fraction(3, 16) + Fraction(kk, 64) for kk in (3, 6, 10, 20)] + [Fraction(3, 32), Fraction(29, 32)]
    # affine map for the invariance clause (a common rescaling, a shift per coordinate)
    a = rng.choice([Fraction(1), Fraction(2), Fraction(364), Fraction(1, 1024), Fraction(-1), Fraction(-3, 2), Fraction(7, 4)])
    b = rng.choice([Fraction(0), Fraction(1), Fraction(1000), Fraction(-5, 2)])
    b2 = rng.choice([Fraction(0), Fraction(3), Fraction(-1000)])
    perm = list(range(n))
    rng.shuffle(perm)
    X = lambda v: [lo + scale * t for t in v]  # noqa: E731
    case = dict(
        kind="lp", dim=dim, dom=dom, design=kind, kernel=kernel, degree=degree, n=n,
        h=rs(scale * hu), x=[rs(t) for t in X(g)], y=[rs(t) for t in y], y2=[rs(t) for t in y2],
        ypoly=[rs(t) for t in ypoly], q=[rs(t) for t in X(gq)],
        polyq=[rs(t) for t in (_poly_vals(coefs, gq) if dim == 1 else _poly2_vals(coefs, monos2(degree), gq, gq2))],
        alpha=rs(rng.dyadic(-3, 3, 2)), beta=rs(rng.dyadic(-3, 3, 2)),
        a=rs(a), b=rs(b), perm=perm, ykind=ykind, wide=wide,
    )
    if dim == 1:
        case["coefs"] = [rs(c) for c in coefs]
        case["dom_lo_scale"] = [rs(lo), rs(scale)]
        if force.get("own") or (kind.startswith(("uniform", "nearly_uniform", "ties", "integers")) and n <= 65 and rng.random() < 0.5):
            case["own"] = True   # also evaluated at its own sampling points (x_new=None and x_new=x)
    if dim == 2:
        case["x2"] = [rs(t) for t in X(g2)]
        if force.get("own") or (kind == "ties2d" and rng.random() < 0.7):
            case["own"] = True
        case["q2"] = [rs(t) for t in X(gq2)]
        case["b2"] = rs(b2)
    return case


def gen_cases(rng: Rng, tier):
    n = dict(quick=260, thorough=4000)[tier]
    # structured head: every kernel x degree x domain at least once in 1-D, every kernel x degree in 2-D
    head = []
    for kernel in KERNELS:
        for degree in range(4):
            head.append(dict(dim=1, kernel=kernel, degree=degree, dom=["unit", "doy", "shift1000", "milli"][(degree + KERNELS.index(kernel)) % 4]))
            head.append(dict(dim=2, kernel=kernel, degree=degree))
    for dom in DOMAINS:
        head.append(dict(dim=1, dom=dom, degree=2))
        head.append(dict(dim=2, dom=dom, degree=1))
    # nearly regular designs evaluated at their own points: relative spacing jitter 2^-7 … 2^-23 and exactly regular
    for j, (kernel, degree, r) in enumerate([("epanechnikov", 1, 7), ("epanechnikov", 2, 10), ("tricube", 1, 10), ("tricube", 3, 17), ("bisquare", 0, 10),
                                             ("bisquare", 2, 23), ("gaussian", 1, 10), ("epanechnikov", 3, 13), ("tricube", 2, 20), ("bisquare", 1, 15)]):
        head.append(dict(dim=1, kernel=kernel, degree=degree, design=f"nearly_uniform:{r}", own=True, n=[17, 33, 40, 65][j % 4],
                         hu=[Fraction(1, 8), Fraction(3, 16), Fraction(1, 4)][j % 3], dom=["unit", "doy", "neg", "shift1000"][j % 4]))
    head.append(dict(dim=1, kernel="epanechnikov", degree=1, design="uniform", own=True, n=33, hu=Fraction(1, 8), dom="unit"))
    # replicated sampling points with unequal multiplicities, query points omitted / the design itself / the distinct points
    for j, (kernel, degree) in enumerate([("epanechnikov", 0), ("tricube", 1), ("gaussian", 2), ("bisquare", 1)]):
        head.append(dict(dim=1, kernel=kernel, degree=degree, design="ties", own=True, n=[12, 20, 33, 50][j], hu=Fraction(1, 2), dom=["unit", "doy", "neg", "shift1000"][j]))
        head.append(dict(dim=2, kernel=kernel, degree=min(degree, 1), design="ties2d", own=True, n=[12, 20, 30, 20][j], hu=Fraction(3, 4)))
    # integer-valued sampling points handed over with integer dtypes (int64, int32) and as float32 / float64
    for j, (kernel, degree) in enumerate([("epanechnikov", 1), ("tricube", 2), ("gaussian", 3), ("bisquare", 1)]):
        head.append(dict(dim=1, kernel=kernel, degree=degree, design="integers", own=(j % 2 == 0), n=[20, 33, 40, 64][j],
                         hu=[Fraction(1, 4), Fraction(1, 8), Fraction(1, 4), Fraction(1, 16)][j], dom=["doy", "doy", "giga", "doy"][j]))
    # absolute tolerances where only the RELATIVE size of the weights matters: holes in the design, query points far from
    # every observation with the non-compact kernel, tiny bandwidths (the nano / milli domains)
    for degree, dom in ((0, "unit"), (1, "doy"), (0, "nano"), (1, "unit"), (0, "shift1000"), (0, "giga")):
        head.append(dict(dim=1, kernel="gaussian", degree=degree, design="hole", hu=Fraction(1, 64), dom=dom))
    for f in head:
        yield _lp_case(rng, tier, f)
    # the same relations through every entry point that smooths with LP and an explicit bandwidth, away from [0,1]
    n_entry = 0
    for entry in sorted(set(c06_entries.ENTRIES)):
        for dom in ("doy", "shift1000") if tier == "quick" else ("doy", "shift1000", "neg", "milli", "unit"):
            yield c06_entries.gen_entry_case(rng, tier, dict(entry=entry, dom=dom))
            n_entry += 1
    for entry, dom in (("dense_smooth", "unit"), ("dense_smooth", "doy"), ("dense_mean", "neg")):
        yield c06_entries.gen_entry_case(rng, tier, dict(entry=entry, dom=dom, own=True))
        n_entry += 1
    for entry in ("dense_smooth", "dense_mean", "dense_smooth2d"):
        yield c06_entries.gen_entry_case(rng, tier, dict(entry=entry, dom="doy", intgrid=True))
        n_entry += 1
    for k in range(n - len(head) - n_entry):
        r = k % 13
        if r in (3, 9):
            yield c06_entries.gen_entry_case(rng, tier)
        elif r == 11:
            us = [Fraction(0), Fraction(1), Fraction(-1), Fraction(1, 2), Fraction(-1, 2), Fraction(1) + Fraction(1, 2 ** 40),
                  Fraction(1) - Fraction(1, 2 ** 40), Fraction(3, 2), Fraction(-7), Fraction(255, 256)] + rng.dyadics(6, -2, 2, 6)
            yield dict(kind="kern", kernel=rng.choice(KERNELS), u=[rs(u) for u in us])
        elif r == 12:
            yield dict(kind="reject", what=rng.choice(["bandwidth0", "bandwidth_neg", "degree_neg", "kernel_unknown"]))
        else:
            yield _lp_case(rng, tier)


def search_cases(rng, tier):
    for dom in ["doy", "shift1000", "milli", "unit", "neg"]:
        for kernel in KERNELS:
            for degree in (1, 2, 3):
                yield _lp_case(rng, tier, dict(dim=1, dom=dom, kernel=kernel, degree=degree))
                yield _lp_case(rng, tier, dict(dim=2, dom=dom, kernel=kernel, degree=degree))
    yield from gen_cases(rng, "quick")


def witness_cases():
    """Open finding C06-multivariate-smooth-bandwidth: replayed on every run."""
    import json

    path = os.path.join(common.VERIF, "known_findings.d", "C06.json")
    try:
        return [f["witness"] for f in json.load(open(path)).get("open", []) if f.get("witness")]
    except (OSError, ValueError):
        return []


# --------------------------------------------------------------------------
# implementation side
# --------------------------------------------------------------------------

def _Fv(v):
    return [F(t) for t in v]


def _arr(case, key, key2):
    v = np.array(fl(_Fv(case[key])))
    if case["dim"] == 1:
        return v
    return np.column_stack([v, np.array(fl(_Fv(case[key2])))])


def _kernel_np(name, u):
    u = np.abs(u)
    if name == "gaussian":
        return np.exp(-u * u / 2) / np.sqrt(2 * np.pi)
    if name == "epanechnikov":
        return np.where(u <= 1, 0.75 * (1 - u * u), 0.0)
    if name == "tricube":
        return np.where(u < 1, (1 - u ** 3) ** 3, 0.0)
    if name == "bisquare":
        return np.where(u < 1, (1 - u * u) ** 2, 0.0)
    raise ValueError(name)


def _design_np(Z, degree):
    if Z.ndim == 1:
        return np.column_stack([Z ** k for k in range(degree + 1)])
    if Z.shape[1] == 2:
        return np.column_stack([Z[:, 0] ** e1 * Z[:, 1] ** e2 for e1, e2 in monos2(degree)])
    import itertools

    cols = [np.ones(len(Z))]
    for t in range(1, degree + 1):
        for comb in itertools.combinations_with_replacement(range(Z.shape[1]), t):
            cols.append(np.prod([Z[:, c] for c in comb], axis=0))
    return np.column_stack(cols)


def reference_wls(x, y, q, h, kernel, degree):
    """Independent NumPy evaluation of the kernel-weighted polynomial least-squares fit
    (QR/SVD least squares on the sqrt-weighted centred, bandwidth-scaled design — not the
    normal equations the package solves).  Returns (estimates, condition numbers of the
    centred/scaled normal matrix, numbers of points with positive weight)."""
    ests, conds, npos = [], [], []
    for x0 in q:
        Z = (x - x0) / h
        u = np.abs(Z) if Z.ndim == 1 else np.sqrt((Z ** 2).sum(axis=1))
        w = _kernel_np(kernel, u)
        D = _design_np(Z, degree)
        sw = np.sqrt(w)
        A = D * sw[:, None]
        npos.append(int((w > 0).sum()))
        s = np.linalg.svd(A, compute_uv=False)
        if s.size == 0 or s[0] == 0 or s[-1] == 0:
            conds.append(float("inf"))
            ests.append(float("nan"))
            continue
        with np.errstate(over="ignore"):
            conds.append(float((s[0] / s[-1]) ** 2))
        beta = np.linalg.lstsq(A, sw * y, rcond=None)[0]
        ests.append(float(beta[0]))
    return ests, conds, npos


def _inplace_design(case):
    """Second design / query set of the in-place history, as exact rationals: the sampling points reflected about
    the middle of their range (per coordinate), the query points contracted half-way towards it."""
    xr, qc = [], []
    for kx, kq in (("x", "q"), ("x2", "q2"))[: case["dim"]]:
        xs, qs = _Fv(case[kx]), _Fv(case[kq])
        lo, hi = min(xs), max(xs)
        xr.append([lo + hi - t for t in xs])
        qc.append([(t + (lo + hi) / 2) / 2 for t in qs])
    return xr, qc


def run_impl(case):
    from FDApy.preprocessing.smoothing import local_polynomial as lpm
    from FDApy.preprocessing.smoothing.local_polynomial import LocalPolynomial

    kind = case["kind"]
    out = {}
    if kind == "entry":
        return c06_entries.run_entry(case)
    if kind == "kern":
        u = np.array(fl(_Fv(case["u"])))
        f = lpm._kernel(case["kernel"])
        out["k"] = f(u).tolist()
        out["kneg"] = f(-u).tolist()
        # through `_compute_kernel` (distance / bandwidth), 1-D
        out["ck"] = lpm._compute_kernel(2.0 * u + 5.0, 5.0, 2.0, f).tolist()
        return out
    if kind == "reject":
        what = case["what"]
        try:
            if what == "bandwidth0":
                LocalPolynomial(bandwidth=0.0)
            elif what == "bandwidth_neg":
                LocalPolynomial(bandwidth=-0.5)
            elif what == "degree_neg":
                LocalPolynomial(degree=-1)
            else:
                LocalPolynomial(kernel_name="boxcar")
            out["err"] = None
        except Exception as e:  # noqa: BLE001
            out["err"] = err_class(e)
        return out
    x = _arr(case, "x", "x2")
    q = _arr(case, "q", "q2")
    y = np.array(fl(_Fv(case["y"])))
    y2 = np.array(fl(_Fv(case["y2"])))
    yp = np.array(fl(_Fv(case["ypoly"])))
    h = float(F(case["h"]))
    a, b = float(F(case["a"])), float(F(case["b"]))
    al, be = float(F(case["alpha"])), float(F(case["beta"]))
    lp = LocalPolynomial(kernel_name=case["kernel"], bandwidth=h, degree=case["degree"])
    out["base"] = lp.predict(y=y, x=x, x_new=q).tolist()
    out["base2"] = lp.predict(y=y2, x=x, x_new=q).tolist()
    out["lin"] = lp.predict(y=al * y + be * y2, x=x, x_new=q).tolist()
    out["poly"] = lp.predict(y=yp, x=x, x_new=q).tolist()
    # common rescaling / shift of sampling points, query points and bandwidth — mapped in exact arithmetic; the
    # clause is only evaluated when the mapped numbers are exactly representable (otherwise the inputs themselves differ)
    aF, bs = F(case["a"]), [F(case["b"])] + ([F(case["b2"])] if case["dim"] == 2 else [])
    cols_x, cols_q, exact = [], [], True
    for (kx, kq), bF in zip((("x", "q"), ("x2", "q2")), bs):
        for key, cols in ((kx, cols_x), (kq, cols_q)):
            ex = [aF * t + bF for t in _Fv(case[key])]
            fv = [float(t) for t in ex]
            exact = exact and all(Fraction(f) == t for f, t in zip(fv, ex))
            cols.append(np.array(fv))
    hF = abs(aF) * F(case["h"])
    exact = exact and Fraction(float(hF)) == hF
    xa = cols_x[0] if case["dim"] == 1 else np.column_stack(cols_x)
    qa = cols_q[0] if case["dim"] == 1 else np.column_stack(cols_q)
    lpa = LocalPolynomial(kernel_name=case["kernel"], bandwidth=float(hF), degree=case["degree"])
    out["affine"] = lpa.predict(y=y, x=xa, x_new=qa).tolist()
    out["affine_exact"] = bool(exact)
    perm = case["perm"]
    out["perm"] = lp.predict(y=y[perm], x=x[perm], x_new=q).tolist()
    out["single"] = [float(lp.predict(y=y, x=x, x_new=q[j : j + 1])[0]) for j in range(len(q))]
    # history on one object: other kernel / bandwidth / degree first, then the case's options through the setters
    other = KERNELS[(KERNELS.index(case["kernel"]) + 1) % 4]
    lph = LocalPolynomial(kernel_name=other, bandwidth=2.5 * h, degree=(case["degree"] + 1) % 4)
    lph.predict(y=y2, x=x, x_new=q[:1])
    lph.kernel_name, lph.bandwidth, lph.degree = case["kernel"], h, case["degree"]
    out["hist"] = lph.predict(y=y, x=x, x_new=q).tolist()
    # a common factor of the weights must not change the fit (C06.weights_scale_invariant): `_local_regression` with the
    # kernel multiplied by 2^-60, 2^-30, 2^30, 2^60
    x2d = x.reshape(-1, 1) if x.ndim == 1 else x
    q2d = q.reshape(-1, 1) if q.ndim == 1 else q
    kfun = lpm._kernel(case["kernel"])
    dq = lp.poly_features.fit_transform(np.zeros((1, x2d.shape[1])))[0]
    sc_out = {}
    for e in (-60, -30, 0, 30, 60):
        vals = []
        for pts in q2d[:3]:
            dm = lp.poly_features.fit_transform((x2d - pts) / h)
            vals.append(float(lpm._local_regression(y, x2d, pts, dm, dq, h, (lambda u, c=2.0 ** e: c * kfun(u)))))
        sc_out[str(e)] = vals
    out["wscaled"] = sc_out
    # evaluation at the design's own points (x_new=None -> unique sorted sampling points; x_new = the sampling points)
    if case.get("own"):
        ux = np.unique(x, axis=0)
        out["own_none"] = lp.predict(y=y, x=x).tolist()
        out["own_x"] = lp.predict(y=y, x=x, x_new=x.copy()).tolist()
        out["own_poly"] = lp.predict(y=yp, x=x).tolist()
        ref_o, cond_o, npos_o = reference_wls(x, y, ux, h, case["kernel"], case["degree"])
        out["_own_ref"], out["_own_cond"], out["_own_npos"] = ref_o, cond_o, npos_o
    # history on one object with the caller's arrays modified IN PLACE between the calls (one buffer reused for
    # successive designs / query sets); every step is compared with a fresh object
    xr, qc = _inplace_design(case)
    xr_np = np.array(fl(xr[0])) if case["dim"] == 1 else np.column_stack([np.array(fl(xr[0])), np.array(fl(xr[1]))])
    qc_np = np.array(fl(qc[0])) if case["dim"] == 1 else np.column_stack([np.array(fl(qc[0])), np.array(fl(qc[1]))])
    lpi = LocalPolynomial(kernel_name=case["kernel"], bandwidth=h, degree=case["degree"])
    xb, yb, qb = x.copy(), y.copy(), q.copy()
    out["inpl1"] = lpi.predict(y=yb, x=xb, x_new=qb).tolist()
    xb[:] = x[perm]
    yb[:] = y[perm]
    out["inpl2"] = lpi.predict(y=yb, x=xb, x_new=qb).tolist()          # same data in another order: = base
    xb[:] = xr_np
    yb[:] = y
    out["inpl3"] = lpi.predict(y=yb, x=xb, x_new=qb).tolist()          # another design in the same buffer
    out["inpl3_fresh"] = LocalPolynomial(kernel_name=case["kernel"], bandwidth=h, degree=case["degree"]).predict(y=y, x=xr_np.copy(), x_new=q.copy()).tolist()
    qb[:] = qc_np
    out["inpl4"] = lpi.predict(y=yb, x=xb, x_new=qb).tolist()          # other query points in the same buffer
    out["inpl4_fresh"] = LocalPolynomial(kernel_name=case["kernel"], bandwidth=h, degree=case["degree"]).predict(y=y, x=xr_np.copy(), x_new=qc_np.copy()).tolist()
    yb[:] = y2
    out["inpl5"] = lpi.predict(y=yb, x=xb, x_new=qb).tolist()          # other responses in the same buffer
    out["inpl5_fresh"] = LocalPolynomial(kernel_name=case["kernel"], bandwidth=h, degree=case["degree"]).predict(y=y2, x=xr_np.copy(), x_new=qc_np.copy()).tolist()
    _, cond4, npos4 = reference_wls(xr_np, y, qc_np, h, case["kernel"], case["degree"])
    out["_cond4"], out["_npos4"] = cond4, npos4
    # array-like inputs the API accepts (established on the unchanged tree: they give the ndarray answer there):
    # responses as pandas Series with a non-default index (shuffled, offset, strings), DataFrame column, list, tuple,
    # read-only / masked (nothing masked) / float32 / integer / column arrays; sampling and query points as read-only,
    # masked or (n,1) arrays.  Each must give the answer of np.asarray(input).
    import pandas as pd

    def ro(a):
        a = np.array(a, copy=True)
        a.setflags(write=False)
        return a

    n_ = len(y)
    shuffled = np.array(case["perm"])
    yint = np.round(y * 8.0)
    qa = q[:2]
    col = (lambda a: a.reshape(-1, 1)) if case["dim"] == 1 else (lambda a: a)
    forms = {
        "y=Series(shuffled index)": dict(y=pd.Series(y, index=shuffled), x=x, x_new=qa),
        "y=Series(index 100..)": dict(y=pd.Series(y, index=np.arange(100, 100 + n_)), x=x, x_new=qa),
        "y=Series(string index)": dict(y=pd.Series(y, index=[f"r{i}" for i in range(n_)]), x=x, x_new=qa),
        "y=DataFrame column(rows re-ordered)": dict(y=pd.DataFrame({"v": y}, index=shuffled)["v"], x=x, x_new=qa),
        "y=DataFrame column after dropna": dict(y=pd.DataFrame({"v": np.concatenate([[np.nan], y])}).dropna()["v"], x=x, x_new=qa),
        "y=list": dict(y=list(y), x=x, x_new=qa),
        "y=tuple": dict(y=tuple(y), x=x, x_new=qa),
        "y=read-only": dict(y=ro(y), x=x, x_new=qa),
        "y=masked(no mask)": dict(y=np.ma.masked_array(y), x=x, x_new=qa),
        "y=column (n,1)": dict(y=y.reshape(-1, 1), x=x, x_new=qa),
        "x=read-only": dict(y=y, x=ro(x), x_new=qa),
        "x=masked(no mask)": dict(y=y, x=np.ma.masked_array(x), x_new=qa),
        "x=(n,1)": dict(y=y, x=col(x), x_new=qa),
        "x_new=read-only": dict(y=y, x=x, x_new=ro(qa)),
        "x_new=masked(no mask)": dict(y=y, x=x, x_new=np.ma.masked_array(qa)),
        "x_new=(k,1)": dict(y=y, x=x, x_new=col(qa)),
    }
    al = {}
    for name, kw in forms.items():
        try:
            al[name] = np.asarray(lp.predict(**kw), dtype=float).ravel().tolist()
        except Exception as e:  # noqa: BLE001
            al[name] = f"{type(e).__name__}: {str(e)[:80]}"
    out["arraylike"] = al
    out["arraylike_int"] = [np.asarray(lp.predict(y=yint.astype(np.int64), x=x, x_new=qa), dtype=float).ravel().tolist(),
                            lp.predict(y=yint, x=x, x_new=qa).tolist()]
    out["arraylike_f32"] = [np.asarray(lp.predict(y=y.astype(np.float32), x=x, x_new=qa), dtype=float).ravel().tolist(),
                            lp.predict(y=y.astype(np.float32).astype(float), x=x, x_new=qa).tolist()]
    # results KEPT across calls on one smoother with the same number of query points (other responses, other query points,
    # another bandwidth through the attribute): compared AFTER all the calls with fresh smoothers; no shared memory
    lpk = LocalPolynomial(kernel_name=case["kernel"], bandwidth=h, degree=case["degree"])
    qrev = q[::-1].copy()
    kept = [lpk.predict(y=y, x=x, x_new=q), lpk.predict(y=y2, x=x, x_new=q), lpk.predict(y=float(F(case["alpha"])) * y + float(F(case["beta"])) * y2, x=x, x_new=q),
            lpk.predict(y=y, x=x, x_new=qrev)]
    lpk.bandwidth = 2.0 * h
    kept.append(lpk.predict(y=y, x=x, x_new=q))
    lpk.bandwidth = h
    kept.append(lpk.predict(y=y, x=x, x_new=q))
    out["kept"] = [np.asarray(a, dtype=float).tolist() for a in kept]
    out["kept_shares"] = bool(any(np.shares_memory(kept[i], kept[j]) for i in range(len(kept)) for j in range(i)))
    out["kept_ref_2h"] = LocalPolynomial(kernel_name=case["kernel"], bandwidth=2.0 * h, degree=case["degree"]).predict(y=y, x=x, x_new=q).tolist()
    # value dtypes of the array arguments: an integer-valued design handed over as int64 / int32 / float32, integer-valued
    # query points as int64 — the same numbers must give the same fit
    if np.all(x == np.round(x)) and np.abs(x).max() < 2 ** 31:
        dt = {}
        qf = q[:3]
        for name, xx in (("x=int64", x.astype(np.int64)), ("x=int32", x.astype(np.int32)),
                         ("x=float32", x.astype(np.float32) if np.all(x.astype(np.float32).astype(float) == x) else None)):
            if xx is None:
                continue
            try:
                dt[name] = np.asarray(lp.predict(y=y, x=xx, x_new=qf), dtype=float).ravel().tolist()
            except Exception as e:  # noqa: BLE001
                dt[name] = f"{type(e).__name__}: {str(e)[:80]}"
        qint = np.array([t for t in (q if q.ndim == 1 else [r for r in q if np.all(r == np.round(r))]) if np.all(t == np.round(t))])
        if len(qint):
            ref_q = lp.predict(y=y, x=x, x_new=qint.astype(float)).tolist()
            for name, xx in (("x_new=int64", x), ("x=int64,x_new=int64", x.astype(np.int64))):
                try:
                    dt[name] = [np.asarray(lp.predict(y=y, x=xx, x_new=qint.astype(np.int64)), dtype=float).ravel().tolist(), ref_q]
                except Exception as e:  # noqa: BLE001
                    dt[name] = f"{type(e).__name__}: {str(e)[:80]}"
        if case.get("own"):
            try:
                dt["x=int64,x_new omitted"] = [np.asarray(lp.predict(y=y, x=x.astype(np.int64)), dtype=float).ravel().tolist(), lp.predict(y=y, x=x).tolist()]
            except Exception as e:  # noqa: BLE001
                dt["x=int64,x_new omitted"] = f"{type(e).__name__}: {str(e)[:80]}"
        out["dtypes"] = dt
    # memory layout: strided (non-contiguous) views and Fortran order of the same numbers
    xs, ys, qs = np.repeat(x, 2, axis=0)[::2], np.repeat(y, 2)[::2], np.repeat(q, 2, axis=0)[::2]
    if case["dim"] == 2:
        xs, qs = np.asfortranarray(xs), np.asfortranarray(qs)
    out["strided"] = lp.predict(y=ys, x=xs, x_new=qs).tolist()
    lay = {}
    xn, yn, qn = x[::-1].copy()[::-1], y[::-1].copy()[::-1], q[::-1].copy()[::-1]                       # negative strides
    lay["negative strides"] = lp.predict(y=yn, x=xn, x_new=qn).tolist()
    if case["dim"] == 2:
        lay["transposed views"] = lp.predict(y=y, x=np.ascontiguousarray(x.T).T, x_new=np.ascontiguousarray(q.T).T).tolist()
        big_ = np.zeros((x.shape[0], 5))
        big_[:, 1::2] = x
        lay["column slice of a wider array"] = lp.predict(y=y, x=big_[:, 1::2], x_new=q).tolist()
    out["layouts"] = lay
    # locality: change the responses that lie outside every query window (compact kernels)
    if case["kernel"] != "gaussian":
        d = np.abs(x[:, None] - q[None, :]) if case["dim"] == 1 else np.sqrt(((x[:, None, :] - q[None, :, :]) ** 2).sum(axis=2))
        far = (d > h * (1 + 1e-9)).all(axis=1)
        out["n_far"] = int(far.sum())
        if far.any():
            ymod = y.copy()
            ymod[far] = ymod[far] * -3.0 + 1000.0
            out["local"] = lp.predict(y=ymod, x=x, x_new=q).tolist()
    # harness-side reference (independent NumPy) and conditioning of the centred/scaled local problems
    ref, cond, npos = reference_wls(x, y, q, h, case["kernel"], case["degree"])
    out["_ref"], out["_cond"], out["_npos"] = ref, cond, npos
    return out


# --------------------------------------------------------------------------
# model side
# --------------------------------------------------------------------------

def model_lines(case, impl):
    J = ",".join
    if case["kind"] == "entry":
        return [] if "__crash__" in impl else c06_entries.entry_model_lines(case, impl)
    if case["kind"] == "kern":
        return [f"kern {case['kernel']} {J(case['u'])}", "monos2 3"]
    if case["kind"] == "reject":
        what = case["what"]
        if what == "bandwidth0":
            return ["lp1 epanechnikov 0 1 0,1,2 1,2,3 1"]
        if what == "bandwidth_neg":
            return ["lp1 epanechnikov -1/2 1 0,1,2 1,2,3 1"]
        if what == "kernel_unknown":
            return ["lp1 boxcar 1 1 0,1,2 1,2,3 1"]
        return []  # a negative degree is not representable in the model (ℕ)
    xr, qc = _inplace_design(case)
    R = lambda v: J(rs(t) for t in v)  # noqa: E731
    if case["dim"] == 1:
        ls = [f"lp1 {case['kernel']} {case['h']} {case['degree']} {J(case['x'])} {J(case['y'])} {J(case['q'])}",
              f"lp1 {case['kernel']} {case['h']} {case['degree']} {R(xr[0])} {J(case['y'])} {R(qc[0])}"]
        if case.get("own"):
            ls.append(f"lp1 {case['kernel']} {case['h']} {case['degree']} {J(case['x'])} {J(case['y'])} {R(sorted(set(_Fv(case['x']))))}")
        return ls
    ls = [f"lp2 {case['kernel']} {case['h']} {case['degree']} {J(case['x'])} {J(case['x2'])} {J(case['y'])} {J(case['q'])} {J(case['q2'])}",
          f"lp2 {case['kernel']} {case['h']} {case['degree']} {R(xr[0])} {R(xr[1])} {J(case['y'])} {R(qc[0])} {R(qc[1])}"]
    if case.get("own"):
        urows = sorted(set(zip(_Fv(case["x"]), _Fv(case["x2"]))))          # = np.unique(x, axis=0): rows in lexicographic order
        ls.append(f"lp2 {case['kernel']} {case['h']} {case['degree']} {J(case['x'])} {J(case['x2'])} {J(case['y'])} {R([r[0] for r in urows])} {R([r[1] for r in urows])}")
    return ls


def parse_model(case, outs):
    if case["kind"] == "entry":
        return dict(outs=list(outs))
    if case["kind"] == "kern":
        return dict(k=outs[0], monos=outs[1])
    if case["kind"] == "reject":
        return dict(err=outs[0])
    d = dict(est=outs[0].split(","), est4=outs[1].split(","))
    if len(outs) > 2:
        d["est_own"] = outs[2].split(",")
    return d


def _scale(case):
    return max([abs(float(F(t))) for t in case["y"]] + [1e-300])


def _status(case, impl):
    """Per query: 'ok' (well-conditioned centred/scaled problem), 'illcond', 'singular'."""
    st = []
    need = case["degree"] + 1 if case["dim"] == 1 else len(monos2(case["degree"]))
    for c, k in zip(impl["_cond"], impl["_npos"]):
        if not np.isfinite(c) or k < need:
            st.append("singular")
        elif c <= COND_OK:
            st.append("ok")
        else:
            st.append("illcond")
    return st


def compare(case, impl, model):
    if "__crash__" in impl:
        return [f"implementation crashed: {impl['__crash__']} {impl.get('msg')}"]
    kind = case["kind"]
    ds = []
    if kind == "entry":
        return c06_entries.entry_compare(case, impl, model)
    if kind == "kern":
        if model["k"].startswith("error") or model["k"] == "bad":
            return [f"model rejects kernel: {model['k']}"]
        qs = [Fraction(t) for t in model["k"].split(",")]
        tol = 1e-12
        for i, (f, q) in enumerate(zip(impl["k"], qs)):
            if not close(f, q, 1.0, tol):
                ds.append(f"kernel {case['kernel']}({case['u'][i]}): impl {f!r} vs model {float(q)!r}")
                break
        for i, (f, q) in enumerate(zip(impl["ck"], qs)):
            if not close(f, q, 1.0, tol):
                ds.append(f"_compute_kernel {case['kernel']} at u={case['u'][i]}: impl {f!r} vs model {float(q)!r}")
                break
        # order of the bivariate monomials (sklearn PolynomialFeatures) vs the model's `monos2`
        from sklearn.preprocessing import PolynomialFeatures

        pw = PolynomialFeatures(degree=3).fit(np.zeros((1, 2))).powers_.tolist()
        mm = [[int(t) for t in e.split(",")] for e in model["monos"].split(";")]
        if pw != mm:
            ds.append(f"PolynomialFeatures powers {pw} vs model monos2 {mm}")
        return ds
    if kind == "reject":
        want = model["err"]
        got = impl["err"]
        if want.startswith("error:"):
            if got != want[6:]:
                ds.append(f"model rejects with {want[6:]}, implementation gave {got}")
        else:
            ds.append(f"model accepted an invalid configuration: {want}")
        return ds
    est = model["est"]
    st = _status(case, impl)
    sc = _scale(case)
    if len(est) != len(impl["base"]):
        return [f"{len(impl['base'])} estimates vs {len(est)} from the model"]
    for j, (f, m, s) in enumerate(zip(impl["base"], est, st)):
        if not np.isfinite(f):
            ds.append(f"query {j}: non-finite estimate {f!r}")
            continue
        if m == "s":
            if s == "ok":
                ds.append(f"query {j}: model says singular, harness classifies well-conditioned (cond {impl['_cond'][j]:.3g})")
            continue
        if s != "ok":
            continue
        if not close(f, Fraction(m), sc, RTOL_MODEL):
            ds.append(f"query {j} (x0={case['q'][j]}{',' + case['q2'][j] if case['dim'] == 2 else ''}): impl {f!r} vs exact weighted least squares {float(Fraction(m))!r} (response scale {sc:.3g}, cond {impl['_cond'][j]:.3g})")
    if "est_own" in model and "own_none" in impl:
        for j, (f, m, c, k) in enumerate(zip(impl["own_none"], model["est_own"], impl["_own_cond"], impl["_own_npos"])):
            need_o = case["degree"] + 1 if case["dim"] == 1 else len(monos2(case["degree"]))
            if m != "s" and np.isfinite(c) and c <= COND_OK and k >= need_o and not close(f, Fraction(m), sc, RTOL_MODEL):
                ds.append(f"evaluation at the design's own points (x_new omitted), point {j}: impl {f!r} vs exact weighted least squares {float(Fraction(m))!r} (design {case['design']}, n={case['n']}, h={case['h']})")
                break
    need = case["degree"] + 1 if case["dim"] == 1 else len(monos2(case["degree"]))
    for j, (f, m, c, k) in enumerate(zip(impl["inpl4"], model["est4"], impl["_cond4"], impl["_npos4"])):
        if not np.isfinite(f):
            ds.append(f"in-place history, query {j}: non-finite estimate {f!r}")
        elif m != "s" and np.isfinite(c) and c <= COND_OK and k >= need and not close(f, Fraction(m), sc, RTOL_MODEL):
            ds.append(f"in-place history (design and queries replaced inside the caller's buffers), query {j}: impl {f!r} vs exact weighted least squares {float(Fraction(m))!r}")
    return ds[:4]


# --------------------------------------------------------------------------
# the property's own predicate, evaluated on the implementation
# --------------------------------------------------------------------------

def oracle(case, impl):
    if case["kind"] == "entry":
        return c06_entries.entry_oracle(case, impl)
    entry = "LocalPolynomial.predict"
    if "__crash__" in impl:
        return [dict(clause="runs", entry=entry, msg=f"crash {impl['__crash__']}: {impl.get('msg')} {impl.get('tb', '')[-300:]}")]
    vs = []

    def bad(clause, msg, causes=()):
        vs.append(dict(clause=clause, entry=entry, msg=msg, causes=list(causes)))

    kind = case["kind"]
    if kind == "kern":
        us = [float(F(t)) for t in case["u"]]
        for u, k, kn in zip(us, impl["k"], impl["kneg"]):
            if k < 0:
                bad("kernel_nonneg", f"{case['kernel']}({u}) = {k} < 0")
            if k != kn:
                bad("kernel_even", f"{case['kernel']}({u}) = {k} but at {-u}: {kn}")
            if case["kernel"] != "gaussian" and abs(u) > 1 and k != 0:
                bad("kernel_support", f"{case['kernel']}({u}) = {k} beyond one bandwidth")
            if abs(u) < 1 and not k > 0:
                bad("kernel_positive_inside", f"{case['kernel']}({u}) = {k}")
            want = float(_kernel_np(case["kernel"], np.array([u]))[0])
            if not abs(k - want) <= 1e-12 * max(1.0, abs(want)):
                bad("kernel_values", f"{case['kernel']}({u}) = {k!r} but the {case['kernel']} kernel is {want!r} there")
        for u, ck in zip(us, impl["ck"]):
            want = float(_kernel_np(case["kernel"], np.array([u]))[0])
            if not abs(ck - want) <= 1e-12 * max(1.0, abs(want)):
                bad("kernel_values", f"_compute_kernel at distance {u} bandwidths gives {ck!r}, the {case['kernel']} kernel is {want!r}")
        return vs
    if kind == "reject":
        want = {"bandwidth0": "ValueError", "bandwidth_neg": "ValueError", "degree_neg": "ValueError", "kernel_unknown": "NotImplementedError"}[case["what"]]
        if impl["err"] != want:
            bad("rejects_invalid", f"{case['what']}: expected {want}, got {impl['err']}")
        return vs
    st = _status(case, impl)
    sc = _scale(case)
    dom = [case["dom"]] + (["away_from_unit_interval"] if case["dom"] not in ("unit", "neg", "end0", "nano") else [])
    q = case["q"]

    def near(f, g, scale, tol=RTOL_ORACLE):
        return np.isfinite(f) and np.isfinite(g) and abs(f - g) <= tol * scale

    for j, s in enumerate(st):
        where = f"query {j} x0={q[j]}" + (f",{case['q2'][j]}" if case["dim"] == 2 else "") + f" ({case['kernel']}, degree {case['degree']}, h={case['h']}, n={case['n']}, domain {case['dom']})"
        for name in ("base", "base2", "lin", "poly", "affine", "perm"):
            if not np.isfinite(impl[name][j]):
                bad("finite", f"{name} estimate not finite at {where}", dom)
        if s != "ok":
            continue
        f = impl["base"][j]
        # the estimate is the explicit kernel-weighted least-squares fit (independent NumPy evaluation)
        if not near(f, impl["_ref"][j], sc):
            bad("wls", f"estimate {f!r} but kernel-weighted polynomial least squares gives {impl['_ref'][j]!r} at {where}", dom)
        # invariance under a common shift/rescaling of sampling points, query points and bandwidth
        if impl.get("affine_exact", True) and not near(impl["affine"][j], f, sc):
            bad("shift_scale", f"estimate {f!r} becomes {impl['affine'][j]!r} after x -> {case['a']} x + {case['b']} (bandwidth x |a|) at {where}", dom)
        # linear in the responses
        al, be = float(F(case["alpha"])), float(F(case["beta"]))
        sc2 = max([abs(float(F(t))) for t in case["y2"]] + [1e-300])
        want = al * f + be * impl["base2"][j]
        if not near(impl["lin"][j], want, abs(al) * sc + abs(be) * sc2 + 1e-300):
            bad("linear", f"fit(a y + b y2) = {impl['lin'][j]!r} vs a fit(y) + b fit(y2) = {want!r} at {where}", dom)
        # reproduces polynomials up to the fitted degree
        pv = float(F(case["polyq"][j]))
        scp = max([abs(float(F(t))) for t in case["ypoly"]] + [1e-300])
        if not near(impl["poly"][j], pv, scp):
            bad("reproduces_polynomials", f"polynomial of degree {case['degree']} with value {pv!r} estimated as {impl['poly'][j]!r} at {where}", dom)
        # the order of the sampling points is irrelevant
        if not near(impl["perm"][j], f, sc):
            bad("order_of_data", f"estimate {f!r} vs {impl['perm'][j]!r} after permuting the data at {where}", dom)
        # options set through the setters on a used object behave like a fresh object
        if not near(impl["hist"][j], f, sc, 1e-10):
            bad("history_independent", f"estimate {f!r} on a fresh object vs {impl['hist'][j]!r} on an object that was used with other options before at {where}", dom)
        # pointwise: the other query points do not matter
        if not near(impl["single"][j], f, sc, 1e-10):
            bad("pointwise", f"estimate {f!r} in a batch vs {impl['single'][j]!r} alone at {where}", dom)
    # evaluation at the design's own points: WLS, polynomial reproduction, x_new=None vs x_new=x
    if "own_none" in impl and case["dim"] == 2:
        xs_ = _arr(case, "x", "x2")
        ux_, inv_ = np.unique(xs_, axis=0, return_inverse=True)
        inv_ = np.asarray(inv_).ravel()
        need2 = len(monos2(case["degree"]))
        for j in range(len(ux_)):
            okj = np.isfinite(impl["_own_cond"][j]) and impl["_own_cond"][j] <= COND_OK and impl["_own_npos"][j] >= need2
            if okj and not near(impl["own_none"][j], impl["_own_ref"][j], sc):
                bad("wls", f"query points omitted: at the distinct sampling point {ux_[j].tolist()} the estimate is {impl['own_none'][j]!r} but the kernel-weighted least squares of ALL observations (ties with their multiplicities) gives {impl['_own_ref'][j]!r} ({case['kernel']}, degree {case['degree']}, h={case['h']}, n={case['n']}, {len(ux_)} distinct points)", dom + ["own_points"])
        for i_, f in enumerate(impl["own_x"]):
            if not near(f, impl["own_none"][inv_[i_]], sc, 1e-10):
                bad("pointwise", f"x_new = the sampling points gives {f!r} at row {i_}, x_new omitted gives {impl['own_none'][inv_[i_]]!r}", dom + ["own_points"])
                break
    if "own_none" in impl and case["dim"] == 1:
        xs_ = np.array(fl(_Fv(case["x"])))
        ux_, inv_ = np.unique(xs_, return_inverse=True)
        lo_, scl_ = F(case["dom_lo_scale"][0]), F(case["dom_lo_scale"][1])
        cf = [F(c) for c in case["coefs"]]
        uxF = sorted(set(_Fv(case["x"])))
        scp_ = max([abs(float(F(t))) for t in case["ypoly"]] + [1e-300])
        for j in range(len(ux_)):
            okj = np.isfinite(impl["_own_cond"][j]) and impl["_own_cond"][j] <= COND_OK and impl["_own_npos"][j] >= case["degree"] + 1
            f = impl["own_none"][j]
            if okj and not near(f, impl["_own_ref"][j], sc):
                bad("wls", f"at the design's own point {rs(uxF[j])} (x_new=None) the estimate is {f!r} but kernel-weighted polynomial least squares gives {impl['_own_ref'][j]!r} (design {case['design']}, {case['kernel']}, degree {case['degree']}, h={case['h']}, n={case['n']})", dom + ["own_points"])
            if okj:
                t = (uxF[j] - lo_) / scl_
                pv = float(sum(c * t ** k for k, c in enumerate(cf)))
                if not near(impl["own_poly"][j], pv, scp_):
                    bad("reproduces_polynomials", f"at the design's own point {rs(uxF[j])} a polynomial of degree {case['degree']} with value {pv!r} is estimated as {impl['own_poly'][j]!r} (design {case['design']}, {case['kernel']}, h={case['h']}, n={case['n']})", dom + ["own_points"])
        for i_, f in enumerate(impl["own_x"]):
            if not near(f, impl["own_none"][inv_[i_]], sc, 1e-10):
                bad("pointwise", f"x_new = the sampling points gives {f!r} at {case['x'][i_]}, x_new=None gives {impl['own_none'][inv_[i_]]!r}", dom + ["own_points"])
                break
    # a common factor of the kernel weights is irrelevant
    if "wscaled" in impl:
        ref0 = impl["wscaled"]["0"]
        for e, vals in impl["wscaled"].items():
            for j, (f, g) in enumerate(zip(vals, ref0)):
                if st[j] == "ok" and not near(f, g, sc, 1e-9):
                    bad("weights_scale_invariant", f"kernel weights multiplied by 2^{e}: estimate {f!r} instead of {g!r} at query {j} ({case['kernel']}, degree {case['degree']}, h={case['h']}, n={case['n']})", dom)
        for j, (f, g) in enumerate(zip(ref0, impl["base"])):
            if st[j] == "ok" and not near(f, g, sc, 1e-10):
                bad("pointwise", f"_local_regression gives {f!r}, predict {g!r} at query {j}", dom)
    # degree 0 (Nadaraya–Watson) preserves the range of the responses carrying positive weight (C06.degree0_in_range)
    if case["degree"] == 0:
        xs = _arr(case, "x", "x2")
        qs = _arr(case, "q", "q2")
        ys = np.array(fl(_Fv(case["y"])))
        hh = float(F(case["h"]))
        for j, f in enumerate(impl["base"]):
            Z = (xs - qs[j]) / hh
            u = np.abs(Z) if Z.ndim == 1 else np.sqrt((Z ** 2).sum(axis=1))
            inwin = _kernel_np(case["kernel"], u) > 0
            if inwin.any() and np.isfinite(f) and st[j] != "singular":
                lo_, hi_ = float(ys[inwin].min()), float(ys[inwin].max())
                if not (lo_ - 1e-9 * sc <= f <= hi_ + 1e-9 * sc):
                    bad("range_preserved", f"degree-0 estimate {f!r} outside the range [{lo_!r}, {hi_!r}] of the responses in the window (query {j}, {case['kernel']}, h={case['h']}, n={case['n']})", dom)
                    break
    # histories with the caller's arrays changed in place; memory layout
    sc2h = max([abs(float(F(t))) for t in case["y2"]] + [1e-300])
    for name, ref, scale, what in (("inpl1", "base", sc, "first call on a fresh object"),
                                   ("inpl2", "perm", sc, "sampling points and responses permuted inside the caller's buffers"),
                                   ("inpl3", "inpl3_fresh", sc, "another design written into the same buffer"),
                                   ("inpl4", "inpl4_fresh", sc, "other query points written into the same buffer"),
                                   ("inpl5", "inpl5_fresh", sc2h, "other responses written into the same buffer")):
        for j, (f, g) in enumerate(zip(impl[name], impl[ref])):
            if not near(f, g, scale, 1e-9):
                bad("history_independent", f"{what}: the reused object gives {f!r}, a fresh object {g!r} (query {j}, {case['kernel']}, degree {case['degree']}, n={case['n']}, dim {case['dim']})", dom + ["inplace"])
                break
    for name, r in impl.get("arraylike", {}).items():
        if isinstance(r, str):
            bad("array_like_inputs", f"{name}: raises {r} (an ndarray with the same numbers is accepted; {case['kernel']}, degree {case['degree']}, n={case['n']})", dom)
        elif len(r) != 2 or not all(near(f, g, sc, 1e-9) for f, g in zip(r, impl["base"][:2])):
            bad("array_like_inputs", f"{name}: estimates {r} but np.asarray of the same input gives {impl['base'][:2]} ({case['kernel']}, degree {case['degree']}, h={case['h']}, n={case['n']})", dom)
    for key, tolr in (("arraylike_int", 1e-9), ("arraylike_f32", 1e-9)):
        if key in impl:
            a_, b_ = impl[key]
            if not all(near(f, g, max(sc, 8 * sc if key == "arraylike_int" else sc), tolr) for f, g in zip(a_, b_)):
                bad("array_like_inputs", f"{key[10:]} responses: estimates {a_} but the same numbers as float64 give {b_}", dom)
    if "kept" in impl:
        kp = impl["kept"]
        refs = [impl["base"], impl["base2"], impl["lin"], impl["base"][::-1], impl["kept_ref_2h"], impl["base"]]
        names = ["fit(y)", "fit(y2)", "fit(a y + b y2)", "fit(y) at the reversed query points", "fit(y) with twice the bandwidth", "fit(y) again"]
        sc2k = max([abs(float(F(t))) for t in case["y2"]] + [1e-300])
        for r_, ref_, nm_ in zip(kp, refs, names):
            scale_k = sc + sc2k * (1 + abs(float(F(case["beta"])))) + sc * abs(float(F(case["alpha"])))
            if len(r_) != len(ref_) or not all(near(f, g, scale_k, 1e-9) for f, g in zip(r_, ref_)):
                bad("results_kept", f"the result of {nm_}, kept while further predict calls were made on the same LocalPolynomial object, reads {r_[:3]} afterwards; a fresh smoother gives {ref_[:3]} ({case['kernel']}, degree {case['degree']}, n={case['n']})", dom)
                break
        if impl.get("kept_shares"):
            bad("results_kept", "two results returned by predict calls on one LocalPolynomial object share memory", dom)
    for name, r in impl.get("dtypes", {}).items():
        if isinstance(r, str):
            bad("dtype_inputs", f"{name}: raises {r} (the same numbers as float64 are accepted)", dom)
            continue
        a_, b_ = (r, impl["base"][:3]) if not (len(r) == 2 and isinstance(r[0], list)) else r
        if len(a_) != len(b_) or not all(near(f, g, sc, 1e-9) for f, g in zip(a_, b_)):
            bad("dtype_inputs", f"{name}: estimates {a_[:3]} but the same numbers as float64 give {b_[:3]} ({case['kernel']}, degree {case['degree']}, h={case['h']}, n={case['n']}, design {case['design']})", dom)
    for name, r in impl.get("layouts", {}).items():
        if len(r) != len(impl["base"]) or not all(near(f, g, sc, 1e-10) for f, g in zip(r, impl["base"])):
            bad("memory_layout", f"inputs as {name}: estimates {r[:3]}, contiguous ones {impl['base'][:3]}", dom)
    for j, (f, g) in enumerate(zip(impl["strided"], impl["base"])):
        if not near(f, g, sc, 1e-10):
            bad("memory_layout", f"strided / Fortran-ordered inputs give {f!r}, contiguous ones {g!r} (query {j})", dom)
            break
    # locality (compact kernels): responses outside every window are irrelevant (all queries, also ill-conditioned ones)
    if "local" in impl:
        for j, (f, g) in enumerate(zip(impl["base"], impl["local"])):
            if not near(f, g, sc, 1e-12):
                bad("local", f"estimate {f!r} changes to {g!r} when only responses farther than one bandwidth from every query point change (query {j}, {case['kernel']}, h={case['h']})", dom)
                break
    # de-duplicate by clause
    seen, out = set(), []
    for v in vs:
        if v["clause"] not in seen:
            seen.add(v["clause"])
            out.append(v)
    return out


def nontrivial(case, impl):
    if case["kind"] != "lp":
        return digest(case)
    if "__crash__" in impl or case["ykind"] == "const":
        return None
    if "ok" not in _status(case, impl):
        return None
    return digest(case)


def classify(case, impl):
    if case["kind"] == "entry":
        return ["kind:entry", "entry:" + c06_entries.ENTRY_NAME[case["entry"]], "domain:" + case["dom"], "kernel:" + case["kernel"], f"degree:{case['degree']}"]
    if case["kind"] != "lp":
        return ["kind:" + case["kind"]]
    tags = (["own-points"] if case.get("own") else []) + ["kind:lp", f"dim:{case['dim']}", "kernel:" + case["kernel"], f"degree:{case['degree']}", "domain:" + case["dom"],
            "design:" + case["design"], "n:" + ("5-9" if case["n"] < 10 else "10-49" if case["n"] < 50 else "50-200"),
            "bandwidth:" + ("wide" if case["wide"] else "few-spacings")]
    if "__crash__" not in impl:
        for s in _status(case, impl):
            tags.append("query:" + s)
        if "local" in impl:
            tags.append("locality-checked")
    return tags


def extra_coverage(cases, impls, models):
    worst = 0.0
    nq = 0
    for c, i, m in zip(cases, impls, models):
        if c["kind"] != "lp" or m is None or "__crash__" in i:
            continue
        sc = _scale(c)
        for f, e, s in zip(i["base"], m["est"], _status(c, i)):
            if s == "ok" and e != "s" and np.isfinite(f):
                nq += 1
                worst = max(worst, abs(f - float(Fraction(e))) / sc)
    return dict(max_relative_deviation_from_exact_wls=worst, queries_compared_with_exact_value=nq, translator=TRANSLATOR_NOTE)
