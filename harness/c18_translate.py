"""Translator for C18: closed formulas of `FDApy/misc/basis.py` -> `lean/FDAModel/Generated/BasisFormulas.lean`.

What is mapped (syntax only — no arithmetic, no simplification):

* `_basis_wiener`:   the loop range, the row index and the right-hand side `np.sqrt(2) * np.sin((degree - 0.5) * np.pi * argvals)`
* `_basis_fourier`:  the constant row, `norm`, the phase map `xx`, the loop range and which parity gets `cos` / `sin` with which
                     frequency `(k + 1) // 2`
* `_basis_legendre`: the loop range, the row index and the degree handed to `eval_legendre`
* `_basis_bsplines`: the scalar expressions of the construction: `n_segments`, `dx`, the two ends and the number of `linspace`
                     knots, the order of `np.diff`, the argument of `gamma`, the exponent of `dx`, the exponent of `-1`, the
                     end-knot offset of the mask and the comparison used by `_tpower` / the mask

Expressions become Lean terms over `ℝ` (closed-form families) or `ℚ`/`ℕ` (B-spline scalars).  Integer sub-expressions
(`(k + 1) // 2`, `k % 2`) stay in `ℕ` and are cast.  `C18.*_src_eq_model` prove the generated definitions equal to the
model's.  An unrecognised shape raises `Shape`: no alarm, the caller falls back on the reference translation stored beside
this file.
"""
import ast
from fractions import Fraction


class Shape(ValueError):
    pass


def _fn(tree, name):
    f = next((n for n in tree.body if isinstance(n, ast.FunctionDef) and n.name == name), None)
    if f is None:
        raise Shape(f"function {name} not found")
    return f


def _np_attr(e, names):
    return (isinstance(e, ast.Attribute) and isinstance(e.value, ast.Name) and e.value.id in ("np", "numpy") and e.attr in names)


def _np_call(e, names):
    return isinstance(e, ast.Call) and _np_attr(e.func, names) and not e.keywords


class Expr:
    """Python scalar expression -> Lean term.  `env` maps names to (`lean`, kind) with kind in {"nat", "num"}; the numeric
    field (`ℝ` or `ℚ`) is `field`."""

    def __init__(self, env, field, allow_trig=True):
        self.env, self.field, self.trig = dict(env), field, allow_trig

    def lit(self, c):
        if isinstance(c, bool) or not isinstance(c, (int, float)):
            raise Shape(f"constant {c!r}")
        if isinstance(c, int):
            return (str(c), "nat") if c >= 0 else (f"(-({-c} : {self.field}))", "num")
        f = Fraction(repr(c))
        if f.denominator == 1 and f >= 0:
            return f"({f.numerator} : {self.field})", "num"
        return f"(({f.numerator} : {self.field}) / {f.denominator})", "num"

    def num(self, e):
        s, k = self.tr(e)
        return s if k == "num" else f"((({s}) : ℕ) : {self.field})"

    def tr(self, e):
        if isinstance(e, ast.Constant):
            return self.lit(e.value)
        if isinstance(e, ast.Name):
            if e.id in self.env:
                return self.env[e.id]
            raise Shape(f"unknown name {e.id}")
        if _np_attr(e, ("pi",)):
            if self.field != "ℝ":
                raise Shape("pi outside a real formula")
            return "Real.pi", "num"
        if isinstance(e, ast.Call) and isinstance(e.func, ast.Name) and e.func.id in ("int", "float") and len(e.args) == 1 and not e.keywords:
            return self.tr(e.args[0])
        if _np_call(e, ("sqrt", "sin", "cos")) and len(e.args) == 1:
            if not self.trig:
                raise Shape("transcendental function in a rational formula")
            f = {"sqrt": "Real.sqrt", "sin": "Real.sin", "cos": "Real.cos"}[e.func.attr]
            return f"{f} ({self.num(e.args[0])})", "num"
        if _np_call(e, ("power",)) and len(e.args) == 2:
            b, (x, kx) = self.num(e.args[0]), self.tr(e.args[1])
            if kx != "nat":
                raise Shape("non-integer exponent")
            return f"({b}) ^ ({x})", "num"
        if isinstance(e, ast.BinOp) and isinstance(e.op, ast.Pow):
            b, (x, kx) = self.num(e.left), self.tr(e.right)
            if kx != "nat":
                raise Shape("non-integer exponent")
            return f"({b}) ^ ({x})", "num"
        if isinstance(e, ast.UnaryOp) and isinstance(e.op, ast.USub):
            return f"(-{self.num(e.operand)})", "num"
        if isinstance(e, ast.BinOp):
            (l, kl), (r, kr) = self.tr(e.left), self.tr(e.right)
            if isinstance(e.op, ast.FloorDiv) or isinstance(e.op, ast.Mod):
                if kl != "nat" or kr != "nat":
                    raise Shape("// or % on non-integers")
                return f"(({l}) {'/' if isinstance(e.op, ast.FloorDiv) else '%'} ({r}))", "nat"
            if isinstance(e.op, (ast.Add, ast.Mult)) and kl == "nat" and kr == "nat":
                return f"(({l}) {'+' if isinstance(e.op, ast.Add) else '*'} ({r}))", "nat"
            if type(e.op) in (ast.Add, ast.Sub, ast.Mult, ast.Div):
                op = {ast.Add: "+", ast.Sub: "-", ast.Mult: "*", ast.Div: "/"}[type(e.op)]
                return f"({self.num(e.left)} {op} {self.num(e.right)})", "num"
        raise Shape(f"expression not recognised: {ast.unparse(e)[:70]}")


def _stmts(fn):
    return [st for st in fn.body if not (isinstance(st, ast.Expr) and isinstance(st.value, ast.Constant))]


def _arange(e):
    """`np.arange(lo, hi)` / `range(lo, hi)` -> (lo, hi) expressions."""
    if (_np_call(e, ("arange",)) or (isinstance(e, ast.Call) and isinstance(e.func, ast.Name) and e.func.id == "range" and not e.keywords)):
        if len(e.args) == 2:
            return e.args[0], e.args[1]
        if len(e.args) == 1:
            return ast.Constant(0), e.args[0]
    raise Shape("loop is not over np.arange(lo, hi) / range(lo, hi)")


def _row_assign(st, arr):
    """`arr[<row>, :] = rhs` or `arr[<row>] = rhs` -> (row expr, rhs)."""
    if isinstance(st, ast.Assign) and len(st.targets) == 1 and isinstance(st.targets[0], ast.Subscript) \
            and isinstance(st.targets[0].value, ast.Name) and st.targets[0].value.id == arr:
        sl = st.targets[0].slice
        if isinstance(sl, ast.Tuple) and len(sl.elts) == 2 and isinstance(sl.elts[1], ast.Slice) and sl.elts[1].lower is None \
                and sl.elts[1].upper is None and sl.elts[1].step is None:
            return sl.elts[0], st.value
        if not isinstance(sl, (ast.Tuple, ast.Slice)):
            return sl, st.value
    raise Shape(f"not a row assignment to {arr}")


def _is_argfun(e, arg, names):
    return _np_call(e, names) and len(e.args) == 1 and isinstance(e.args[0], ast.Name) and e.args[0].id == arg


class _ArgEnv(Expr):
    """`np.min(argvals)` -> `a`, `np.ptp(argvals)` / `np.max(argvals) - np.min(argvals)` -> `L`, `argvals` -> `t`."""

    def __init__(self, arg, env):
        super().__init__(env, "ℝ")
        self.arg = arg

    def tr(self, e):
        if _is_argfun(e, self.arg, ("min", "amin")):
            return "a", "num"
        if _is_argfun(e, self.arg, ("ptp",)):
            return "L", "num"
        if isinstance(e, ast.BinOp) and isinstance(e.op, ast.Sub) and _is_argfun(e.left, self.arg, ("max", "amax")) \
                and _is_argfun(e.right, self.arg, ("min", "amin")):
            return "L", "num"
        if isinstance(e, ast.Name) and e.id == self.arg:
            return "t", "num"
        return super().tr(e)


def _inline(body, tr, local):
    """single-name assignments before the loop become part of the environment (inlined)."""
    for st in body:
        if isinstance(st, ast.Assign) and len(st.targets) == 1 and isinstance(st.targets[0], ast.Name) and st.targets[0].id in local:
            s = tr.num(st.value)
            tr.env[st.targets[0].id] = (s, "num")


def wiener(tree):
    fn = _fn(tree, "_basis_wiener")
    arg, nfun = fn.args.args[0].arg, fn.args.args[1].arg
    body = _stmts(fn)
    loop = next((st for st in body if isinstance(st, ast.For)), None)
    if loop is None or not isinstance(loop.target, ast.Name):
        raise Shape("_basis_wiener: no loop")
    lo, hi = _arange(loop.iter)
    v = loop.target.id
    ie = Expr({nfun: ("n", "nat")}, "ℝ")
    tr = _ArgEnv(arg, {v: ("d", "nat"), nfun: ("n", "nat")})
    _inline(loop.body[:-1], tr, {st.targets[0].id for st in loop.body[:-1] if isinstance(st, ast.Assign) and isinstance(st.targets[0], ast.Name)})
    row, rhs = _row_assign(loop.body[-1], _values_name(body))
    r, kr = Expr({v: ("d", "nat")}, "ℝ").tr(row) if not (isinstance(row, ast.BinOp) and isinstance(row.op, ast.Sub)) else _natsub(row, v)
    if kr != "nat":
        raise Shape("row index is not an integer expression")
    return dict(lo=ie.tr(lo)[0], hi=ie.tr(hi)[0], row=r, rhs=tr.num(rhs))


def _natsub(e, v):
    """`degree - 1` as a row index: truncated subtraction on ℕ is what the loop range guarantees (degree >= 1)."""
    if isinstance(e.left, ast.Name) and e.left.id == v and isinstance(e.right, ast.Constant) and isinstance(e.right.value, int) and e.right.value >= 0:
        return f"(d - {e.right.value})", "nat"
    raise Shape("row index not recognised")


def _values_name(body):
    for st in body:
        if isinstance(st, ast.Assign) and len(st.targets) == 1 and isinstance(st.targets[0], ast.Name) and isinstance(st.value, (ast.Call, ast.BinOp)):
            src = ast.unparse(st.value)
            if "np.empty" in src or "np.ones" in src or "np.zeros" in src:
                return st.targets[0].id
    raise Shape("result array not found")


def legendre(tree):
    fn = _fn(tree, "_basis_legendre")
    arg, nfun = fn.args.args[0].arg, fn.args.args[1].arg
    body = _stmts(fn)
    loop = next((st for st in body if isinstance(st, ast.For)), None)
    if loop is None or not isinstance(loop.target, ast.Name):
        raise Shape("_basis_legendre: no loop")
    lo, hi = _arange(loop.iter)
    v = loop.target.id
    ie = Expr({nfun: ("n", "nat")}, "ℚ", allow_trig=False)
    env = {}
    call = None
    for st in loop.body[:-1]:
        if isinstance(st, ast.Assign) and isinstance(st.targets[0], ast.Name):
            env[st.targets[0].id] = st.value
    row, rhs = _row_assign(loop.body[-1], _values_name(body))
    call = env.get(rhs.id, rhs) if isinstance(rhs, ast.Name) else rhs
    if not (isinstance(call, ast.Call) and isinstance(call.func, ast.Name) and call.func.id == "eval_legendre" and len(call.args) == 2
            and isinstance(call.args[1], ast.Name) and call.args[1].id == arg):
        raise Shape("row is not eval_legendre(<degree>, argvals)")
    de = Expr({v: ("d", "nat")}, "ℚ", allow_trig=False)
    (r, kr), (dg, kd) = de.tr(row), de.tr(call.args[0])
    if kr != "nat" or kd != "nat":
        raise Shape("row / degree not integer expressions")
    return dict(lo=ie.tr(lo)[0], hi=ie.tr(hi)[0], row=r, deg=dg)


def fourier(tree):
    fn = _fn(tree, "_basis_fourier")
    arg, nfun = fn.args.args[0].arg, fn.args.args[1].arg
    body = _stmts(fn)
    vals = _values_name(body)
    loop = next((st for st in body if isinstance(st, ast.For)), None)
    if loop is None or not isinstance(loop.target, ast.Name):
        raise Shape("_basis_fourier: no loop")
    v = loop.target.id
    tr = _ArgEnv(arg, {v: ("k", "nat"), nfun: ("n", "nat")})
    # constant row: values = np.ones((n, len(argvals))) / <c>   (or  <c> * np.ones(...))
    init = next(st for st in body if isinstance(st, ast.Assign) and isinstance(st.targets[0], ast.Name) and st.targets[0].id == vals)
    e = init.value
    if isinstance(e, ast.BinOp) and isinstance(e.op, ast.Div) and _np_attr(getattr(e.left, "func", None), ("ones",)):
        const = f"((1 : ℝ) / {tr.num(e.right)})"
    elif isinstance(e, ast.BinOp) and isinstance(e.op, ast.Mult) and _np_attr(getattr(e.right, "func", None), ("ones",)):
        const = tr.num(e.left)
    elif isinstance(e, ast.BinOp) and isinstance(e.op, ast.Mult) and _np_attr(getattr(e.left, "func", None), ("ones",)):
        const = tr.num(e.right)
    else:
        raise Shape("initial value of the Fourier array not recognised")
    pre = [st for st in body if isinstance(st, ast.Assign) and isinstance(st.targets[0], ast.Name) and st.targets[0].id != vals
           and st.lineno < loop.lineno]
    _inline(pre, tr, {st.targets[0].id for st in pre})
    lo, hi = _arange(loop.iter)
    ie = Expr({nfun: ("n", "nat")}, "ℝ")
    if len(loop.body) != 1 or not isinstance(loop.body[0], ast.If) or len(loop.body[0].body) != 1 or len(loop.body[0].orelse) != 1:
        raise Shape("loop body is not a two-branch if")
    iff = loop.body[0]
    t = iff.test
    ct, kt = Expr({v: ("k", "nat")}, "ℝ").tr(t.left if isinstance(t, ast.Compare) else t)
    if kt != "nat":
        raise Shape("parity test is not an integer expression")
    if isinstance(t, ast.Compare):
        if len(t.ops) != 1 or not isinstance(t.comparators[0], ast.Constant) or not isinstance(t.comparators[0].value, int):
            raise Shape("parity test not recognised")
        op = {ast.Eq: "=", ast.NotEq: "≠"}.get(type(t.ops[0]))
        if op is None:
            raise Shape("parity test not recognised")
        cond = f"{ct} {op} {t.comparators[0].value}"
    else:
        cond = f"{ct} ≠ 0"          # Python truthiness of an integer
    (r1, e1), (r2, e2) = _row_assign(iff.body[0], vals), _row_assign(iff.orelse[0], vals)
    for r in (r1, r2):
        if not (isinstance(r, ast.Name) and r.id == v):
            raise Shape("row index is not the loop variable")
    return dict(const=const, lo=ie.tr(lo)[0], hi=ie.tr(hi)[0], cond=cond, then=tr.num(e1), els=tr.num(e2))


def bsplines(tree):
    fn = _fn(tree, "_basis_bsplines")
    names = [a.arg for a in fn.args.args]
    if names[:5] != ["argvals", "n_functions", "degree", "domain_min", "domain_max"]:
        raise Shape("signature of _basis_bsplines changed")
    body = _stmts(fn)
    q = Expr({"n_functions": ("nfun", "nat"), "degree": ("p", "nat"), "domain_min": ("dmin", "num"), "domain_max": ("dmax", "num")}, "ℚ", allow_trig=False)
    assigns = {st.targets[0].id: st.value for st in body if isinstance(st, ast.Assign) and len(st.targets) == 1 and isinstance(st.targets[0], ast.Name)}
    out = {}
    # n_segments = n_functions - degree   (truncated subtraction: the model's nSeg)
    e = assigns.get("n_segments")
    if not (isinstance(e, ast.BinOp) and isinstance(e.op, ast.Sub)):
        raise Shape("n_segments is not a difference")
    (l, kl), (r, kr) = q.tr(e.left), q.tr(e.right)
    if kl != "nat" or kr != "nat":
        raise Shape("n_segments not an integer expression")
    out["nseg"] = f"({l} - {r})"
    q.env["n_segments"] = ("nseg", "nat")
    out["dx"] = q.num(assigns["dx"])
    q.env["dx"] = ("dx", "num")
    k = assigns.get("knots")
    if not (_np_attr(getattr(k, "func", None), ("linspace",)) and len(k.args) == 2):
        raise Shape("knots is not np.linspace(start, stop, num=...)")
    kws = {kw.arg: kw.value for kw in k.keywords}
    if "num" not in kws or not (kws.get("endpoint") is None or (isinstance(kws["endpoint"], ast.Constant) and kws["endpoint"].value is True)):
        raise Shape("np.linspace options not recognised")
    out["start"], out["stop"] = q.num(k.args[0]), q.num(k.args[1])
    nk, knk = q.tr(kws["num"])
    if knk != "nat":
        raise Shape("number of knots not an integer expression")
    out["num"] = nk
    d = assigns.get("d_mat")
    if not (isinstance(d, ast.BinOp) and isinstance(d.op, ast.Div) and _np_attr(getattr(d.left, "func", None), ("diff",))):
        raise Shape("d_mat is not np.diff(...) / (...)")
    dk = {kw.arg: kw.value for kw in d.left.keywords}
    if not (isinstance(dk.get("axis"), ast.Constant) and dk["axis"].value == 0 and "n" in dk):
        raise Shape("np.diff options not recognised")
    out["diff"] = q.tr(dk["n"])[0]
    den = d.right
    if not (isinstance(den, ast.BinOp) and isinstance(den.op, ast.Mult) and isinstance(den.left, ast.Call) and isinstance(den.left.func, ast.Name)
            and den.left.func.id == "gamma" and len(den.left.args) == 1):
        raise Shape("denominator is not gamma(...) * ...")
    out["gamma"] = q.tr(den.left.args[0])[0]
    out["den2"] = q.num(den.right)
    b = assigns.get("basis_mat")
    # basis_mat = np.power(-1, degree + 1) * p_mat @ d_mat.T
    sgn = b
    while isinstance(sgn, ast.BinOp) and not (_np_call(sgn, ("power",))):
        sgn = sgn.left
    if not (_np_call(sgn, ("power",)) and len(sgn.args) == 2):
        raise Shape("sign factor not recognised")
    out["sign"] = q.num(sgn)
    sk = assigns.get("sk")
    if not (isinstance(sk, ast.Subscript) and isinstance(sk.value, ast.Name) and sk.value.id == "knots" and isinstance(sk.slice, ast.BinOp)):
        raise Shape("mask knots not recognised")
    # knots[np.arange(...) + degree + 1]: offset = everything added to the arange
    off, node = [], sk.slice
    while isinstance(node, ast.BinOp) and isinstance(node.op, ast.Add):
        off.append(node.right)
        node = node.left
    if not _np_attr(getattr(node, "func", None), ("arange",)):
        raise Shape("mask index is not np.arange(...) + offset")
    terms = [q.tr(t) for t in reversed(off)]
    if any(k_ != "nat" for _, k_ in terms):
        raise Shape("mask offset not an integer expression")
    out["maskoff"] = " + ".join(t for t, _ in terms)
    # comparisons: _tpower uses `x >= knot`, the mask `val < sk`
    tp = next((n for n in ast.walk(fn) if isinstance(n, ast.FunctionDef) and n.name == "_tpower"), None)
    cmp_tp = [n for n in ast.walk(tp) if isinstance(n, ast.Compare)] if tp else []
    if len(cmp_tp) != 1 or len(cmp_tp[0].ops) != 1:
        raise Shape("_tpower comparison not found")
    out["tp_ge"] = {ast.GtE: "ge", ast.Gt: "gt"}.get(type(cmp_tp[0].ops[0]))
    loop = next((st for st in body if isinstance(st, ast.For)), None)
    cm = [n for n in ast.walk(loop) if isinstance(n, ast.Compare)] if loop else []
    if len(cm) != 1 or len(cm[0].ops) != 1:
        raise Shape("mask comparison not found")
    out["mask_lt"] = {ast.Lt: "lt", ast.LtE: "le"}.get(type(cm[0].ops[0]))
    if out["tp_ge"] is None or out["mask_lt"] is None:
        raise Shape("comparison operators not recognised")
    return out


def lean_source(path):
    tree = ast.parse(open(path).read())
    w, f, lg, b = wiener(tree), fourier(tree), legendre(tree), bsplines(tree)
    L = ["/-",
         "GENERATED by harness/c18_translate.py from FDApy/misc/basis.py (`_basis_wiener`, `_basis_fourier`, `_basis_legendre`,",
         "`_basis_bsplines`).  Do not edit: regenerated on every run of `./check C18`.  `C18.wiener_src_eq_model`,",
         "`C18.fourier_src_eq_model`, `C18.legendre_src_eq_model`, `C18.bspline_scalars_src_eq_model` prove these equal to the model's.",
         "-/", "import Mathlib.Analysis.SpecialFunctions.Trigonometric.Basic", "import Mathlib.Analysis.SpecialFunctions.Sqrt",
         "import Mathlib.Algebra.Order.Field.Rat", "import Mathlib.Data.Nat.Factorial.Basic", "", "namespace FDA.Generated.Basis", "",
         "/-! `_basis_wiener`: `for degree in arange(lo, hi): values[row, :] = rhs` -/",
         f"def wienerLo (n : ℕ) : ℕ := {w['lo']}", f"def wienerHi (n : ℕ) : ℕ := {w['hi']}", f"def wienerRow (d : ℕ) : ℕ := {w['row']}",
         f"noncomputable def wienerRhs (d : ℕ) (t : ℝ) : ℝ := {w['rhs']}", "",
         "/-! `_basis_fourier` with `a = np.min(argvals)`, `L = np.ptp(argvals)`: constant rows, then `for k in arange(lo, hi)` -/",
         f"noncomputable def fourierConst (a L : ℝ) : ℝ := {f['const']}", f"def fourierLo (n : ℕ) : ℕ := {f['lo']}", f"def fourierHi (n : ℕ) : ℕ := {f['hi']}",
         f"noncomputable def fourierRow (a L : ℝ) (k : ℕ) (t : ℝ) : ℝ :=", f"  if {f['cond']} then {f['then']}", f"  else {f['els']}", "",
         "/-! `_basis_legendre`: `for degree in arange(lo, hi): values[row, :] = eval_legendre(deg, argvals)` -/",
         f"def legendreLo (n : ℕ) : ℕ := {lg['lo']}", f"def legendreHi (n : ℕ) : ℕ := {lg['hi']}", f"def legendreRow (d : ℕ) : ℕ := {lg['row']}",
         f"def legendreDeg (d : ℕ) : ℕ := {lg['deg']}", "",
         "/-! `_basis_bsplines`: the scalar expressions of the construction -/",
         f"def bsNSeg (nfun p : ℕ) : ℕ := {b['nseg']}",
         f"def bsDx (dmin dmax : ℚ) (nseg : ℕ) : ℚ := {b['dx']}",
         f"def bsStart (dmin dmax : ℚ) (p : ℕ) (dx : ℚ) : ℚ := {b['start']}",
         f"def bsStop (dmin dmax : ℚ) (p : ℕ) (dx : ℚ) : ℚ := {b['stop']}",
         f"def bsNum (nseg p : ℕ) : ℕ := {b['num']}",
         f"def bsDiffOrder (p : ℕ) : ℕ := {b['diff']}",
         f"def bsGammaArg (p : ℕ) : ℕ := {b['gamma']}",
         f"def bsDen2 (p : ℕ) (dx : ℚ) : ℚ := {b['den2']}",
         f"def bsSign (p : ℕ) : ℚ := {b['sign']}",
         f"def bsMaskOffset (p : ℕ) : ℕ := {b['maskoff']}",
         f"/-- `_tpower` keeps a point AT a knot (`x >= knot`) -/\ndef bsTpowerClosed : Bool := {'true' if b['tp_ge'] == 'ge' else 'false'}",
         f"/-- the mask is strict (`val < sk`) -/\ndef bsMaskStrict : Bool := {'true' if b['mask_lt'] == 'lt' else 'false'}",
         "", "end FDA.Generated.Basis", ""]
    return "\n".join(L)


if __name__ == "__main__":
    import sys
    print(lean_source(sys.argv[1]))
