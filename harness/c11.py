"""C11 — containers never reach an inconsistent state (operation histories).

Implementation side: the real `DenseFunctionalData`, `IrregularFunctionalData`,
`MultivariateFunctionalData` of the tree under test, driven through operation
histories; after every step the outcome class, the whole state (shapes, labels,
content tags) and all observers are read back.  Model side: `FDA.Containers.step`
(`lean/Drivers/C11.lean`).  Oracle: the property's own predicate on the real objects
(reject => unchanged + TypeError/ValueError; accept => consistent; observers agree with
plain arrays / a plain Python list replaying the same history).
"""
from __future__ import annotations

import itertools
import os

import numpy as np

import common
import containers_util as cu
from common import Rng, digest, err_class
from containers_util import Tokens, nv

PROP = "C11"
MODULES = ["FDAProofs.Props.C11"]
DRIVER = "Drivers/C11.lean"
PARALLEL = True
RULE = (
    "operation histories over {construct, set argvals/values/argvals_stand, append, extend, insert, remove, pop, "
    "clear, reverse, getitem int/slice/array, concatenate} with compatible arguments and arguments incompatible in "
    "one respect (class, number of points, number of observations, dimension, labels, grid), on dense (1-D, 2-D), "
    "irregular and multivariate objects: random histories of length 5..40 whose arguments are chosen relative to the "
    "current state, plus every history of length <= 2 (quick) / <= 4 (thorough) over a fixed 24-instance alphabet per "
    "kind of object; a history is non-trivial when at least one step is accepted and at least one is rejected or "
    "changes the number of observations/components; distinct by content hash of the history"
)
PARTIAL = [
    "a functional-data object shares the argvals / values objects it was constructed from (recorded in the `ctorargs` cases, not "
    "judged); the typed-dictionary API sweep (`api` cases) and the constructor-argument cases are oracle-only (no Lean model)",
    "inherited UserList operations outside the property's list are modelled as they behave (`stepX`): `del`, `+`, `*`, `*=`, "
    "`sort` preserve the invariant (`xop_preserves`), `mfd[i] = c` and `mfd += […]` do not (`xop_*_counterexample`, documented, "
    "not judged); `copy()` is not modelled (it returns an object whose `data` is the original object)",
    "BasisFunctionalData as a container (`BasisObj`: unguarded constructor / coefficients attribute) is modelled and proved about "
    "but not run against the implementation (basis data are not among the property's object kinds)",
    "in-place mutation of an object's dictionaries with items of the RIGHT class (`fd.argvals[k] = grid of another size`, `pop`, "
    "`del`) bypasses the setters' compatibility check: outside the property's operation list, not modelled",
    "numeric content of an explicitly ASSIGNED argvals_stand (class and numbers of points only); the computed one is modelled "
    "exactly for dense grids (`normalizeGrid`), irregular data: oracle only (extremes over all observations)",
    "dimension of an empty irregular dataset (n_dimension raises StopIteration; mirrored, not judged)",
    "degenerate SAMPLING POINTS: grids with no point (the normalisation raises ValueError on the empty minimum) and argvals with "
    "no dimension at all are not generated; degenerate VALUES (0-d, (1,), (1, 1), empty) are swept against every admissible grid",
]
EXHAUSTIVE = {"quick": False, "thorough": True}

_GUARD_CACHE = {}
TRUSTED_EXTRA = [
    "harness/c11_translate.py: syntax-only, statement-by-statement translation of the argvals / values / argvals_stand setters and "
    "of compatible_with into lean/FDAModel/Generated/Setters.lean (vocabulary and meaning of the statements on the container "
    "model: lean/FDAModel/Core/PySetter.lean)",
]
GEN_SETTERS = os.path.join(common.LEAN_DIR, "FDAModel", "Generated", "Setters.lean")
TRANSLATOR = {"note": None}


def translate():
    """Regenerate Generated/Setters.lean from the setter bodies as they are now.  An unrecognised shape is NOT an alarm: the
    reference translation kept beside the translator is used and the evidence says that the tie rests on the correspondence."""
    import c11_translate

    try:
        src = c11_translate.lean_source(common.REPO)
        TRANSLATOR["note"] = ("translator: setter bodies (argvals, values, argvals_stand, compatible_with) regenerated from the source and "
                              "re-proved equal to the model's setters (C11.setter_src_eq_model_dense / _irreg / _stand)")
    except (ValueError, SyntaxError, IndexError, AttributeError, KeyError, TypeError) as e:
        TRANSLATOR["note"] = f"translator: shape of the setters not recognised, tie rests on the correspondence only ({e})"
        print("note:", TRANSLATOR["note"])
        src = open(os.path.join(os.path.dirname(os.path.abspath(__file__)), "c11_setters_reference.lean")).read()
    except OSError as e:
        raise common.InfraError(f"translator: cannot read the sources: {e}")
    if not os.path.exists(GEN_SETTERS) or open(GEN_SETTERS).read() != src:
        with open(GEN_SETTERS, "w") as fh:
            fh.write(src)


def extra_coverage(cases, impls, models):
    return dict(translator=TRANSLATOR["note"])


FINDING_STAND = "C11-argvals-stand-unguarded"
FINDING_IOR = "C11-typed-dict-ior"


def _ior_open():
    """Is `C11-typed-dict-ior` listed open?  (`VERIF_C11_IOR_OPEN=0|1` overrides, to validate a patched tree.)"""
    import os

    if os.environ.get("VERIF_C11_IOR_OPEN") in ("0", "1"):
        return os.environ["VERIF_C11_IOR_OPEN"] == "1"
    if "ior" not in _GUARD_CACHE:
        try:
            _GUARD_CACHE["ior"] = any(f.get("id") == FINDING_IOR for f in common.load_findings(PROP))
        except ValueError:
            _GUARD_CACHE["ior"] = True
    return _GUARD_CACHE["ior"]


def _guard():
    """0: the argvals_stand setter is listed as an open finding (model = setter as coded); 1: repaired.

    `VERIF_C11_STAND_GUARD=0|1` overrides (to validate a tree with / without `fixes/C11-argvals-stand.diff`
    before the entry is moved from `open` to `fixed` in `known_findings.d/C11.json`)."""
    import os

    if os.environ.get("VERIF_C11_STAND_GUARD") in ("0", "1"):
        return int(os.environ["VERIF_C11_STAND_GUARD"])
    if "v" not in _GUARD_CACHE:       # read once per process (the findings files may be rewritten concurrently)
        for attempt in range(5):
            try:
                _GUARD_CACHE["v"] = 0 if any(f.get("id") == FINDING_STAND for f in common.load_findings(PROP)) else 1
                break
            except ValueError:
                import time

                time.sleep(0.5)
        else:
            raise common.InfraError("known findings unreadable")
    return _GUARD_CACHE["v"]


# --------------------------------------------------------------------------
# token helpers
# --------------------------------------------------------------------------

def a_dense(pts, g):
    return ["da", nv(pts), str(g)]


def v_dense(rows, pts):
    return ["dv", nv(rows), nv(pts)]


def a_irreg(obs):
    out = ["ia", str(len(obs))]
    for l, pts, g in obs:
        out += [str(l), nv(pts), str(g)]
    return out


def v_irreg(obs):
    out = ["iv", str(len(obs))]
    for l, sh, r in obs:
        out += [str(l), nv(sh), str(r)]
    return out


def parse_state(s):
    """Canonical state string -> descriptor (used only to choose the next arguments)."""
    def shape(t):
        return [] if t == "-" else [int(x) for x in t.split(".")]

    def grid(g):
        if g.startswith("D:"):
            _, a, v, st = g.split(":")
            pts, gt = a[2:].split("@")
            rows, vpts = v[2:].split("x")
            return dict(kind="D", pts=shape(pts), g=int(gt), rows=shape(rows), vpts=shape(vpts))
        _, a, v, st = g.split(":")
        ao, vo = [], []
        if a[2:] != "-":
            for e in a[2:].split(","):
                l, rest = e.split("/")
                p, gt = rest.split("@")
                ao.append((int(l), shape(p), int(gt)))
        if v[2:] != "-":
            for e in v[2:].split(","):
                l, rest = e.split("/")
                p, r = rest.split("#")
                vo.append((int(l), shape(p), int(r)))
        return dict(kind="I", a=ao, v=vo)

    if s == "E":
        return dict(kind="E")
    if s.startswith("M["):
        body = s[2:-1]
        return dict(kind="M", comps=[grid(c) for c in body.split(";")] if body else [])
    return grid(s)


def recipe_of(d):
    if d["kind"] == "D":
        return ["D"] + a_dense(d["pts"], d["g"]) + v_dense(d["rows"], d["vpts"])
    return ["I"] + a_irreg(d["a"]) + v_irreg(d["v"])


def nobs_of(d):
    return len(d["rows"]) if d["kind"] == "D" else len(d["v"])


# --------------------------------------------------------------------------
# argument choice relative to a descriptor
# --------------------------------------------------------------------------

_TAG = itertools.count(10)


def fresh_rows(rng, n):
    return [rng.randint(0, 60) for _ in range(n)]


def rand_pts(rng, dim=None):
    dim = dim or rng.choice([1, 1, 1, 2])
    return [rng.randint(1, 4) for _ in range(dim)]


def rand_dense_recipe(rng, nobs, pts=None, g=None):
    pts = pts or rand_pts(rng)
    return ["D"] + a_dense(pts, rng.randint(0, 7) if g is None else g) + v_dense(fresh_rows(rng, nobs), pts)


def rand_irreg_obs(rng, nobs, dim=1, labels=None):
    labels = list(range(nobs)) if labels is None else labels
    a, v = [], []
    for l in labels:
        pts = [rng.randint(1, 4) for _ in range(dim)]
        a.append((l, pts, rng.randint(0, 7)))
        v.append((l, pts, rng.randint(0, 60)))
    return a, v


def rand_irreg_recipe(rng, nobs, dim=1, labels=None):
    a, v = rand_irreg_obs(rng, nobs, dim, labels)
    return ["I"] + a_irreg(a) + v_irreg(v)


def rand_recipe(rng, nobs):
    return rand_dense_recipe(rng, nobs) if rng.random() < 0.5 else rand_irreg_recipe(rng, nobs, rng.choice([1, 1, 2]))


def bump(pts, rng):
    p = list(pts)
    k = rng.randrange(len(p)) if p else 0
    if not p:
        return [2]
    p[k] = p[k] + 1 if p[k] == 1 or rng.random() < 0.5 else p[k] - 1
    return p


def other_dim(pts, rng):
    return list(pts) + [2] if len(pts) == 1 or rng.random() < 0.5 else list(pts)[:-1]


def rand_index(rng, n):
    c = rng.random()
    if c < 0.35:
        return ["gi", str(rng.randint(-n - 2, n + 1))]
    if c < 0.7:
        def oi():
            return "N" if rng.random() < 0.3 else str(rng.randint(-n - 2, n + 2))
        st = rng.choice(["N", "N", "1", "2", "-1", "-2", "3", "0"])
        return ["gs", oi(), oi(), st]
    k = rng.randint(0, 3)
    return ["ga", nv([rng.randint(-n - 1, n) for _ in range(k)])]


def choose_construct(rng):
    c = rng.random()
    if c < 0.3:
        pts = rand_pts(rng)
        n = rng.randint(1, 4)
        bad = rng.random() < 0.35
        vpts = (bump(pts, rng) if rng.random() < 0.6 else other_dim(pts, rng)) if bad else pts
        a = a_dense(pts, rng.randint(0, 7))
        v = v_dense(fresh_rows(rng, n), vpts)
        if rng.random() < 0.12:
            a = rng.choice([["oa"], ["ba"], a_irreg(rand_irreg_obs(rng, 2)[0])])
        elif rng.random() < 0.12:
            v = rng.choice([["ov"], ["bv"], v_irreg(rand_irreg_obs(rng, 2)[1])])
        return ["mkD"] + a + v
    if c < 0.6:
        n = rng.randint(1, 4)
        dim = rng.choice([1, 1, 2])
        labels = rng.choice([list(range(n)), list(range(n)), rng.sample(range(-2, 9), n)])
        a, v = rand_irreg_obs(rng, n, dim, labels)
        m = rng.random()
        if m < 0.1:
            v = [(l, bump(sh, rng), r) for l, sh, r in v[:1]] + v[1:]
        elif m < 0.2:
            v = v[:-1] if len(v) > 1 else v + [(99, [2] * dim, 3)]
        elif m < 0.3:
            v = list(reversed(v))
        elif m < 0.36:
            v = [(l + 100, sh, r) for l, sh, r in v[:1]] + v[1:]
        elif m < 0.42:
            v = [(l, other_dim(sh, rng), r) for l, sh, r in v]
        a, v = a_irreg(a), v_irreg(v)
        if rng.random() < 0.1:
            a = rng.choice([["oa"], ["ba"], a_dense([3], 1)])
        elif rng.random() < 0.1:
            v = rng.choice([["ov"], ["bv"], v_dense([1, 2], [3])])
        return ["mkI"] + a + v
    n = rng.randint(0, 4)
    k = rng.randint(0, 3)
    rs = [rand_recipe(rng, n) for _ in range(k)]
    if k >= 2 and rng.random() < 0.3:
        rs[rng.randrange(k)] = rand_recipe(rng, n + 1)
    return ["mkM", str(k)] + [t for r in rs for t in r]


def _ba(rng):
    return ["ba" + str(rng.randrange(cu.N_BAD_ARG))]


def _bv(rng):
    return ["bv" + str(rng.randrange(cu.N_BAD_VAL))]


def _retag(rng, g, pts, allow_naming):
    """A grid tag with the same base and, where the sizes allow it, another style (repeated point / unsorted), other
    dimension names (non-sorted insertion order, arbitrary names; dense >= 2-D only) and another coordinate scale."""
    base = int(g) % 8
    new = base
    if rng.random() < 0.3:
        cand = base + 8 * rng.choice([1, 2])
        if cu.style_ok(pts, cand):
            new = cand
    if allow_naming and len(pts) >= 2 and rng.random() < 0.5:
        new += 24 * rng.choice([1, 2])
    return new


def _randomise_styles(rng, toks):
    """Give some of the grids a repeated point or an unsorted order, dimension names that are not in sorted insertion order,
    and coordinates far from the origin / narrow relative to their offset / in tiny units."""
    toks = list(toks)
    i = 0
    while i < len(toks):
        if toks[i] == "da" and i + 2 < len(toks):
            pts = cu.natvec(toks[i + 1])
            g = _retag(rng, toks[i + 2], pts, True)
            if rng.random() < 0.2:
                sc = rng.choice([1, 2, 3])
                if sc != 3 or g % 8 >= 1:
                    g += 72 * sc
            toks[i + 2] = str(g)
            i += 3
        elif toks[i] == "ia" and i + 1 < len(toks):
            n = int(toks[i + 1])
            sc = rng.choice([1, 2, 3]) if rng.random() < 0.2 else 0      # one coordinate scale for the whole dataset
            for k in range(n):
                j = i + 2 + 3 * k
                if j + 2 < len(toks):
                    g = _retag(rng, toks[j + 2], cu.natvec(toks[j + 1]), False)
                    if sc == 3 and g % 8 == 0:
                        g += 1
                    toks[j + 2] = str(g + 72 * sc)
            i += 2 + 3 * n
        else:
            i += 1
    return toks


def _randomise_bad(rng, toks):
    toks = _randomise_styles(rng, toks)
    return [("ba" + str(rng.randrange(cu.N_BAD_ARG))) if t == "ba" else ("bv" + str(rng.randrange(cu.N_BAD_VAL))) if t == "bv" else t for t in toks]


def choose_op(rng: Rng, d):
    return _randomise_bad(rng, _choose_op(rng, d))


def _choose_op(rng: Rng, d):
    k = d["kind"]
    if k in ("D", "I", "M") and rng.random() < 0.05:
        return ["cat", "0"]          # concatenation of a single piece: still a new object
    if k == "E" or rng.random() < 0.06:
        return choose_construct(rng)
    if k in ("D", "I") and rng.random() < 0.07:
        return ["bi", rng.choice(["a", "a", "v"]) + str(rng.randrange(cu.N_BAD_ITEM))]
    if k == "D":
        pts, g, rows = d["pts"], d["g"], d["rows"]
        n = len(rows)
        c = rng.random()
        if c < 0.2:
            m = rng.random()
            if m < 0.45:
                return ["setA"] + a_dense(pts, rng.randint(0, 7))
            if m < 0.65:
                return ["setA"] + a_dense(bump(pts, rng), g)
            if m < 0.8:
                return ["setA"] + a_dense(other_dim(pts, rng), g)
            return ["setA"] + rng.choice([["oa"], ["ba"], a_irreg(rand_irreg_obs(rng, max(n, 1))[0])])
        if c < 0.4:
            m = rng.random()
            if m < 0.35:
                return ["setV"] + v_dense(fresh_rows(rng, n), pts)
            if m < 0.55:
                return ["setV"] + v_dense(fresh_rows(rng, rng.randint(0, 5)), pts)
            if m < 0.7:
                return ["setV"] + v_dense(fresh_rows(rng, n), bump(pts, rng))
            if m < 0.85:
                return ["setV"] + v_dense(fresh_rows(rng, n), other_dim(pts, rng))
            return ["setV"] + rng.choice([["ov"], ["bv"], v_irreg(rand_irreg_obs(rng, max(n, 1))[1])])
        if c < 0.55:
            m = rng.random()
            if m < 0.4:
                return ["setS"] + a_dense(pts, rng.randint(0, 7))
            if m < 0.6:
                return ["setS"] + a_dense(bump(pts, rng), g)
            if m < 0.7:
                return ["setS"] + a_dense(other_dim(pts, rng), g)
            if m < 0.85:
                return ["setS"] + a_irreg(rand_irreg_obs(rng, max(n, 1))[0])
            return ["setS"] + rng.choice([["oa"], ["ba"]])
        if c < 0.8:
            return rand_index(rng, n)
        kk = rng.randint(1, 2)
        others = []
        for _ in range(kk):
            m = rng.random()
            if m < 0.6:
                others.append(["U"] + rand_dense_recipe(rng, rng.randint(0, 3), pts, g))
            elif m < 0.75:
                others.append(["U"] + rand_dense_recipe(rng, rng.randint(1, 3), pts, (g + 1) % 8))
            elif m < 0.85:
                others.append(["U"] + rand_dense_recipe(rng, rng.randint(1, 3), bump(pts, rng), g))
            elif m < 0.93:
                others.append(["U"] + rand_dense_recipe(rng, rng.randint(1, 3), other_dim(pts, rng), g))
            else:
                others.append(["U"] + rand_irreg_recipe(rng, 2, len(pts)))
        return ["cat", str(kk)] + [t for o in others for t in o]
    if k == "I":
        a, v = d["a"], d["v"]
        n = len(a)
        dim = len(a[0][1]) if a else 1
        c = rng.random()
        if c < 0.2:
            m = rng.random()
            new = [(l, p, rng.randint(0, 7)) for l, p, _ in a]
            if m < 0.35:
                return ["setA"] + a_irreg(new)
            if m < 0.45:
                return ["setA"] + a_irreg(list(reversed(new)))
            if m < 0.6 and new:
                new[0] = (new[0][0], bump(new[0][1], rng), new[0][2])
                return ["setA"] + a_irreg(new)
            if m < 0.7:
                return ["setA"] + a_irreg(new[:-1] if len(new) > 1 else new + [(77, [2] * dim, 0)])
            if m < 0.78 and new:
                new[-1] = (new[-1][0] + 50, new[-1][1], new[-1][2])
                return ["setA"] + a_irreg(new)
            if m < 0.88:
                return ["setA"] + a_irreg([(l, other_dim(p, rng), g) for l, p, g in new])
            return ["setA"] + rng.choice([["oa"], ["ba"], a_dense([3], 1)])
        if c < 0.4:
            m = rng.random()
            new = [(l, p, rng.randint(0, 60)) for l, p, _ in v]
            if m < 0.35:
                return ["setV"] + v_irreg(new)
            if m < 0.45:
                return ["setV"] + v_irreg(list(reversed(new)))
            if m < 0.6 and new:
                new[0] = (new[0][0], bump(new[0][1], rng), new[0][2])
                return ["setV"] + v_irreg(new)
            if m < 0.7:
                return ["setV"] + v_irreg(new[:-1] if len(new) > 1 else new + [(77, [2] * dim, 0)])
            if m < 0.78 and new:
                new[-1] = (new[-1][0] + 50, new[-1][1], new[-1][2])
                return ["setV"] + v_irreg(new)
            if m < 0.88:
                return ["setV"] + v_irreg([(l, other_dim(p, rng), r) for l, p, r in new])
            return ["setV"] + rng.choice([["ov"], ["bv"], v_dense([1, 2], [3])])
        if c < 0.55:
            m = rng.random()
            new = [(l, p, rng.randint(0, 7)) for l, p, _ in a]
            if m < 0.3:
                return ["setS"] + a_irreg(new)
            if m < 0.42 and new:
                # the same sizes position by position under OTHER labels (shifted / one renamed / rotated)
                how = rng.choice(["shift", "one", "rotate"])
                labs = [l for l, _, _ in new]
                if how == "shift":
                    labs2 = [l + 3 for l in labs]
                elif how == "one":
                    labs2 = labs[:-1] + [max(labs) + 1]
                else:
                    labs2 = labs[1:] + labs[:1]
                if labs2 != labs:
                    return ["setS"] + a_irreg([(l2, p, g) for l2, (_, p, g) in zip(labs2, new)])
                return ["setS"] + a_irreg(new)
            if m < 0.55 and new:
                new[0] = (new[0][0], bump(new[0][1], rng), new[0][2])
                return ["setS"] + a_irreg(new)
            if m < 0.68:
                return ["setS"] + a_irreg(new[:-1] if len(new) > 1 else new + [(77, [2] * dim, 0)])
            if m < 0.8:
                return ["setS"] + a_dense([3], 0)
            return ["setS"] + rng.choice([["oa"], ["ba"]])
        if c < 0.8:
            return rand_index(rng, n)
        kk = rng.randint(1, 2)
        others = []
        for _ in range(kk):
            m = rng.random()
            if m < 0.7:
                nn = rng.randint(1, 3)
                labels = rng.choice([list(range(nn)), list(range(nn)), rng.sample(range(0, 7), nn)])
                others.append(["U"] + rand_irreg_recipe(rng, nn, dim, labels))
            elif m < 0.85:
                others.append(["U"] + rand_irreg_recipe(rng, 2, 3 - dim))
            else:
                others.append(["U"] + rand_dense_recipe(rng, 2))
        return ["cat", str(kk)] + [t for o in others for t in o]
    # multivariate
    comps = d["comps"]
    P = len(comps)
    n = nobs_of(comps[0]) if comps else rng.randint(1, 3)
    c = rng.random()
    if c < 0.14:
        m = rng.random()
        if m < 0.6:
            return ["app"] + rand_recipe(rng, n)
        if m < 0.9:
            return ["app"] + rand_recipe(rng, n + rng.choice([1, 2]) if n == 0 or rng.random() < 0.7 else n - 1)
        return ["app", "D"] + a_dense([3], 0) + v_dense(fresh_rows(rng, n), [4])
    if c < 0.28:
        kk = rng.randint(0, 3)
        rs = [rand_recipe(rng, n) for _ in range(kk)]
        if kk and rng.random() < 0.45:
            rs[rng.choice([0, kk - 1])] = rand_recipe(rng, n + 1)
        return ["ext", str(kk)] + [t for r in rs for t in r]
    if c < 0.42:
        nn = n if rng.random() < 0.6 else n + 1
        return ["ins", str(rng.randint(-P - 2, P + 2))] + rand_recipe(rng, nn)
    if c < 0.54:
        if comps and rng.random() < 0.7:
            return ["rem"] + recipe_of(rng.choice(comps))
        return ["rem"] + rand_recipe(rng, n)
    if c < 0.66:
        return ["popd"] if rng.random() < 0.4 else ["pop", str(rng.randint(-P - 1, P))]
    if c < 0.7:
        return ["clr"]
    if c < 0.76:
        return ["rev"]
    if c < 0.9:
        return rand_index(rng, n)
    kk = rng.randint(1, 2)
    others = []
    for _ in range(kk):
        m = rng.random()
        nn = rng.randint(1, 2)
        rs = []
        for cdesc in comps:
            if cdesc["kind"] == "D":
                g = cdesc["g"] if m < 0.8 else (cdesc["g"] + 1) % 8
                rs.append(rand_dense_recipe(rng, nn, cdesc["pts"], g))
            else:
                dim = len(cdesc["a"][0][1]) if cdesc["a"] else 1
                rs.append(rand_irreg_recipe(rng, nn, dim))
        if m > 0.9:
            rs = rs[:-1] if rs else [rand_recipe(rng, nn)]
        others.append(["M", str(len(rs))] + [t for r in rs for t in r])
    return ["cat", str(kk)] + [t for o in others for t in o]


# --------------------------------------------------------------------------
# executing one operation on the real objects
# --------------------------------------------------------------------------

def _index_of(op, tk):
    if op == "gi":
        return int(tk.next())
    if op == "gs":
        def oi(t):
            return None if t == "N" else int(t)
        return slice(oi(tk.next()), oi(tk.next()), oi(tk.next()))
    return np.array(cu.intvec(tk.next()), dtype=int)


_LAST_INFO = {}


def _cat_compatible(objs):
    """Plain predicate: may these objects be concatenated (same class, same dimension, dense: same grid;
    multivariate: same number of components, component-wise compatible)?"""
    A, V, FD = cu._fd()
    try:
        if len({type(o) for o in objs}) > 1:
            return False
        if isinstance(objs[0], FD.MultivariateFunctionalData):
            if len({len(o.data) for o in objs}) > 1:
                return False
            return all(_cat_compatible([o.data[k] for o in objs]) for k in range(len(objs[0].data)))
        if isinstance(objs[0], FD.DenseFunctionalData):
            a0 = objs[0].argvals
            return all(list(o.argvals.keys()) == list(a0.keys()) and all(np.array_equal(o.argvals[k], a0[k]) for k in a0) for o in objs)
        dims = {len(next(iter(o.argvals.values()))) for o in objs if len(o.argvals)}
        return len(dims) <= 1 and all(len(o.argvals) for o in objs)
    except Exception:  # noqa: BLE001
        return False


def _wrong_class(obj, toks):
    """Is the argument of this setter / constructor of a class for which a TypeError is documented?"""
    A, V, FD = cu._fd()
    op = toks[0]
    if op in ("bi", "bo"):
        return isinstance(obj, FD.GridFunctionalData) and not (toks[1][0] == "v" and isinstance(obj, FD.DenseFunctionalData))
    if op in ("mkD", "mkI"):
        want = "d" if op == "mkD" else "i"
        rest = toks[1:]
        a = rest[0]
        # the value token follows the argvals description
        vtok = next((t for t in rest[1:] if t in ("dv", "iv", "ov") or t.startswith("bv")), None)
        return a == "oa" or a.startswith("ba") or a[0] != want or vtok == "ov" or (vtok is not None and (vtok.startswith("bv") or vtok[0] != want))
    if op in ("setA", "setV", "setS"):
        if not isinstance(obj, FD.GridFunctionalData):
            return False
        want = "d" if isinstance(obj, FD.DenseFunctionalData) else "i"
        t = toks[1]
        if t in ("oa", "ov") or t.startswith("ba") or t.startswith("bv"):
            return True
        return t[0] != want and (op != "setS" or _guard() == 1)
    return False


def apply_op(obj, toks, shadow):
    """Apply one operation.  Returns (obj', outcome, shadow').

    `shadow` is the plain Python list (of component identities) replaying the accepted list
    operations of a multivariate object; `None` for other objects."""
    A, V, FD = cu._fd()
    tk = Tokens(toks)
    op = tk.next()
    is_grid = isinstance(obj, FD.GridFunctionalData)
    is_multi = isinstance(obj, FD.MultivariateFunctionalData)
    try:
        if op in ("mkD", "mkI"):
            a, v = cu.parse_arg(tk), cu.parse_val(tk)
            cls = FD.DenseFunctionalData if op == "mkD" else FD.IrregularFunctionalData
            return cls(a(), v()), "ok", None
        if op == "mkM":
            rs = cu.parse_counted(tk, cu.parse_recipe)
            comps = [r() for r in rs]
            new = FD.MultivariateFunctionalData(comps)
            return new, "ok", [id(c) for c in comps]
        if op in ("setA", "setV", "setS"):
            if not is_grid:
                return obj, "na", shadow
            val = (cu.parse_val(tk) if op == "setV" else cu.parse_arg(tk))()
            setattr(obj, {"setA": "argvals", "setV": "values", "setS": "argvals_stand"}[op], val)
            return obj, "ok", shadow
        if op in ("bi", "bo"):
            if not is_grid:
                return obj, "na", shadow
            t = tk.next()
            if not cu.bad_item_assign(obj, t[0], int(t[1:] or 0), ior=(op == "bo")):
                return obj, "na", shadow
            return obj, "ok", shadow
        if op in ("app", "ext", "ins", "rem", "pop", "popd", "clr", "rev"):
            if not is_multi:
                return obj, "na", shadow
            if op == "app":
                c = cu.parse_recipe(tk)()
                obj.append(c)
                shadow = shadow + [id(c)]
            elif op == "ext":
                cs = [r() for r in cu.parse_counted(tk, cu.parse_recipe)]
                obj.extend(cs)
                shadow = shadow + [id(c) for c in cs]
            elif op == "ins":
                i = int(tk.next())
                c = cu.parse_recipe(tk)()
                obj.insert(i, c)
                shadow = list(shadow)
                shadow.insert(i, id(c))
            elif op == "rem":
                c = cu.parse_recipe(tk)()
                before = [id(x) for x in obj.data]
                obj.remove(c)
                after = [id(x) for x in obj.data]
                # plain list: exactly one element disappears, order kept
                gone = [k for k in range(len(before)) if before[:k] + before[k + 1:] == after]
                shadow = after if gone else shadow
            elif op == "pop":
                i = int(tk.next())
                obj.pop(i)
                shadow = list(shadow)
                shadow.pop(i)
            elif op == "popd":
                obj.pop()
                shadow = list(shadow)
                shadow.pop()
            elif op == "clr":
                obj.clear()
                shadow = []
            else:
                obj.reverse()
                shadow = list(reversed(shadow))
            return obj, "ok", shadow
        if op in ("gi", "gs", "ga"):
            if obj is None:
                return obj, "na", shadow
            new = obj[_index_of(op, tk)]
            return new, "ok", ([id(c) for c in new.data] if is_multi else None)
        if op == "cat":
            if obj is None:
                return obj, "na", shadow
            others = [r() for r in cu.parse_counted(tk, cu.parse_srecipe)]
            _LAST_INFO["cat_compatible"] = _cat_compatible([obj] + others)
            new = type(obj).concatenate(obj, *others)
            return new, "ok", ([id(c) for c in new.data] if is_multi else None)
        raise RuntimeError("unknown op " + op)
    except (TypeError, ValueError, IndexError, KeyError) as e:
        return obj, err_class(e), shadow
    except (StopIteration, RuntimeError, AttributeError, ZeroDivisionError, NotImplementedError):
        # StopIteration (RuntimeError when it escapes a generator expression): `n_dimension` of an empty irregular dataset
        return obj, "Other", shadow


def _stand_is_normalisation(x):
    """Are the standardised points numerically `(t - min) / (max - min)` of the sampling points, point by point
    (same number of points, same order; irregular data: minimum / maximum over all observations)?  Computed
    here with plain NumPy, not with the package's own `normalization`."""
    A, V, FD = cu._fd()
    a, st = x.argvals, x.argvals_stand
    if isinstance(a, A.DenseArgvals):
        if not isinstance(st, A.DenseArgvals) or list(a.keys()) != list(st.keys()):
            return False
        for k, t in a.items():
            t = np.asarray(t, dtype=float)
            with np.errstate(all="ignore"):
                want = (t - t.min()) / (t.max() - t.min()) if len(t) else t
            if np.shape(st[k]) != np.shape(want) or not np.allclose(st[k], want, rtol=1e-12, atol=1e-15, equal_nan=True):
                return False
        return True
    if not isinstance(st, A.IrregularArgvals) or list(a.keys()) != list(st.keys()):
        return False
    dims = {}
    for d in a.values():
        for k, t in d.items():
            dims.setdefault(k, []).append(np.asarray(t, dtype=float))
    lohi = {k: (min(t.min() for t in ts if len(t)), max(t.max() for t in ts if len(t))) for k, ts in dims.items() if any(len(t) for t in ts)}
    for l, d in a.items():
        if list(d.keys()) != list(st[l].keys()):
            return False
        for k, t in d.items():
            lo, hi = lohi.get(k, (0.0, 0.0))
            if hi == lo:
                continue      # the code returns the one-point grid [0] there: sizes are judged by `stand_tracks`
            want = (np.asarray(t, dtype=float) - lo) / (hi - lo)
            if np.shape(st[l][k]) != np.shape(want) or not np.allclose(st[l][k], want, rtol=1e-12, atol=1e-15):
                return False
    return True


def _dims_ok(x, fresh=False):
    """Consistency of one grid object, read off the real attributes (independent of the model).
    `fresh`: the object was just constructed / its sampling points were just assigned, so the
    standardised points must be exactly the normalisation of the sampling points."""
    A, V, FD = cu._fd()
    bad = []
    a, v, st = x.argvals, x.values, x.argvals_stand
    if fresh and not _stand_is_normalisation(x):
        bad.append("stand_recomputed")
    if isinstance(x, FD.DenseFunctionalData):
        pts = tuple(len(t) for t in a.values())
        if tuple(v.shape[1:]) != pts:
            bad.append("points_agree")
        if not (isinstance(st, A.DenseArgvals) and tuple(len(t) for t in st.values()) == pts):
            bad.append("stand_tracks")
        # observers vs the plain array
        arr = np.asarray(v)
        if x.n_obs != arr.shape[0] or tuple(x.n_points) != arr.shape[1:] or x.n_dimension != arr.ndim - 1:
            bad.append("observers_plain")
    else:
        la = {l: tuple(len(t) for t in d.values()) for l, d in a.items()}
        lv = {l: tuple(np.shape(arr)) for l, arr in v.items()}
        if la != lv:
            bad.append("points_agree")
        if not (isinstance(st, A.IrregularArgvals) and {l: tuple(len(t) for t in d.values()) for l, d in st.items()} == la):
            bad.append("stand_tracks")
        if x.n_obs != len(lv) or dict(x.n_points) != lv:
            bad.append("observers_plain")
        if lv:
            nd = {len(s) for s in lv.values()}
            if len(nd) == 1 and x.n_dimension != nd.pop():
                bad.append("observers_plain")
    return bad


_FRESH_OPS = {"mkD", "mkI", "setA", "gi", "gs", "ga", "cat"}


def check_obj(x, shadow, fresh=False):
    A, V, FD = cu._fd()
    if x is None:
        return []
    if isinstance(x, FD.MultivariateFunctionalData):
        bad = []
        for c in x.data:
            bad += _dims_ok(c)
        ns = {c.n_obs for c in x.data}
        if len(ns) > 1:
            bad.append("same_nobs")
        if x.n_functional != len(list(x.data)):
            bad.append("observers_plain")
        if x.data and len(ns) == 1 and x.n_obs != next(iter(ns)):
            bad.append("observers_plain")
        if shadow is not None and [id(c) for c in x.data] != list(shadow):
            bad.append("plain_list")
        return sorted(set(bad))
    return _dims_ok(x, fresh)


def _plain_select(before, toks):
    """What `obj[index]` must hold according to a plain list model of the state before the step:
    per component the list of (label, content tag) at the selected *positions* (dense: label = None).
    Returns ("err", class) when plain list indexing itself fails, None when not judged."""
    try:
        d = parse_state(before)
    except Exception:  # noqa: BLE001
        return None
    if d["kind"] == "E":
        return None
    op = toks[0]

    def positions(n):
        pos = list(range(n))
        if op == "gi":
            return [pos[int(toks[1])]]
        if op == "gs":
            a, b, c = [None if t == "N" else int(t) for t in toks[1:4]]
            return pos[slice(a, b, c)]
        return [pos[i] for i in cu.intvec(toks[1])]

    def comp(c):
        if c["kind"] == "D":
            return [(None, c["rows"][p]) for p in positions(len(c["rows"]))]
        ent, seen = [], set()
        by_label = {l: r for l, _, r in c["v"]}
        for p in positions(len(c["a"])):
            l = c["a"][p][0]
            if l not in seen:
                seen.add(l)
                ent.append((l, by_label.get(l)))
        return ent

    try:
        comps = [comp(c) for c in d["comps"]] if d["kind"] == "M" else [comp(d)]
    except IndexError:
        return ("err", "IndexError")
    except ValueError:
        return ("err", "ValueError")
    if d["kind"] == "M" and len({len(c) for c in comps}) > 1:
        return ("err", "ValueError")      # a repeated label collapses in an irregular component only
    return ("ok", comps)


def _content_of(state):
    d = parse_state(state)
    cs = d["comps"] if d["kind"] == "M" else [d]
    return [[(None, r) for r in c["rows"]] if c["kind"] == "D" else [(l, r) for l, _, r in c["v"]] for c in cs]


def _safe(f, default):
    try:
        return f()
    except Exception:  # noqa: BLE001  (a corrupted object: wrong-class items inside its dictionaries)
        return default


_NEW_OBJECT_OPS = {"mkD", "mkI", "mkM", "gi", "gs", "ga", "cat"}


def run_history(ops, light=0):
    """Replay a history; the first `light` steps are replayed without reading the state back
    (exhaustive tier: the prefix is judged by its own, shorter, cases).

    Every object the history has produced stays *alive* (the last few of them): an operation that returns data
    (construction, selection, concatenation — also of a single piece) must return an object of its own, so that a later
    legal mutation through the result (a setter) leaves the operands as they were."""
    cu.quiet()
    obj, shadow = None, None
    steps = []
    after = "E"
    alive = []          # (object, its state string when it stopped being the current object, the operation that replaced it)
    for k, toks in enumerate(ops):
        before = after
        _LAST_INFO.clear()
        wrong_class = _wrong_class(obj, toks)
        obj2, out, shadow2 = apply_op(obj, toks, shadow)
        info = dict(_LAST_INFO)
        if wrong_class:
            info["wrong_class"] = True
        if toks[0] in ("gi", "gs", "ga") and out != "na" and k + 1 > light:
            info["plain_select"] = _plain_select(before, toks)
        if out != "ok":
            obj2, shadow2 = obj, shadow
        if out == "ok" and toks[0] in _NEW_OBJECT_OPS and obj is not None and k + 1 > light:
            if obj2 is obj:
                info["same_object_returned"] = True
            else:
                alive.append((obj, before, " ".join(toks)[:60]))
                alive = alive[-3:]
        obj, shadow = obj2, shadow2
        if k + 1 < light:
            steps.append(dict(out=out, state="", obs="", bad=[], unchanged=True))
            continue
        after = cu.show_state(obj)
        fresh = out == "ok" and toks[0] in _FRESH_OPS
        if k + 1 == light:
            steps.append(dict(out=out, state=after, obs="", bad=_safe(lambda: check_obj(obj, shadow, fresh), ["corrupt_object"]), unchanged=True))
            continue
        changed = []
        for o, snap, origin in alive:
            if o is not obj:
                now = cu.show_state(o)
                if now != snap:
                    changed.append(f"the object that `{origin}` was applied to changed from {snap} to {now}")
        if changed:
            info["operand_changed"] = changed[:2]
            alive = [(o, cu.show_state(o), origin) for o, _, origin in alive]
        steps.append(dict(out=out, state=after, obs=_safe(lambda: cu.show_observers(obj), "?corrupt"),
                          bad=_safe(lambda: check_obj(obj, shadow, fresh), ["corrupt_object"]),
                          unchanged=(before == after), info=info))
    return obj, steps


# --------------------------------------------------------------------------
# cases
# --------------------------------------------------------------------------

START = {
    "dense": ["mkD"] + a_dense([3], 1) + v_dense([0, 1, 2], [3]),
    "dense2": ["mkD"] + a_dense([3, 2], 1) + v_dense([0, 1], [3, 2]),
    "irreg": ["mkI"] + a_irreg([(0, [3], 0), (1, [2], 1), (2, [4], 2)]) + v_irreg([(0, [3], 0), (1, [2], 1), (2, [4], 2)]),
    "multi": ["mkM", "2", "D"] + a_dense([3], 1) + v_dense([0, 1], [3]) + ["I"] + a_irreg([(0, [3], 0), (1, [2], 1)]) + v_irreg([(0, [3], 5), (1, [2], 6)]),
}

_IO3 = [(0, [3], 0), (1, [2], 1), (2, [4], 2)]

ALPHABET = {
    "dense": [
        ["mkD"] + a_dense([4], 2) + v_dense([5, 6], [4]),
        ["mkD"] + a_dense([4], 2) + v_dense([5, 6], [3]),
        ["setA"] + a_dense([3], 4),
        ["setA"] + a_dense([4], 4),
        ["setA"] + a_dense([3, 2], 4),
        ["setA"] + a_irreg(_IO3),
        ["setA", "oa"],
        ["setV"] + v_dense([7, 8, 9], [3]),
        ["setV"] + v_dense([7], [3]),
        ["setV"] + v_dense([7, 8, 9], [4]),
        ["setV"] + v_dense([7, 8, 9], [3, 2]),
        ["setV", "ov"],
        ["setS"] + a_dense([3], 0),
        ["setS"] + a_dense([4], 0),
        ["setS"] + a_irreg(_IO3),
        ["setS", "oa"],
        ["gi", "-1"],
        ["gi", "3"],
        ["gs", "1", "N", "N"],
        ["gs", "N", "N", "-1"],
        ["gs", "2", "1", "N"],
        ["ga", "0,0,2"],
        ["cat", "1", "U", "D"] + a_dense([3], 1) + v_dense([20, 21], [3]),
        ["cat", "1", "U", "D"] + a_dense([3], 2) + v_dense([20, 21], [3]),
    ],
    "irreg": [
        ["mkI"] + a_irreg([(0, [2], 3)]) + v_irreg([(0, [2], 9)]),
        ["mkI"] + a_irreg([(0, [2], 3)]) + v_irreg([(0, [3], 9)]),
        ["setA"] + a_irreg([(0, [3], 4), (1, [2], 4), (2, [4], 4)]),
        ["setA"] + a_irreg([(2, [4], 4), (1, [2], 4), (0, [3], 4)]),
        ["setA"] + a_irreg([(0, [3], 4), (1, [3], 4), (2, [4], 4)]),
        ["setA"] + a_irreg([(0, [3], 4), (1, [2], 4)]),
        ["setA"] + a_irreg([(0, [3], 4), (1, [2], 4), (5, [4], 4)]),
        ["setA"] + a_dense([3], 1),
        ["setV"] + v_irreg([(0, [3], 10), (1, [2], 11), (2, [4], 12)]),
        ["setV"] + v_irreg([(0, [3], 10), (1, [2], 11)]),
        ["setV"] + v_irreg([(0, [3], 10), (1, [2, 2], 11), (2, [4], 12)]),
        ["setV", "bv"],
        ["setS"] + a_irreg([(0, [3], 0), (1, [2], 0), (2, [4], 0)]),
        ["setS"] + a_irreg([(0, [3], 0), (1, [2], 0)]),
        ["setS"] + a_dense([3], 0),
        ["setS", "oa"],
        ["gi", "1"],
        ["gi", "-4"],
        ["gs", "1", "N", "N"],
        ["gs", "N", "N", "-1"],
        ["gs", "0", "0", "N"],
        ["ga", "2,0"],
        ["cat", "1", "U", "I"] + a_irreg([(0, [2], 3)]) + v_irreg([(0, [2], 30)]),
        ["cat", "1", "U", "D"] + a_dense([3], 1) + v_dense([20, 21], [3]),
    ],
    "multi": [
        ["mkM", "1", "D"] + a_dense([2], 0) + v_dense([1], [2]),
        ["mkM", "2", "D"] + a_dense([2], 0) + v_dense([1], [2]) + ["D"] + a_dense([2], 0) + v_dense([1, 2], [2]),
        ["app", "D"] + a_dense([4], 3) + v_dense([30, 31], [4]),
        ["app", "D"] + a_dense([4], 3) + v_dense([30, 31, 32], [4]),
        ["app", "D"] + a_dense([4], 3) + v_dense([30, 31], [5]),
        ["ext", "2", "D"] + a_dense([2], 3) + v_dense([40, 41], [2]) + ["I"] + a_irreg([(0, [1], 0), (1, [2], 0)]) + v_irreg([(0, [1], 42), (1, [2], 43)]),
        ["ext", "2", "D"] + a_dense([2], 3) + v_dense([40, 41], [2]) + ["D"] + a_dense([2], 3) + v_dense([40], [2]),
        ["ext", "0"],
        ["ins", "0", "D"] + a_dense([2], 5) + v_dense([50, 51], [2]),
        ["ins", "-1", "D"] + a_dense([2], 5) + v_dense([50, 51], [2]),
        ["ins", "9", "D"] + a_dense([2], 5) + v_dense([50], [2]),
        ["rem", "D"] + a_dense([3], 1) + v_dense([0, 1], [3]),
        ["rem", "I"] + a_irreg([(0, [3], 0), (1, [2], 1)]) + v_irreg([(0, [3], 5), (1, [2], 6)]),
        ["rem", "D"] + a_dense([3], 1) + v_dense([0, 2], [3]),
        ["popd"],
        ["pop", "0"],
        ["pop", "5"],
        ["clr"],
        ["rev"],
        ["gi", "1"],
        ["gi", "2"],
        ["gs", "N", "N", "-1"],
        ["ga", "1,0"],
        ["cat", "1", "M", "2", "D"] + a_dense([3], 1) + v_dense([60], [3]) + ["I"] + a_irreg([(0, [2], 0)]) + v_irreg([(0, [2], 61)]),
    ],
}


def _exhaustive(depth):
    for kind in ("dense", "irreg", "multi"):
        al = ALPHABET[kind]
        for L in range(1, depth + 1):
            for seq in itertools.product(range(len(al)), repeat=L):
                yield dict(kind="seq", start=kind, ops=[START[kind]] + [al[i] for i in seq], ex=L)


def _bad_variant_cases():
    """Every way of offering a wrong-class key / value to the typed dictionaries — at construction, through
    the setters and by item assignment on an existing object — on every kind of start object."""
    good_iv = v_irreg([(0, [3], 0)])
    good_ia = a_irreg([(0, [3], 0)])
    for kind in ("dense", "dense2", "irreg"):
        for k in range(cu.N_BAD_ARG):
            yield dict(kind="seq", start="bad:" + kind, ops=[START[kind], ["setA", f"ba{k}"], ["setS", f"ba{k}"],
                                                              ["mkI", f"ba{k}"] + good_iv, ["mkD", f"ba{k}"] + v_dense([0], [3])])
        for k in range(cu.N_BAD_VAL):
            yield dict(kind="seq", start="bad:" + kind, ops=[START[kind], ["setV", f"bv{k}"], ["mkI"] + good_ia + [f"bv{k}"]])
        for k in range(cu.N_BAD_ITEM):
            yield dict(kind="seq", start="bad:" + kind, ops=[START[kind], ["bi", f"a{k}"], ["bi", f"v{k}"], ["gs", "N", "N", "N"]])
            for t in ("a", "v"):
                # the same wrong-class item offered through `|=` (always the last step of its history)
                yield dict(kind="seq", start="bad:" + kind, ops=[START[kind], ["bi", f"{t}{k}"], ["bo", f"{t}{k}"]])
    for k in range(cu.N_BAD_ARG):
        yield dict(kind="seq", start="bad:multi", ops=[START["multi"], ["app", "I", f"ba{k}"] + good_iv, ["ext", "1", "D", f"ba{k}"] + v_dense([0, 1], [3])])


XOPS_PRESERVING = {"xdel", "xadd", "xmul", "ximul", "xsort"}


def _xop_cases(rng: Rng, n):
    """The inherited `UserList` operations the property does not list, on a multivariate object
    (after a short history): modelled as they behave (`FDA.Containers.stepX`)."""
    for _ in range(n):
        ops = [START["multi"]] if rng.random() < 0.6 else [_randomise_bad(rng, choose_construct(rng))]
        if ops[0][0] != "mkM":
            ops = [START["multi"]]
        for _ in range(rng.randint(0, 3)):
            ops.append(rng.choice(ALPHABET["multi"][2:19]))
        nobs = rng.choice([1, 2, 2, 3])
        c = rng.random()
        if c < 0.2:
            x = ["xset", str(rng.randint(-4, 4))] + rand_recipe(rng, nobs)
        elif c < 0.3:
            x = ["xdel", str(rng.randint(-4, 4))]
        elif c < 0.45:
            k = rng.randint(0, 2)
            x = ["xiadd", str(k)] + [t for _ in range(k) for t in rand_recipe(rng, nobs)]
        elif c < 0.65:
            k = rng.randint(0, 2)
            x = ["xadd", str(k)] + [t for _ in range(k) for t in rand_recipe(rng, nobs)]
        elif c < 0.78:
            x = ["xmul", str(rng.randint(-1, 3))]
        elif c < 0.92:
            x = ["ximul", str(rng.randint(-1, 3))]
        else:
            x = ["xsort"]
        yield dict(kind="xop", start="xop", ops=ops, xop=x)


def _xop_run(case):
    A, V, FD = cu._fd()
    obj, steps = run_history(case["ops"])
    if not isinstance(obj, FD.MultivariateFunctionalData):
        return dict(out="na", state="", bad=[])
    tk = Tokens(case["xop"])
    op = tk.next()
    res = obj
    try:
        if op == "xset":
            i = int(tk.next())
            c = cu.parse_recipe(tk)()
            obj[i] = c
        elif op == "xdel":
            del obj[int(tk.next())]
        elif op == "xiadd":
            obj += [r() for r in cu.parse_counted(tk, cu.parse_recipe)]
            res = obj
        elif op == "xadd":
            res = obj + [r() for r in cu.parse_counted(tk, cu.parse_recipe)]
        elif op == "xmul":
            k = int(tk.next())
            res = obj * k if k % 2 else k * obj
        elif op == "ximul":
            obj *= int(tk.next())
            res = obj
        elif op == "xsort":
            obj.sort()
        out = "ok"
    except (TypeError, ValueError, IndexError, KeyError) as e:
        out, res = err_class(e), obj
    ok_type = isinstance(res, FD.MultivariateFunctionalData)
    return dict(out=out, state=cu.show_state(res), bad=check_obj(res, None) if ok_type else ["not_multivariate"], before_bad=steps[-1]["bad"] if steps else [])


def _norm_cases(rng: Rng, n):
    """`DenseArgvals.normalization` / the computed `argvals_stand` on grids with repeated points, unsorted grids,
    large offsets and tiny spreads (exact dyadic values), through the dictionary, the constructor and the setter."""
    from fractions import Fraction

    for _ in range(n):
        m = rng.randint(1, 7)
        lo = rng.choice([0, 0, -3, 2000, 1048576, Fraction(-7, 2)])
        sc = rng.choice([1, 1, Fraction(1, 64), 364, Fraction(1, 2**20)])
        t = [lo + sc * rng.dyadic(0, 8, 3) for _ in range(m)]
        how = rng.choice(["random", "sorted", "ties", "unsorted", "const"])
        if how == "sorted":
            t = sorted(set(t))
        elif how == "ties" and m >= 2:
            t = sorted(t)
            t[rng.randrange(1, m)] = t[0] if rng.random() < 0.3 else t[rng.randrange(m)]
        elif how == "unsorted":
            rng.shuffle(t)
        elif how == "const":
            t = [t[0]] * m
        yield dict(kind="norm", start="norm", t=[common.rs(x) for x in t], how=how)


def _norm_run(case):
    A, V, FD = cu._fd()
    cu.quiet()
    t = np.array([float(common.F(x)) for x in case["t"]])
    out = {}

    def rd(f):
        try:
            r = np.asarray(f(), dtype=float)
            return ["nan"] if (r.size and np.all(np.isnan(r))) else r.tolist()
        except Exception as e:  # noqa: BLE001
            return "error:" + type(e).__name__

    out["dict"] = rd(lambda: A.DenseArgvals({"input_dim_0": t}).normalization()["input_dim_0"])
    out["ctor"] = rd(lambda: FD.DenseFunctionalData(A.DenseArgvals({"input_dim_0": t}), V.DenseValues(np.ones((2, len(t))))).argvals_stand["input_dim_0"])

    def via_setter():
        fd = FD.DenseFunctionalData(A.DenseArgvals({"input_dim_0": np.arange(len(t), dtype=float)}), V.DenseValues(np.ones((2, len(t)))))
        fd.argvals = A.DenseArgvals({"input_dim_0": t})
        return fd.argvals_stand["input_dim_0"]

    out["setter"] = rd(via_setter)
    return out


def _dimname_cases():
    """In every run: >= 2-D dense data whose dimension names are NOT inserted in sorted order / are arbitrary, with a different
    number of points in every dimension: construction with the right and with transposed values, the three setters, selection,
    concatenation."""
    for naming in (1, 2):
        for pts in ([3, 2], [2, 4, 3]):
            g = 1 + 24 * naming
            tr = list(reversed(pts))
            base = ["mkD"] + a_dense(pts, g) + v_dense([0, 1], pts)
            yield dict(kind="seq", start="dimnames", ops=[["mkD"] + a_dense(pts, g) + v_dense([0, 1], tr), base,
                                                        ["setV"] + v_dense([5, 6, 7], pts), ["setV"] + v_dense([5, 6, 7], tr),
                                                        ["setA"] + a_dense(pts, 2 + 24 * naming), ["setA"] + a_dense(tr, g),
                                                        ["setS"] + a_dense(pts, g), ["setS"] + a_dense(tr, g), ["gi", "-1"],
                                                        ["cat", "1", "U", "D"] + a_dense(pts, 2 + 24 * naming) + v_dense([9], pts),
                                                        ["cat", "1", "U", "D"] + a_dense(pts, 2) + v_dense([9], pts)])
            yield dict(kind="seq", start="dimnames", ops=[["mkM", "2", "D"] + a_dense(pts, g) + v_dense([0, 1], pts) + ["D"] + a_dense(tr, g) + v_dense([2, 3], tr),
                                                        ["gs", "N", "N", "-1"], ["app", "D"] + a_dense(pts, g) + v_dense([4, 5], tr)])


def _scale_cases():
    """In every run: grids far from the origin, narrow relative to their offset, in tiny units (hourly Unix time stamps, years,
    1e-9 units), dense and irregular: the standardised points keep the numbers of points and run from 0 to 1."""
    for sc in (1, 2, 3):
        t = 72 * sc
        yield dict(kind="seq", start="scale", ops=[["mkD"] + a_dense([4], 1 + t) + v_dense([0, 1], [4]), ["setA"] + a_dense([4], 2 + t),
                                                   ["gs", "1", "N", "N"], ["setS"] + a_dense([4], 3 + t)])
        yield dict(kind="seq", start="scale", ops=[["mkD"] + a_dense([3, 2], 1 + t + 24) + v_dense([0, 1], [3, 2]), ["gi", "0"]])
        obs_a = [(0, [3], 1 + t), (1, [2], 2 + t), (2, [4], 3 + t)]
        obs_v = [(0, [3], 0), (1, [2], 1), (2, [4], 2)]
        yield dict(kind="seq", start="scale", ops=[["mkI"] + a_irreg(obs_a) + v_irreg(obs_v), ["gs", "1", "N", "N"],
                                                   ["setA"] + a_irreg([(1, [2], 4 + t), (2, [4], 5 + t)]), ["ga", "1,0"],
                                                   ["cat", "1", "U", "I"] + a_irreg([(0, [2], 1 + t)]) + v_irreg([(0, [2], 7)])])
        yield dict(kind="seq", start="scale", ops=[["mkI"] + a_irreg([(0, [2, 3], 1 + t), (1, [3, 2], 2 + t)]) + v_irreg([(0, [2, 3], 0), (1, [3, 2], 1)]), ["gi", "1"]])


def _cancel_cases():
    """In every run: every multi-operand guard with THREE or more operands whose deviations cancel / compensate (numbers of
    observations 3, 2, 4 around 3; 1 and 5 next to 3; sizes of grids), operands in every order, dense and irregular mixed."""
    def dn(n, tag=0):
        return ["D"] + a_dense([3], 1) + v_dense(list(range(tag, tag + n)), [3])

    def ir(n, tag=0):
        obs = [(l, [2 + l % 3], l) for l in range(n)]
        return ["I"] + a_irreg(obs) + v_irreg([(l, sh, tag + l) for l, sh, _ in obs])

    def comps(ns, flip=0):
        return [t for j, n in enumerate(ns) for t in ((dn, ir)[(j + flip) % 2](n, 10 * j))]

    tuples = []
    for base in ((3, 2, 4), (3, 1, 5), (3, 3, 3), (2, 2, 5), (0, 1, 2), (3, 0, 6)):
        tuples += sorted(set(itertools.permutations(base)))
    tuples += [(3, 2, 4, 3), (3, 4, 3, 2), (3, 1, 2, 6), (2, 3, 3, 4), (3, 5, 1, 3, 3), (3, 3, 3, 3), (1, 0, 2, 1)]
    for ns in tuples:
        for flip in (0, 1):
            yield dict(kind="seq", start="cancel", ops=[["mkM", str(len(ns))] + comps(ns, flip), ["gs", "N", "N", "N"]])
    # extend / concatenate / append on an existing object (3 observations): wrong items that average to the good value
    for flip in (0, 1):
        start = ["mkM", "2"] + comps((3, 3), flip)
        for ns in ((1, 5), (5, 1), (2, 4), (4, 2), (3, 3), (0, 6), (1, 3, 5), (5, 3, 1), (3, 1, 5), (2, 3, 4), (4, 4, 1), (3, 2), (3, 3, 2, 4)):
            yield dict(kind="seq", start="cancel", ops=[start, ["ext", str(len(ns))] + comps(ns, flip), ["app"] + comps(ns[:1]),
                                                        ["ins", "1"] + comps(ns[-1:], 1), ["gs", "N", "N", "N"]])
        one = ["mkM", "1"] + comps((3,), flip)
        for ns in ((1, 5), (5, 1), (2, 4), (3, 3)):
            yield dict(kind="seq", start="cancel", ops=[one, ["ext", str(len(ns))] + comps(ns, flip), ["gs", "N", "N", "N"]])
    # concatenation of several pieces whose grid sizes / numbers of components compensate
    for sizes in sorted(set(itertools.permutations((3, 2, 4)))) + [(3, 3, 3), (1, 5, 3)]:
        others = [t for j, m in enumerate(sizes) for t in ["U", "D"] + a_dense([m], 1) + v_dense([20 + j], [m])]
        yield dict(kind="seq", start="cancel", ops=[START["dense"], ["cat", str(len(sizes))] + others])
        others2 = [t for j, m in enumerate(sizes) for t in ["U", "D"] + a_dense([m, 6 - m], 1) + v_dense([20 + j], [m, 6 - m])]
        yield dict(kind="seq", start="cancel", ops=[["mkD"] + a_dense([3, 3], 1) + v_dense([0, 1], [3, 3]), ["cat", str(len(sizes))] + others2])
    for ks in ((2, 1, 3), (1, 3, 2), (3, 1, 2), (2, 2, 2), (1, 3)):
        others = [t for k in ks for t in ["M", str(k)] + comps((1,) * k)]
        yield dict(kind="seq", start="cancel", ops=[["mkM", "2"] + comps((2, 2)), ["cat", str(len(ks))] + others])
    # sampling points and values whose sizes are a permutation of one another (same total)
    for perm in sorted(set(itertools.permutations((3, 2, 4)))):
        ia = a_irreg([(l, [m], l) for l, m in enumerate((3, 2, 4))])
        iv = v_irreg([(l, [m], l) for l, m in enumerate(perm)])
        yield dict(kind="seq", start="cancel", ops=[["mkI"] + ia + iv, START["irreg"], ["setV"] + iv,
                                                    ["setA"] + a_irreg([(l, [m], 3) for l, m in enumerate(perm)]),
                                                    ["setS"] + a_irreg([(l, [m], 3) for l, m in enumerate(perm)])])


_DEGENERATE = [[], [1], [1, 1], [0], [2], [1, 2], [2, 1]]


def _degenerate_cases():
    """In every run: degenerate array shapes (0-d, (1,), (1, 1), empty, and their neighbours) as sampling points and as values,
    through the constructors and the setters of dense and irregular data and as components."""
    for pa in _DEGENERATE:
        if not pa or 0 in pa:
            continue            # sampling points need at least one dimension and one point (PARTIAL)
        for sv in _DEGENERATE:
            ia, iv = a_irreg([(0, pa, 1)]), v_irreg([(0, sv, 0)])
            ia2, iv2 = a_irreg([(0, [3], 1), (1, pa, 1)]), v_irreg([(0, [3], 0), (1, sv, 1)])
            yield dict(kind="seq", start="degenerate", ops=[["mkI"] + ia + iv, ["mkI"] + ia2 + iv2,
                                                          ["mkD"] + a_dense(pa, 1) + v_dense([0, 1], sv)])
            if pa == sv and 0 not in pa:
                continue
            sv_ok = bool(sv) and 0 not in sv
            for st_a, st_v in ((ia, v_irreg([(0, pa, 0)])),) + (((a_irreg([(0, sv, 1)]), iv),) if sv_ok else ()):
                yield dict(kind="seq", start="degenerate", ops=[["mkI"] + st_a + st_v, ["setV"] + iv, ["setA"] + ia, ["setS"] + ia,
                                                              ["gs", "N", "N", "N"]])
            yield dict(kind="seq", start="degenerate", ops=[["mkD"] + a_dense(pa, 1) + v_dense([0, 1], pa), ["setV"] + v_dense([2, 3], sv)]
                       + ([["setA"] + a_dense(sv, 2), ["setS"] + a_dense(sv, 2)] if sv_ok else []) + [["gi", "0"]])
            yield dict(kind="seq", start="degenerate", ops=[["mkM", "2", "I"] + ia + iv + ["D"] + a_dense(pa, 1) + v_dense([0], sv)])


def _alias_cases():
    """In every run: an operation that returns data, then legal setter calls on the RESULT; the operand must stay as it was."""
    d, i = START["dense"], START["irreg"]
    for producer in (["cat", "0"], ["gs", "N", "N", "N"], ["ga", "0,1,2"], ["cat", "1", "U", "D"] + a_dense([3], 1) + v_dense([20], [3])):
        for setter in (["setV"] + v_dense([7], [3]), ["setV"] + v_dense([7, 8, 9, 10, 11], [3]), ["setA"] + a_dense([3], 5), ["setS"] + a_dense([3], 2)):
            yield dict(kind="seq", start="alias", ops=[d, producer, setter, ["gs", "N", "N", "N"]])
    for producer in (["cat", "0"], ["gs", "N", "N", "N"], ["ga", "0,1,2"]):
        for setter in (["setV"] + v_irreg([(0, [3], 40), (1, [2], 41), (2, [4], 42)]), ["setA"] + a_irreg([(0, [3], 5), (1, [2], 5), (2, [4], 5)])):
            yield dict(kind="seq", start="alias", ops=[i, producer, setter, ["gs", "N", "N", "N"]])
    yield dict(kind="seq", start="alias", ops=[START["multi"], ["cat", "0"], ["app", "D"] + a_dense([2], 0) + v_dense([1, 2], [2]), ["popd"]])


def _stand_label_cases():
    """In every run: standardised points with the right sizes position by position but OTHER labels."""
    st = START["irreg"]                      # labels 0, 1, 2 with 3, 2, 4 points
    for labs in ([3, 4, 5], [0, 1, 3], [1, 2, 0], [2, 1, 0], [0, 1, 2]):
        yield dict(kind="seq", start="standlabels", ops=[st, ["setS"] + a_irreg([(l, p, 0) for l, p in zip(labs, ([3], [2], [4]))])])
    for labs in ([0, 1], [1, 2], [2, 1], [5, 6]):   # after fdata[1:]: labels 1, 2 with 2, 4 points
        yield dict(kind="seq", start="standlabels", ops=[st, ["gs", "1", "N", "N"], ["setS"] + a_irreg([(l, p, 0) for l, p in zip(labs, ([2], [4]))])])
    for labs in ([0, 1, 2], [2, 0, 1], [2, 3, 4]):   # after fdata[[2, 0, 1]]: labels 2, 0, 1 with 4, 3, 2 points
        yield dict(kind="seq", start="standlabels", ops=[st, ["ga", "2,0,1"], ["setS"] + a_irreg([(l, p, 0) for l, p in zip(labs, ([4], [3], [2]))])])


# --------------------------------------------------------------------------
# the whole mutating API of the typed dictionaries (by reflection) and constructor arguments that stay alive
# --------------------------------------------------------------------------

def _typed_ok(d):
    """The typed-dictionary invariant, item by item (None when it holds)."""
    A, V, FD = cu._fd()
    for k, v in dict.items(d.data):
        if isinstance(d, A.DenseArgvals):
            if not isinstance(k, str) or not isinstance(v, np.ndarray):
                return f"{type(d).__name__} holds {type(k).__name__} -> {type(v).__name__}"
        elif isinstance(d, A.IrregularArgvals):
            if not isinstance(k, int) or not isinstance(v, A.DenseArgvals):
                return f"{type(d).__name__} holds {type(k).__name__} -> {type(v).__name__}"
        elif isinstance(d, V.IrregularValues):
            if not isinstance(k, int) or not isinstance(v, np.ndarray):
                return f"{type(d).__name__} holds {type(k).__name__} -> {type(v).__name__}"
    return None


def _typed_zoo():
    A, V, FD = cu._fd()
    da = lambda m=3: A.DenseArgvals({"input_dim_0": cu.grid(m, 0)})  # noqa: E731
    return {
        "DenseArgvals": (lambda: A.DenseArgvals({"input_dim_0": cu.grid(3, 0)}), ("input_dim_0", "input_dim_1"), lambda: cu.grid(4, 1)),
        "IrregularArgvals": (lambda: A.IrregularArgvals({0: da(3), 1: da(2)}), (0, 5), lambda: da(4)),
        "IrregularValues": (lambda: V.IrregularValues({0: np.ones(3), 1: np.ones(2)}), (0, 5), lambda: np.ones(4)),
    }


def _rhs_kinds(clsname):
    """Right-hand sides of every kind: plain dictionaries (good / bad value / bad key), the same typed dictionary, the
    OTHER typed dictionaries (whose items are of the wrong class here), lists of pairs, non-mappings."""
    A, V, FD = cu._fd()
    zoo = _typed_zoo()
    mk, keys, good = zoo[clsname]
    out = {
        "plain-good": lambda: {keys[1]: good()},
        "plain-bad-value": lambda: {keys[1]: [1.0, 2.0]},
        "plain-bad-key": lambda: {(1.5 if clsname != "DenseArgvals" else 7): good()},
        "plain-none": lambda: {keys[0]: None},
        "same-typed": lambda: type(mk())({keys[1]: good()}),
        "pairs-bad": lambda: [(keys[1], "x")],
    }
    for other in zoo:
        if other != clsname:
            out["typed:" + other] = zoo[other][0]
    return out


def _api_cases():
    """In every run: every callable the typed dictionaries inherit from `UserDict` / `MutableMapping`, found by
    reflection, called with right-hand sides of every kind; plus `|=` / `update` through the attribute of an object."""
    import collections
    import collections.abc

    for clsname in ("DenseArgvals", "IrregularArgvals", "IrregularValues"):
        names = sorted(n for n in set(dir(collections.UserDict)) | set(dir(collections.abc.MutableMapping))
                       if callable(getattr(collections.UserDict, n, None)) and n not in (
                           "__class__", "__init_subclass__", "__subclasshook__", "__new__", "__getattribute__", "__setattr__", "__delattr__",
                           "__dir__", "__reduce__", "__reduce_ex__", "__sizeof__", "__format__", "__class_getitem__", "__getstate__"))
        for n in names:
            yield dict(kind="api", start="api", cls=clsname, method=n)
    for objkind in ("dense", "irreg"):
        for attr in ("argvals", "values", "argvals_stand"):
            yield dict(kind="api", start="api", cls="object:" + objkind, method=attr)


def _api_run(case):
    A, V, FD = cu._fd()
    cu.quiet()
    problems, calls, accepted = [], 0, 0
    if case["cls"].startswith("object:"):
        # `obj.<attr> |= rhs`, `obj.<attr>.update(rhs)`, `obj.<attr>[k] = v` with wrongly typed right-hand sides
        start = START["dense"] if case["cls"].endswith("dense") else START["irreg"]
        attr = case["method"]
        for rname in ("typed:DenseArgvals", "typed:IrregularArgvals", "typed:IrregularValues", "plain-bad-value", "plain-none"):
            for how in ("ior", "update", "attr-ior"):
                obj, _ = run_history([start])
                target = getattr(obj, attr)
                if not isinstance(target, (A.Argvals, V.IrregularValues)):
                    continue
                own = type(target).__name__
                rk = _rhs_kinds(own)
                if rname not in rk or rname == "typed:" + own:
                    continue
                rhs = rk[rname]()
                before = cu.show_state(obj)
                calls += 1
                try:
                    if how == "ior":
                        target |= rhs
                    elif how == "update":
                        target.update(rhs)
                    else:
                        exec(f"obj.{attr} |= rhs", {}, dict(obj=obj, rhs=rhs))
                    accepted += 1
                except Exception:  # noqa: BLE001
                    pass
                bad = _typed_ok(getattr(obj, attr)) if isinstance(getattr(obj, attr), (A.Argvals, V.IrregularValues)) else None
                if bad:
                    problems.append(f"obj.{attr} {how} {rname}: {bad}")
                elif cu.show_state(obj) != before and rname.startswith(("typed:", "plain-bad", "plain-none")):
                    problems.append(f"obj.{attr} {how} {rname}: the object changed from {before} to {cu.show_state(obj)}")
        return dict(problems=problems[:6], calls=calls, accepted=accepted)
    zoo = _typed_zoo()
    mk, keys, good = zoo[case["cls"]]
    name = case["method"]
    for rname, rhs_f in _rhs_kinds(case["cls"]).items():
        for shape in ("(rhs)", "(key, badvalue)", "(key)", "()", "(**rhs)", "(keys, badvalue)"):
            d = mk()
            before = {k: id(v) for k, v in dict.items(d.data)}
            try:
                rhs = rhs_f()
                f = getattr(d, name)
                calls += 1
                if shape == "(rhs)":
                    res = f(rhs)
                elif shape == "(key, badvalue)":
                    res = f(keys[1], [1.0, 2.0])
                elif shape == "(key)":
                    res = f(keys[0])
                elif shape == "()":
                    res = f()
                elif shape == "(**rhs)":
                    res = f(**{str(k): v for k, v in dict(rhs).items()}) if isinstance(rhs, (dict, collections.UserDict)) else f()
                else:
                    res = f([keys[1]], "x")
                accepted += 1
            except Exception:  # noqa: BLE001
                res = None
                if {k: id(v) for k, v in dict.items(d.data)} != before and name not in ("pop", "popitem", "clear", "__delitem__", "__init__"):
                    problems.append(f"{case['cls']}.{name}{shape} with {rname} raised but changed the dictionary")
            bad = _typed_ok(d)
            if bad:
                problems.append(f"{case['cls']}.{name}{shape} with {rname}: {bad}")
            if isinstance(res, (A.Argvals, V.IrregularValues)):
                bad = _typed_ok(res)
                if bad:
                    problems.append(f"result of {case['cls']}.{name}{shape} with {rname}: {bad}")
    return dict(problems=sorted(set(problems))[:6], calls=calls, accepted=accepted)


def _ctorargs_cases():
    """In every run: constructor arguments the caller keeps alive — a second object built from the same argument, and the
    argument mutated afterwards."""
    for which in ("multi-two-objects", "multi-list-mutated", "multi-tuple", "typed-dict-mutated", "grid-objects-shared"):
        for flavour in ("dense", "irreg", "mixed"):
            yield dict(kind="ctorargs", start="ctorargs", which=which, flavour=flavour)


def _ctorargs_run(case):
    A, V, FD = cu._fd()
    cu.quiet()

    def comp(kind, n, tag=0):
        toks = (["D"] + a_dense([3], 1) + v_dense([tag + j for j in range(n)], [3])) if kind == "dense" else \
               (["I"] + a_irreg([(j, [2 + j % 2], 1) for j in range(n)]) + v_irreg([(j, [2 + j % 2], tag + j) for j in range(n)]))
        return cu.parse_recipe(Tokens(toks))()

    fl = case["flavour"]
    kinds = {"dense": ("dense", "dense"), "irreg": ("irreg", "irreg"), "mixed": ("dense", "irreg")}[fl]
    problems, recorded = [], []
    which = case["which"]
    if which.startswith("multi"):
        lst = [comp(kinds[0], 2, 0), comp(kinds[1], 2, 10)]
        arg = tuple(lst) if which == "multi-tuple" else lst
        m1 = FD.MultivariateFunctionalData(arg)
        snap1 = cu.show_state(m1)
        if which == "multi-two-objects":
            m2 = FD.MultivariateFunctionalData(arg)
            snap2 = cu.show_state(m2)
            for label, f in (("append", lambda: m1.append(comp(kinds[0], 2, 20))), ("pop", lambda: m1.pop(0)), ("reverse", lambda: m1.reverse()),
                             ("insert", lambda: m1.insert(0, comp(kinds[1], 2, 30))), ("clear", lambda: m1.clear())):
                f()
                if cu.show_state(m2) != snap2:
                    problems.append(f"two objects built from one list: {label} on the first changed the second to {cu.show_state(m2)}")
                    snap2 = cu.show_state(m2)
                if len(lst) != 2:
                    problems.append(f"{label} on the object changed the caller's list (now {len(lst)} items)")
                    break
        else:
            edits = [("append a component with another n_obs", lambda: lst.append(comp(kinds[0], 3, 40))),
                     ("replace an entry", lambda: lst.__setitem__(0, comp(kinds[1], 5, 50))), ("clear", lambda: lst.clear())]
            for label, f in edits:
                f()
                now = cu.show_state(m1)
                if now != snap1 or check_obj(m1, None):
                    problems.append(f"the caller's list was edited after construction ({label}): the object now reads {now} ({check_obj(m1, None)})")
                    break
    elif which == "typed-dict-mutated":
        srcs = {"dense": (A.DenseArgvals, {"input_dim_0": cu.grid(3, 0)}, ("input_dim_0", cu.grid(5, 1), "x", [1.0])),
                "irreg": (A.IrregularArgvals, {0: A.DenseArgvals({"input_dim_0": cu.grid(3, 0)})}, (0, A.DenseArgvals({"input_dim_0": cu.grid(5, 0)}), 1, np.ones(2))),
                "mixed": (V.IrregularValues, {0: np.ones(3)}, (0, np.ones(5), "a", [1.0]))}[fl]
        cls, src, (k_ok, v_ok, k_bad, v_bad) = srcs
        d = cls(src)
        before = {k: id(v) for k, v in dict.items(d.data)}
        src[k_ok] = v_ok
        src[k_bad] = v_bad
        if {k: id(v) for k, v in dict.items(d.data)} != before or _typed_ok(d):
            problems.append(f"{cls.__name__} built from a dictionary the caller edited afterwards changed: {_typed_ok(d) or 'items replaced'}")
    else:
        # FunctionalData from argvals / values OBJECTS: the unchanged tree shares them (recorded); replacing the caller's own
        # reference must not matter, and a second object built from the same pair is independent under the setters
        obj, _ = run_history([START["dense"] if fl != "irreg" else START["irreg"]])
        a, v = obj.argvals, obj.values
        second = type(obj)(a, v)
        recorded.append("argvals object shared" if second.argvals is obj.argvals else "argvals copied")
        snap = cu.show_state(obj)
        if fl != "irreg":
            second.values = V.DenseValues(np.ones((7, 3)))
            second.argvals = A.DenseArgvals({"input_dim_0": cu.grid(3, 4)})
        else:
            second.values = V.IrregularValues({l: np.asarray(x) * 2 for l, x in v.items()})
        if cu.show_state(obj) != snap:
            problems.append(f"setters on a second object built from the same argvals / values objects changed the first: {cu.show_state(obj)}")
    return dict(problems=problems[:4], recorded=recorded)


def fnv(s: str) -> int:
    h = 14695981039346656037
    for b in s.encode():
        h = ((h ^ b) * 1099511628211) & 0xFFFFFFFFFFFFFFFF
    return h


TREE_DEPTH = 2


def _tree_cases():
    """All histories of length 4 over the alphabet: one case per prefix of length 2, enumerating the
    576 continuations of length 2 inside the case (digest comparison, explicit oracle)."""
    for kind in ("dense", "irreg", "multi"):
        n = len(ALPHABET[kind])
        for i in range(n):
            for j in range(n):
                yield dict(kind="tree", start=kind, prefix=[i, j])


def _tree_run(case):
    kind = case["start"]
    al = ALPHABET[kind]
    pre = [START[kind]] + [al[i] for i in case["prefix"]]
    digests, viol = [], []
    for seq in itertools.product(range(len(al)), repeat=TREE_DEPTH):
        ops = pre + [al[i] for i in seq]
        obj, steps = run_history(ops, light=len(pre))
        tail = steps[len(pre):]
        last = steps[-1]
        inv = ("1" if not last["bad"] else "0")
        digests.append(fnv("".join("," + t["out"] for t in tail) + " " + last["state"] + " " + last["obs"]))
        for v in _judge(ops, steps):
            if v["step"] >= len(pre) and len(viol) < 6:
                v = dict(v)
                v.pop("step")
                v["msg"] += " || history: " + " ; ".join(" ".join(o) for o in ops)
                viol.append(v)
    return dict(digests=digests, violations=viol)


def random_history(rng: Rng, length):
    cu.quiet()
    obj, shadow = None, None
    ops = []
    start = rng.choice(list(START))
    ops.append(START[start] if rng.random() < 0.7 else _randomise_bad(rng, choose_construct(rng)))
    obj, out, shadow = apply_op(None, ops[0], None)
    for _ in range(length - 1):
        try:
            d = parse_state(cu.show_state(obj))
        except Exception:  # noqa: BLE001  (the object under test is corrupt: stop here, the replay judges it)
            break
        toks = choose_op(rng, d)
        ops.append(toks)
        obj2, out, shadow2 = apply_op(obj, toks, shadow)
        if out == "ok":
            obj, shadow = obj2, shadow2
    return dict(kind="seq", start="random", ops=ops)


def gen_cases(rng: Rng, tier):
    common.use_repo()
    n = dict(quick=260, thorough=2500)[tier]
    cases = [random_history(rng, rng.choice([5, 8, 12, 20, 40])) for _ in range(n)]
    cases += list(_bad_variant_cases())
    cases += list(_stand_label_cases())
    cases += list(_alias_cases())
    cases += list(_dimname_cases())
    cases += list(_scale_cases())
    cases += list(_cancel_cases())
    cases += list(_degenerate_cases())
    cases += list(_api_cases())
    cases += list(_ctorargs_cases())
    cases += list(_xop_cases(rng, 120 if tier == "quick" else 1500))
    cases += list(_norm_cases(rng, 150 if tier == "quick" else 2000))
    if tier == "quick":
        cases += list(_exhaustive(2))
    else:
        cases += list(_exhaustive(3))
        cases += list(_tree_cases())
    rng.shuffle(cases)      # spreads the expensive cases over the worker chunks
    return cases


def search_cases(rng, tier):
    for k in range(300):
        yield random_history(rng, rng.choice([3, 5, 8, 12]))


def witness_cases():
    if _ior_open():
        yield dict(kind="seq", start="witness", ops=[START["dense"], ["bo", "a1"]], witness=FINDING_IOR)
    if _guard() == 0:
        yield dict(kind="seq", start="witness", ops=[START["dense"], ["setS"] + a_dense([4], 0)],
                   witness=FINDING_STAND)


# --------------------------------------------------------------------------
# implementation / model / comparison
# --------------------------------------------------------------------------

def run_impl(case):
    common.use_repo()
    if case["kind"] == "tree":
        return _tree_run(case)
    if case["kind"] == "xop":
        return _xop_run(case)
    if case["kind"] == "norm":
        return _norm_run(case)
    if case["kind"] == "api":
        return _api_run(case)
    if case["kind"] == "ctorargs":
        return _ctorargs_run(case)
    _, steps = run_history(case["ops"])
    return dict(steps=steps)


def model_lines(case, impl):
    if case["kind"] in ("api", "ctorargs"):
        return []        # judged by the oracle (the typed guard / independence of the constructor arguments)
    if case["kind"] == "norm":
        return ["norm " + ",".join(case["t"])] if case["t"] else []
    if case["kind"] == "xop":
        return [f"xop {_guard()} " + " ".join(t for op in case["ops"] for t in op) + " | " + " ".join(case["xop"])]
    if case["kind"] == "tree":
        al = ALPHABET[case["start"]]
        pre = [START[case["start"]]] + [al[i] for i in case["prefix"]]
        return [f"tree {_guard()} {TREE_DEPTH} " + " ".join(t for op in pre for t in op) + " | " + " ".join(t for op in al for t in op)]
    return ["run " + str(_guard()) + " " + " ".join(t for op in case["ops"] for t in op)]


def parse_model(case, outs):
    if case["kind"] == "norm":
        return dict(raw=outs[0])
    if case["kind"] == "xop":
        if outs[0] in ("na", "bad"):
            return dict(out=outs[0], state="", inv="")
        out, rest = outs[0].split(" ", 1)
        state, inv = rest.rsplit(" inv=", 1)
        return dict(out=out, state=state, inv=inv)
    if case["kind"] == "tree":
        return dict(error=outs[0]) if outs[0].startswith("bad") else dict(digests=[int(x) for x in outs[0].split(" ")])
    steps = []
    if outs[0] in ("bad", "bad-op"):
        return dict(error=outs[0], steps=[])
    for part in outs[0].split(" || "):
        out, state, rest = part.split(" ", 2)
        obs, inv = rest.rsplit(" inv=", 1)
        steps.append(dict(out=out, state=state, obs=obs, inv=inv))
    return dict(steps=steps)


def compare(case, impl, model):
    if "__crash__" in impl:
        return [f"implementation crashed: {impl['__crash__']} {impl.get('msg')}"]
    if model.get("error"):
        return [f"model could not parse the history: {model['error']}"]
    if case["kind"] == "norm":
        raw = model["raw"]
        ds = []
        for route in ("dict", "ctor", "setter"):
            got = impl[route]
            if raw == "nan":
                if got != ["nan"] and not (isinstance(got, list) and len(got) == 0):
                    ds.append(f"normalisation ({route}) of the constant grid {case['t']}: impl {got} vs model nan")
            elif raw.startswith("ok "):
                want = common.pvec(raw[3:])
                if not isinstance(got, list) or got == ["nan"] or common.close_all(got, want, scale=1.0, rtol=1e-12) is not None:
                    ds.append(f"normalisation ({route}) of {case['t']} ({case['how']}): impl {got} vs exact {[float(x) for x in want]}")
            else:
                ds.append("model answered " + raw)
        return ds[:1]
    if case["kind"] == "xop":
        if model["out"] == "bad":
            return ["model could not parse the request"]
        if impl["out"] == "na" or model["out"] == "na":
            return [] if impl["out"] == model["out"] else [f"xop applicability: impl {impl['out']} vs model {model['out']}"]
        d = " ".join(case["xop"])[:100]
        if impl["out"] != model["out"]:
            return [f"`{d}`: outcome impl {impl['out']} vs model {model['out']}"]
        if impl["state"] != model["state"]:
            return [f"`{d}`: components impl {impl['state']} vs model {model['state']}"]
        return []
    if case["kind"] == "tree":
        if impl["digests"] == model["digests"]:
            return []
        al = ALPHABET[case["start"]]
        seqs = list(itertools.product(range(len(al)), repeat=TREE_DEPTH))
        if len(impl["digests"]) != len(model["digests"]):
            return [f"{len(impl['digests'])} continuations vs model {len(model['digests'])}"]
        k = next(i for i, (a, b) in enumerate(zip(impl["digests"], model["digests"])) if a != b)
        ops = [START[case["start"]]] + [al[i] for i in case["prefix"]] + [al[i] for i in seqs[k]]
        sub = dict(kind="seq", start=case["start"], ops=ops)
        try:
            sub_impl = run_impl(sub)
            sub_model = parse_model(sub, common.run_driver(DRIVER, model_lines(sub, sub_impl)))
            return [f"history {' ; '.join(' '.join(o) for o in ops)}: " + "; ".join(compare(sub, sub_impl, sub_model) or ["digests differ"])]
        except Exception as e:  # noqa: BLE001
            return [f"history {ops}: digests differ ({e!r})"]
    ds = []
    if len(impl["steps"]) != len(model["steps"]):
        return [f"{len(impl['steps'])} steps vs model {len(model['steps'])}"]
    for k, (i, m) in enumerate(zip(impl["steps"], model["steps"])):
        if case["ops"][k][0] == "bo" and i["out"] == "ok" and _ior_open():
            break     # open finding: `|=` stores the wrong-class item; the corrupt object has no counterpart in the model
        op = " ".join(case["ops"][k])[:120]
        if i["out"] != m["out"]:
            ds.append(f"step {k} `{op}`: outcome impl {i['out']} vs model {m['out']}")
            break
        if i["state"] != m["state"]:
            ds.append(f"step {k} `{op}`: state impl {i['state']} vs model {m['state']}")
            break
        if i["obs"] != m["obs"]:
            ds.append(f"step {k} `{op}`: observers impl {i['obs']} vs model {m['obs']}")
            break
    return ds


_RANGE_OPS = {"gi", "ga", "pop", "popd"}
_ENTRY = {"setA": "argvals.setter", "setV": "values.setter", "setS": "argvals_stand.setter", "mkD": "DenseFunctionalData",
          "mkI": "IrregularFunctionalData", "mkM": "MultivariateFunctionalData", "app": "append", "ext": "extend",
          "ins": "insert", "rem": "remove", "pop": "pop", "popd": "pop", "clr": "clear", "rev": "reverse",
          "gi": "__getitem__", "gs": "__getitem__", "ga": "__getitem__", "cat": "concatenate", "bi": "typed_dict.__setitem__", "bo": "typed_dict.__ior__"}


def _judge(ops, steps):
    """The property's predicate on one replayed history (list of violations)."""
    vs = []
    prev_bad = []
    for k, st in enumerate(steps):
        op = ops[k][0]
        entry = _ENTRY.get(op, op)
        desc = " ".join(ops[k])[:160]
        if st["out"] not in ("ok", "na"):
            if not st["unchanged"]:
                vs.append(dict(clause="reject_unchanged", entry=entry, causes=["state_changed_on_error"], step=k,
                               msg=f"step {k} `{desc}` raised {st['out']} but the object changed to {st['state']}"))
            allowed = {"TypeError", "ValueError"} | ({"IndexError"} if op in _RANGE_OPS else set())
            if st["out"] not in allowed and not (st["out"] == "Other" and _empty_irregular_involved(ops, steps, k)):
                vs.append(dict(clause="reject_class", entry=entry, causes=["class_" + st["out"]], step=k,
                               msg=f"step {k} `{desc}` was rejected with {st['out']}"))
        info = st.get("info") or {}
        if info.get("wrong_class") and st["out"] != "TypeError":
            vs.append(dict(clause="reject_type_documented", entry=entry, causes=["got_" + st["out"]] + (["ior_bypasses_setitem"] if op == "bo" else []), step=k,
                           msg=f"step {k} `{desc}`: an argument of the wrong class must raise TypeError, got {st['out']}"))
        if info.get("cat_compatible") is False and st["out"] == "ok":
            vs.append(dict(clause="incompatible_accepted", entry=entry, causes=[], step=k,
                           msg=f"step {k} `{desc}`: incompatible pieces (class / dimension / grid / number of components) were concatenated into {st['state']}"))
        if info.get("same_object_returned") and op == "cat":
            vs.append(dict(clause="result_aliases_operand", entry=entry, causes=["same_object"], step=k,
                           msg=f"step {k} `{desc}` returned its operand itself instead of a new object"))
        for ch in info.get("operand_changed") or []:
            vs.append(dict(clause="result_aliases_operand", entry=entry, causes=["operand_changed_through_result"], step=k,
                           msg=f"step {k} `{desc}` (a legal operation on the current object): {ch}"))
        ps = info.get("plain_select")
        if ps:
            ps = tuple(ps)
            if ps[0] == "ok":
                want = [[tuple(e) for e in c] for c in ps[1]]
                if st["out"] != "ok":
                    vs.append(dict(clause="select_plain", entry=entry, causes=["raises_" + st["out"]], step=k,
                                   msg=f"step {k} `{desc}` raised {st['out']}; a plain list model of the object selects {want}"))
                else:
                    try:
                        got = _content_of(st["state"])
                    except Exception:  # noqa: BLE001
                        got = None
                    if got != want:
                        vs.append(dict(clause="select_plain", entry=entry, causes=[], step=k,
                                       msg=f"step {k} `{desc}` returned {st['state']}; the observations at the selected positions are (label, content tag) {want}"))
            elif st["out"] == "ok":
                vs.append(dict(clause="select_plain", entry=entry, causes=[], step=k,
                               msg=f"step {k} `{desc}` was accepted ({st['state']}); plain list indexing raises {ps[1]}"))
        new_bad = [b for b in st["bad"] if b not in prev_bad]
        if op == "bo" and st["out"] == "ok":
            new_bad = []      # the corrupt dictionary is the consequence of the clause just reported
        for b in new_bad:
            causes = []
            if b == "stand_tracks" and op == "setS" and st["out"] == "ok":
                causes.append("mismatched_stand_accepted")
            if b == "same_nobs":
                causes.append("nobs_mismatch_accepted_by_" + op)
            vs.append(dict(clause=b, entry=entry, causes=causes, step=k,
                           msg=f"step {k} `{desc}` left the object inconsistent ({b}): {st['state']} | {st['obs']}"))
        prev_bad = st["bad"]
    return vs


_SHRUNK = [0]


def _shrink(ops, clause, entry):
    """Delta debugging (one-minimal): drop operations while the same clause still fails at the same entry point."""
    def fails(seq):
        if not seq:
            return False
        try:
            _, steps = run_history(seq)
        except Exception:  # noqa: BLE001
            return False
        return any(v["clause"] == clause and v["entry"] == entry for v in _judge(seq, steps))

    cur = list(ops)
    changed = True
    while changed and len(cur) > 1:
        changed = False
        for k in range(len(cur) - 1, -1, -1):
            cand = cur[:k] + cur[k + 1:]
            if fails(cand):
                cur = cand
                changed = True
    return cur


def oracle(case, impl):
    if "__crash__" in impl:
        return [dict(clause="runs", entry="history", msg=f"crash {impl['__crash__']}: {impl.get('msg')} {impl.get('tb', '')[-300:]}")]
    if case["kind"] == "tree":
        return [dict(v) for v in impl["violations"]]
    if case["kind"] == "api":
        entry = "typed_dict." + case["method"] if not case["cls"].startswith("object:") else "object." + case["method"]
        return [dict(clause="reject_type_documented", entry=entry, causes=["typed_guard_bypassed"], msg=p) for p in impl["problems"]]
    if case["kind"] == "ctorargs":
        return [dict(clause="result_aliases_operand", entry="constructor:" + case["which"], causes=["constructor_argument_alive"], msg=p) for p in impl["problems"]]
    if case["kind"] == "norm":
        # the property's relation, in plain NumPy: same number of points, same order, (t - min) / (max - min)
        t = np.array([float(common.F(x)) for x in case["t"]])
        vs = []
        for route, entry in (("dict", "DenseArgvals.normalization"), ("ctor", "DenseFunctionalData"), ("setter", "argvals.setter")):
            got = impl[route]
            if isinstance(got, str):
                vs.append(dict(clause="stand_recomputed", entry=entry, causes=["raises"], msg=f"normalising {case['t']} raised {got}"))
                continue
            if len(t) == 0 or t.max() == t.min():
                continue
            want = (t - t.min()) / (t.max() - t.min())
            if got == ["nan"] or len(got) != len(want):
                vs.append(dict(clause="stand_tracks", entry=entry, causes=[], msg=f"argvals_stand of the grid {case['t']} ({case['how']}) has {0 if got == ['nan'] else len(got)} points, the grid has {len(want)}"))
            elif not np.allclose(got, want, rtol=1e-12, atol=1e-15):
                vs.append(dict(clause="stand_recomputed", entry=entry, causes=[], msg=f"argvals_stand of the grid {case['t']} ({case['how']}) is {got}; pointwise (t - min)/(max - min) is {want.tolist()}"))
        return vs
    if case["kind"] == "xop":
        # only the operations proved to preserve the invariant are judged; `mfd[i] = c` and `mfd += …` are
        # unguarded by design of `UserList` and outside the property's operation list (C11.xop_*_counterexample)
        if case["xop"][0] in XOPS_PRESERVING and impl["out"] == "ok" and not impl.get("before_bad"):
            return [dict(clause=b, entry=case["xop"][0], causes=[], msg=f"`{' '.join(case['xop'])[:120]}` after {len(case['ops'])} steps left {impl['state']} inconsistent ({b})")
                    for b in impl["bad"]]
        return []
    vs = _judge(case["ops"], impl["steps"])
    for v in vs:
        v.pop("step", None)
        if len(case["ops"]) > 3 and _SHRUNK[0] < 12 and not (v["clause"] == "stand_tracks" and "mismatched_stand_accepted" in v["causes"]):
            _SHRUNK[0] += 1
            common.use_repo()
            small = _shrink(case["ops"], v["clause"], v["entry"])
            v["msg"] += " || shrunk history (" + str(len(small)) + " ops): " + " ; ".join(" ".join(o) for o in small)
    return vs


def _empty_irregular_involved(ops, steps, k):
    """`n_dimension` of an empty irregular dataset raises StopIteration (not judged, see PARTIAL)."""
    toks = ops[k]
    prev = steps[k - 1]["state"] if k else "E"
    return "I:a=-:" in prev or " ia 0 " in " ".join(toks) + " "


def nontrivial(case, impl):
    if "__crash__" in impl:
        return None
    if case["kind"] == "tree":
        return digest(case) if len(set(impl["digests"])) > 1 else None
    if case["kind"] == "xop":
        return digest(case) if impl.get("out") not in ("na",) else None
    if case["kind"] == "norm":
        return digest(case) if len(set(case["t"])) > 1 else None
    if case["kind"] in ("api", "ctorargs"):
        return digest(case)
    outs = [s["out"] for s in impl["steps"]]
    if "ok" in outs[1:] and any(o not in ("ok", "na") for o in outs):
        return digest(case["ops"])
    nobs = {s["obs"].split(" ")[0] + s["obs"].split(" ")[2] for s in impl["steps"]}
    return digest(case["ops"]) if len(nobs) > 1 else None


def classify(case, impl):
    if case["kind"] == "tree":
        return ["start:" + case["start"], "tree:576-continuations-of-length-2"]
    if case["kind"] == "xop":
        return ["xop:" + case["xop"][0] + ":" + str(impl.get("out"))]
    if case["kind"] == "norm":
        return ["norm:" + case["how"]]
    if case["kind"] == "api":
        return [f"api:{case['cls']}", f"api-calls-accepted:{impl.get('accepted', 0) > 0}"]
    if case["kind"] == "ctorargs":
        return ["ctorargs:" + case["which"]] + ["ctorargs:" + r for r in impl.get("recorded", [])]
    tags = ["start:" + str(case.get("start")), "len:" + ("1-4" if len(case["ops"]) <= 5 else "5-12" if len(case["ops"]) <= 12 else "13+")]
    if "__crash__" in impl:
        return tags + ["crash"]
    for toks, st in zip(case["ops"], impl["steps"]):
        tags.append(f"op:{toks[0]}:{st['out']}")
    return tags
