"""Translator for C12: the `isinstance` dispatch of the operator methods of `GridFunctionalData`
(`FDApy/representation/functional_data.py`: `__add__ __sub__ __mul__ __truediv__ __floordiv__` and whichever reflected
methods exist) -> `lean/FDAModel/Generated/Dispatch.lean`.

The translator maps *syntax* one to one onto the constructors of `lean/FDAModel/Core/PyDispatch.lean` (`Branch`,
`Method`, `Action`): it neither evaluates `isinstance` nor simplifies.  `C12.dispatch_src_eq_model` then proves, for
every operator method and every operand kind of the zoo, that the routing the source says (which kinds reach
`_perform_computation`, which reach `_perform_computation_number` with which NumPy function, which raise `TypeError`,
which reflected methods exist) is the guard of the model all C12 theorems are about.

Recognised shape of a method (the name of the second parameter is free):

    [docstring]
    if isinstance(obj, C | (C, ...)):  <action>
    elif / else: if / a further `if` statement …
    else: <action>          or   <action> as the last statement      or nothing (falls off the end)

    <action> ::= return self._perform_computation(self, obj, np.f)
               | return self._perform_computation_number(self, obj, np.f)
               | raise E(...)  |  return NotImplemented
               | return self <op> obj  |  return self.__op__(obj)

Anything else raises `Shape`: not an alarm (the caller falls back on the reference translation).
"""
import ast


class Shape(ValueError):
    pass


METHODS = {"__add__": "add", "__sub__": "sub", "__mul__": "mul", "__truediv__": "truediv", "__floordiv__": "floordiv",
           "__radd__": "radd", "__rsub__": "rsub", "__rmul__": "rmul", "__rtruediv__": "rtruediv", "__rfloordiv__": "rfloordiv"}
REQUIRED = ["__add__", "__sub__", "__mul__", "__truediv__", "__floordiv__"]
UFUNCS = {"add": "add", "subtract": "subtract", "multiply": "multiply", "true_divide": "trueDivide", "divide": "trueDivide",
          "floor_divide": "floorDivide"}
CLASSES = {"FunctionalData": "functionalData", "GridFunctionalData": "gridFunctionalData",
           "DenseFunctionalData": "denseFunctionalData", "IrregularFunctionalData": "irregularFunctionalData",
           "float": "float", "int": "int", "bool": "bool", "complex": "complex", "str": "str", "list": "list", "tuple": "tuple",
           "dict": "dict", "object": "object", "np.ndarray": "ndarray", "np.number": "npNumber", "np.floating": "npFloating",
           "np.integer": "npInteger", "np.float64": "npFloat64", "np.generic": "npGeneric", "numbers.Number": "numbersNumber",
           "numbers.Real": "numbersReal", "Number": "numbersNumber", "Real": "numbersReal"}
ERRORS = {"TypeError": "typeError", "ValueError": "valueError", "NotImplementedError": "notImplementedError"}
BINOPS = {ast.Add: "add", ast.Sub: "sub", ast.Mult: "mul", ast.Div: "truediv", ast.FloorDiv: "floordiv"}


def _name(e):
    if isinstance(e, ast.Name):
        return e.id
    if isinstance(e, ast.Attribute) and isinstance(e.value, ast.Name):
        return e.value.id + "." + e.attr
    raise Shape(f"not a class name: {ast.unparse(e)}")


def _classes(e):
    elts = e.elts if isinstance(e, ast.Tuple) else [e]
    out = []
    for c in elts:
        n = _name(c)
        if n not in CLASSES:
            raise Shape(f"class {n} is not in the translator's vocabulary")
        out.append("." + CLASSES[n])
    return out


def _action(st, me, arg):
    if isinstance(st, ast.Raise):
        exc = st.exc
        if isinstance(exc, ast.Call):
            exc = exc.func
        if isinstance(exc, ast.Name) and exc.id in ERRORS:
            return f".raise .{ERRORS[exc.id]}"
        raise Shape(f"raise statement: {ast.unparse(st)}")
    if not isinstance(st, ast.Return):
        raise Shape(f"neither return nor raise: {ast.unparse(st)}")
    v = st.value
    if v is None or (isinstance(v, ast.Constant) and v.value is None):
        return ".fallOff"
    if isinstance(v, ast.Name) and v.id == "NotImplemented":
        return ".notImplemented"
    if isinstance(v, ast.BinOp) and type(v.op) in BINOPS and isinstance(v.left, ast.Name) and v.left.id == me \
            and isinstance(v.right, ast.Name) and v.right.id == arg:
        return f".delegate .{BINOPS[type(v.op)]}"
    if isinstance(v, ast.Call) and isinstance(v.func, ast.Attribute) and isinstance(v.func.value, ast.Name) and v.func.value.id == me:
        f = v.func.attr
        if f in METHODS and len(v.args) == 1 and isinstance(v.args[0], ast.Name) and v.args[0].id == arg and not v.keywords:
            return f".delegate .{METHODS[f]}"
        if f in ("_perform_computation", "_perform_computation_number") and len(v.args) == 3 and not v.keywords:
            a0, a1, a2 = v.args
            if not (isinstance(a0, ast.Name) and a0.id == me and isinstance(a1, ast.Name) and a1.id == arg):
                raise Shape(f"operands of {f} are not (self, obj): {ast.unparse(v)}")
            n = _name(a2)
            if not n.startswith(("np.", "numpy.")) or n.split(".", 1)[1] not in UFUNCS:
                raise Shape(f"NumPy function {n} is not in the translator's vocabulary")
            return f".{'compute' if f == '_perform_computation' else 'number'} .{UFUNCS[n.split('.', 1)[1]]}"
    raise Shape(f"return value not recognised: {ast.unparse(st)}")


def _method(fn):
    if len(fn.args.args) != 2 or fn.args.vararg or fn.args.kwarg or fn.args.kwonlyargs:
        raise Shape(f"{fn.name}: signature is not (self, obj)")
    me, arg = fn.args.args[0].arg, fn.args.args[1].arg
    body = [b for b in fn.body if not (isinstance(b, ast.Expr) and isinstance(b.value, ast.Constant) and isinstance(b.value.value, str))]
    branches = []

    def walk(stmts):
        """Returns the action taken when no branch applies."""
        if not stmts:
            return ".fallOff"
        st = stmts[0]
        if isinstance(st, ast.If):
            t = st.test
            if not (isinstance(t, ast.Call) and isinstance(t.func, ast.Name) and t.func.id == "isinstance" and len(t.args) == 2
                    and isinstance(t.args[0], ast.Name) and t.args[0].id == arg):
                raise Shape(f"{fn.name}: test is not isinstance({arg}, …): {ast.unparse(t)}")
            if len(st.body) != 1:
                raise Shape(f"{fn.name}: a branch with {len(st.body)} statements")
            branches.append(f"⟨[{', '.join(_classes(t.args[1]))}], {_action(st.body[0], me, arg)}⟩")
            if st.orelse:
                if len(stmts) > 1:
                    raise Shape(f"{fn.name}: statements after an if / else")
                return walk(st.orelse)
            return walk(stmts[1:])
        if len(stmts) != 1:
            raise Shape(f"{fn.name}: statements after {ast.unparse(st)[:40]}")
        return _action(st, me, arg)

    otherwise = walk(body)
    return f"⟨[{', '.join(branches)}], {otherwise}⟩"


def dispatch_table(path):
    tree = ast.parse(open(path).read())
    cls = next((n for n in tree.body if isinstance(n, ast.ClassDef) and n.name == "GridFunctionalData"), None)
    if cls is None:
        raise Shape("class GridFunctionalData not found")
    found = {}
    for it in cls.body:
        if isinstance(it, ast.FunctionDef) and it.name in METHODS:
            found[it.name] = _method(it)
    for m in REQUIRED:
        if m not in found:
            raise Shape(f"{m} is not defined in GridFunctionalData")
    return found


def lean_source(path):
    found = dispatch_table(path)
    lines = [f"  | .{METHODS[m]} => some {found[m]}" for m in METHODS if m in found]
    if len(found) < len(METHODS):
        lines.append("  | _ => none")
    return f"""/-
GENERATED by `harness/c12_translate.py` from `FDApy/representation/functional_data.py`
(`GridFunctionalData.{{{', '.join(m for m in METHODS if m in found)}}}`).  Do not edit.
Syntax only: `C12.dispatch_src_eq_model` proves that this routing is the guard of the model.
-/
import FDAModel.Core.PyDispatch

namespace FDA.Generated.Dispatch
open FDA.PyDispatch

/-- The operator methods as the source states them (`none`: not defined). -/
def srcMethod : OpName → Option Method
{chr(10).join(lines)}

end FDA.Generated.Dispatch
"""
