"""Translator for C06 / C07: the formulas, constants, guards and defaults of the local-polynomial and
request-independence code paths -> `lean/FDAModel/Generated/SmoothFormulas.lean`.

Source pieces (all parsed with `ast`, SYNTAX only — no arithmetic, no simplification):
  local_polynomial.py
    `_local_regression`   how the kernel values enter both sides of the normal equations (`temp = dmat.T * kernel_values`,
                          `np.dot(temp, dmat)`, `np.dot(temp, y)`), the `rcond` literal of `lstsq`, which component of its
                          result is kept, the returned value `np.dot(dmat_x0, beta)`
    `_compute_kernel`     `np.abs(x - x0)` / `np.linalg.norm(x - x0, axis=1)` and the division by the bandwidth
    `LocalPolynomial.predict`  the argument of the design `(x - pts) / self.bandwidth`, the query point `np.zeros(...)`,
                          the default query set `np.unique(x, axis=0)`
    `degree.setter`       `PolynomialFeatures(degree=new_degree)` and its other keyword arguments (include_bias, interaction_only)
    `_kernel`             the table name -> function (if/elif chain, or a tuple of pairs walked by a loop)
    `LocalPolynomial.__init__`  the default options
  functional_data.py
    `IrregularFunctionalData.mean`  the switch of the large-sample approximation (`approx and len(fdata_long) > 2000`)
                          and what is grouped (`groupby(<coordinates>).mean()`)
    `…smooth/.mean/.covariance` (dense, irregular)  what `points=None` defaults to
    `…covariance`         the symmetrisation `cov = (cov + cov.T) / 2`
  psplines.py
    `PSplines.predict`    `self.beta_hat @ basis_list[0]` and where the basis domain comes from
                          (`kwargs.get("domain_min", self._domain_min)`)

The matrix expressions are mapped one to one onto the combinators of `lean/FDAModel/Core/NpLP.lean`; what each NumPy
operation means is stated there, once.  `C06.*_src_eq_model` / `C07.*_src_eq_model` prove the generated definitions equal
to what the hand-written models use.  A shape that is not recognised raises `Shape`: never an alarm — the caller falls back
on the reference translation stored beside this file (`smooth_formulas_reference.lean`).
"""
import ast
import os
from fractions import Fraction


class Shape(ValueError):
    pass


# ---------------------------------------------------------------------------------------------------------------------
# small helpers
# ---------------------------------------------------------------------------------------------------------------------

def _q(v):
    if isinstance(v, bool) or not isinstance(v, (int, float)):
        raise Shape(f"numeric literal expected, got {v!r}")
    fr = Fraction(str(v))
    return f"(({fr.numerator} : ℚ) / {fr.denominator})" if fr.denominator != 1 else f"({fr.numerator} : ℚ)"


def _np_call(n, *attrs):
    """np.a.b(...)"""
    if not isinstance(n, ast.Call):
        return False
    f = n.func
    for a in reversed(attrs):
        if not (isinstance(f, ast.Attribute) and f.attr == a):
            return False
        f = f.value
    return isinstance(f, ast.Name) and f.id in ("np", "numpy")


def _func(tree, name, cls=None, decorator=None):
    scope = tree.body
    if cls:
        c = [n for n in tree.body if isinstance(n, ast.ClassDef) and n.name == cls]
        if len(c) != 1:
            raise Shape(f"class {cls} not found")
        scope = c[0].body
    fs = [n for n in scope if isinstance(n, ast.FunctionDef) and n.name == name]
    if decorator:
        fs = [n for n in fs if any(decorator in ast.unparse(d) for d in n.decorator_list)]
    if len(fs) != 1:
        raise Shape(f"function {cls + '.' if cls else ''}{name} not found (or ambiguous)")
    return fs[0]


def _body(fn):
    return [st for st in fn.body if not (isinstance(st, ast.Expr) and isinstance(st.value, ast.Constant))]


def _kw(call, name, default=None):
    for k in call.keywords:
        if k.arg == name:
            return k.value
    return default


def _lean_str(s):
    return '"' + s.replace("\\", "\\\\").replace('"', '\\"') + '"'


# ---------------------------------------------------------------------------------------------------------------------
# _local_regression: typed matrix expressions -> NpLP combinators
# ---------------------------------------------------------------------------------------------------------------------
# types: "Mnp" design (n x p), "Mpn" its transpose-shaped matrices (p x n), "Mpp", "Vn", "Vp", "S" scalar

def _mexpr(node, env):
    """-> (lean term, type).  `env`: name -> (lean term, type) for the arguments and the local assignments."""
    if isinstance(node, ast.Name):
        if node.id not in env:
            raise Shape(f"unknown name {node.id}")
        return env[node.id]
    if isinstance(node, ast.Constant):
        return _q(node.value), "S"
    if isinstance(node, ast.Attribute) and node.attr == "T":
        t, ty = _mexpr(node.value, env)
        flip = {"Mnp": "Mpn", "Mpn": "Mnp", "Mpp": "Mpp", "Vn": "Vn", "Vp": "Vp"}
        if ty not in flip:
            raise Shape(".T of a scalar")
        return (f"(FDA.NpLP.transpose {t})" if ty.startswith("M") else t), flip[ty]
    if _np_call(node, "sqrt") and len(node.args) == 1:
        raise Shape("square root of the weights: not a rational operation, not translated")
    if isinstance(node, ast.BinOp) and isinstance(node.op, ast.Pow):
        t, ty = _mexpr(node.left, env)
        if not (isinstance(node.right, ast.Constant) and isinstance(node.right.value, int) and node.right.value >= 0) or ty not in ("Vn", "Vp"):
            raise Shape("power: vector ** non-negative integer literal expected")
        return f"(FDA.NpLP.vpow {t} {node.right.value})", ty
    if isinstance(node, ast.BinOp) and isinstance(node.op, ast.Mult):
        a, ta = _mexpr(node.left, env)
        b, tb = _mexpr(node.right, env)
        if ta == "Mpn" and tb == "Vn":
            return f"(FDA.NpLP.bcastRowMul {a} {b})", "Mpn"          # broadcasting over the last axis
        if ta == "Vn" and tb == "Mpn":
            return f"(FDA.NpLP.bcastRowMul {b} {a})", "Mpn"
        if ta == tb and ta in ("Vn", "Vp"):
            return f"(FDA.NpLP.vmul {a} {b})", ta
        if ta == "S" and tb in ("Vn", "Vp"):
            return f"(FDA.NpLP.vscale {a} {b})", tb
        raise Shape(f"product of {ta} and {tb}")
    is_dot = (_np_call(node, "dot") and len(node.args) == 2) or (isinstance(node, ast.BinOp) and isinstance(node.op, ast.MatMult))
    if is_dot:
        l, r = (node.args if isinstance(node, ast.Call) else (node.left, node.right))
        a, ta = _mexpr(l, env)
        b, tb = _mexpr(r, env)
        if ta == "Mpn" and tb == "Mnp":
            return f"(FDA.NpLP.dotMM n {a} {b})", "Mpp"
        if ta == "Mpn" and tb == "Vn":
            return f"(FDA.NpLP.dotMV n {a} {b})", "Vp"
        if ta == "Vp" and tb == "Vp":
            return f"(FDA.NpLP.dotVV p {a} {b})", "S"
        raise Shape(f"dot of {ta} and {tb}")
    raise Shape(f"unsupported expression {ast.unparse(node)[:60]}")


def local_regression(tree):
    fn = _func(tree, "_local_regression")
    args = [a.arg for a in fn.args.args]
    need = {"y", "x", "x0", "dmat", "dmat_x0", "bandwidth", "kernel"}
    if not need <= set(args):
        raise Shape(f"arguments {args}")
    env = {"dmat": ("D", "Mnp"), "y": ("y", "Vn"), "dmat_x0": ("d0", "Vp")}
    body = _body(fn)
    ret = body[-1]
    if not isinstance(ret, ast.Return):
        raise Shape("last statement is not a return")
    lstsq = None
    for st in body[:-1]:
        if not (isinstance(st, ast.Assign) and len(st.targets) == 1 and isinstance(st.targets[0], ast.Name)):
            raise Shape(f"statement is not a simple assignment: {ast.unparse(st)[:50]}")
        name, v = st.targets[0].id, st.value
        if isinstance(v, ast.Call) and isinstance(v.func, ast.Name) and v.func.id == "_compute_kernel":
            env[name] = ("w", "Vn")                                  # the kernel values
            continue
        if isinstance(v, ast.Subscript) and _np_call(v.value, "linalg", "lstsq"):
            call = v.value
            if len(call.args) != 2 or not isinstance(v.slice, ast.Constant):
                raise Shape("lstsq(A, b, rcond=...)[k] expected")
            A, tA = _mexpr(call.args[0], env)
            b, tb = _mexpr(call.args[1], env)
            if (tA, tb) != ("Mpp", "Vp"):
                raise Shape(f"lstsq on {tA}, {tb}")
            rc = _kw(call, "rcond")
            if not isinstance(rc, ast.Constant) or rc.value is None:
                raise Shape("rcond is not a numeric literal")
            lstsq = (A, b, _q(rc.value), int(v.slice.value))
            env[name] = ("β", "Vp")
            continue
        env[name] = _mexpr(v, env)
    if lstsq is None:
        raise Shape("no np.linalg.lstsq(...)[k]")
    val, tv = _mexpr(ret.value, env)
    if tv != "S":
        raise Shape("returned value is not a scalar")
    A, b, rc, idx = lstsq
    return [
        "/-- the matrix handed to `lstsq` in `_local_regression`, entry `(a, b)` (`w` = kernel values, `D` = design). -/",
        f"def lrMatSrc (n : ℕ) (w : ℕ → ℚ) (D : ℕ → ℕ → ℚ) : ℕ → ℕ → ℚ := {A}",
        "/-- its right-hand side. -/",
        f"def lrRhsSrc (n : ℕ) (w : ℕ → ℚ) (D : ℕ → ℕ → ℚ) (y : ℕ → ℚ) : ℕ → ℚ := {b}",
        "/-- the `rcond` literal and the component of `lstsq(...)` that is kept. -/",
        f"def lrRcondSrc : ℚ := {rc}",
        f"def lrSolutionIndexSrc : ℕ := {idx}",
        "/-- the returned value. -/",
        f"def lrValueSrc (p : ℕ) (d0 β : ℕ → ℚ) : ℚ := {val}",
    ]


# ---------------------------------------------------------------------------------------------------------------------
# scalar expressions over the coordinates (kernel argument, design argument)
# ---------------------------------------------------------------------------------------------------------------------

def _sexpr(node, names):
    if isinstance(node, ast.Constant):
        return _q(node.value)
    if isinstance(node, ast.Name) and node.id in names:
        return names[node.id]
    if isinstance(node, ast.Attribute) and isinstance(node.value, ast.Name) and node.value.id == "self" and ("self." + node.attr) in names:
        return names["self." + node.attr]
    if isinstance(node, ast.UnaryOp) and isinstance(node.op, ast.USub):
        return f"(-{_sexpr(node.operand, names)})"
    if isinstance(node, ast.BinOp) and type(node.op) in (ast.Add, ast.Sub, ast.Mult, ast.Div):
        op = {ast.Add: "+", ast.Sub: "-", ast.Mult: "*", ast.Div: "/"}[type(node.op)]
        return f"({_sexpr(node.left, names)} {op} {_sexpr(node.right, names)})"
    if _np_call(node, "abs") and len(node.args) == 1:
        return f"|{_sexpr(node.args[0], names)}|"
    raise Shape(f"unsupported scalar expression {ast.unparse(node)[:60]}")


def compute_kernel(tree):
    fn = _func(tree, "_compute_kernel")
    body = _body(fn)
    assigns = {}
    for st in ast.walk(fn):
        if isinstance(st, ast.Assign) and len(st.targets) == 1 and isinstance(st.targets[0], ast.Name):
            assigns.setdefault(st.targets[0].id, []).append(st.value)
    ret = body[-1]
    if not (isinstance(ret, ast.Return) and isinstance(ret.value, ast.Call) and isinstance(ret.value.func, ast.Name) and ret.value.func.id == "kernel" and len(ret.value.args) == 1):
        raise Shape("return kernel(<distance> / bandwidth) expected")
    arg = ret.value.args[0]
    if not (isinstance(arg, ast.BinOp) and isinstance(arg.op, ast.Div) and isinstance(arg.right, ast.Name) and arg.right.id == "bandwidth" and isinstance(arg.left, ast.Name)):
        raise Shape("the kernel argument is not <name> / bandwidth")
    dist = assigns.get(arg.left.id, [])
    one = [v for v in dist if _np_call(v, "abs")]
    nd = [v for v in dist if _np_call(v, "linalg", "norm")]
    if len(one) != 1 or len(nd) != 1 or len(dist) != 2:
        raise Shape("np.abs(...) for 1-D and np.linalg.norm(..., axis=1) for n-D expected")
    d1 = _sexpr(one[0], {"x": "x", "x0": "x0"})
    n = nd[0]
    if len(n.args) != 1 or ast.unparse(_kw(n, "axis", ast.Constant(None))) != "1" or _kw(n, "ord") is not None:
        raise Shape("np.linalg.norm(<difference>, axis=1) with the default (Euclidean) order expected")
    diff = n.args[0]
    c1 = _sexpr(diff, {"x": "x1", "x0": "x01"})
    c2 = _sexpr(diff, {"x": "x2", "x0": "x02"})
    return [
        "/-- `_compute_kernel`, 1-D branch: the argument handed to the kernel. -/",
        f"def kernelArg1Src (h x x0 : ℚ) : ℚ := ({d1} / h)",
        "/-- n-D branch (two coordinates): `np.linalg.norm(x - x0, axis=1) / bandwidth`, `root` standing for the square root. -/",
        f"def kernelArg2Src (root : ℚ → ℚ) (h x1 x2 x01 x02 : ℚ) : ℚ := (root (({c1}) ^ 2 + ({c2}) ^ 2) / h)",
    ]


def predict_design(tree):
    fn = _func(tree, "predict", cls="LocalPolynomial")
    design = query = None
    uniq = False
    for n in ast.walk(fn):
        if isinstance(n, ast.Call) and isinstance(n.func, ast.Attribute) and n.func.attr == "fit_transform" and len(n.args) == 1:
            a = n.args[0]
            if _np_call(a, "zeros"):
                query = "(0 : ℚ)"
            elif _np_call(a, "ones"):
                query = "(1 : ℚ)"
            else:
                loop_vars = [t.id for f in ast.walk(fn) if isinstance(f, ast.For) for t in ast.walk(f.target) if isinstance(t, ast.Name)]
                names = {"x": "x", "self.bandwidth": "h"}
                for v in loop_vars:
                    names[v] = "x0"
                design = _sexpr(a, names)
        if isinstance(n, ast.If) and ast.unparse(n.test) == "x_new is None":
            st = n.body[0]
            uniq = isinstance(st, ast.Assign) and _np_call(st.value, "unique") and ast.unparse(st.value.args[0]) == "x"
    if design is None or query is None:
        raise Shape("fit_transform of the design / of the query point not found")
    setter = _func(tree, "degree", cls="LocalPolynomial", decorator="setter")
    pf = [n for n in ast.walk(setter) if isinstance(n, ast.Call) and isinstance(n.func, ast.Name) and n.func.id == "PolynomialFeatures"]
    if len(pf) != 1:
        raise Shape("PolynomialFeatures(...) in the degree setter")
    pf = pf[0]
    deg = _kw(pf, "degree", pf.args[0] if pf.args else None)
    param = setter.args.args[1].arg
    b = lambda node, default: default if node is None else (str(bool(node.value)).lower() if isinstance(node, ast.Constant) and isinstance(node.value, bool) else None)  # noqa: E731
    ib, io = b(_kw(pf, "include_bias"), "true"), b(_kw(pf, "interaction_only"), "false")
    if ib is None or io is None or deg is None:
        raise Shape("PolynomialFeatures keyword arguments")
    return [
        "/-- the argument of the design features in `LocalPolynomial.predict` (`x0` = the query point of the loop). -/",
        f"def designArgSrc (h x x0 : ℚ) : ℚ := {design}",
        "/-- the point whose features form the query row. -/",
        f"def queryPointSrc : ℚ := {query}",
        "/-- `x_new is None` -> `np.unique(x, axis=0)`. -/",
        f"def xnewDefaultUniqueSrc : Bool := {str(uniq).lower()}",
        "/-- `PolynomialFeatures(...)`: the degree is the `degree` option, `include_bias`, `interaction_only`. -/",
        f"def polyDegreeIsOptionSrc : Bool := {str(isinstance(deg, ast.Name) and deg.id == param).lower()}",
        f"def polyIncludeBiasSrc : Bool := {ib}",
        f"def polyInteractionOnlySrc : Bool := {io}",
    ]


def kernel_table(tree):
    fn = _func(tree, "_kernel")
    pairs = []
    body = _body(fn)
    node = body[0] if body else None
    if isinstance(node, ast.If):                                       # if / elif chain
        while isinstance(node, ast.If):
            t = node.test
            if not (isinstance(t, ast.Compare) and len(t.ops) == 1 and isinstance(t.ops[0], ast.Eq) and isinstance(t.comparators[0], ast.Constant)
                    and isinstance(node.body[0], ast.Return) and isinstance(node.body[0].value, ast.Name)):
                raise Shape("if name == <literal>: return <function> expected")
            pairs.append((t.comparators[0].value, node.body[0].value.id))
            node = node.orelse[0] if len(node.orelse) == 1 else None
    else:                                                              # a tuple / list / dict of pairs walked by a loop
        for st in body:
            if isinstance(st, ast.Assign) and isinstance(st.value, (ast.Tuple, ast.List)):
                for e in st.value.elts:
                    if not (isinstance(e, ast.Tuple) and len(e.elts) == 2 and isinstance(e.elts[0], ast.Constant) and isinstance(e.elts[1], ast.Name)):
                        raise Shape("table of (name, function) pairs expected")
                    pairs.append((e.elts[0].value, e.elts[1].id))
            if isinstance(st, ast.Assign) and isinstance(st.value, ast.Dict):
                for k, v in zip(st.value.keys, st.value.values):
                    pairs.append((k.value, v.id))
    if not pairs:
        raise Shape("kernel table not recognised")
    init = _func(tree, "__init__", cls="LocalPolynomial")
    names = [a.arg for a in init.args.args][1:]
    defaults = dict(zip(names[len(names) - len(init.args.defaults):], init.args.defaults))
    try:
        kn, bw, dg, rb = defaults["kernel_name"].value, defaults["bandwidth"].value, defaults["degree"].value, defaults["robust"].value
    except (KeyError, AttributeError):
        raise Shape("defaults of LocalPolynomial.__init__")
    return [
        "/-- `_kernel`: kernel name -> function of the module. -/",
        "def kernelTableSrc : List (String × String) := [" + ", ".join(f"({_lean_str(a)}, {_lean_str(b)})" for a, b in pairs) + "]",
        "/-- default options of `LocalPolynomial`. -/",
        f"def lpDefaultKernelSrc : String := {_lean_str(kn)}",
        f"def lpDefaultBandwidthSrc : ℚ := {_q(bw)}",
        f"def lpDefaultDegreeSrc : ℕ := {int(dg)}",
        f"def lpDefaultRobustSrc : Bool := {str(bool(rb)).lower()}",
    ]


# ---------------------------------------------------------------------------------------------------------------------
# C07: request-independence logic
# ---------------------------------------------------------------------------------------------------------------------

def _guard(node):
    """Boolean guard over `approx`, `len(fdata_long)` (nPooled), `np.prod(points.n_points)` / `len(points…)` (nRequested)."""
    def num(n):
        if isinstance(n, ast.Constant) and isinstance(n.value, int) and not isinstance(n.value, bool):
            return str(n.value)
        if isinstance(n, ast.Call) and isinstance(n.func, ast.Name) and n.func.id == "len" and ast.unparse(n.args[0]) == "fdata_long":
            return "nPooled"
        if (_np_call(n, "prod") or (isinstance(n, ast.Call) and isinstance(n.func, ast.Name) and n.func.id == "len")) and "points" in ast.unparse(n.args[0]):
            return "nRequested"
        if isinstance(n, ast.BinOp) and type(n.op) in (ast.Mult, ast.Add):
            return f"({num(n.left)} {'*' if isinstance(n.op, ast.Mult) else '+'} {num(n.right)})"
        raise Shape(f"unsupported size expression {ast.unparse(n)[:50]}")
    if isinstance(node, ast.BoolOp) and isinstance(node.op, ast.And):
        return "(" + " && ".join(_guard(v) for v in node.values) + ")"
    if isinstance(node, ast.Name) and node.id == "approx":
        return "approx"
    if isinstance(node, ast.Compare) and len(node.ops) == 1 and type(node.ops[0]) in (ast.Gt, ast.GtE, ast.Lt, ast.LtE):
        op = {ast.Gt: ">", ast.GtE: "≥", ast.Lt: "<", ast.LtE: "≤"}[type(node.ops[0])]
        return f"decide ({num(node.left)} {op} {num(node.comparators[0])})"
    raise Shape(f"unsupported guard {ast.unparse(node)[:60]}")


def request_logic(tree, ps_tree):
    out = []
    mean = _func(tree, "mean", cls="IrregularFunctionalData")
    sw = [n for n in ast.walk(mean) if isinstance(n, ast.If) and "approx" in ast.unparse(n.test)]
    if len(sw) != 1:
        raise Shape("the approx switch of IrregularFunctionalData.mean")
    grouped = [n for n in ast.walk(sw[0]) if isinstance(n, ast.Call) and isinstance(n.func, ast.Attribute) and n.func.attr == "groupby"]
    gb = "none"
    if grouped:
        key = ast.unparse(grouped[0].args[0])
        defs = [ast.unparse(st.value) for st in ast.walk(sw[0]) if isinstance(st, ast.Assign) and ast.unparse(st.targets[0]) == key]
        gb = "coordinates" if defs and "input_dim_" in defs[0] and "points" not in defs[0] else "other"
        pre = [st for st in sw[0].body if isinstance(st, (ast.For, ast.While))]
        if pre:
            gb = "other"                                              # the pooled sample is altered before grouping
    out += [
        "/-- `IrregularFunctionalData.mean`: when the large-sample approximation (group the pooled observations, average each",
        "group, smooth the averages) is used.  `nPooled = len(fdata_long)`, `nRequested` = number of requested points. -/",
        f"def approxSwitchSrc (approx : Bool) (nPooled nRequested : ℕ) : Bool := {_guard(sw[0].test)}",
        "/-- what the pooled observations are grouped by. -/",
        f"def approxGroupedBySrc : String := {_lean_str(gb)}",
    ]
    # points=None defaults
    rows = []
    for cls in ("DenseFunctionalData", "IrregularFunctionalData"):
        for meth in ("smooth", "mean", "covariance"):
            fn = _func(tree, meth, cls=cls)
            d = [n for n in ast.walk(fn) if isinstance(n, ast.If) and ast.unparse(n.test) == "points is None"]
            if len(d) != 1 or not (isinstance(d[0].body[0], ast.Assign) and ast.unparse(d[0].body[0].targets[0]) == "points"):
                raise Shape(f"{cls}.{meth}: `if points is None: points = …`")
            rows.append((f"{cls}.{meth}", ast.unparse(d[0].body[0].value)))
    out += ["/-- what `points=None` stands for, entry point by entry point (always a function of the DATA). -/",
            "def pointsDefaultSrc : List (String × String) := [" + ", ".join(f"({_lean_str(a)}, {_lean_str(b)})" for a, b in rows) + "]"]
    # symmetrisation
    syms = []
    for cls in ("DenseFunctionalData", "IrregularFunctionalData"):
        fn = _func(tree, "covariance", cls=cls)
        s = [st for st in ast.walk(fn) if isinstance(st, ast.Assign) and ast.unparse(st.targets[0]) == "cov" and "cov.T" in ast.unparse(st.value)]
        if len(s) != 1:
            raise Shape(f"{cls}.covariance: the symmetrisation of cov")
        syms.append(s[0].value)
    if ast.dump(syms[0]) != ast.dump(syms[1]):
        raise Shape("dense and irregular covariance symmetrise differently")

    def sym(n):
        if isinstance(n, ast.Name) and n.id == "cov":
            return "c"
        if isinstance(n, ast.Attribute) and n.attr == "T" and isinstance(n.value, ast.Name) and n.value.id == "cov":
            return "ct"
        if isinstance(n, ast.Constant):
            return _q(n.value)
        if isinstance(n, ast.BinOp) and type(n.op) in (ast.Add, ast.Sub, ast.Mult, ast.Div):
            return f"({sym(n.left)} {({ast.Add: '+', ast.Sub: '-', ast.Mult: '*', ast.Div: '/'})[type(n.op)]} {sym(n.right)})"
        raise Shape("symmetrisation expression")
    out += ["/-- `cov = (cov + cov.T) / 2`: entry `(i, j)` from `c = cov[i, j]`, `ct = cov[j, i]`. -/",
            f"def symmetriseSrc (c ct : ℚ) : ℚ := {sym(syms[0])}"]
    # PSplines.predict
    pred = _func(ps_tree, "predict", cls="PSplines")
    gets = [n for n in ast.walk(pred) if isinstance(n, ast.Call) and isinstance(n.func, ast.Attribute) and n.func.attr == "get" and ast.unparse(n.func.value) == "kwargs"]
    dom = {ast.unparse(g.args[0]).strip("'\""): ast.unparse(g.args[1]) for g in gets if len(g.args) == 2}
    stored = dom.get("domain_min") == "self._domain_min" and dom.get("domain_max") == "self._domain_max"
    one = [st for st in ast.walk(pred) if isinstance(st, ast.Assign) and ast.unparse(st.targets[0]) == "y_pred" and isinstance(st.value, ast.BinOp) and isinstance(st.value.op, ast.MatMult)]
    if len(one) != 1:
        raise Shape("PSplines.predict: y_pred = <coefficients> @ <basis>")
    l, r = ast.unparse(one[0].value.left), ast.unparse(one[0].value.right)
    if (l, r) == ("self.beta_hat", "basis_list[0]"):
        expr = "FDA.NpLP.dotVV nf β B"
    elif (l, r) == ("basis_list[0].T", "self.beta_hat"):
        expr = "FDA.NpLP.dotVV nf B β"
    else:
        raise Shape(f"PSplines.predict: {l} @ {r}")
    out += ["/-- `PSplines.predict`, 1-D: the value at one location from the coefficients `β` and the basis values `B` there. -/",
            f"def psPredict1Src (nf : ℕ) (β B : ℕ → ℚ) : ℚ := {expr}",
            "/-- the basis of `predict` is laid on the domain stored by `fit` (unless the caller overrides it). -/",
            f"def psPredictUsesStoredDomainSrc : Bool := {str(stored).lower()}"]
    return out


HEADER = """/-
GENERATED by harness/smooth_translate.py from FDApy/preprocessing/smoothing/local_polynomial.py, psplines.py and
FDApy/representation/functional_data.py.  Do not edit: regenerated on every run of `./check C06` / `./check C07`.
`C06.local_regression_src_eq_model`, `C06.compute_kernel_src_eq_model`, `C06.predict_design_src_eq_model`,
`C06.kernel_table_src_eq_model` and `C07.request_logic_src_eq_model`, `C07.symmetrise_src_eq_model`,
`C07.ps_predict_src_eq_model` prove these equal to what the hand-written models use.
-/
import FDAModel.Core.NpLP

namespace FDA.Generated.Smooth
"""


def lean_source(repo):
    lp = ast.parse(open(os.path.join(repo, "FDApy", "preprocessing", "smoothing", "local_polynomial.py")).read())
    ps = ast.parse(open(os.path.join(repo, "FDApy", "preprocessing", "smoothing", "psplines.py")).read())
    fd = ast.parse(open(os.path.join(repo, "FDApy", "representation", "functional_data.py")).read())
    lines = [HEADER]
    for part in (local_regression(lp), compute_kernel(lp), predict_design(lp), kernel_table(lp), request_logic(fd, ps)):
        lines += part + [""]
    lines += ["end FDA.Generated.Smooth", ""]
    return "\n".join(lines)


GEN_FILE_REL = os.path.join("FDAModel", "Generated", "SmoothFormulas.lean")
REFERENCE = os.path.join(os.path.dirname(os.path.abspath(__file__)), "smooth_formulas_reference.lean")


def regenerate(repo, lean_dir):
    """Write Generated/SmoothFormulas.lean from the source under `repo` (only when the content changes).  Returns the note
    for the evidence.  A shape that is not recognised is never an alarm: the reference translation stored beside this file
    is written instead (not whatever an earlier run left in Generated/)."""
    gen = os.path.join(lean_dir, GEN_FILE_REL)
    try:
        src = lean_source(repo)
        note = ("translator: local-regression / kernel-argument / design / kernel-table / request-logic formulas regenerated from "
                "the source and re-proved equal to the models (C06.*_src_eq_model, C07.*_src_eq_model)")
    except (ValueError, SyntaxError, IndexError, AttributeError, KeyError, TypeError) as e:
        src = open(REFERENCE).read()
        note = f"translator: source shape not recognised, reference translation used, tie rests on the correspondence only ({e})"
        print("note:", note)
    old = open(gen).read() if os.path.exists(gen) else None
    if old != src:
        os.makedirs(os.path.dirname(gen), exist_ok=True)
        with open(gen, "w") as fh:
            fh.write(src)
    return note
