"""C03 — scores decorrelate the data and inverse_transform undoes transform.

Correspondence: a `UFPCA` (and, for `inverse_transform`, `MFPCA`) estimator is fitted on
dense 1-D / 2-D data with exactly representable values; its mean, weight, eigenvalues,
eigenfunctions and Gram eigenvectors are fed to the Lean model, which recomputes in exact
rational arithmetic (square roots bracketed to 1e-24): the mean, the learnt rescaling
weight, the scores of the stored training data (`transformSpec`), the scores of the
explicitly passed training data (`transformImpl`, as coded), the InnPro scores, the PACE
scores (exact solve with certificate) and `inverse_transform`.  The oracle evaluates the
property's clauses on what FDApy returned, including short histories on one estimator
object (repeated calls, refit) and a non-default integration option.
"""
from __future__ import annotations

import os
from fractions import Fraction

import numpy as np

import common
from common import F, Rng, close_all, digest, err_class, fl, pmat, pvec, rs
from fpca_util import trapz_weights, pow2, special_grids, EigCapture, Fm, Fv, Smat, Svec, curves, dense, grid, quiet, sel_to_py

PROP = "C03"
MODULES = ["FDAProofs.Props.C03"]
DRIVER = "Drivers/C03.lean"
PARALLEL = True
RULE = (
    "dense 1-D (n_obs 2..12, 3..20 points) and 2-D (inner-product method only, as in the code) datasets with dyadic values, "
    "uniform / non-uniform grids, method × normalize × score method {NumInt, InnPro, PACE} × n_components {all, k, fraction}; "
    "per case: transform(None), transform(training data, no smoothing), inverse_transform of the training scores and of random "
    "score matrices (affinity), second calls / refit on the same estimator object, integration_method='simpson'; "
    "MFPCA (inner-product, 2 components, linear sample mean) for inverse_transform; non-trivial when the centred data are not all zero"
)
PARTIAL = [
    "translator (harness/c02_translate.py): UFPCA.transform (what is centred / rescaled), DenseFunctionalData.rescale (power), the NumInt integrand / axes / method forwarding, the InnPro radicand and inverse_transform (einsum subscripts, sqrt(weights) only after a normalised fit, + mean) are re-extracted on every run and proved equal to the model (C03.*_src_eq_model, transform_flags_src); unrecognised shape: reference translation + note, tie by the correspondence only",
    "eigenfunctions, eigenvalues, Gram eigenvectors, mean and weight are taken from the fitted estimator and fed to the model (their own correctness is C01/C02/C09/C10's subject; mean and weight are additionally recomputed by the model)",
    "PACE (dense, 1-D, both settings of normalize, transform(None) and transform(data)): exact rational solve of y Σ = x with certificate; compared at 1e-6 when cond(Σ) ≤ 1e8 and ≤ 9 grid points (pinv of Σ = Mercer + σ²I, σ² ≥ 1e-4); PACE on irregular data (`_transform_pace_irregular`: interpolation first) is not modelled",
    "integration_method='simpson' is scipy's: checked by the oracle against scipy directly, not modelled",
    "MFPCA: inverse_transform (componentwise) and transform(None, NumInt) with 1-D components (sum of the univariate scores) are modelled; image components (smoothed before integration), PACE and the covariance-route transform are C04's subject",
]
THEOREMS_SRC = "C03.transform_src_eq_model, transform_flags_src, innpro_src_eq_model, inverse_src_eq_model"
TRUSTED_EXTRA = ["translator harness/c02_translate.py (ast, syntax only; shared with C02)"]
UNCENTRED = "normalize_rescales_uncentred"
INCREMENTAL = "fit_state_assigned_incrementally"
RTOL = 1e-9


# --------------------------------------------------------------------------
# translator: the UFPCA formulas as written -> lean/FDAModel/Generated/UfpcaFormulas.lean
# --------------------------------------------------------------------------

GEN_FORMULAS = os.path.join(common.LEAN_DIR, "FDAModel", "Generated", "UfpcaFormulas.lean")
TRANSLATOR_NOTE = "translator: not run"


def translate():
    """Regenerate Generated/UfpcaFormulas.lean from what the source says now (`harness/c02_translate.py`, syntax only).
    A source whose shape is not recognised (a refactor) is NOT an alarm: the reference translation stored beside the
    translator is used, a note is printed and recorded in the evidence, and the tie rests on the correspondence only.
    Only a successful translation can break THEOREMS_SRC."""
    global TRANSLATOR_NOTE
    import c02_translate

    try:
        src = c02_translate.lean_source(common.REPO)
        TRANSLATOR_NOTE = "translator: UFPCA formulas regenerated from the source and re-proved equal to the model (" + THEOREMS_SRC + ")"
    except (ValueError, SyntaxError, IndexError, AttributeError, KeyError, TypeError) as e:
        TRANSLATOR_NOTE = f"translator: shape of the UFPCA source not recognised, tie rests on the correspondence only ({str(e)[:140]})"
        print("note:", TRANSLATOR_NOTE)
        src = open(os.path.join(os.path.dirname(os.path.abspath(__file__)), "c02_ufpcaformulas_reference.lean")).read()
    except OSError as e:
        raise common.InfraError(f"translator: cannot read the UFPCA sources under {common.REPO}: {e}")
    old = open(GEN_FORMULAS).read() if os.path.exists(GEN_FORMULAS) else None
    if old != src:
        os.makedirs(os.path.dirname(GEN_FORMULAS), exist_ok=True)
        with open(GEN_FORMULAS, "w") as fh:
            fh.write(src)



def extra_coverage(cases, impls, models):
    return dict(translator=TRANSLATOR_NOTE)


# --------------------------------------------------------------------------
# generation
# --------------------------------------------------------------------------

def _sel(rng, size):
    return rng.choice([["all"], ["all"], ["int", 1], ["int", 2], ["int", rng.randint(1, max(1, size))],
                       ["frac", rs(rng.choice([Fraction(9, 10), Fraction(99, 100)]))]])


def _scores(rng, n, K):
    return [[rs(rng.dyadic(-4, 4, 2)) for _ in range(K)] for _ in range(n)]


def _regrid(rng, t):
    """Another grid with the same number of points and the same end points, other interior points."""
    m = len(t)
    lo, hi = t[0], t[-1]
    k = 3
    while 2 ** k < 8 * m:
        k += 1
    cand = [lo + (hi - lo) * Fraction(j, 2 ** k) for j in range(1, 2 ** k)]
    cand = [c for c in cand if c not in set(t)]
    return [lo] + sorted(rng.sample(cand, m - 2)) + [hi]


def gen_cases(rng: Rng, tier):
    N = 1200 if tier == "thorough" else 80
    for k in range(N):
        method = ["covariance", "inner-product"][k % 2]
        normalize = rng.random() < 0.5          # independent of the score method below (every combination occurs)
        two_d = method == "inner-product" and k % 6 == 1
        if two_d:
            m1, m2 = rng.randint(2, 5), rng.randint(2, 5)
            n = rng.randint(2, 7)
            t1, t2 = grid(rng, m1), grid(rng, m2)
            X, ck = curves(rng, n, [Fraction(j) for j in range(m1 * m2)], rng.choice(["rough", "lowrank", "smooth"]))
            data = dict(dim=2, t=Svec(t1), t2=Svec(t2), X=Smat(X))
            size = n
        else:
            n, m = rng.choice([2, 3, 4, 5, 6, 8, 12]), rng.choice([3, 4, 5, 6, 9, 13, 20])
            t = grid(rng, m)
            kind = rng.choice(["smooth", "lowrank", "lowrank", "rough", "offset"]) if method == "inner-product" else None
            X, ck = curves(rng, n, t, kind)
            sc = pow2(rng)
            data = dict(dim=1, t=Svec(t), X=Smat([[x * sc for x in r] for r in X]), scale=rs(sc))
            size = m if method == "covariance" else n
        if method == "covariance":
            score = "PACE" if k % 8 == 4 else "NumInt"
        else:
            score = ["InnPro", "NumInt", "InnPro", "PACE"][(k // 2) % 4] if not two_d else ["InnPro", "NumInt"][(k // 6) % 2]
        sel = _sel(rng, size)
        case = dict(kind="ufpca", method=method, normalize=normalize, score=score, sel=sel, ck=ck,
                    a=rs(rng.dyadic(-3, 3, 2)), b=rs(rng.dyadic(-3, 3, 2)), seed=rng.subseed(),
                    layout=rng.choice(["C", "C", "F", "S"]), **data)
        if k % 3 != 2:
            # refit history across KINDS of data on the same estimator object: 1-D <-> 2-D (inner-product method),
            # other grid size and noisy <-> noise-free curves (covariance method)
            if method == "inner-product" and not two_d:
                r1, r2 = rng.randint(2, 4), rng.randint(2, 4)
                XR, _ = curves(rng, rng.randint(3, 6), [Fraction(j) for j in range(r1 * r2)], rng.choice(["rough", "lowrank"]))
                case["R"] = dict(dim=2, t=Svec(grid(rng, r1)), t2=Svec(grid(rng, r2)), X=Smat(XR))
            else:
                mR = rng.randint(4, 12)
                tR = grid(rng, mR)
                XR, _ = curves(rng, rng.randint(3, 7), tR, "rough" if ck in ("smooth", "lowrank", "offset") else "smooth")
                case["R"] = dict(dim=1, t=Svec(tR), X=Smat(XR))
        if "R" in case and k % 2 == 1:
            case["inject"] = True   # failure-injection history on the refit (see _failure_history)
        if k % 2 == 0 or two_d:
            # two-grid history in one process: afterwards the same pipeline runs on ANOTHER grid with the same
            # number of points and the same end points (other interior points), with other curves
            if two_d:
                tb1, tb2 = (_regrid(rng, t1) if m1 > 2 else t1), (_regrid(rng, t2) if m2 > 2 else t2)
                XB, _ = curves(rng, n, [Fraction(j) for j in range(m1 * m2)], rng.choice(["rough", "lowrank"]))
                case["B"] = dict(t=Svec(tb1), t2=Svec(tb2), X=Smat(XB))
            elif m > 2:
                tB = _regrid(rng, t)
                XB, _ = curves(rng, n, tB, kind)
                case["B"] = dict(t=Svec(tB), X=Smat(XB))
        yield case
    # offset / step ratio and non-uniform × tiny scale (every run): far-offset time stamps filling the mantissa, irregular
    # grids with steps ≲ 1e-8; natural scores of both methods, with and without normalisation
    for i, (label, t) in enumerate(special_grids(rng, rng.randint(5, 8))):
        method = ["covariance", "inner-product"][i % 2]
        X, ck = curves(rng, rng.randint(4, 6), t, "smooth" if method == "inner-product" else "rough")
        yield dict(kind="ufpca", method=method, normalize=bool((i // 2) % 2), score="NumInt" if method == "covariance" else "InnPro",
                   sel=["all"] if method == "covariance" else ["int", 1], ck=f"grid:{label}", dim=1, t=Svec(t), X=Smat(X),
                   a="1", b="-1/2", seed=rng.subseed())
    # documented fit options away from their defaults (every run): fit(..., method_smoothing="LP"/"PS") — the mean (and,
    # on the covariance route, the covariance) is smoothed; the stored-vs-explicit, round-trip, affine and history clauses use
    # what the estimator REPORTS (est.mean, est.weights) as the reference; every scoring method
    for i, (sm, method, score) in enumerate([("LP", "covariance", "NumInt"), ("PS", "covariance", "PACE"), ("PS", "covariance", "NumInt"),
                                             ("LP", "inner-product", "NumInt"), ("PS", "inner-product", "PACE"), ("PS", "inner-product", "InnPro")]):
        n, m = rng.randint(5, 7), rng.randint(8, 11)
        t = grid(rng, m, uniform=bool(i % 2))
        X, ck = curves(rng, n, t, rng.choice(["rough", "offset"]))
        yield dict(kind="ufpca", method=method, normalize=bool(i % 3 == 2), score=score, sel=["int", 2], ck=f"fit-smoothing-{sm}", dim=1,
                   t=Svec(t), X=Smat(X), a="1", b="-1/2", seed=rng.subseed(), fit_smooth=sm)
    # thresholds inside scoring (every run): PACE on smooth curves whose estimated noise variance lies on both sides of the
    # constants of the scoring code (an amplitude ladder 4^-k moves it from ~1e-1 down to ~1e-9, across tol = 1e-4), with
    # and without normalisation, default and user-supplied `tol`; stored vs explicitly passed training curves
    base_t = grid(rng, rng.randint(7, 9), uniform=True)
    base_X, _ = curves(rng, 6, base_t, "smooth")
    for k in (0, 2, 4, 5, 6, 7, 8, 10, 13):
        for method in (("covariance",) if k % 2 else ("covariance", "inner-product")):
            sc = Fraction(1, 2 ** k)
            yield dict(kind="ufpca", method=method, normalize=False, score="PACE", sel=["int", 2], ck=f"pace-threshold-2^-{k}", dim=1,
                       t=Svec(base_t), X=Smat([[x * sc for x in r] for r in base_X]), scale=rs(sc), a="1", b="-1/2", seed=rng.subseed(),
                       tol=rs(rng.choice([Fraction(1, 100), Fraction(1, 10 ** 8), Fraction(1, 10 ** 4)])))
    # amplitude sweep (every run): data × 2^e, e = ±30, ±20 (≈ 1e-9 … 1e9), no normalisation, natural scores
    for i, e in enumerate([-30, 30, -20, -30]):
        method = ["covariance", "inner-product"][i % 2]
        n, m = rng.randint(3, 6), rng.randint(4, 8)
        t = grid(rng, m)
        X, ck = curves(rng, n, t, "smooth" if method == "inner-product" else "rough")
        sc = Fraction(2) ** e
        yield dict(kind="ufpca", method=method, normalize=False, score="NumInt" if method == "covariance" else "InnPro",
                   sel=["int", 1] if method == "inner-product" else ["all"], ck=f"amplitude-2^{e}", dim=1, t=Svec(t),
                   X=Smat([[x * sc for x in r] for r in X]), scale=rs(sc), a="1", b="-1/2", seed=rng.subseed())
    # inner-product route with numbers of observations around typical block sizes (cheap: few grid points)
    sizes = [16, 17, 31, 32, 33, 63, 64, 65, 96, 97] if tier == "thorough" else [17, 32, 33, 64, 65]
    for i, n in enumerate(sizes):
        if i % 2 == 0:
            t = grid(rng, 3)
            X, ck = curves(rng, n, t, "rough")
            data = dict(dim=1, t=Svec(t), X=Smat(X))
        else:
            t1, t2 = grid(rng, 2), grid(rng, 3)
            X, ck = curves(rng, n, [Fraction(j) for j in range(6)], "rough")
            data = dict(dim=2, t=Svec(t1), t2=Svec(t2), X=Smat(X))
        yield dict(kind="ufpca", method="inner-product", normalize=bool(i % 2), score="InnPro", sel=["all"],
                   ck="blocksize", a="1", b="-1/2", seed=rng.subseed(), **data)
    M = 80 if tier == "thorough" else 10
    for k in range(M):
        yield _mfpca_case(rng, normalize=(k % 2 == 0), image=(k % 4 < 2))
    # every run: the constructor option `weights` of MFPCA with values other than one, with and without normalisation,
    # curves only and curves + image
    for normalize in (False, True):
        for image in (False, True):
            yield _mfpca_case(rng, normalize=normalize, image=image, user_weights=[Fraction(2), Fraction(1, 2)])


def _mfpca_case(rng, normalize, image=False, user_weights=None):
    """Two components, sample mean exactly affine (so that the P-spline smoothing of the mean that MFPCA
    applies reproduces it) and multivariate rank one: curve (mean_p + c_i d_p)_p with Σ c_i = 0,
    one component kept.  With `image` the second component is 2-D (rows × columns of different sizes).
    (With rank ≥ 2 the unsorted Gram spectrum interleaves clipped zeros with the positive eigenvalues and
    no finite spanning set can be requested — see C01/C02.)"""
    n = rng.randint(3, 6)
    cs = [Fraction(rng.randint(-6, 6), 2) for _ in range(n - 1)]
    cs.append(-sum(cs))
    if all(c == 0 for c in cs):
        cs[0], cs[-1] = Fraction(1), Fraction(-1)
    rng.shuffle(cs)
    comps = []
    for p in range(2):
        if image and p == 1:
            m1, m2 = rng.randint(4, 6), rng.randint(5, 8)
            t1, t2 = grid(rng, m1, uniform=True), grid(rng, m2, uniform=True)
            u1 = [(x - t1[0]) / (t1[-1] - t1[0]) for x in t1]
            u2 = [(x - t2[0]) / (t2[-1] - t2[0]) for x in t2]
            a, b, c = rng.dyadic(-2, 2, 2), rng.dyadic(-2, 2, 2), rng.dyadic(-2, 2, 2)
            mean = [a + b * x + c * y for x in u1 for y in u2]
            g, h = rng.dyadics(m1, -2, 2, 2), rng.dyadics(m2, -2, 2, 2)
            d = [1 + x * y for x in g for y in h]
            X = [[mu + ci * dj for mu, dj in zip(mean, d)] for ci in cs]
            comps.append(dict(t=Svec(t1), t2=Svec(t2), X=Smat(X)))
            continue
        m = rng.randint(6, 11)
        t = grid(rng, m, uniform=True)
        a, b = rng.dyadic(-2, 2, 2), rng.dyadic(-2, 2, 2)
        lo, hi = t[0], t[-1]
        u = [(x - lo) / (hi - lo) for x in t]
        mean = [a + b * x for x in u]
        (d,), _ = curves(rng, 1, t, "lowrank", rank=1)
        d = [x - d[0] + 1 for x in d]
        X = [[mean[j] + c * d[j] for j in range(m)] for c in cs]
        comps.append(dict(t=Svec(t), X=Smat(X)))
    case = dict(kind="mfpca", normalize=normalize, comps=comps, sel=["int", 1], ck="affine-mean-rank1" + ("-image" if image else ""),
                a=rs(rng.dyadic(-3, 3, 2)), b=rs(rng.dyadic(-3, 3, 2)), seed=rng.subseed())
    if user_weights is not None:
        case["user_weights"] = [rs(x) for x in user_weights]   # the documented constructor option `weights`
        case["ck"] += "-userweights"
    if not image:
        # failure-injection history: the fitted estimator is refitted on data with ANOTHER number of components
        nR = rng.randint(3, 5)
        case["R_comps"] = []
        for _ in range(3):
            tR = grid(rng, rng.randint(5, 8), uniform=True)
            XR, _ = curves(rng, nR, tR, "lowrank", rank=2)
            case["R_comps"].append(dict(t=Svec(tR), X=Smat(XR)))
    return case


def search_cases(rng, tier):
    yield from gen_cases(rng, tier)


W_UNCENTRED = dict(kind="ufpca", method="covariance", normalize=True, score="NumInt", sel=["int", 2], ck="witness", dim=1,
                   t=["0", "1/4", "1/2", "3/4", "1"],
                   X=[["1", "2", "4", "3", "1"], ["0", "1", "1", "2", "5"], ["2", "2", "0", "1", "3"], ["1", "0", "3", "3", "2"]],
                   a="2", b="-1", seed=1)


W_ATOMIC = {'kind': 'ufpca', 'method': 'inner-product', 'normalize': True, 'score': 'NumInt', 'sel': ['int', 1], 'ck': 'witness-atomicity', 'dim': 1, 't': ['0', '1/4', '1/2', '3/4', '1'], 'X': [['1', '2', '4', '3', '1'], ['0', '1', '1', '2', '5'], ['2', '2', '0', '1', '3'], ['1', '0', '3', '3', '2']], 'a': '1', 'b': '1', 'seed': 5, 'inject': True, 'R': {'dim': 2, 't': ['0', '1'], 't2': ['0', '1/2', '1'], 'X': [['1', '0', '2', '1', '3', '0'], ['0', '2', '1', '1', '0', '4'], ['3', '1', '0', '2', '2', '1']]}}


def _finding_witnesses(kind):
    """Witness cases stored with the open findings of known_findings.d/C03.json (replayed on every run)."""
    import json
    import os

    path = os.path.join(os.path.dirname(os.path.dirname(os.path.abspath(__file__))), "known_findings.d", "C03.json")
    try:
        return [dict(f["witness"]) for f in json.load(open(path)).get("open", []) if f.get("witness", {}).get("kind") == kind]
    except (OSError, ValueError):
        return []


def witness_cases():
    # W_ATOMIC: regression case of the fixed finding C03-fit-not-atomic (commit 3fc0e40)
    return [dict(W_UNCENTRED), dict(W_UNCENTRED, score="PACE"), dict(W_ATOMIC)] + _finding_witnesses("mfpca")


# --------------------------------------------------------------------------
# implementation side
# --------------------------------------------------------------------------

def _fd(case, X=None):
    X = np.array(fl(Fm(case["X"]))) if X is None else X
    if case["dim"] == 2:
        t1, t2 = Fv(case["t"]), Fv(case["t2"])
        return dense([t1, t2], X.reshape(len(X), len(t1), len(t2)), case.get("layout", "C"))
    return dense([Fv(case["t"])], X, case.get("layout", "C"))


def _flat(a):
    a = np.asarray(a, dtype=float)
    return a.reshape(a.shape[0], -1).tolist()


def _try(f):
    try:
        return f(), None
    except Exception as e:  # noqa: BLE001
        return None, err_class(e)


def _state(est, case):
    d = dict(vals=[float(x) for x in np.asarray(est.eigenvalues)], weights=float(est.weights),
             mean=_flat(est.mean.values)[0], phi=_flat(est.eigenfunctions.values), noise=float(est._noise_variance))
    if est._eigenvectors is not None:
        d["V"] = np.asarray(est._eigenvectors, dtype=float).T.tolist()
    if len(case["X"]) and case["dim"] == 1 and getattr(est, "covariance", None) is not None:
        d["cov"] = np.asarray(est.covariance.values[0], dtype=float).tolist()
    return d


def _case_b(case):
    cb = {k: v for k, v in case.items() if k not in ("B", "t", "t2", "X", "corpus")}
    cb.update(case["B"])
    return cb


def run_impl(case):
    if case["kind"] == "mfpca":
        return _run_mfpca(case)
    holder = []
    out = _run_ufpca(case, holder=holder)
    if "B" in case and "error" not in out:
        out["B"] = _run_ufpca(_case_b(case))   # same process, afterwards: another grid with the same length and end points
    if "R" in case and "error" not in out and holder:
        from FDApy.preprocessing.dim_reduction.ufpca import UFPCA

        cr = _case_r(case)
        out["R"] = _run_ufpca(cr, est=holder[0])   # the SAME estimator object refitted on another kind of data
        with quiet():
            fresh = UFPCA(method=cr["method"], n_components=sel_to_py(cr["sel"]), normalize=cr["normalize"])
            _, e = _try(lambda: fresh.fit(_fd(cr)))
            out["R_fresh"] = dict(error=e) if e else _state(fresh, cr)
        if case.get("inject"):
            out["F"] = _failure_history(case, cr)
    return out


class _Injected(RuntimeError):
    """Failure injected from outside into one internal call of `fit`."""


INJECTION_POINTS = ["none", "mean", "center", "rescale", "noise_variance", "fit_helper", "compute_covariance", "warning_as_error"]


def _observe(est):
    """Public behaviour of a fitted estimator (what a caller can see after a fit that raised)."""
    o = {}
    with quiet():
        for key, f in (("mean", lambda: _flat(est.mean.values)[0]), ("weights", lambda: float(est.weights)),
                       ("vals", lambda: [float(x) for x in np.asarray(est.eigenvalues)]),
                       ("phi", lambda: _flat(est.eigenfunctions.values)),
                       ("cov", lambda: None if est.covariance is None else _flat(est.covariance.values)),
                       ("s_none", lambda: np.asarray(est.transform(None, method="NumInt"), dtype=float).tolist()),
                       ("inv", lambda: _flat(est.inverse_transform(np.ones((1, len(est.eigenvalues)))).values))):
            v, e = _try(f)
            o[key] = ("error", e) if e else v
    return o


def _same(a, b):
    try:
        if isinstance(a, tuple) or isinstance(b, tuple) or a is None or b is None:
            return a == b
        x, y = np.asarray(a, dtype=float), np.asarray(b, dtype=float)
        return x.shape == y.shape and np.array_equal(x, y, equal_nan=True)
    except (TypeError, ValueError):
        return False


def _failure_history(case, cr):
    """Refit of a fitted estimator on other data with a failure injected, in turn, into each internal step of
    `fit` (wrapped from outside; the last one escalates warnings to errors).  After a fit that raised the estimator
    must be entirely in its previous state or entirely in the state of a fit on the new data; each observable is
    classified old / new / same (equal in both) / neither."""
    import warnings

    from FDApy.preprocessing.dim_reduction import ufpca as U
    from FDApy.representation.functional_data import DenseFunctionalData as D

    mk = lambda: U.UFPCA(method=case["method"], n_components=sel_to_py(case["sel"]), normalize=case["normalize"])  # noqa: E731
    with quiet():
        e0 = mk()
        _, err = _try(lambda: e0.fit(_fd(case)))
        e1 = mk()
        _, err1 = _try(lambda: e1.fit(_fd(cr)))
    if err or err1:
        return dict(skipped=f"{err} / {err1}")
    old, new = _observe(e0), _observe(e1)
    res = []
    for point in INJECTION_POINTS:
        est = mk()
        with quiet():
            est.fit(_fd(case))

        def boom(*a, **k):
            raise _Injected(point)

        patches = {"mean": [(D, "mean")], "center": [(D, "center")], "rescale": [(D, "rescale")],
                   "noise_variance": [(D, "noise_variance")],
                   "fit_helper": [(U, "_fit_covariance"), (U, "_fit_inner_product")],
                   "compute_covariance": [(U, "_compute_covariance")]}.get(point, [])
        saved = [(o, n, getattr(o, n)) for o, n in patches if hasattr(o, n)]
        raised = None
        try:
            for o, n, _ in saved:
                setattr(o, n, boom)
            with warnings.catch_warnings(), np.errstate(all="ignore"):
                warnings.simplefilter("error" if point == "warning_as_error" else "ignore")
                try:
                    est.fit(_fd(cr))
                except _Injected:
                    raised = "Injected"
                except Warning as w:
                    raised = "Warning:" + type(w).__name__
                except Exception as e:  # noqa: BLE001
                    raised = "Other:" + type(e).__name__
        finally:
            for o, n, f in saved:
                setattr(o, n, f)
        after = _observe(est)
        cls = {}
        for key in after:
            so, sn = _same(after[key], old[key]), _same(after[key], new[key])
            cls[key] = "same" if (so and sn) else "old" if so else "new" if sn else "neither"
        res.append(dict(point=point, raised=raised, cls=cls))
    return dict(points=res)


def _case_r(case):
    cr = {k: v for k, v in case.items() if k not in ("B", "R", "t", "t2", "X", "dim", "corpus", "scale")}
    cr.update(case["R"])
    if cr["dim"] == 2 and cr["score"] == "PACE":
        cr["score"] = "NumInt"
    return cr


def _run_ufpca(case, est=None, holder=None):
    from FDApy.preprocessing.dim_reduction.ufpca import UFPCA

    out = {}
    X = np.array(fl(Fm(case["X"])))
    fd = _fd(case)
    score = case["score"]
    with quiet():
        if est is None:
            est = UFPCA(method=case["method"], n_components=sel_to_py(case["sel"]), normalize=case["normalize"])
        if holder is not None:
            holder.append(est)
        fitkw = dict(method_smoothing=case["fit_smooth"]) if case.get("fit_smooth") else {}
        _, err = _try(lambda: est.fit(fd, **fitkw))
        if err:
            return dict(error=err)
        out.update(_state(est, case))
        if fd.n_dimension == 1:
            out["cov"] = np.asarray(est.covariance.values[0], dtype=float).tolist()
        K = len(out["vals"])
        n = len(X)
        # --- scores of the stored training data and of the training data passed explicitly
        s_none, e1 = _try(lambda: est.transform(None, method=score))
        out["s_none"], out["s_none_err"] = (None if s_none is None else np.asarray(s_none, dtype=float).tolist()), e1
        s_train, e2 = _try(lambda: est.transform(_fd(case), method=score, method_smoothing=None))
        out["s_train"], out["s_train_err"] = (None if s_train is None else np.asarray(s_train, dtype=float).tolist()), e2
        # --- inputs modified after the fit: the object given to fit is edited IN PLACE, then scored; it must be scored like a
        #     fresh object with the same (edited) curves, and the stored training scores must not move
        if score != "InnPro":
            Xe = X * 0.5 + 1.0 + np.arange(X.shape[1]) / 16.0
            fd.values[...] = Xe.reshape(np.asarray(fd.values).shape)
            e_same, ee1 = _try(lambda: est.transform(fd, method=score, method_smoothing=None))
            e_fresh, ee2 = _try(lambda: est.transform(_fd(case, Xe), method=score, method_smoothing=None))
            out["edit_same"] = None if e_same is None else np.asarray(e_same, dtype=float).tolist()
            out["edit_fresh"] = None if e_fresh is None else np.asarray(e_fresh, dtype=float).tolist()
        else:
            fd.values[...] = np.asarray(fd.values) * 0.5 + 1.0
        e_none, _ = _try(lambda: est.transform(None, method=score))
        out["edit_none"] = None if e_none is None else np.asarray(e_none, dtype=float).tolist()
        if "tol" in case and score == "PACE":
            tol = float(F(case["tol"]))
            a_, ea = _try(lambda: est.transform(None, method="PACE", tol=tol))
            b_, eb = _try(lambda: est.transform(_fd(case), method="PACE", method_smoothing=None, tol=tol))
            out["s_none_tol"] = None if a_ is None else np.asarray(a_, dtype=float).tolist()
            out["s_train_tol"] = None if b_ is None else np.asarray(b_, dtype=float).tolist()
        # InnPro must be refused on a covariance fit
        if case["method"] == "covariance":
            _, e3 = _try(lambda: est.transform(None, method="InnPro"))
            out["innpro_on_cov_err"] = e3
        _, e4 = _try(lambda: est.transform(None, method="nonsense"))
        out["bad_method_err"] = e4
        # --- inverse_transform of the natural training scores, and affinity on random scores
        if s_none is not None and np.all(np.isfinite(s_none)) and np.all(np.isfinite(out["phi"])):
            rec, e5 = _try(lambda: est.inverse_transform(np.asarray(s_none)))
            out["rec"] = None if rec is None else _flat(rec.values)
        rng = Rng(f"c03-{case['seed']}")
        S1, S2 = _scores(rng, n, K), _scores(rng, n, K)
        out["S1"], out["S2"] = S1, S2
        if np.all(np.isfinite(out["phi"])):
            a, b = float(F(case["a"])), float(F(case["b"]))
            A1, A2 = np.array(fl(Fm(S1))).reshape(n, K), np.array(fl(Fm(S2))).reshape(n, K)
            out["inv1"] = _flat(est.inverse_transform(A1).values)
            out["inv2"] = _flat(est.inverse_transform(A2).values)
            out["inv12"] = _flat(est.inverse_transform(a * A1 + b * A2).values)
        # --- non-default option: Simpson integration (1-D, NumInt)
        if score == "NumInt" and fd.n_dimension == 1 and len(case["t"]) >= 3:
            ss, e6 = _try(lambda: est.transform(None, method="NumInt", integration_method="simpson"))
            st, e7 = _try(lambda: est.transform(_fd(case), method="NumInt", method_smoothing=None, integration_method="simpson"))
            out["s_none_simpson"] = None if ss is None else np.asarray(ss, dtype=float).tolist()
            out["s_train_simpson"] = None if st is None else np.asarray(st, dtype=float).tolist()
            out["train_values"] = _flat(est._training_data.values)
        # --- history on the same object: transform OTHER data (read-only-looking call), then repeat the earlier
        #     calls; then refit on other data and compare with a fresh estimator
        if score != "InnPro":
            Xo = X[::-1] * 3.0 + 1.0
            _try(lambda: est.transform(_fd(case, Xo), method=score, method_smoothing=None))
        s_again, _ = _try(lambda: est.transform(None, method=score))
        out["s_none_again"] = None if s_again is None else np.asarray(s_again, dtype=float).tolist()
        if "inv1" in out:
            again, _ = _try(lambda: est.inverse_transform(np.array(fl(Fm(S1))).reshape(n, K)))
            out["inv1_again"] = None if again is None else _flat(again.values)
        out["state_again"] = {k: v for k, v in _state(est, case).items() if k in ("vals", "weights", "mean", "phi", "cov", "noise")}
        X2 = X[::-1] * 0.5 + np.arange(X.shape[1]) / 8.0
        _, e8 = _try(lambda: est.fit(_fd(case, X2), **fitkw))
        fresh = UFPCA(method=case["method"], n_components=sel_to_py(case["sel"]), normalize=case["normalize"])
        _, e9 = _try(lambda: fresh.fit(_fd(case, X2), **fitkw))
        if not e8 and not e9:
            out["refit"] = _state(est, case)
            out["fresh"] = _state(fresh, case)
            r1, _ = _try(lambda: est.transform(None, method=score))
            r2, _ = _try(lambda: fresh.transform(None, method=score))
            out["refit_scores"] = None if r1 is None else np.asarray(r1, dtype=float).tolist()
            out["fresh_scores"] = None if r2 is None else np.asarray(r2, dtype=float).tolist()
    return out


def _comp_fd(c, order):
    X = np.array(fl(Fm(c["X"])))[order]
    if "t2" in c:
        t1, t2 = Fv(c["t"]), Fv(c["t2"])
        return dense([t1, t2], X.reshape(len(X), len(t1), len(t2)))
    return dense([Fv(c["t"])], X)


def _run_mfpca(case):
    from FDApy.preprocessing.dim_reduction.mfpca import MFPCA
    from FDApy.representation.functional_data import MultivariateFunctionalData

    out = {}
    n_obs = len(case["comps"][0]["X"])
    with quiet():
        # The unsorted Gram spectrum (C01) often puts a clipped zero first; which eigenvalue comes first
        # depends on the order of the observations.  The case is "the first cyclic rotation of the
        # observations for which the kept component is finite" (rotation 0 if there is none).
        est, err, rot = None, None, 0
        for rot in list(range(n_obs)) + [0]:
            order = [(i + rot) % n_obs for i in range(n_obs)]
            mfd = MultivariateFunctionalData([_comp_fd(c, order) for c in case["comps"]])
            kw = dict(weights=np.array(fl(Fv(case["user_weights"])))) if case.get("user_weights") else {}
            est = MFPCA(n_components=sel_to_py(case["sel"]), method="inner-product", normalize=case["normalize"], **kw)
            _, err = _try(lambda: est.fit(mfd))
            if err or all(np.all(np.isfinite(c.values)) for c in est.eigenfunctions.data):
                break
        if err:
            return dict(error=err)
        out["rot"] = rot
        out["vals"] = [float(x) for x in est.eigenvalues]
        out["weights"] = [float(x) for x in np.asarray(est.weights, dtype=float)]
        out["mean"] = [_flat(c.values)[0] for c in est.mean.data]
        out["phi"] = [_flat(c.values) for c in est.eigenfunctions.data]
        s, e = _try(lambda: est.transform(None, method="InnPro"))
        out["s_none"] = None if s is None else np.asarray(s, dtype=float).tolist()
        sn, e = _try(lambda: est.transform(None, method="NumInt"))
        out["s_numint"] = None if sn is None else np.asarray(sn, dtype=float).tolist()
        if all("t2" not in c for c in case["comps"]):
            st, e = _try(lambda: est.transform(mfd, method="NumInt", method_smoothing=None))
            out["s_train_numint"] = None if st is None else np.asarray(st, dtype=float).tolist()
        n, K = len(case["comps"][0]["X"]), len(out["vals"])
        if s is not None and np.all(np.isfinite(s)) and all(np.all(np.isfinite(p)) for p in out["phi"]):
            rec = est.inverse_transform(np.asarray(s))
            out["rec"] = [_flat(c.values) for c in rec.data]
        rng = Rng(f"c03-{case['seed']}")
        S1, S2 = _scores(rng, n, K), _scores(rng, n, K)
        out["S1"], out["S2"] = S1, S2
        if all(np.all(np.isfinite(p)) for p in out["phi"]):
            a, b = float(F(case["a"])), float(F(case["b"]))
            A1, A2 = np.array(fl(Fm(S1))).reshape(n, K), np.array(fl(Fm(S2))).reshape(n, K)
            out["inv1"] = [_flat(c.values) for c in est.inverse_transform(A1).data]
            out["inv2"] = [_flat(c.values) for c in est.inverse_transform(A2).data]
            out["inv12"] = [_flat(c.values) for c in est.inverse_transform(a * A1 + b * A2).data]
    if "R_comps" in case:
        out["F"] = _failure_history_mfpca(case)
    return out


# --------------------------------------------------------------------------
# model side
# --------------------------------------------------------------------------

def _rv(v):
    return ",".join(rs(F(x)) for x in v) if len(v) else "-"


def _rm(m):
    return ";".join(_rv(r) for r in m) if len(m) else "-"


def _finite(x):
    return x is not None and np.all(np.isfinite(np.asarray(x, dtype=float)))


def model_lines(case, impl):
    """Requests (tagged in impl-independent order); the tags are rebuilt by `_tags`."""
    return [l for _, l in _requests(case, impl)]


def _requests(case, impl):
    reqs = _requests_one(case, impl)
    if case["kind"] == "ufpca" and "B" in case and isinstance(impl.get("B"), dict):
        reqs += [("B:" + tag, l) for tag, l in _requests_one(_case_b(case), impl["B"])]
    if case["kind"] == "ufpca" and "R" in case and isinstance(impl.get("R"), dict):
        reqs += [("R:" + tag, l) for tag, l in _requests_one(_case_r(case), impl["R"])]
    return reqs


def _requests_one(case, impl):
    if "__crash__" in impl or "error" in impl:
        return []
    J = ",".join
    M = lambda m: ";".join(",".join(r) for r in m)  # noqa: E731
    reqs = []
    if case["kind"] == "mfpca":
        if "inv1" in impl:
            for p, c in enumerate(case["comps"]):
                if impl["weights"][p] >= 0:
                    wp = rs(F(impl["weights"][p])) if case["normalize"] else "1"   # inverse_transform rescales only after a normalised fit
                    reqs.append((f"inv1:{p}", f"inv {_rv(impl['mean'][p])} {wp} {M(impl['S1'])} {_rm(impl['phi'][p])}"))
        # MFPCA.transform(None, "NumInt") = Σ_p univariate NumInt scores of the stored (centred, rescaled) data
        # (FPCA.scoresMulti); 1-D components only (image components are smoothed first)
        if (impl.get("s_numint") is not None and all("t2" not in c for c in case["comps"]) and all(w_ > 0 for w_ in impl["weights"])
                and all(_finite(ph) for ph in impl["phi"])):
            nz = "1" if case["normalize"] else "0"
            rot = impl.get("rot", 0)
            for p, c in enumerate(case["comps"]):
                n = len(c["X"])
                Xr = [c["X"][(i + rot) % n] for i in range(n)]
                wp = rs(F(impl["weights"][p])) if case["normalize"] else "1"
                reqs.append((f"numint:{p}", f"tr1 {nz} spec {J(c['t'])} {_rv(impl['mean'][p])} {wp} {M(Xr)} {_rm(impl['phi'][p])}"))
        return reqs
    if not case.get("fit_smooth"):
        reqs.append(("mean", f"mean {M(case['X'])}"))     # a smoothed mean is the smoother's business (C05/C06)
    if case["normalize"] and not case.get("fit_smooth"):
        if case["dim"] == 1:
            reqs.append(("weight", f"weight1 {J(case['t'])} {M(case['X'])}"))
        else:
            reqs.append(("weight", f"weight2 {J(case['t'])} {J(case['t2'])} {M(case['X'])}"))
    phi_ok = _finite(impl["phi"]) and len(impl["phi"]) > 0
    wt = rs(F(impl["weights"]))
    if impl["weights"] > 0 and phi_ok:
        grid_part = f"{J(case['t'])}" if case["dim"] == 1 else f"{J(case['t'])} {J(case['t2'])}"
        op = "tr1" if case["dim"] == 1 else "tr2"
        nz = "1" if case["normalize"] else "0"
        tail = f"{grid_part} {_rv(impl['mean'])} {wt} {M(case['X'])} {_rm(impl['phi'])}"
        if case["score"] == "NumInt":
            reqs.append(("s_none", f"{op} {nz} spec {tail}"))
            reqs.append(("s_train", f"{op} {nz} impl {tail}"))
        reqs.append(("inv1", f"inv {_rv(impl['mean'])} {wt} {M(impl['S1'])} {_rm(impl['phi'])}"))
    if case["score"] == "InnPro" and "V" in impl and _finite(impl["V"]) and len(impl["vals"]) > 0 and min(impl["vals"]) >= 0:
        reqs.append(("innpro", f"innpro {len(case['X'])} {_rv(impl['vals'])} {_rm(impl['V'])}"))
    if (case["score"] == "PACE" and case["dim"] == 1 and phi_ok and len(case["t"]) <= 9 and impl["weights"] > 0
            and "cov" in impl and _finite(impl["cov"])):
        sig = max(1e-4, impl["noise"])
        cond = (np.abs(np.asarray(impl["cov"], dtype=float)).max() * len(case["t"]) + sig) / sig
        if cond <= 1e8:   # pinv of Σ = Mercer + σ²I in floats is only comparable when Σ is well conditioned
            nz = "1" if case["normalize"] else "0"
            tail = f"{_rv(impl['mean'])} {wt} {M(case['X'])} {_rv(impl['vals'])} {_rm(impl['cov'])} {rs(F(sig))} {_rm(impl['phi'])}"
            reqs.append(("pace", f"pacez {nz} spec {tail}"))        # transform(None): the stored training data
            reqs.append(("pace_train", f"pacez {nz} impl {tail}"))  # transform(data): as coded
    return reqs


def parse_model(case, outs):
    return dict(outs=outs)


def _cmp_mat(name, A, Q, scale=None, rtol=RTOL):
    A = np.asarray(A, dtype=float)
    A = A.reshape(A.shape[0], -1) if A.ndim >= 2 else A.reshape(len(Q), -1)
    if len(A) != len(Q) or (len(Q) and A.shape[1] != len(Q[0])):
        return [f"{name}: shape {A.shape} vs model {(len(Q), len(Q[0]) if Q else 0)}"]
    sc = max([abs(float(x)) for r in Q for x in r] + [1e-300, float(scale or 0.0)])
    for i, (ar, qr) in enumerate(zip(A.tolist(), Q)):
        j = close_all(ar, qr, sc, rtol)
        if j is not None:
            return [f"{name}[{i}][{j}]: impl {ar[j]!r} vs exact {float(qr[j])!r} (scale {sc:.3g})"]
    return []


def _score_scale(case, impl):
    X = np.array(fl(Fm(case["X"])))
    phi = np.asarray(impl["phi"], dtype=float)
    t = fl(Fv(case["t"]))
    span = (t[-1] - t[0]) * ((fl(Fv(case["t2"]))[-1] - fl(Fv(case["t2"]))[0]) if case["dim"] == 2 else 1.0)
    return float(np.abs(X).max() + np.abs(impl["mean"]).max()) / max(np.sqrt(impl["weights"]), 1e-300) * float(np.abs(phi).max()) * span


def compare(case, impl, model):
    if "__crash__" in impl:
        return [f"implementation crashed: {impl['__crash__']} {impl.get('msg')}"]
    tags = [t for t, _ in _requests(case, impl)]
    outs = dict(zip(tags, model["outs"]))
    ds = []
    for tag, o in outs.items():
        if o.startswith("error:") or o.startswith("bad"):
            ds.append(f"model request {tag} answered {o}")
    if ds:
        return ds
    ds = _compare_one(case, impl, {k: v for k, v in outs.items() if not k.startswith(("B:", "R:"))})
    if case["kind"] == "ufpca" and "R" in case and isinstance(impl.get("R"), dict):
        ds += ["refit on another kind of data: " + d for d in _compare_one(_case_r(case), impl["R"], {k[2:]: v for k, v in outs.items() if k.startswith("R:")})]
    if case["kind"] == "ufpca" and "B" in case and isinstance(impl.get("B"), dict):
        ds += ["second grid: " + d for d in _compare_one(_case_b(case), impl["B"], {k[2:]: v for k, v in outs.items() if k.startswith("B:")})]
    return ds


def _compare_one(case, impl, outs):
    ds = []
    if case["kind"] == "mfpca":
        for p in range(len(case["comps"])):
            if f"inv1:{p}" in outs:
                ds += _cmp_mat(f"MFPCA.inverse_transform component {p}", impl["inv1"][p], pmat(outs[f"inv1:{p}"]))
        if "numint:0" in outs:
            parts = [pmat(outs[f"numint:{p}"]) for p in range(len(case["comps"]))]
            tot = [[sum(P_[i][k] for P_ in parts) for k in range(len(parts[0][0]))] for i in range(len(parts[0]))]
            sc = max(abs(float(x)) for P_ in parts for r_ in P_ for x in r_)
            ds += _cmp_mat("MFPCA.transform(None, NumInt) = sum of the component scores", impl["s_numint"], tot, sc, 1e-7)
        return ds
    if "mean" in outs:
        ds += _cmp_mat("mean", [impl["mean"]], [pvec(outs["mean"])])
    if "weight" in outs:
        q = F(outs["weight"])
        if not abs(F(impl["weights"]) - q) <= Fraction(RTOL) * abs(q):
            ds.append(f"learnt weight {impl['weights']!r} vs exact {float(q)!r}")
    if "s_none" in outs and impl["s_none"] is not None:
        sc = _score_scale(case, impl)
        ds += _cmp_mat("transform(None) scores", impl["s_none"], pmat(outs["s_none"]), sc)
        if impl["s_train"] is not None:
            ds += _cmp_mat("transform(training data) scores", impl["s_train"], pmat(outs["s_train"]), sc)
    if "innpro" in outs and impl["s_none"] is not None:
        ds += _cmp_mat("InnPro scores", impl["s_none"], pmat(outs["innpro"]))
    if "pace" in outs and impl["s_none"] is not None:
        ds += _cmp_mat("PACE scores of transform(None)", impl["s_none"], pmat(outs["pace"]), None, 1e-6)
    if "pace_train" in outs and impl.get("s_train") is not None:
        ds += _cmp_mat("PACE scores of transform(training data)", impl["s_train"], pmat(outs["pace_train"]), None, 1e-6)
    if "inv1" in outs and "inv1" in impl:
        ds += _cmp_mat("inverse_transform", impl["inv1"], pmat(outs["inv1"]))
    return ds


# --------------------------------------------------------------------------
# the property's own predicate on the implementation's outputs
# --------------------------------------------------------------------------

def _w(case):
    w = trapz_weights(fl(Fv(case["t"])))
    if case["dim"] == 2:
        w2 = trapz_weights(fl(Fv(case["t2"])))
        w = np.outer(w, w2).ravel()
    return w


def oracle(case, impl):
    if case["kind"] == "mfpca":
        return _oracle_mfpca(case, impl)
    vs = _oracle_one(case, impl)
    if "B" in case and isinstance(impl.get("B"), dict) and "__crash__" not in impl:
        for v in _oracle_one(_case_b(case), impl["B"]):
            v["msg"] = "second grid (same length and end points): " + v["msg"]
            vs.append(v)
    for h in (impl.get("F") or {}).get("points", []):
        cls = h["cls"]
        olds = {k for k, v in cls.items() if v == "old"}
        news = {k for k, v in cls.items() if v == "new"}
        odd = {k for k, v in cls.items() if v == "neither"}
        if h["raised"] is None:
            ok = not olds and not odd          # the refit succeeded: everything is the new state
        else:
            ok = not odd and (not olds or not news)   # it raised: all old or all new, never a mixture
        if not ok:
            causes = []
            # the two mixtures of the unchanged code (open finding): mean / weights assigned before the results
            # exist, and the covariance of a previous fit surviving a later fit that does not compute one
            base = {k: cls[k] for k in ("mean", "weights", "vals", "phi", "cov") if k in cls}
            b_new = {k for k, v in base.items() if v == "new"}
            b_old = {k for k, v in base.items() if v == "old"}
            b_odd = {k for k, v in base.items() if v == "neither"}
            if (h["raised"] is not None and not b_odd and b_new and b_new <= {"mean", "weights"}
                    and cls.get("s_none") in ("old", "same")):
                causes.append(INCREMENTAL)   # only mean / weights moved; eigencomponents and training data are the old ones
            if not b_odd and b_old == {"cov"} and cls.get("s_none") in ("new", "same") and cls.get("inv") in ("new", "same"):
                causes.append(INCREMENTAL)   # everything is new except a covariance surviving from the previous fit
            vs.append(dict(clause="fit_atomicity", entry="UFPCA.fit", causes=causes,
                           msg=f"refit ({case['dim']}-D -> {case['R']['dim']}-D data, {case['method']}) with a failure injected at `{h['point']}` (raised: {h['raised']}): "
                               f"the estimator is a mixture — old: {sorted(olds)}, new: {sorted(news)}, neither: {sorted(odd)}"))
    if "R" in case and isinstance(impl.get("R"), dict) and "__crash__" not in impl:
        cr = _case_r(case)
        for v in _oracle_one(cr, impl["R"]):
            v["msg"] = f"same estimator refitted on another kind of data ({case['dim']}-D -> {cr['dim']}-D): " + v["msg"]
            vs.append(v)
        fr = impl.get("R_fresh") or {}
        if ("error" in impl["R"]) != ("error" in fr):
            vs.append(dict(clause="stale_state", entry="UFPCA.fit", causes=[], msg=f"refit on another kind of data: {impl['R'].get('error')} vs fresh estimator: {fr.get('error')}"))
        elif "error" not in fr:
            for key in ("noise", "vals", "weights", "mean", "phi", "cov"):
                if key in impl["R"] and key in fr:
                    a1, a2 = np.array(impl["R"][key], dtype=float), np.array(fr[key], dtype=float)
                    if a1.shape != a2.shape or not np.array_equal(a1, a2, equal_nan=True):
                        names = {"noise": "noise variance", "vals": "eigenvalues", "phi": "eigenfunctions", "cov": "covariance"}
                        vs.append(dict(clause="stale_state", entry="UFPCA.fit", causes=[],
                                       msg=f"the same estimator refitted on another kind of data ({case['dim']}-D -> {cr['dim']}-D, {case['method']}) has a different `{names.get(key, key)}` than a fresh estimator: {np.ravel(a1)[:3].tolist()} vs {np.ravel(a2)[:3].tolist()}"))
                        break
    return vs


def _oracle_one(case, impl):
    score = case["score"]
    entry = f"UFPCA.transform[{score}]"
    if "__crash__" in impl:
        return [dict(clause="runs", entry=entry, msg=f"crash {impl['__crash__']}: {impl.get('msg')}")]
    if "error" in impl:
        Xd = np.array(fl(Fm(case["X"])))
        if case["normalize"] and not np.any(Xd - Xd.mean(axis=0)):
            return []  # zero-variance data cannot be normalised (weight 0, 0/0): degenerate input, nothing to check
        return [dict(clause="runs", entry="UFPCA.fit", msg=f"fit failed with {impl['error']}")]
    vs = []

    def bad(clause, msg, causes=(), entry=entry):
        vs.append(dict(clause=clause, entry=entry, msg=msg, causes=list(causes)))

    X = np.array(fl(Fm(case["X"])))
    n = len(X)
    vals = np.array(impl["vals"])
    K = len(vals)
    Phi = np.array(impl["phi"], dtype=float).reshape(K, -1)
    mean = np.array(impl["mean"])
    r = np.sqrt(impl["weights"])
    w = _w(case)
    # variance scale: the largest eigenvalue kept, or (if only rounding-level ones are kept) the total variance
    Zs = (X - X.mean(axis=0)) / r
    lam_max = max(np.abs(vals).max() if K else 0.0, float((Zs ** 2).mean(axis=0) @ w) if np.isfinite(r) and r > 0 else 0.0, 1e-300)
    finite = bool(np.all(np.isfinite(Phi)))
    natural = (case["method"] == "covariance" and score == "NumInt") or (case["method"] == "inner-product" and score == "InnPro")
    S0 = None if impl.get("s_none") is None else np.array(impl["s_none"], dtype=float).reshape(n, K)
    # --- rejected combinations
    if score == "InnPro":
        if impl.get("s_train_err") != "ValueError":
            bad("innpro_rejects", f"InnPro with explicit data: expected ValueError, got {impl.get('s_train_err')}")
        if case["method"] == "covariance" and impl.get("s_none_err") != "ValueError":
            bad("innpro_rejects", f"InnPro on a covariance fit: expected ValueError, got {impl.get('s_none_err')}")
    if case["method"] == "covariance" and impl.get("innpro_on_cov_err") != "ValueError":
        bad("innpro_rejects", f"InnPro on a covariance fit: expected ValueError, got {impl.get('innpro_on_cov_err')}")
    if impl.get("bad_method_err") != "ValueError":
        bad("innpro_rejects", f"unknown score method: expected ValueError, got {impl.get('bad_method_err')}")
    # --- Gram-based scores are (rescaled) projections on the eigenfunctions, component by component (also when other
    #     retained components are non-finite):  <z_i, phi_k>_w = s_ik (l_k + σ²)/l_k, l_k = n λ_k  (C02.gram_proj)
    if case["method"] == "inner-product" and score == "InnPro" and K and S0 is not None and not case.get("fit_smooth"):
        Z = (X - mean) / r
        lk = n * vals
        sig = impl["noise"]
        for k in range(K):
            if lk[k] > 1e-10 * n * lam_max and np.all(np.isfinite(Phi[k])) and np.all(np.isfinite(S0[:, k])):
                proj_k = (Z * w) @ Phi[k]
                want = S0[:, k] * (lk[k] + sig) / lk[k]
                if np.abs(proj_k - want).max() > 1e-7 * max(np.abs(want).max(), np.abs(Z).max() * np.abs(Phi[k]).max() * w.sum(), 1e-300):
                    i = int(np.abs(proj_k - want).argmax())
                    bad("innpro_projection", f"Gram-based score [{i},{k}] = {S0[i, k]!r} is not the projection of curve {i} on eigenfunction {k} (<z,phi> = {proj_k[i]!r}, expected {want[i]!r}; n_obs = {n})")
                    break
    if S0 is None or not finite or not np.all(np.isfinite(S0)):
        return vs  # non-finite eigenfunctions (Gram route, clipped eigenvalue) are C02's finding
    # --- natural scores are uncorrelated with variance λ
    natural_rt = natural
    if case.get("fit_smooth") and natural and case["method"] == "covariance" and K and finite:
        Gs = (Phi * w) @ Phi.T
        natural_rt = bool(np.abs(Gs - np.eye(K)).max() < 1e-8)   # round trip still applies when the eigenfunctions are orthonormal
    elif case.get("fit_smooth"):
        natural_rt = False
    natural = natural and not case.get("fit_smooth")   # with a smoothed mean / covariance the decomposed object is the smoother's
    if natural and K:
        if case["method"] == "covariance":
            Cs = S0.T @ S0 / (n - 1)
            if np.abs(S0.sum(axis=0)).max() > 1e-8 * max(np.abs(S0).max(), np.abs(Zs).max() * np.abs(Phi).max() * w.sum(), 1e-300) * n:
                bad("scores_centred", f"training scores do not sum to zero (max column sum {np.abs(S0.sum(axis=0)).max():.3g})")
        else:
            Cs = S0.T @ S0 / n
        D = Cs - np.diag(vals)
        if np.abs(D).max() > 1e-8 * lam_max:
            i, j = np.unravel_index(np.abs(D).argmax(), D.shape)
            bad("scores_cov", f"score covariance [{i},{j}] = {Cs[i, j]!r}, expected {vals[i] if i == j else 0.0!r}")
    # --- explicit training data = stored training data
    if score in ("NumInt", "PACE"):
        S1 = None if impl.get("s_train") is None else np.array(impl["s_train"], dtype=float).reshape(n, K)
        if S1 is None:
            bad("runs", f"transform(training data) failed with {impl.get('s_train_err')}")
        else:
            # scale = Σ|terms| of a score (a retained rounding-level component has scores of pure cancellation noise)
            sc = max(np.abs(S0).max(), np.abs(S1).max(), float(np.abs(X).max() / r * np.abs(Phi).max() * w.sum()), 1e-300)
            if np.abs(S1 - S0).max() > 1e-8 * sc:
                causes = []
                if case["normalize"]:
                    # predicted defect of the known finding: the scores of the row mean / √weight
                    if score == "NumInt":
                        pred = (Phi * w) @ (mean / r)
                    else:
                        sig = max(1e-4, impl["noise"])
                        cov = np.array(impl["cov"])
                        pred = vals * ((mean / r) @ np.linalg.pinv(cov + sig * np.eye(len(cov))) @ Phi.T)
                    if np.abs((S1 - S0) - pred).max() <= 1e-6 * max(sc, np.abs(pred).max()):
                        causes.append(UNCENTRED)
                k = int(np.abs(S1 - S0).max(axis=0).argmax())
                bad("transform_training", f"transform(training data) differs from transform(None) by {np.abs(S1 - S0).max():.3g} (component {k}, normalize={case['normalize']}, score {score}, estimated noise variance {impl['noise']!r})", causes)
    # --- inputs modified after the fit
    if impl.get("edit_same") is not None and impl.get("edit_fresh") is not None:
        A_, B_ = np.array(impl["edit_same"], dtype=float), np.array(impl["edit_fresh"], dtype=float)
        if A_.shape != B_.shape or not np.array_equal(A_, B_, equal_nan=True):
            bad("input_edited", f"the object given to fit was edited in place afterwards: transform(that object, {score}) differs from transform(a fresh object with the same curves) by {np.nanmax(np.abs(A_ - B_)) if A_.shape == B_.shape else 'shape'}")
    if impl.get("edit_none") is not None and impl.get("s_none") is not None:
        if not np.array_equal(np.array(impl["edit_none"], dtype=float), np.array(impl["s_none"], dtype=float), equal_nan=True):
            bad("input_edited", f"editing in place the object that had been given to fit changed transform(None, {score})")
    # --- the same with a user-supplied `tol` (PACE)
    if impl.get("s_none_tol") is not None and impl.get("s_train_tol") is not None and not case["normalize"]:
        A_, B_ = np.array(impl["s_none_tol"], dtype=float), np.array(impl["s_train_tol"], dtype=float)
        if np.all(np.isfinite(A_)) and np.all(np.isfinite(B_)):
            sct = max(np.abs(A_).max(), np.abs(B_).max(), 1e-300)
            if A_.shape != B_.shape or np.abs(A_ - B_).max() > 1e-8 * sct:
                bad("transform_training", f"PACE with tol={case['tol']}: transform(training data) differs from transform(None) by {np.abs(A_ - B_).max():.3g} (scores up to {sct:.3g}; estimated noise variance {impl['noise']!r})")
    # --- round trip for the natural scores when the retained components span the centred data
    if natural_rt and impl.get("rec") is not None and K:
        Z = (X - mean) / r
        Zn = max(np.abs(Z).max(), 1e-300)
        coef, *_ = np.linalg.lstsq(Phi.T, Z.T, rcond=None)
        resid = np.abs(Z.T - Phi.T @ coef).max()
        if resid <= 1e-10 * Zn:
            rec = np.array(impl["rec"])
            if np.abs(rec - X).max() > 1e-7 * max(np.abs(X).max(), 1.0):
                bad("roundtrip", f"retained components span the centred data but inverse_transform(transform) misses the training curves by {np.abs(rec - X).max():.3g} (normalize={case['normalize']}, weight {impl['weights']!r})",
                    entry="UFPCA.inverse_transform")
    # --- projection (NumInt, covariance route: orthonormal eigenfunctions): residual ⟂ retained components
    if case["method"] == "covariance" and score == "NumInt" and impl.get("rec") is not None and K:
        Z = (X - mean) / r
        R = Z - S0 @ Phi
        G = (Phi * w) @ Phi.T
        if np.abs(G - np.eye(K)).max() < 1e-8:
            P = R @ (Phi * w).T
            if np.abs(P).max() > 1e-8 * max(np.abs(Z).max(), 1e-300) * max(np.abs(Phi).max(), 1.0) * w.sum():
                bad("projection", f"residual of the reconstruction is not orthogonal to the retained components ({np.abs(P).max():.3g})",
                    entry="UFPCA.inverse_transform")
    # --- affinity
    if "inv12" in impl:
        a, b = float(F(case["a"])), float(F(case["b"]))
        I1, I2, I12 = (np.array(impl[k]) for k in ("inv1", "inv2", "inv12"))
        want = a * I1 + b * I2 + (1 - a - b) * mean
        if np.abs(I12 - want).max() > 1e-9 * max(np.abs(want).max(), np.abs(I1).max(), np.abs(I2).max(), 1.0):
            bad("affine", f"inverse_transform(a s + b s') deviates from the affine combination by {np.abs(I12 - want).max():.3g}", entry="UFPCA.inverse_transform")
    # --- option forwarding: Simpson integration
    if impl.get("s_none_simpson") is not None:
        from scipy.integrate import simpson

        t = np.array(fl(Fv(case["t"])))
        T = np.array(impl["train_values"])
        want = np.array([[simpson(T[i] * Phi[k], x=t) for k in range(K)] for i in range(n)]).reshape(n, K)
        got = np.array(impl["s_none_simpson"]).reshape(n, K)
        if np.abs(got - want).max() > 1e-9 * max(np.abs(want).max(), 1e-300):
            bad("option_forwarded", f"integration_method='simpson' is not honoured by transform(None) (deviation {np.abs(got - want).max():.3g})")
        if impl.get("s_train_simpson") is not None and not case["normalize"]:
            got2 = np.array(impl["s_train_simpson"]).reshape(n, K)
            if np.abs(got2 - want).max() > 1e-8 * max(np.abs(want).max(), 1e-300):
                bad("option_forwarded", f"integration_method='simpson' is not honoured by transform(data) (deviation {np.abs(got2 - want).max():.3g})")
    # --- histories on one object
    if impl.get("s_none_again") is not None:
        if not np.array_equal(np.array(impl["s_none_again"]), np.array(impl["s_none"])):
            bad("repeatable", "a second transform(None) on the same estimator returns different scores")
    if impl.get("inv1_again") is not None and not np.array_equal(np.array(impl["inv1_again"]), np.array(impl["inv1"]), equal_nan=True):
        bad("repeatable", "inverse_transform of the same scores changed after transform() had been called on other data", entry="UFPCA.inverse_transform")
    if "state_again" in impl:
        for key in ("vals", "weights", "mean", "phi", "cov", "noise"):
            if key not in impl["state_again"] or key not in impl:
                continue
            if not np.array_equal(np.array(impl["state_again"][key], dtype=float), np.array(impl[key], dtype=float), equal_nan=True):
                bad("repeatable", f"transform() on other data changed the fitted `{key}`")
                break
    if "refit" in impl:
        for key in ("vals", "weights", "mean", "phi", "cov"):
            if key not in impl["refit"] or key not in impl["fresh"]:
                continue
            a1, a2 = np.array(impl["refit"][key], dtype=float), np.array(impl["fresh"][key], dtype=float)
            if a1.shape != a2.shape or not np.array_equal(a1, a2, equal_nan=True):
                bad("stale_state", f"refitting the same estimator on other data gives a different `{key}` than a fresh estimator")
                break
        if impl.get("refit_scores") is not None and impl.get("fresh_scores") is not None:
            if not np.array_equal(np.array(impl["refit_scores"]), np.array(impl["fresh_scores"]), equal_nan=True):
                bad("stale_state", "scores after a refit differ from those of a fresh estimator")
    return vs


def _failure_history_mfpca(case):
    """The `_failure_history` of UFPCA for MFPCA.fit (inner-product method): refit on data with another number of
    components, a failure injected into each internal step in turn, warnings escalated to errors, and the plain refit."""
    import json
    import warnings

    from common import jsonable
    from FDApy.preprocessing.dim_reduction import mfpca as M
    from FDApy.representation.functional_data import MultivariateFunctionalData as MF

    def data(comps):
        return MF([_comp_fd(c, list(range(len(c["X"])))) for c in comps])

    kw = dict(weights=np.array(fl(Fv(case["user_weights"])))) if case.get("user_weights") else {}
    mk = lambda: M.MFPCA(n_components=sel_to_py(case["sel"]), method="inner-product", normalize=case["normalize"], **dict(kw))  # noqa: E731

    def observe(est):
        o = {}
        K = len(est.eigenvalues)
        with quiet():
            for key, f in (("mean", lambda: [_flat(c.values) for c in est.mean.data]),
                           ("weights", lambda: [float(x) for x in np.asarray(est.weights, dtype=float)]),
                           ("vals", lambda: [float(x) for x in est.eigenvalues]),
                           ("phi", lambda: [_flat(c.values) for c in est.eigenfunctions.data]),
                           ("s_none", lambda: np.asarray(est.transform(None, method="NumInt"), dtype=float).tolist()),
                           ("inv", lambda: [_flat(c.values) for c in est.inverse_transform(np.ones((1, K))).data])):
                v, e = _try(f)
                o[key] = ["error", e] if e else v
        return {k: json.dumps(jsonable(v)) for k, v in o.items()}

    with quiet():
        e0, e1 = mk(), mk()
        _, err = _try(lambda: e0.fit(data(case["comps"])))
        _, err1 = _try(lambda: e1.fit(data(case["R_comps"])))
    if err or err1:
        return dict(skipped=f"{err} / {err1}")
    old, new = observe(e0), observe(e1)
    res = []
    for point in ["none", "mean", "center", "rescale", "noise_variance", "fit_helper", "warning_as_error"]:
        est = mk()
        with quiet():
            est.fit(data(case["comps"]))

        def boom(*a, **k):
            raise _Injected(point)

        patches = {"mean": [(MF, "mean")], "center": [(MF, "center")], "rescale": [(MF, "rescale")],
                   "noise_variance": [(MF, "noise_variance")],
                   "fit_helper": [(M, "_fit_inner_product_multivariate")]}.get(point, [])
        saved = [(o, n, getattr(o, n)) for o, n in patches if hasattr(o, n)]
        raised = None
        try:
            for o, n, _ in saved:
                setattr(o, n, boom)
            with warnings.catch_warnings(), np.errstate(all="ignore"):
                warnings.simplefilter("error" if point == "warning_as_error" else "ignore")
                try:
                    est.fit(data(case["R_comps"]))
                except _Injected:
                    raised = "Injected"
                except Warning as w:
                    raised = "Warning:" + type(w).__name__
                except Exception as e:  # noqa: BLE001
                    raised = "Other:" + type(e).__name__
        finally:
            for o, n, f in saved:
                setattr(o, n, f)
        after = observe(est)
        cls = {}
        for key in after:
            so, sn = after[key] == old[key], after[key] == new[key]
            cls[key] = "same" if (so and sn) else "old" if so else "new" if sn else "neither"
        res.append(dict(point=point, raised=raised, cls=cls))
    return dict(points=res)


def _oracle_mfpca(case, impl):
    entry = "MFPCA.inverse_transform"
    if "__crash__" in impl:
        return [dict(clause="runs", entry=entry, msg=f"crash {impl['__crash__']}: {impl.get('msg')}")]
    if "error" in impl:
        return [dict(clause="runs", entry="MFPCA.fit", msg=f"fit failed with {impl['error']}")]
    vs = []
    for h in (impl.get("F") or {}).get("points", []):
        cls = h["cls"]
        olds = {k for k, v in cls.items() if v == "old"}
        news = {k for k, v in cls.items() if v == "new"}
        odd = {k for k, v in cls.items() if v == "neither"}
        ok = (not olds and not odd) if h["raised"] is None else (not odd and (not olds or not news))
        if not ok:
            base = {k: cls[k] for k in ("mean", "weights", "vals", "phi") if k in cls}
            b_new = {k for k, v in base.items() if v == "new"}
            b_odd = {k for k, v in base.items() if v == "neither"}
            causes = []
            if h["raised"] is not None and not b_odd and b_new and b_new <= {"mean", "weights"} and cls.get("s_none") in ("old", "same"):
                causes.append(INCREMENTAL)       # only mean / weights moved before the failure
            if h["raised"] is None and base.get("weights") == "old" and not (b_odd - {"weights"}) and {k for k, v in base.items() if v == "old"} == {"weights"}:
                causes.append(INCREMENTAL)       # weights of the previous fit survive a successful refit
            vs.append(dict(clause="fit_atomicity", entry="MFPCA.fit", causes=causes,
                           msg=f"MFPCA refit ({len(case['comps'])} -> {len(case['R_comps'])} components, normalize={case['normalize']}) with a failure injected at `{h['point']}` (raised: {h['raised']}): "
                               f"the estimator is a mixture — old: {sorted(olds)}, new: {sorted(news)}, neither: {sorted(odd)}"))
    if not case["normalize"] and impl.get("s_numint") is not None and impl.get("s_train_numint") is not None:
        s0, s1 = np.array(impl["s_numint"], dtype=float), np.array(impl["s_train_numint"], dtype=float)
        if np.all(np.isfinite(s0)) and np.all(np.isfinite(s1)):
            sc = max(np.abs(s0).max(), np.abs(s1).max(), 1e-300)
            if s0.shape != s1.shape or np.abs(s0 - s1).max() > 1e-6 * sc:
                vs.append(dict(clause="transform_training", entry="MFPCA.transform[NumInt]", causes=[],
                               msg=f"MFPCA (normalize=False, constructor weights {case.get('user_weights')}): transform(training data) differs from transform(None) by {np.abs(s0 - s1).max():.3g} (scores up to {sc:.3g})"))
    a, b = float(F(case["a"])), float(F(case["b"]))
    for p, c in enumerate(case["comps"]):
        X = np.array(fl(Fm(c["X"])))
        X = X[[(i + impl.get("rot", 0)) % len(X) for i in range(len(X))]]
        mean = np.array(impl["mean"][p])
        if "inv12" in impl:
            I1, I2, I12 = (np.array(impl[k][p]) for k in ("inv1", "inv2", "inv12"))
            want = a * I1 + b * I2 + (1 - a - b) * mean
            if np.abs(I12 - want).max() > 1e-9 * max(np.abs(want).max(), 1.0):
                vs.append(dict(clause="affine", entry=entry, msg=f"component {p}: not affine in the scores ({np.abs(I12 - want).max():.3g})"))
        if impl.get("rec") is not None:
            # rank-one data, the kept component is finite: the centred curves are spanned
            rec = np.array(impl["rec"][p])
            if np.abs(rec - X).max() > 1e-6 * max(np.abs(X).max(), 1.0):
                vs.append(dict(clause="roundtrip", entry=entry,
                               msg=f"component {p}: inverse_transform(transform(None)) misses the training curves by {np.abs(rec - X).max():.3g} (normalize={case['normalize']}, weight {impl['weights'][p]!r})"))
    return vs


def nontrivial(case, impl):
    return digest({k: v for k, v in case.items() if k != "corpus"})


def classify(case, impl):
    if case["kind"] == "mfpca":
        return ["kind:mfpca", "normalize:" + str(case["normalize"]), "rec:" + str(impl.get("rec") is not None)]
    tags = ["kind:ufpca", "method:" + case["method"], "normalize:" + str(case["normalize"]), "score:" + case["score"],
            "dim:" + str(case["dim"]), "sel:" + case["sel"][0], "content:" + str(case.get("ck"))]
    if "phi" in impl:
        tags.append("finite_eigenfunctions:" + str(bool(np.all(np.isfinite(np.asarray(impl["phi"], dtype=float))))))
    if impl.get("rec") is not None and "vals" in impl:
        X = np.array(fl(Fm(case["X"])))
        K = len(impl["vals"])
        Phi = np.array(impl["phi"], dtype=float).reshape(K, -1)
        Z = (X - np.array(impl["mean"])) / np.sqrt(impl["weights"])
        if K:
            coef, *_ = np.linalg.lstsq(Phi.T, Z.T, rcond=None)
            tags.append("spanned:" + str(bool(np.abs(Z.T - Phi.T @ coef).max() <= 1e-10 * max(np.abs(Z).max(), 1e-300))))
    tags.append("model_requests:" + str(len(_requests(case, impl))))
    return tags
