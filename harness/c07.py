"""C07 — a smoothed value depends only on the data and on its own location."""
from fractions import Fraction

import numpy as np

import c06
import common
import smooth_translate
from common import F, Rng, digest, fl, rs

PROP = "C07"
MODULES = ["FDAProofs.Props.C07"]
DRIVER = "Drivers/C07.lean"
PARALLEL = True
RULE = (
    "seeded structured cases: a dataset, smoothing parameters, a base query set Q inside the sampling range (grid "
    "points and off-grid points) and 4-6 further query sets (contiguous sub-range, thinned grid, single points, "
    "permutation, superset), each sent through one entry point: PSplines.predict (1-D, 2-D, with and without explicit "
    "fit domain), LocalPolynomial.predict (1-D, 2-D), DenseFunctionalData.smooth/.mean/.covariance(points=...), "
    "IrregularFunctionalData.smooth/.mean/.covariance(points=...), methods PS and LP; domains [0,1], [1,365], "
    "[1000,1001], [-3,2], [-1,0], [-364,0], [-1,1], [-5,-2] (starting at, ending at, straddling, away from 0; explicit fit "
    "bounds equal to 0). Non-trivial: the responses are not constant and at least one further query set has a "
    "different range than Q; distinct by content hash"
)
PARTIAL = [
    "the B-spline evaluator of Predict.lean is PROVED equal to the shared model FDAModel/BSpline.lean (C07.predict_basis_eq_bspline); "
    "what remains sampled about it is only its float evaluation",
    "the fit itself (beta_hat) is taken from the implementation (captured from outside); what it is, is C05's business",
    "float evaluation of the truncated-power B-splines vs the exact value: tolerance 64 eps (1 + p max|domain|/dx) x sum|terms| (cancellation is built into the algorithm)",
    "local-polynomial values are compared with the exact model only where the centred/scaled local problem has cond <= 1e5 (see C06); independence from the query set is checked everywhere",
]
TRUSTED_EXTRA = ["translator harness/smooth_translate.py (request-independence logic, symmetrisation, P-spline predict path; syntax only)", "capture of PSplines.fit results / LocalPolynomial.predict arguments by subclassing from outside (no source hook)"]

EPS = 2.220446049250313e-16
DOMAINS = {
    # name: (lo, scale).  Zero is a special value for code that tests bounds by truthiness: domains starting at 0,
    # ending exactly at 0, straddling 0 (symmetric and not), entirely negative, far from 0.
    "unit": (Fraction(0), Fraction(1)), "doy": (Fraction(1), Fraction(364)), "shift1000": (Fraction(1000), Fraction(1)),
    "neg": (Fraction(-3), Fraction(5)), "end0": (Fraction(-1), Fraction(1)), "end0wide": (Fraction(-364), Fraction(364)),
    "sym": (Fraction(-1), Fraction(2)), "allneg": (Fraction(-5), Fraction(3)),
}


def _domain(name):
    """(lo, scale) of a named domain; `int:<lo>:<scale>` is an integer lattice lo + {0..scale} (unit grid i/scale)."""
    if name.startswith("int:"):
        _, lo, sc = name.split(":")
        return Fraction(int(lo)), Fraction(int(sc))
    return DOMAINS[name]


DOM_CHOICES = ["unit", "unit", "doy", "shift1000", "neg", "end0", "end0", "end0wide", "sym", "allneg"]
ENTRIES = [
    "PSplines.predict", "PSplines.predict", "PSplines.predict2d", "LocalPolynomial.predict", "LocalPolynomial.predict2d",
    "DenseFunctionalData.smooth", "DenseFunctionalData.smooth", "DenseFunctionalData.smooth2d", "DenseFunctionalData.mean",
    "DenseFunctionalData.covariance", "IrregularFunctionalData.smooth", "IrregularFunctionalData.smooth",
    "IrregularFunctionalData.mean", "IrregularFunctionalData.covariance", "functional_data._smooth_covariance",
]
SC_ENTRY = "functional_data._smooth_covariance"


# --------------------------------------------------------------------------
# generation
# --------------------------------------------------------------------------

def _grid01(rng: Rng, m, uniform=None):
    """m sorted distinct dyadic points of [0,1] containing 0 and 1."""
    if uniform is None:
        uniform = rng.random() < 0.5
    if uniform and (m - 1) & (m - 2) == 0:
        if rng.random() < 0.5:
            # nearly regular: relative spacing jitter 2^-10 … 2^-23 (exact dyadics)
            r = rng.choice([10, 17, 23])
            return [Fraction(i, m - 1) + Fraction(rng.randint(-1, 1) if 0 < i < m - 1 else 0, (m - 1) * 2 ** r) for i in range(m)]
        return [Fraction(i, m - 1) for i in range(m)]
    inner = sorted(rng.sample(range(1, 256), m - 2))
    return [Fraction(0)] + [Fraction(j, 256) for j in inner] + [Fraction(1)]


def _gap_grid(rng: Rng, m):
    """m sorted dyadic points of [0,1] containing 0 and 1, none in the open interval (5/16, 11/16)."""
    left = sorted(rng.sample(range(1, 80), (m - 2) // 2))
    right = sorted(rng.sample(range(177, 256), m - 2 - (m - 2) // 2))
    return [Fraction(0)] + [Fraction(j, 256) for j in left] + [Fraction(5, 16), Fraction(11, 16)] + [Fraction(j, 256) for j in right] + [Fraction(1)]


def _gap_queries(rng: Rng, g):
    """Query set with locations deep inside the gap (further than 1/8 from every sampling point) and outside it."""
    inside = [Fraction(1, 2), Fraction(rng.choice([57, 59, 61, 63, 65, 67, 69, 71]), 128)]
    outside = [Fraction(rng.randint(3, 30), 128), Fraction(rng.randint(34, 39), 128), Fraction(rng.randint(89, 96), 128), Fraction(rng.randint(100, 125), 128)]
    return sorted(set(inside + outside))


def _curve(rng: Rng, g, kind):
    if kind == "const":
        c = rng.dyadic(-2, 2, 2)
        return [c for _ in g]
    if kind == "smooth":
        a, b, c = rng.dyadic(-2, 2, 2), rng.dyadic(-2, 2, 2), rng.dyadic(1, 3, 1)
        return [a + b * t + c * (t - Fraction(1, 2)) ** 2 * 4 - c * (t - Fraction(1, 4)) ** 3 * 8 + Fraction(rng.randint(-8, 8), 64) for t in g]
    return rng.dyadics(len(g), -4, 4, 4)


def _queries(rng: Rng, g, lo=Fraction(0), hi=Fraction(1), k=None):
    """Base query set: sorted distinct points strictly inside [lo,hi] mixed from grid points and off-grid points."""
    k = k or rng.randint(5, 8)
    pool = set()
    inner = [t for t in g if lo < t < hi]
    rng.shuffle(inner)
    for t in inner[: k // 2]:
        pool.add(t)
    while len(pool) < k:
        pool.add(lo + (hi - lo) * Fraction(rng.randint(1, 127), 128))
    return sorted(pool)


def _variants(rng: Rng, Q, g, samecount=False):
    """Further query sets, as lists of points (all inside the sampling range)."""
    k = len(Q)
    i = rng.randint(1, max(1, k // 2 - 1))
    j = rng.randint(i + 2, k - 1) if i + 2 <= k - 1 else k - 1
    vs = [("sub", Q[i:j]), ("thin", Q[rng.randint(0, 1)::2]), ("single", [Q[rng.randrange(k)]]), ("single_end", [Q[rng.choice([0, k - 1])]])]
    p = list(Q)
    rng.shuffle(p)
    if p == Q:
        p = p[::-1]
    vs.append(("perm", p))
    extra = [g[0], g[-1], g[0] + (g[-1] - g[0]) * Fraction(rng.randint(1, 127), 128)]
    vs.append(("super", sorted(set(Q) | set(extra))))
    inside = [q for q in Q if Fraction(5, 16) < (q - g[0]) / (g[-1] - g[0]) < Fraction(11, 16)] if all(
        not (Fraction(5, 16) < (t - g[0]) / (g[-1] - g[0]) < Fraction(11, 16)) for t in g) else []
    if inside:
        # locations further than one bandwidth from every sampling point: alone, with one neighbour, with far points only
        vs.append(("gap_single", [inside[0]]))
        vs.append(("gap_pair", sorted({inside[-1], Q[0]})))
        vs.append(("gap_only", inside))
    if samecount and len(g) <= 25:
        # as many query points as sampling points, but located elsewhere (contains two points of Q)
        m = len(g)
        pts = set(Q[:2])
        for i in rng.sample(range(256), m):
            if len(pts) < m:
                pts.add(g[0] + (g[-1] - g[0]) * Fraction(2 * i + 1, 512))
        vs.append(("samecount", sorted(pts)))
    return vs


def _scale_pts(dom, pts):
    lo, sc = _domain(dom)
    return [lo + sc * t for t in pts]


def _sc_case(rng: Rng, tier, force):
    """The helper `_smooth_covariance` called DIRECTLY with requests its wrappers never send: different query sets in the
    two directions (rectangular), a sub-range in one direction, a single row / column / point — compared with the entries of
    the square request and with the exact model."""
    dom = force.get("dom") if force.get("dom") in DOMAINS else rng.choice(["unit", "doy", "end0", "neg"])
    method = force.get("method", rng.choice(["PS", "LP"]))
    lo, sc = _domain(dom)
    m = rng.choice([7, 8])
    g = _grid01(rng, m, uniform=False)
    vs = [rng.dyadics(m, -2, 2, 3) for _ in range(3)]
    C = [[sum(v[i] * v[j] for v in vs) / 2 for j in range(m)] for i in range(m)]
    q1 = sorted(Fraction(k, 128) for k in rng.sample(range(6, 122), 4))
    q2 = sorted(Fraction(k, 128) for k in rng.sample(range(6, 122), 3))
    P = lambda v: [rs(t) for t in _scale_pts(dom, v)]  # noqa: E731
    case = dict(kind="q", entry=SC_ENTRY, method=method, dim=2, dom=dom, dom2=dom, ykind="rand", x=P(g), x2=P(g),
                C=[[rs(t) for t in r] for r in C], Q=P(q1), Q2=P(q2))
    case["variants"] = [["square", P(q1), P(q1)], ["subrange_first_direction", P(q1[1:3]), P(q2)], ["single_row", P([q1[2]]), P(q2)],
                        ["single_column", P(q1), P([q2[0]])], ["swapped", P(q2), P(q1)], ["single_point", P([q1[1]]), P([q2[1]])],
                        ["reversed_rows", P(q1[::-1]), P(q2)]]
    if method == "PS":
        ns, dg = rng.choice([3, 4, 5]), rng.choice([1, 2, 3])
        case["nseg"], case["deg"] = [ns, rng.choice([3, 4, 5])], [dg, rng.choice([1, 2, 3])]
        case["pen"] = [rs(rng.choice([Fraction(1, 4), Fraction(1), Fraction(8)])) for _ in range(2)]
    else:
        case["kernel"] = rng.choice(c06.KERNELS)
        case["degree"] = rng.choice([0, 1, 1])
        case["hu"] = rs(rng.choice([Fraction(1, 2), Fraction(3, 4), Fraction(1)]))
    return case


def _case(rng: Rng, tier, entry=None, force=None):
    force = force or {}
    entry = entry or rng.choice(ENTRIES)
    if entry == SC_ENTRY:
        return _sc_case(rng, tier, force)
    dom = force.get("dom", rng.choice(DOM_CHOICES))
    method = force.get("method", rng.choice(["PS", "LP"]))
    if entry.startswith("PSplines"):
        method = "PS"
    if entry.startswith("LocalPolynomial"):
        method = "LP"
    two_d = entry.endswith("2d")
    big = tier == "thorough"
    case = dict(kind="q", entry=entry.replace("2d", ""), method=method, dim=2 if two_d else 1, dom=dom)
    lo, sc = _domain(dom)
    ykind = rng.choice(["smooth", "smooth", "rand", "const"]) if not force.get("nonconst") else "smooth"
    case["ykind"] = ykind
    # a sampling grid with a gap wider than twice the bandwidth and query locations inside the gap (empty local problems)
    gap = (method == "LP" and not two_d and not entry.endswith("covariance") and not entry.startswith("PSplines")
           and not force.get("pooled_n") and (force.get("gap") or rng.random() < 0.3))
    # smoothing parameters
    if method == "PS":
        case["nseg"] = [rng.choice([2, 3, 4, 5, 8] + ([12, 20] if big else [])) for _ in range(2)]
        case["deg"] = [rng.choice([1, 2, 3, 3] + ([4] if big else [])) for _ in range(2)]
        case["pen"] = [rs(rng.choice([Fraction(1, 64), Fraction(1, 4), Fraction(1), Fraction(8)])) for _ in range(2)]
    else:
        case["kernel"] = rng.choice(c06.KERNELS)
        case["degree"] = rng.choice([0, 1, 1, 2])
        case["hu"] = rs(rng.choice([Fraction(1, 4), Fraction(3, 8), Fraction(1, 2), Fraction(3, 4), Fraction(1)]))
        if gap:
            case["gap"] = True
            far = force.get("far") or rng.random() < 0.4
            if far:
                # Gaussian kernel, small bandwidth: the gap locations are 4..10 bandwidths away from every sampling
                # point (very poorly supported local problems), the other locations are well supported
                case["far"] = True
                # hole of 3/8 of the range: with h = 1/64 the gap locations are 8.5 … 12 bandwidths from every sampling point,
                # with h = 1/128 they are 17 … 24 bandwidths away
                case["kernel"], case["hu"] = "gaussian", rs(force.get("far_h", rng.choice([Fraction(1, 64), Fraction(1, 64), Fraction(1, 128)])))
            else:
                case["kernel"], case["hu"] = rng.choice(["epanechnikov", "tricube", "bisquare"]), rs(Fraction(1, 8))
            case["degree"] = rng.choice([0, 1])
    if entry in ("PSplines.predict", "LocalPolynomial.predict"):
        m = rng.choice([6, 9, 12, 17, 25] + ([40] if big else []))
        g = _grid01(rng, m)
        if entry == "LocalPolynomial.predict" and rng.random() < 0.4:
            # scattered, unsorted, with ties
            g = [Fraction(rng.randint(0, 64), 64) for _ in range(m)]
            g[0], g[1] = Fraction(0), Fraction(1)
        case["x"] = [rs(t) for t in _scale_pts(dom, g)]
        case["y"] = [rs(t) for t in _curve(rng, g, ykind)]
        if gap:
            g = _gap_grid(rng, rng.choice([57, 65]) if case.get("far") else rng.choice([17, 21, 25]))
            case["x"] = [rs(t) for t in _scale_pts(dom, g)]
            case["y"] = [rs(t) for t in _curve(rng, g, ykind)]
        gs = sorted(set(g))
        Q = _gap_queries(rng, gs) if gap else _queries(rng, gs)
        if entry == "PSplines.predict" and rng.random() < 0.4:
            # explicit fit domain: wider than the data on both sides / on one side, or exactly the data range given
            # explicitly (for the domains touching 0 this passes an explicit bound equal to 0)
            a, b = rng.choice([(Fraction(1, 4), Fraction(1, 2)), (Fraction(0), Fraction(1, 2)), (Fraction(1, 4), Fraction(0)), (Fraction(0), Fraction(0)), (Fraction(0), Fraction(0))])
            case["fit_domain"] = [rs(lo - sc * a), rs(lo + sc + sc * b)]
        case["Q"] = [rs(t) for t in _scale_pts(dom, Q)]
        case["variants"] = [[nm, [rs(t) for t in _scale_pts(dom, v)]] for nm, v in _variants(rng, Q, gs, samecount=True)]
    elif two_d:
        m1, m2 = rng.randint(5, 8), rng.randint(5, 9)
        g1, g2 = _grid01(rng, m1), _grid01(rng, m2)
        # mixed dtypes per axis: an INTEGER array (np.arange-like) on the first axis, floats on the second; the same
        # locations are also requested with a float first axis (query set 'asfloat')
        same_axes = bool(force.get("same_axes")) or (not force.get("int_axis0") and rng.random() < 0.3)
        int0 = not same_axes and not entry.startswith("LocalPolynomial") and (force.get("int_axis0") or rng.random() < 0.45)
        if int0:
            m1 = rng.randint(6, 8)
            dom = f"int:{rng.choice([0, 1, -3, 100])}:{m1 - 1}"
            case["dom"], case["int_axis0"] = dom, True
            g1 = [Fraction(i, m1 - 1) for i in range(m1)]
        dom2 = rng.choice(["unit", "neg", "doy", "end0", "sym", "allneg"])
        if same_axes:
            # the two directions have DIFFERENT domains (the second contains the first) but the same smoothing options; the
            # request uses the SAME abscissae on both axes (square grids, a single location (u, u))
            dom = rng.choice(["unit", "end0"])
            dom2 = {"unit": rng.choice(["neg", "sym"]), "end0": rng.choice(["neg", "sym", "allneg"] if False else ["neg", "sym"])}[dom]
            case["dom"], case["same_axes"] = dom, True
            if method == "PS":
                case["nseg"][1], case["deg"][1], case["pen"][1] = case["nseg"][0], case["deg"][0], case["pen"][0]
        case["dom2"] = dom2
        case["x"] = [rs(t) for t in _scale_pts(dom, g1)]
        case["x2"] = [rs(t) for t in _scale_pts(dom2, g2)]
        nobs = 1 if entry.startswith(("PSplines", "LocalPolynomial")) else rng.randint(1, 2)
        Y = []
        for _ in range(nobs):
            r1, r2 = _curve(rng, g1, "smooth"), _curve(rng, g2, "smooth" if ykind != "rand" else "rand")
            Y.append([[rs(a * b + a) if ykind != "const" else rs(Fraction(3, 2)) for b in r2] for a in r1])
        case["Y"] = Y
        Q1, Q2 = _queries(rng, g1, k=rng.randint(4, 5)), _queries(rng, g2, k=rng.randint(4, 5))
        if int0:
            Q1 = sorted(rng.sample(g1[1:-1], 4))
        case["Q"] = [rs(t) for t in _scale_pts(dom, Q1)]
        case["Q2"] = [rs(t) for t in _scale_pts(dom2, Q2)]
        v1, v2 = _variants(rng, Q1, g1), _variants(rng, Q2, g2)
        vs = []
        for (n1, a), (n2, b) in zip(v1, v2[::-1]):
            vs.append([f"{n1}x{n2}", [rs(t) for t in _scale_pts(dom, a)], [rs(t) for t in _scale_pts(dom2, b)]])
        vs.append(["subxsame", [rs(t) for t in _scale_pts(dom, v1[0][1])], case["Q2"]])
        case["variants"] = vs[:5]
        if method == "LP" or int0:
            # the exact 2-D local problems are the expensive part of the model: small product query sets
            keep = lambda v, k: v[:k]  # noqa: E731
            case["Q"], case["Q2"] = keep(case["Q"], 4), keep(case["Q2"], 3)
            Q1s, Q2s = case["Q"], case["Q2"]
            case["variants"] = [["subxsame", Q1s[1:3], Q2s], ["singlexthin", [Q1s[2]], Q2s[::2]], ["permxperm", Q1s[::-1], [Q2s[1], Q2s[2], Q2s[0]]],
                                ["superxsub", sorted(set(Q1s) | {case["x"][0]}, key=F), Q2s[:2]]]
        if int0:
            case["variants"].append(["asfloat", case["Q"], case["Q2"]])
        if same_axes:
            Qs = case["Q"][:4]
            extra = case["x"][0]
            case["Q"], case["Q2"] = Qs, Qs
            case["variants"] = [["square_sub", Qs[1:3], Qs[1:3]], ["diagonal_point", [Qs[2]], [Qs[2]]], ["same_plus_one", Qs, sorted(set(Qs) | {extra}, key=F)],
                                ["one_plus_same", sorted(set(Qs) | {extra}, key=F), Qs], ["square_reversed", Qs[::-1], Qs[::-1]], ["rect", Qs[:2], Qs[1:]]]
        if method == "LP":
            case["hu"] = rs(rng.choice([Fraction(1, 2), Fraction(3, 4), Fraction(1)]))
            case["degree"] = rng.choice([0, 1, 1, 2])
    elif entry.startswith("DenseFunctionalData"):
        cov = entry.endswith("covariance")
        m = rng.choice([7, 8, 10] if cov else [9, 13, 17, 25])
        if cov and force.get("bigq"):
            m = 6
        g = _gap_grid(rng, (rng.choice([57, 65]) if case.get("far") else rng.choice([17, 21, 25]))) if gap else _grid01(rng, m)
        nobs = rng.randint(3, 5) if (cov or entry.endswith("mean")) else rng.randint(1, 3)
        case["x"] = [rs(t) for t in _scale_pts(dom, g)]
        case["X"] = [[rs(t) for t in _curve(rng, g, ykind if k == 0 else rng.choice(["smooth", "rand"]))] for k in range(nobs)]
        Q = _gap_queries(rng, g) if gap else _queries(rng, g, k=rng.randint(4, 5) if cov else None)
        case["Q"] = [rs(t) for t in _scale_pts(dom, Q)]
        case["variants"] = [[nm, [rs(t) for t in _scale_pts(dom, v)]] for nm, v in _variants(rng, Q, g, samecount=not cov)]
        if cov:
            case["variants"] = case["variants"][:5]
        if cov and method == "LP":
            case["Q"] = case["Q"][:4]
            Qs = case["Q"]
            case["variants"] = [["sub", Qs[1:3]], ["thin", Qs[::2]], ["single", [Qs[2]]], ["perm", [Qs[2], Qs[0], Qs[3], Qs[1]]], ["super", sorted(set(Qs) | {case["x"][0]}, key=F)]]
            case["degree"] = rng.choice([1, 2])
            case["hu"] = rs(rng.choice([Fraction(1, 2), Fraction(3, 4), Fraction(1)]))
    else:  # irregular
        cov = entry.endswith("covariance")
        pooled = entry.endswith("mean") and (force.get("pooled") or rng.random() < 0.35)
        m = rng.choice([8, 9, 10] if cov else [11, 15, 21])
        if cov and force.get("bigq"):
            m = 8
        nobs = rng.randint(3, 5) if cov else rng.randint(2, 4)
        pooled_n = force.get("pooled_n")
        if pooled_n:
            pooled = True
        if pooled:
            # more than 2000 pooled observations (size threshold of the approximate mean), many curves sharing few locations
            m, nobs = rng.choice([44, 48]), rng.choice([52, 60])
            case["pooled"] = True
        if pooled_n:
            # an exact pooled sample size on either side of the size switch (1500, 1999, 2000, 2001, 2500), 25 points per curve
            m, nobs = 50, pooled_n // 25
            case["pooled_n"] = pooled_n
        g = _gap_grid(rng, m if pooled else (rng.choice([57, 65]) if case.get("far") else rng.choice([17, 21, 25]))) if gap else _grid01(rng, m)
        m = len(g)
        obs = []
        for k in range(nobs):
            need = 7 if cov else 6
            idx = sorted(rng.sample(range(m), rng.randint(min(need, m), m) if not pooled else 40))
            if pooled_n:
                size = 25 + (pooled_n - 25 * nobs if k == nobs - 1 else 0)
                idx = sorted(rng.sample(range(1, m - 1), size - 2)) + [0, m - 1] if k == 0 else sorted(rng.sample(range(m), size))
                idx = sorted(idx)
            elif k == 0:
                idx = sorted(set(idx) | {0, m - 1})
            gi = [g[i] for i in idx]
            obs.append(dict(t=[rs(t) for t in _scale_pts(dom, gi)], y=[rs(t) for t in _curve(rng, gi, (ykind if k == 0 else "smooth") if not pooled else "rand")]))
        case["obs"] = obs
        Q = _gap_queries(rng, g) if gap else _queries(rng, g, k=rng.randint(4, 5) if cov else None)
        case["Q"] = [rs(t) for t in _scale_pts(dom, Q)]
        case["variants"] = [[nm, [rs(t) for t in _scale_pts(dom, v)]] for nm, v in _variants(rng, Q, g, samecount=not cov)]
        if pooled_n:
            # request sizes 401, 101, 11, 1 (+ a sub-range): the estimate at a location must not depend on the request size
            Qb = [Fraction(k, 512) for k in range(56, 457)]
            pk = lambda v: [rs(t) for t in _scale_pts(dom, v)]  # noqa: E731
            case["Q"] = pk(Qb)
            case["variants"] = [["n101", pk(Qb[::4])], ["n11", pk(Qb[::40])], ["n1", pk([Qb[200]])], ["subrange", pk(Qb[180:230])], ["n1_end", pk([Qb[0]])]]
            if method == "LP":
                case["hu"], case["degree"] = rs(Fraction(1, 8)), rng.choice([0, 1])
        if cov:
            case["variants"] = case["variants"][:5]
        if cov and method == "LP":
            case["Q"] = case["Q"][:4]
            Qs = case["Q"]
            case["variants"] = [["sub", Qs[1:3]], ["thin", Qs[::2]], ["single", [Qs[2]]], ["perm", [Qs[2], Qs[0], Qs[3], Qs[1]]], ["super", sorted(set(Qs) | {case["obs"][0]["t"][0]}, key=F)]]
            case["degree"] = rng.choice([1, 2])
            case["hu"] = rs(rng.choice([Fraction(3, 4), Fraction(1)]))
    # requests reaching OUTSIDE the sampling range (by a little: 1/64 of the range, and by a lot: 1/4), on one or both sides.
    # Unchanged tree: P-splines evaluate the basis laid on the stored (data) domain at those points — the truncated-power
    # formula extrapolates within the extended knots and is 0 beyond them; local polynomials solve the local problem there
    # like anywhere else.  The model does exactly the same, so every value is compared; the values at the interior points
    # must not depend on the outside points being requested.
    if not gap and not force.get("pooled_n") and not case.get("bigq") and (force.get("outside") or rng.random() < 0.25):
        lo_, sc_ = _domain(dom)
        side = force.get("side", rng.choice(["both", "left", "right"]))
        outs = ([lo_ - sc_ / 4, lo_ - sc_ / 64] if side in ("both", "left") else []) + ([lo_ + sc_ + sc_ / 64, lo_ + sc_ + sc_ / 4] if side in ("both", "right") else [])
        if case.get("int_axis0"):
            outs = [lo_ - 1, lo_ + sc_ + 2]
        Qold = list(case["Q"])
        Qn = sorted(set(F(t) for t in Qold) | set(outs))
        case["outside"] = side
        case["Q"] = [rs(t) for t in Qn]
        if two_d:
            Q2_ = case["Q2"]
            case["variants"] += [["inside_only", Qold, Q2_], ["single_outside", [rs(outs[0])], Q2_[:1]], ["outside_only", [rs(t) for t in outs], Q2_]]
            if case.get("int_axis0"):
                case["variants"] = [v for v in case["variants"] if v[0] != "asfloat"] + [["asfloat", case["Q"], Q2_]]
            if case.get("same_axes"):
                case["Q2"] = case["Q"]
        else:
            case["variants"] += [["inside_only", Qold], ["single_inside", [Qold[len(Qold) // 2]]], ["single_outside", [rs(outs[0])]], ["outside_only", [rs(t) for t in outs]],
                                 ["one_outside_rest_inside", [rs(outs[-1])] + Qold]]
    # near-coincident DISTINCT query locations (gaps of 1e-9 … 1e-5 bandwidths), requested jointly, alone, reversed
    if not two_d and not entry.endswith("covariance") and not gap and not case.get("pooled") and not force.get("pooled_n") and (force.get("near") or rng.random() < 0.25):
        lo_, sc_ = _domain(dom)
        hdat = (F(case["hu"]) if method == "LP" else Fraction(1, 8)) * sc_
        Qf = [F(t) for t in case["Q"]]
        picks = rng.sample(range(len(Qf)), min(3, len(Qf)))
        near = []
        for i, kk in zip(picks, rng.sample([17, 20, 23, 26, 30], 3)):
            near.append((Qf[i], Qf[i] + hdat * Fraction(1, 2 ** kk)))
        Qn = sorted(set(Qf) | {b for _, b in near})
        case["near"] = True
        case["Q"] = [rs(t) for t in Qn]
        case["variants"] += [["reversed", [rs(t) for t in Qn[::-1]]], ["near_thin", [rs(t) for t in Qn[1::2]]]]
        for j, (a, b) in enumerate(near):
            case["variants"] += [[f"near_alone{j}", [rs(b)]], [f"near_pair_reversed{j}", [rs(b), rs(a)]]]
        if entry.startswith("IrregularFunctionalData"):
            # pooled time stamps of several curves: observation k is sampled at the common stamps shifted by k tiny steps
            step = hdat * Fraction(1, 2 ** 24)
            for kobs, o in enumerate(case["obs"]):
                ts = [F(t) for t in o["t"]]
                o["t"] = [rs(t + kobs * step) if 0 < i < len(ts) - 1 else rs(t) for i, t in enumerate(ts)]
            pooled_pts = sorted(set(F(t) for o in case["obs"] for t in o["t"]))
            mid = len(pooled_pts) // 2
            case["variants"].append(["pooled_stamps", [rs(t) for t in pooled_pts[mid - 4: mid + 4]]])
            case["variants"].append(["pooled_stamps_thin", [rs(t) for t in pooled_pts[mid - 4: mid + 4: 3]]])
    # query-set SIZES around typical thresholds (101/102, 129, 257 points per direction), data kept tiny
    if entry.endswith("covariance") and (force.get("bigq") or rng.random() < 0.12):
        N = 102 if method == "LP" else rng.choice([102, 129])
        k0 = rng.randint(20, 60)
        Qb = [Fraction(k, 256) for k in range(k0, k0 + N)]
        case["bigq"] = N
        case["Q"] = [rs(t) for t in _scale_pts(dom, Qb)]
        pick = lambda v: [rs(t) for t in _scale_pts(dom, v)]  # noqa: E731
        case["variants"] = [["few", pick(Qb[3::20][:6])], ["every5th", pick(Qb[::5])], ["single", pick([Qb[N // 2]])], ["pair", pick([Qb[1], Qb[-2]])]]
        if method == "PS":
            case["variants"].append(["first101", pick(Qb[:101])])
        if method == "LP":
            case["degree"], case["hu"] = 1, rs(Fraction(3, 4))
    elif not two_d and not entry.endswith("covariance") and not case.get("pooled") and (force.get("many") or rng.random() < 0.2):
        N = rng.choice([102, 129, 257] if method == "PS" else [102, 129])
        base = set(F(t) for t in case["Q"])
        lo_, sc_ = _domain(dom)
        k = 1
        while len(base) < N:
            base.add(lo_ + sc_ * Fraction(k, 1024))
            k += 1023 // N
        case["variants"].append(["many", [rs(t) for t in sorted(base)]])
        case["many"] = N
    if method == "LP" and not entry.startswith(("PSplines", "LocalPolynomial")) and not two_d and not gap and not case.get("bigq") and dom in ("unit", "end0") and rng.random() < 0.5:
        case["default_bw"] = True  # the entry point's own default bandwidth (a function of the DATA, not of the query set)
    # a request that LOOKS like the sampling grid — as many points in every dimension, the same first and last points — but
    # has other interior points (squared grid, jittered interior, interior permuted); sub-requests: single points, halves,
    # the sampling grid itself
    if force.get("samegrid") and "x" in case and not case.get("int_axis0"):
        kind_sg = force["samegrid"]

        def like_grid(key, dname):
            xs = [F(t) for t in case[key]]
            lo_, hi_ = xs[0], xs[-1]
            inner = xs[1:-1]
            if kind_sg == "squared":
                new = [lo_ + (hi_ - lo_) * ((t - lo_) / (hi_ - lo_)) ** 2 for t in inner]
            elif kind_sg == "jittered":
                new = [t + (xs[i + 2] - t) * Fraction(1, 8) for i, t in enumerate(inner)]
            else:  # the same points, the interior in another order
                new = inner[1:] + inner[:1] if len(inner) > 1 else inner
                new = new[::-1] if new == inner else new
            return [rs(lo_)] + [rs(t) for t in new] + [rs(hi_)]

        case["samegrid"] = kind_sg
        Q1 = like_grid("x", dom)
        half = len(Q1) // 2
        if two_d:
            Q2 = like_grid("x2", case["dom2"])
            h2 = len(Q2) // 2
            case["Q"], case["Q2"] = Q1, Q2
            case["variants"] = [["sampling_grid", case["x"], case["x2"]], ["first_halves", Q1[:half + 1], Q2[:h2 + 1]], ["single_interior", [Q1[1]], [Q2[1]]],
                                ["rows_only_like_grid", Q1, case["x2"]], ["one_row", [Q1[half]], Q2], ["second_halves", Q1[half:], Q2[h2:]]]
        else:
            case["Q"] = Q1
            case["variants"] = [["sampling_grid", case["x"]], ["first_half", Q1[:half + 1]], ["second_half", Q1[half:]], ["single_interior", [Q1[1]]],
                                ["single_interior2", [Q1[-2]]], ["interior_only", Q1[1:-1]], ["sorted", sorted(Q1, key=F)]]
        for k_ in ("near", "many", "outside", "bigq"):
            case.pop(k_, None)
    return case


def gen_cases(rng: Rng, tier):
    n = dict(quick=150, thorough=2400)[tier]
    k = 0
    # structured head: every entry point with both methods, away from [0,1] too
    for entry in sorted(set(ENTRIES)):
        for method in ("PS", "LP"):
            for dom in ("unit", "doy", "end0"):
                yield _case(rng, tier, entry, dict(method=method, dom=dom, nonconst=True))
                k += 1
    for method in ("PS", "LP"):
        yield _case(rng, tier, "IrregularFunctionalData.mean", dict(method=method, dom=rng.choice(["unit", "end0", "doy"]), nonconst=True, pooled=True))
        k += 1
    for j, entry in enumerate(sorted(set(ENTRIES))):
        for method in ("PS", "LP"):
            if (entry.startswith("PSplines") and method == "LP") or (entry.startswith("LocalPolynomial") and method == "PS"):
                continue
            yield _case(rng, tier, entry, dict(method=method, dom=["unit", "doy", "end0", "neg"][j % 4], nonconst=True, outside=True, side=["both", "left", "right"][j % 3]))
            k += 1
    for kind_sg, entry in (("squared", "PSplines.predict"), ("jittered", "PSplines.predict"), ("permuted", "PSplines.predict"), ("squared", "PSplines.predict2d"),
                           ("permuted", "PSplines.predict2d"), ("squared", "DenseFunctionalData.smooth"), ("permuted", "DenseFunctionalData.mean"),
                           ("jittered", "DenseFunctionalData.smooth2d")):
        yield _case(rng, tier, entry, dict(method="PS", dom=rng.choice(["unit", "doy", "end0"]), nonconst=True, samegrid=kind_sg))
        k += 1
    for pn, method in ((1500, "LP"), (2000, "LP"), (2001, "LP"), (2500, "LP"), (1500, "PS")) + (((1999, "LP"), (2001, "PS"), (1999, "PS")) if tier == "thorough" else ()):
        yield _case(rng, tier, "IrregularFunctionalData.mean", dict(method=method, dom=rng.choice(["unit", "doy"]), nonconst=True, pooled_n=pn))
        k += 1
    for entry in ("LocalPolynomial.predict", "DenseFunctionalData.smooth", "DenseFunctionalData.mean", "IrregularFunctionalData.smooth", "IrregularFunctionalData.mean", "PSplines.predict"):
        yield _case(rng, tier, entry, dict(method="PS" if entry.startswith("PSplines") else "LP", dom=rng.choice(["unit", "doy", "shift1000"]), nonconst=True, near=True))
        k += 1
    for entry, method in (("DenseFunctionalData.covariance", "LP"), ("IrregularFunctionalData.covariance", "LP"), ("DenseFunctionalData.covariance", "PS")):
        yield _case(rng, tier, entry, dict(method=method, dom=rng.choice(["unit", "doy"]), nonconst=True, bigq=True))
        k += 1
    for entry, method in (("DenseFunctionalData.smooth2d", "LP"), ("DenseFunctionalData.smooth2d", "PS"), ("PSplines.predict2d", "PS")):
        yield _case(rng, tier, entry, dict(method=method, nonconst=True, int_axis0=True))
        k += 1
    for entry, method in (("PSplines.predict2d", "PS"), ("PSplines.predict2d", "PS"), ("DenseFunctionalData.smooth2d", "PS"), ("DenseFunctionalData.smooth2d", "LP"), ("LocalPolynomial.predict2d", "LP")):
        yield _case(rng, tier, entry, dict(method=method, nonconst=True, same_axes=True))
        k += 1
    for entry in ("LocalPolynomial.predict", "DenseFunctionalData.smooth", "DenseFunctionalData.mean", "IrregularFunctionalData.smooth", "IrregularFunctionalData.mean"):
        yield _case(rng, tier, entry, dict(method="LP", dom=rng.choice(["unit", "doy", "end0"]), nonconst=True, gap=True, far=True, far_h=Fraction(1, 64)))
        k += 1
    for entry in ("LocalPolynomial.predict", "DenseFunctionalData.smooth"):
        yield _case(rng, tier, entry, dict(method="LP", dom="unit", nonconst=True, gap=True, far=True, far_h=Fraction(1, 128)))
        k += 1
    for entry in ("LocalPolynomial.predict", "DenseFunctionalData.smooth", "DenseFunctionalData.mean", "IrregularFunctionalData.smooth", "IrregularFunctionalData.mean"):
        yield _case(rng, tier, entry, dict(method="LP", dom=rng.choice(["unit", "doy", "neg"]), nonconst=True, gap=True))
        k += 1
    while k < n:
        yield _case(rng, tier)
        k += 1


def search_cases(rng, tier):
    for entry in sorted(set(ENTRIES)):
        for method in ("PS", "LP"):
            for _ in range(3):
                yield _case(rng, tier, entry, dict(method=method, nonconst=True))


def witness_cases():
    return []


TRANSLATOR_NOTE = None


def translate():
    """Regenerate Generated/SmoothFormulas.lean (and, through C06's translator, Generated/Kernels.lean, which the shared
    local-polynomial model imports) from the source under test; an unrecognised shape falls back on the reference."""
    global TRANSLATOR_NOTE
    c06.translate()
    TRANSLATOR_NOTE = c06.TRANSLATOR_NOTE


def extra_coverage(cases, impls, models):
    return dict(translator=TRANSLATOR_NOTE)


# --------------------------------------------------------------------------
# implementation side
# --------------------------------------------------------------------------

def _Fv(v):
    return [F(t) for t in v]


def _np(v):
    return np.array(fl(_Fv(v)))


class _Recorder:
    """Subclass PSplines / LocalPolynomial from outside and record fits / predict arguments."""

    def __init__(self):
        import FDApy.representation.functional_data as fdm
        from FDApy.preprocessing.smoothing.local_polynomial import LocalPolynomial
        from FDApy.preprocessing.smoothing.psplines import PSplines

        self.fdm = fdm
        self.log = log = []
        self.orig = (fdm.PSplines, fdm.LocalPolynomial)

        class RecPS(PSplines):
            def fit(self, y, x, sample_weights=None, penalty=None, **kw):
                r = PSplines.fit(self, y, x, sample_weights=sample_weights, penalty=penalty, **kw)
                xs = [x] if isinstance(x, np.ndarray) else list(x)
                dmin = kw.get("domain_min", [None] * len(xs))
                dmax = kw.get("domain_max", [None] * len(xs))
                dom = [(float(np.min(a)) if lo is None else float(lo), float(np.max(a)) if hi is None else float(hi)) for a, lo, hi in zip(xs, dmin, dmax)]
                log.append(dict(kind="ps", penalty=[float(v) for v in np.atleast_1d(penalty)] if penalty is not None else None, beta=np.array(self.beta_hat, dtype=float), dom=dom, nseg=[int(v) for v in np.atleast_1d(self.n_segments)],
                                deg=[int(v) for v in np.atleast_1d(self.degree)]))
                return r

        class RecLP(LocalPolynomial):
            def predict(self, y, x, x_new=None):
                out = LocalPolynomial.predict(self, y, x, x_new)
                log.append(dict(kind="lp", y=np.array(y, dtype=float), x=np.array(x, dtype=float), kernel=self.kernel_name, h=float(self.bandwidth), degree=int(self.degree)))
                return out

        self.RecPS, self.RecLP = RecPS, RecLP

    def __enter__(self):
        self.fdm.PSplines, self.fdm.LocalPolynomial = self.RecPS, self.RecLP
        return self

    def __exit__(self, *a):
        self.fdm.PSplines, self.fdm.LocalPolynomial = self.orig

    def take(self):
        out = list(self.log)
        del self.log[:]
        return out


def _fit_rec(r):
    return dict(beta=r["beta"].tolist(), dom=r["dom"], nseg=r["nseg"], deg=r["deg"], penalty=r.get("penalty"))


def _lp_rec(r):
    x = r["x"]
    if x.ndim == 2 and x.shape[1] == 1:
        x = x[:, 0]
    return dict(x=x.tolist(), y=r["y"].tolist(), kernel=r["kernel"], h=r["h"], degree=r["degree"])


def _np0(case, v, name=None):
    """First-axis array: int64 when the case asks for an integer first axis (except for the query set 'asfloat')."""
    if case.get("int_axis0") and name != "asfloat":
        return np.array([int(F(t)) for t in v], dtype=np.int64)
    return _np(v)


def _product(a, b):
    """Cartesian product of two coordinate arrays as floats (independent of FDApy's helper)."""
    A, B = np.meshgrid(np.asarray(a, dtype=float), np.asarray(b, dtype=float), indexing="ij")
    return np.column_stack([A.ravel(), B.ravel()])


def _dargs(v, v2=None, case=None, name=None):
    from FDApy.representation.argvals import DenseArgvals

    d = {"input_dim_0": _np0(case, v, name) if case is not None else _np(v)}
    if v2 is not None:
        d["input_dim_1"] = d["input_dim_0"] if (v2 == v and d["input_dim_0"].dtype == float) else _np(v2)   # same object when the axes coincide
    return DenseArgvals(d)


def _calls(case):
    """[(name, pts, pts2)] — the base query set first."""
    if case["dim"] == 2:
        return [("Q", case["Q"], case["Q2"])] + [(v[0], v[1], v[2]) for v in case["variants"]]
    return [("Q", case["Q"], None)] + [(v[0], v[1], None) for v in case["variants"]]


def run_impl(case):
    import warnings

    warnings.simplefilter("ignore")
    from FDApy.preprocessing.smoothing.local_polynomial import LocalPolynomial
    from FDApy.preprocessing.smoothing.psplines import PSplines
    from FDApy.representation.argvals import DenseArgvals, IrregularArgvals
    from FDApy.representation.functional_data import DenseFunctionalData, IrregularFunctionalData
    from FDApy.representation.values import DenseValues, IrregularValues

    entry, method, dim = case["entry"], case["method"], case["dim"]
    lo, sc = _domain(case["dom"])
    out = dict(calls=[])
    if method == "LP":
        h = float(F(case["hu"]) * sc)
    calls = _calls(case)

    # ---------------- the smoothers themselves
    if entry == "PSplines.predict":
        if dim == 1:
            x, y = _np(case["x"]), _np(case["y"])
            ps = PSplines(n_segments=case["nseg"][0], degree=case["deg"][0])
            kw = {}
            if "fit_domain" in case:
                kw = dict(domain_min=[float(F(case["fit_domain"][0]))], domain_max=[float(F(case["fit_domain"][1]))])
            ps.fit(y, x, penalty=(float(F(case["pen"][0])),), **kw)
            dom = [(float(F(case["fit_domain"][0])), float(F(case["fit_domain"][1])))] if kw else [(float(x.min()), float(x.max()))]
            fit = dict(beta=np.array(ps.beta_hat).tolist(), dom=dom, nseg=[case["nseg"][0]], deg=[case["deg"][0]])
            for nm, pts, _ in calls:
                out["calls"].append(dict(name=nm, vals=np.asarray(ps.predict(_np(pts))).tolist(), fits=[fit]))
            out["y_hat"] = np.asarray(ps.y_hat).tolist()
            out["at_x"] = np.asarray(ps.predict(x)).tolist()
            out["none"] = np.asarray(ps.predict()).tolist()
            # one query buffer reused IN PLACE for successive query sets of the same length (strided view, too)
            buf = np.repeat(_np(case["Q"]), 2)[::2]
            first = np.asarray(ps.predict(buf)).tolist()
            pv = ([v[1] for v in case["variants"] if v[0] in ("perm", "reversed") and len(v[1]) == len(case["Q"])] + [case["Q"][::-1]])[0]
            buf[:] = _np(pv)
            out["inplace"] = dict(first=first, pts=pv, second=np.asarray(ps.predict(buf)).tolist())
            # results KEPT across calls on one object (same number of query points): they must stay what they were and
            # must not share memory with later results
            qa, qb = _np(case["Q"]), _np(pv)
            k1 = ps.predict(qa)
            k1_copy = np.array(k1, copy=True)
            k2 = ps.predict(qb)
            k3 = ps.predict(qa)
            yh_kept = ps.y_hat
            yh_copy = np.array(yh_kept, copy=True)
            out["kept"] = dict(changed=bool(not np.array_equal(np.asarray(k1), k1_copy)), shares=bool(np.shares_memory(k1, k2) or np.shares_memory(k1, k3)),
                               first=np.asarray(k1).tolist(), again=np.asarray(k3).tolist())
            # history on one object: refit on other data (other domain, no explicit fit domain), compare with a fresh object
            x2, y2, q2 = 2.0 * x + 3.0, y[::-1].copy(), 2.0 * _np(case["Q"]) + 3.0
            ps.fit(y2, x2, penalty=(float(F(case["pen"][0])),))
            out["hist_same"] = np.asarray(ps.predict(q2)).tolist()
            fresh = PSplines(n_segments=case["nseg"][0], degree=case["deg"][0])
            fresh.fit(y2, x2, penalty=(float(F(case["pen"][0])),))
            out["hist_fresh"] = np.asarray(fresh.predict(q2)).tolist()
            out["kept"]["y_hat_changed_by_refit"] = bool(not np.array_equal(np.asarray(yh_kept), yh_copy))
        else:
            x1, x2 = _np0(case, case["x"]), _np(case["x2"])
            Y = np.array([[float(F(t)) for t in r] for r in case["Y"][0]])
            ps = PSplines(n_segments=np.array(case["nseg"]), degree=np.array(case["deg"]))
            ps.fit(Y, [x1, x2], penalty=tuple(float(F(p)) for p in case["pen"]))
            fit = dict(beta=np.array(ps.beta_hat).tolist(), dom=[(float(x1.min()), float(x1.max())), (float(x2.min()), float(x2.max()))], nseg=case["nseg"], deg=case["deg"])
            for nm, p1, p2 in calls:
                a1 = _np0(case, p1, nm)
                a2 = a1 if (p2 == p1 and a1.dtype == float) else _np(p2)       # same object when the axes coincide
                out["calls"].append(dict(name=nm, vals=np.asarray(ps.predict([a1, a2])).tolist(), fits=[fit]))
            out["y_hat"] = np.asarray(ps.y_hat).tolist()
            out["at_x"] = np.asarray(ps.predict([x1, x2])).tolist()
        return out
    if entry == "LocalPolynomial.predict":
        lp = LocalPolynomial(kernel_name=case["kernel"], bandwidth=h, degree=case["degree"])
        if dim == 1:
            x, y = _np(case["x"]), _np(case["y"])
            rec = dict(x=x.tolist(), y=y.tolist(), kernel=case["kernel"], h=h, degree=case["degree"])
            for nm, pts, _ in calls:
                out["calls"].append(dict(name=nm, vals=lp.predict(y=y, x=x, x_new=_np(pts)).tolist(), lps=[rec]))
            ux = np.unique(x)
            out["at_x"] = lp.predict(y=y, x=x, x_new=ux).tolist()
            out["none"] = lp.predict(y=y, x=x).tolist()
            # one query buffer reused IN PLACE for successive query sets of the same length
            buf = _np(case["Q"]).copy()
            first = lp.predict(y=y, x=x, x_new=buf).tolist()
            pv = ([v[1] for v in case["variants"] if v[0] in ("perm", "reversed") and len(v[1]) == len(case["Q"])] + [case["Q"][::-1]])[0]
            buf[:] = _np(pv)
            out["inplace"] = dict(first=first, pts=pv, second=lp.predict(y=y, x=x, x_new=buf).tolist())
        else:
            x1, x2 = _np(case["x"]), _np(case["x2"])
            X = _product(x1, x2)
            y = np.array([[float(F(t)) for t in r] for r in case["Y"][0]]).flatten()
            rec = dict(x=X.tolist(), y=y.tolist(), kernel=case["kernel"], h=h, degree=case["degree"])
            for nm, p1, p2 in calls:
                P = _product(_np(p1), _np(p2))
                out["calls"].append(dict(name=nm, vals=lp.predict(y=y, x=X, x_new=P).reshape(len(p1), len(p2)).tolist(), lps=[rec]))
        return out

    # ---------------- the helper _smooth_covariance called directly (rectangular requests)
    if entry == SC_ENTRY:
        import FDApy.representation.functional_data as fdm

        C = np.array([[float(F(t)) for t in r] for r in case["C"]])
        av = _dargs(case["x"], case["x2"])
        if method == "PS":
            kw = dict(n_segments=np.array(case["nseg"]), degree=np.array(case["deg"]), penalty=tuple(float(F(p)) for p in case["pen"]))
        else:
            kw = dict(kernel_name=case["kernel"], bandwidth=h, degree=case["degree"])
        with _Recorder() as rec:
            for ci, (nm, p1, p2) in enumerate(calls):
                try:
                    res = fdm._smooth_covariance(C.copy(), av, _dargs(p1, p2), method_smoothing=method, remove_diagonal=True, **dict(kw))
                except Exception as e:  # noqa: BLE001
                    if ci == 0:
                        raise
                    rec.take()
                    out["calls"].append(dict(name=nm, err=f"{type(e).__name__}: {str(e)[:120]}"))
                    continue
                log = rec.take()
                c = dict(name=nm, vals=[np.asarray(res, dtype=float).tolist()])
                if np.asarray(res).shape != (len(p1), len(p2)):
                    c["err"] = f"result of shape {np.asarray(res).shape} for a request of {len(p1)} x {len(p2)} points"
                if method == "PS":
                    fits = [r for r in log if r["kind"] == "ps"][-1:]
                    c["fits"] = [_fit_rec(r) for r in fits]
                    c["seen"] = [dict(nseg=r["nseg"], deg=r["deg"], penalty=r.get("penalty")) for r in fits]
                else:
                    lps = [r for r in log if r["kind"] == "lp"][:1]
                    c["lps"] = [_lp_rec(r) for r in lps]
                    c["seen"] = [dict(kernel=r["kernel"], h=r["h"], degree=r["degree"]) for r in lps]
                out["calls"].append(c)
        return out

    # ---------------- entry points of the data classes
    kwargs = {}
    if method == "PS":
        kwargs = dict(n_segments=case["nseg"][0], degree=case["deg"][0]) if dim == 1 else dict(n_segments=np.array(case["nseg"]), degree=np.array(case["deg"]))
    if entry.startswith("DenseFunctionalData"):
        if dim == 1:
            fd = DenseFunctionalData(_dargs(case["x"]), DenseValues(np.array([[float(F(t)) for t in r] for r in case["X"]])))
        else:
            fd = DenseFunctionalData(_dargs(case["x"], case["x2"], case), DenseValues(np.array([[[float(F(t)) for t in r] for r in Yk] for Yk in case["Y"]])))
    else:
        arg = IrregularArgvals({i: DenseArgvals({"input_dim_0": _np(o["t"])}) for i, o in enumerate(case["obs"])})
        val = IrregularValues({i: _np(o["y"]) for i, o in enumerate(case["obs"])})
        fd = IrregularFunctionalData(arg, val)
    what = entry.split(".")[1]
    bw = {} if case.get("default_bw") or method != "LP" else dict(bandwidth=h)

    def call(points):
        if what == "smooth":
            if method == "PS":
                pen = [float(F(p)) for p in case["pen"][:dim]]
                return fd.smooth(points=points, method="PS", penalty=pen, **kwargs)
            return fd.smooth(points=points, method="LP", kernel_name=case["kernel"], degree=case["degree"], **bw)
        if what == "mean":
            if method == "PS":
                return fd.mean(points=points, method_smoothing="PS", penalty=[float(F(p)) for p in case["pen"][:dim]], **kwargs)
            return fd.mean(points=points, method_smoothing="LP", kernel_name=case["kernel"], degree=case["degree"], **bw)
        if method == "PS":
            return fd.covariance(points=points, method_smoothing="PS", n_segments=case["nseg"][0], degree=case["deg"][0], penalty=tuple(float(F(p)) for p in case["pen"]))
        return fd.covariance(points=points, method_smoothing="LP", degree=case["degree"], kernel_name=case["kernel"], **bw)

    with _Recorder() as rec:
        for ci, (nm, p1, p2) in enumerate(calls):
            try:
                res = call(_dargs(p1, p2, case, nm))
            except Exception as e:  # noqa: BLE001 — a failing further query set must not hide the others
                if ci == 0:
                    raise
                rec.take()
                out["calls"].append(dict(name=nm, err=f"{type(e).__name__}: {str(e)[:120]}"))
                continue
            log = rec.take()
            c = dict(name=nm, vals=np.asarray(res.values).tolist())
            if method == "PS":
                fits = [r for r in log if r["kind"] == "ps"]
                if what == "covariance":
                    fits = [r for r in fits if len(r["dom"]) == 2][-1:]
                elif what == "mean":
                    fits = fits[-1:]
                c["fits"] = [_fit_rec(r) for r in fits]
            else:
                lps = [r for r in log if r["kind"] == "lp"]
                if what == "covariance":
                    lps = [r for r in lps if r["x"].ndim == 2 and r["x"].shape[1] == 2][:1]
                elif what == "mean":
                    lps = lps[-1:]
                c["lps"] = [_lp_rec(r) for r in lps]
            c["seen"] = [dict(nseg=r["nseg"], deg=r["deg"], penalty=r.get("penalty")) if r["kind"] == "ps" else dict(kernel=r["kernel"], h=r["h"], degree=r["degree"])
                         for r in (fits if method == "PS" else lps)]
            out["calls"].append(c)
        # history on one object: the base query set again, after all the other calls
        if not (case.get("bigq") and method == "LP"):
            out["repeat"] = np.asarray(call(_dargs(calls[0][1], calls[0][2], case)).values).tolist()
            rec.take()
        # evaluating at the original sampling points returns the fitted curve
        if what in ("smooth", "mean") and entry.startswith("DenseFunctionalData"):
            out["none"] = np.asarray(call(None).values).tolist()
            out["at_x"] = np.asarray(call(_dargs(case["x"], case.get("x2") if dim == 2 else None, case)).values).tolist()
    return out


# --------------------------------------------------------------------------
# model side
# --------------------------------------------------------------------------

def _fr(x):
    return rs(F(float(x)))


def _locs(case, call_idx):
    """Location keys of the flattened output of call number `call_idx`."""
    nm, p1, p2 = _calls(case)[call_idx]
    what = case["entry"].split(".")[1]
    if what == "covariance":
        return [(0, a, b) for a in p1 for b in p1]
    if case["dim"] == 2:
        return None  # needs n_obs; handled in _flat
    return None


def _flat(case, call_idx, vals):
    """[(loc, value)] for one call. loc = (obs, q) / (obs, q1, q2)."""
    nm, p1, p2 = _calls(case)[call_idx]
    what = case["entry"].split(".")[1]
    a = np.asarray(vals, dtype=float)
    out = []
    if what == "covariance":
        a = a.reshape(len(p1), len(p1))
        for i, q in enumerate(p1):
            for j, r in enumerate(p1):
                out.append(((0, q, r), float(a[i, j])))
        return out
    if case["dim"] == 2:
        a = a.reshape(-1, len(p1), len(p2))
        for k in range(a.shape[0]):
            for i, q in enumerate(p1):
                for j, r in enumerate(p2):
                    out.append(((k, q, r), float(a[k, i, j])))
        return out
    a = a.reshape(-1, len(p1))
    for k in range(a.shape[0]):
        for i, q in enumerate(p1):
            out.append(((k, q), float(a[k, i])))
    return out


def _default_bandwidth(case):
    """n^(-1/5) with n the number of sampling points of the DATA (as documented by the entry points)."""
    what = case["entry"].split(".")[1]
    if case["entry"].startswith("DenseFunctionalData"):
        m = len(case["x"])
        return float(np.prod((m, m)) ** (-1 / 5)) if what == "covariance" else float(np.prod((m,)) ** (-1 / 5))
    sizes = [len(o["t"]) for o in case["obs"]]
    if what == "covariance":
        m = len(sorted(set(t for o in case["obs"] for t in o["t"])))
        return float(np.prod((m, m)) ** (-1 / 5))
    return float(np.mean(sizes) ** (-1 / 5))


def _modelled(case, p1, p2):
    """Is this call evaluated by the (exact, hence expensive) model?  Large query sets are checked by the oracle only."""
    what = case["entry"].split(".")[1]
    if what == "covariance":
        return len(p1) <= 12
    if p2 is not None:
        return len(p1) * len(p2) <= 150
    if case.get("pooled_n"):
        return len(p1) <= (60 if case["pooled_n"] > 2000 else 11)
    return len(p1) <= (300 if case["method"] == "PS" else 140)


def _requested(case):
    """The smoothing options the case asked for (what the model uses; the data / coefficients are the captured ones)."""
    what = case["entry"].split(".")[1]
    if case["method"] == "LP":
        _, sc = _domain(case["dom"])
        if case.get("default_bw"):
            return dict(kernel=case["kernel"], h=F(_default_bandwidth(case)), degree=case["degree"])
        return dict(kernel=case["kernel"], h=F(case["hu"]) * sc, degree=case["degree"])
    if what == "covariance":
        return dict(nseg=[case["nseg"][0]] * 2, deg=[case["deg"][0]] * 2, penalty=[float(F(p)) for p in case["pen"]])
    d = case["dim"]
    return dict(nseg=case["nseg"][:d], deg=case["deg"][:d], penalty=[float(F(p)) for p in case["pen"][:d]])


def model_lines(case, impl):
    if "__crash__" in impl:
        return []
    J = ",".join
    lines = []
    what = case["entry"].split(".")[1]
    req = _requested(case)
    for ci, (c, (nm, p1, p2)) in enumerate(zip(impl["calls"], _calls(case))):
        if "err" in c or not _modelled(case, p1, p2):
            continue
        if "fits" in c:
            for f in c["fits"]:
                if len(f["dom"]) == 1:
                    (a, b), = f["dom"]
                    lines.append(f"ps1 {_fr(a)} {_fr(b)} {req['nseg'][0]} {req['deg'][0]} {J(_fr(v) for v in f['beta'])} {J(p1)}")
                else:
                    (a1, b1), (a2, b2) = f["dom"]
                    B = ";".join(J(_fr(v) for v in row) for row in f["beta"])
                    head = f"{_fr(a1)} {_fr(b1)} {req['nseg'][0]} {req['deg'][0]} {_fr(a2)} {_fr(b2)} {req['nseg'][1]} {req['deg'][1]} {B}"
                    if what == "covariance":
                        lines.append(f"cov {head} {J(p1)}")
                    else:
                        lines.append(f"ps2 {head} {J(p1)} {J(p2)}")
        else:
            for r in c["lps"]:
                x = np.asarray(r["x"], dtype=float)
                if x.ndim == 1:
                    lines.append(f"lp1 {req['kernel']} {rs(req['h'])} {req['degree']} {J(_fr(v) for v in x)} {J(_fr(v) for v in r['y'])} {J(p1)}")
                else:
                    if what == "covariance":
                        q1 = [a for a in p1 for _ in p1]
                        q2 = [b for _ in p1 for b in p1]
                    else:
                        q1 = [a for a in p1 for _ in p2]
                        q2 = [b for _ in p1 for b in p2]
                    lines.append(f"lp2 {req['kernel']} {rs(req['h'])} {req['degree']} {J(_fr(v) for v in x[:, 0])} {J(_fr(v) for v in x[:, 1])} {J(_fr(v) for v in r['y'])} {J(q1)} {J(q2)}")
    if case.get("default_bw"):
        lines.append(_bwcount_line(case))
    return lines


def _bwcount_line(case):
    """Request for the model's `bandwidthCount` (the n of the default bandwidth n^(-1/5)) of this entry point."""
    what = case["entry"].split(".")[1]
    if case["entry"].startswith("DenseFunctionalData"):
        return f"bwcount {'covariance' if what == 'covariance' else 'dense'} {len(case['x'])}"
    if what == "covariance":
        return f"bwcount covariance {len(set(t for o in case['obs'] for t in o['t']))}"
    return "bwcount irregular " + ",".join(str(len(o["t"])) for o in case["obs"])


def parse_model(case, outs):
    return dict(outs=outs)


def _ps_tol(f, scale):
    t = 0.0
    for (a, b), ns, dg in zip(f["dom"], f["nseg"], f["deg"]):
        dx = (b - a) / ns
        t += 1 + dg * max(abs(a), abs(b)) / dx
    amp = 1.0
    if len(f["dom"]) == 2:
        # the 2-D scale is Σ|β| B B (no term sums): account for the cancellation inside each B
        for ns, dg in zip(f["nseg"], f["deg"]):
            amp = max(amp, float((ns + 2 * dg) ** dg * 2 ** (dg + 1)))
    return 64 * EPS * t * amp * max(1.0, scale)


def compare(case, impl, model):
    if "__crash__" in impl:
        return [f"implementation crashed: {impl['__crash__']} {impl.get('msg')}"]
    outs = list(model["outs"])
    req = _requested(case)
    ds = []
    if case.get("default_bw"):
        # the default bandwidth that reached the smoother is n^(-1/5) with the model's n (a function of the data only)
        cnt = outs.pop()
        if cnt.startswith(("error", "bad")):
            ds.append(f"model rejects the bandwidth count request: {cnt}")
        else:
            for c in impl["calls"]:
                for seen in c.get("seen", []):
                    if "h" in seen and not abs(seen["h"] ** -5 - float(Fraction(cnt))) <= 1e-9 * float(Fraction(cnt)):
                        ds.append(f"default bandwidth {seen['h']!r} is not n^(-1/5) with the model's n = {cnt} (call {c['name']})")
                        break
    what = case["entry"].split(".")[1]
    k = 0
    worst = 0.0
    for ci, (c, (nm, p1, p2)) in enumerate(zip(impl["calls"], _calls(case))):
        if "err" in c or not _modelled(case, p1, p2):
            continue
        flat = _flat(case, ci, c["vals"])
        if "fits" in c:
            nfit = len(c["fits"])
            per = len(flat) // max(nfit, 1)
            if nfit == 0 or per * nfit != len(flat):
                ds.append(f"call {nm}: {nfit} captured fits for {len(flat)} output values")
                k += nfit
                continue
            for fi, f in enumerate(c["fits"]):
                o = outs[k]
                k += 1
                if o.startswith("error") or o.startswith("bad"):
                    ds.append(f"call {nm}: model rejects the fit: {o}")
                    continue
                v, s = o.split(" ")
                if len(f["dom"]) == 1:
                    qs, ss = [Fraction(t) for t in v.split(",")], [Fraction(t) for t in s.split(",")]
                else:
                    qs = [Fraction(t) for r in v.split(";") for t in r.split(",")]
                    ss = [Fraction(t) for r in s.split(";") for t in r.split(",")]
                chunk = flat[fi * per : (fi + 1) * per]
                for (loc, fv), q, sc in zip(chunk, qs, ss):
                    tol = _ps_tol(dict(dom=f["dom"], nseg=req["nseg"], deg=req["deg"]), float(sc))
                    dev = abs(fv - float(q)) if np.isfinite(fv) else float("inf")
                    worst = max(worst, dev / tol if tol > 0 else 0)
                    if not dev <= tol:
                        ds.append(f"{case['entry']} [{case['method']}] call {nm} at {loc}: impl {fv!r} vs spline with the implementation's coefficients on the fit domain {f['dom']}: {float(q)!r} (tol {tol:.2g})")
                        break
        else:
            nlp = len(c["lps"])
            per = len(flat) // max(nlp, 1)
            if nlp == 0 or per * nlp != len(flat):
                ds.append(f"call {nm}: {nlp} captured local-polynomial calls for {len(flat)} output values")
                k += nlp
                continue
            for li, r in enumerate(c["lps"]):
                o = outs[k]
                k += 1
                if o.startswith("error") or o.startswith("bad"):
                    ds.append(f"call {nm}: model rejects: {o}")
                    continue
                est = o.split(",")
                chunk = flat[li * per : (li + 1) * per]
                x = np.asarray(r["x"], dtype=float)
                y = np.asarray(r["y"], dtype=float)
                if x.ndim == 1:
                    qq = np.array([float(F(loc[1])) for loc, _ in chunk])
                else:
                    qq = np.array([[float(F(loc[1])), float(F(loc[2]))] for loc, _ in chunk])
                _, cond, npos = c06.reference_wls(x, y, qq, float(req["h"]), req["kernel"], req["degree"])
                sc = max(float(np.max(np.abs(y))) if y.size else 0.0, 1e-300)
                for (loc, fv), e, cd in zip(chunk, est, cond):
                    if not np.isfinite(fv):
                        ds.append(f"call {nm} at {loc}: non-finite value {fv!r}")
                        break
                    if e == "s" or not np.isfinite(cd) or cd > c06.COND_OK:
                        continue
                    if abs(fv - float(Fraction(e))) > c06.RTOL_MODEL * sc:
                        ds.append(f"{case['entry']} [LP] call {nm} at {loc}: impl {fv!r} vs exact local polynomial estimate {float(Fraction(e))!r}")
                        break
    return ds[:4]


# --------------------------------------------------------------------------
# the property's own predicate, evaluated on the implementation
# --------------------------------------------------------------------------

def oracle(case, impl):
    entry = case["entry"]
    if "__crash__" in impl:
        return [dict(clause="runs", entry=entry, msg=f"crash {impl['__crash__']}: {impl.get('msg')} {impl.get('tb', '')[-300:]}", causes=[case["method"]])]
    vs = []
    causes = [case["method"], f"dim{case['dim']}", case["dom"]]

    def bad(clause, msg, extra=()):
        if not any(v["clause"] == clause for v in vs):
            vs.append(dict(clause=clause, entry=entry, msg=msg, causes=causes + list(extra)))

    calls = _calls(case)
    base = dict()
    flat0 = _flat(case, 0, impl["calls"][0]["vals"])
    amp = max([abs(v) for _, v in flat0 if np.isfinite(v)] + [1.0])
    # local polynomial values are computed location by location: the unchanged tree is bit-identical across query sets,
    # so the clause is judged at 1e-13 relative there (P-spline values go through BLAS products: 1e-9)
    tol = (1e-13 if case["method"] == "LP" else 1e-9) * amp
    for loc, v in flat0:
        if not np.isfinite(v):
            bad("finite", f"non-finite value {v!r} at {loc} for the base query set")
        base.setdefault(loc, v)
    for ci in range(1, len(calls)):
        nm = calls[ci][0]
        if "err" in impl["calls"][ci]:
            bad("runs", f"[{case['method']}] query set '{nm}'={calls[ci][1]} raises {impl['calls'][ci]['err']} (the base query set is accepted)")
            continue
        fl_ = _flat(case, ci, impl["calls"][ci]["vals"])
        expected = len(calls[ci][1]) * (len(calls[ci][2]) if calls[ci][2] is not None else 1)
        for loc, v in fl_:
            if not np.isfinite(v):
                bad("finite", f"non-finite value {v!r} at {loc} for query set '{nm}'")
                continue
            if loc in base and abs(v - base[loc]) > tol:
                same_range = (min(map(F, calls[ci][1])) == min(map(F, calls[0][1]))) and (max(map(F, calls[ci][1])) == max(map(F, calls[0][1])))
                clause = "permutation" if nm == "perm" else "query_set_independence"
                sh = lambda v: str(v) if len(v) <= 10 else f"[{', '.join(map(repr, v[:4]))}, … {len(v)} points … {v[-1]!r}]"  # noqa: E731
                bad(clause, f"[{case['method']}] value at {loc} is {base[loc]!r} when requested within Q={sh(calls[0][1])}"
                            f"{' x ' + sh(calls[0][2]) if calls[0][2] else ''} but {v!r} within '{nm}'={sh(calls[ci][1])}{' x ' + sh(calls[ci][2]) if calls[ci][2] else ''}",
                    ["query_range_differs"] if not same_range else ["same_query_range"])
    # partition of unity + non-negativity of the B-splines: inside the fit domain a P-spline prediction lies between the
    # smallest and the largest coefficient of the fit (C07.predict_between_min_max; tensor products likewise)
    for ci, c in enumerate(impl["calls"]):
        if "err" in c or "fits" not in c or not c["fits"]:
            continue
        flat = _flat(case, ci, c["vals"])
        per = len(flat) // len(c["fits"])
        for fi, fit in enumerate(c["fits"]):
            if min(fit["deg"]) < 1 or per * len(c["fits"]) != len(flat):
                continue
            b = np.asarray(fit["beta"], dtype=float)
            if not b.size or not np.all(np.isfinite(b)):
                continue
            lo_, hi_ = float(b.min()), float(b.max())
            slack = 1e-6 * max(1.0, float(np.abs(b).max()))
            for loc, v in flat[fi * per:(fi + 1) * per]:
                coords = [float(F(t)) for t in loc[1:]]
                if len(coords) != len(fit["dom"]) and not (len(coords) == 2 and len(fit["dom"]) == 2):
                    continue
                if all(d0 <= t <= d1 for t, (d0, d1) in zip(coords, fit["dom"])) and np.isfinite(v) and not (lo_ - slack <= v <= hi_ + slack):
                    bad("hull_of_coefficients", f"[PS] value {v!r} at {loc} inside the fit domain {fit['dom']} lies outside the range [{lo_!r}, {hi_!r}] of the fitted coefficients")
    # the smoothing options of the call reach the smoother (non-default values)
    req = _requested(case)
    for c in impl["calls"]:
        for seen in c.get("seen", []):
            if case["method"] == "PS":
                if seen["nseg"] != list(req["nseg"]) or seen["deg"] != list(req["deg"]):
                    bad("options_forwarded", f"requested n_segments/degree {req['nseg']}/{req['deg']} but the smoother was fitted with {seen['nseg']}/{seen['deg']}")
                if seen["penalty"] is None or [float(v) for v in seen["penalty"]] != [float(v) for v in req["penalty"]]:
                    bad("options_forwarded", f"requested penalty {req['penalty']} but the smoother was fitted with {seen['penalty']}")
            else:
                if seen["kernel"] != req["kernel"] or seen["degree"] != req["degree"] or abs(seen["h"] - float(req["h"])) > 1e-12 * float(req["h"]):
                    bad("options_forwarded", f"requested kernel/bandwidth/degree {req['kernel']}/{float(req['h'])}/{req['degree']} but the smoother used {seen['kernel']}/{seen['h']}/{seen['degree']}")
    # histories on one object
    if "repeat" in impl:
        a, b = np.asarray(impl["repeat"], dtype=float).ravel(), np.asarray(impl["calls"][0]["vals"], dtype=float).ravel()
        if a.shape != b.shape or not np.allclose(a, b, rtol=0, atol=tol):
            bad("history_independent", "the same query set gives another result after other query sets were requested on the same object")
    if "inplace" in impl:
        ip = impl["inplace"]
        for q, v in zip(calls[0][1], ip["first"]):
            if (0, q) in base and abs(v - base[(0, q)]) > tol:
                bad("history_independent", f"value at {q} differs between two calls with equal query sets ({v!r} vs {base[(0, q)]!r})", ["inplace"])
        for q, v in zip(ip["pts"], ip["second"]):
            if (0, q) in base and abs(v - base[(0, q)]) > tol:
                bad("history_independent", f"query buffer overwritten in place with a permutation: value at {q} is {v!r}, but {base[(0, q)]!r} when requested through a new array", ["inplace"])
    if "kept" in impl:
        kp = impl["kept"]
        if kp["changed"] or kp["shares"] or kp.get("y_hat_changed_by_refit"):
            bad("results_kept", f"a result kept from an earlier predict/fit call on the same PSplines object was overwritten by a later call (changed={kp['changed']}, shares memory={kp['shares']}, y_hat changed by refit={kp.get('y_hat_changed_by_refit')})")
        if not np.allclose(kp["first"], kp["again"], rtol=0, atol=tol):
            bad("history_independent", "the same request gives another result after another request of the same size")
    if "hist_same" in impl:
        a, b = np.asarray(impl["hist_same"], dtype=float), np.asarray(impl["hist_fresh"], dtype=float)
        if a.shape != b.shape or not np.allclose(a, b, rtol=0, atol=1e-9 * max(1.0, float(np.max(np.abs(b))))):
            i = int(np.argmax(np.abs(a - b)))
            bad("history_independent", f"a PSplines object refitted on other data predicts {a[i]!r}, a fresh object {b[i]!r} (stale state from the first fit)")
    # evaluation at the original sampling points returns the fitted curve
    if "at_x" in impl:
        a = np.asarray(impl["at_x"], dtype=float).ravel()
        ref = np.asarray(impl["y_hat"] if "y_hat" in impl else impl["none"], dtype=float).ravel()
        if a.shape != ref.shape:
            bad("at_sampling_points", f"shape {a.shape} vs fitted {ref.shape}")
        elif a.size and not np.allclose(a, ref, rtol=0, atol=1e-9 * max(1.0, float(np.max(np.abs(ref))))):
            i = int(np.argmax(np.abs(a - ref)))
            bad("at_sampling_points", f"[{case['method']}] evaluation at the sampling points gives {a[i]!r} but the fitted curve is {ref[i]!r} (flat index {i})")
    if "none" in impl and "y_hat" in impl:
        a, ref = np.asarray(impl["none"], dtype=float).ravel(), np.asarray(impl["y_hat"], dtype=float).ravel()
        if a.shape != ref.shape or not np.array_equal(a, ref):
            bad("at_sampling_points", "predict() without points is not the fitted curve")
    return vs


def nontrivial(case, impl):
    if "__crash__" in impl or case["ykind"] == "const":
        return None
    return digest(case)


def classify(case, impl):
    tags = ["entry:" + case["entry"] + ("(2d)" if case["dim"] == 2 else ""), "method:" + case["method"], "domain:" + case["dom"], "responses:" + case["ykind"]]
    for v in case["variants"]:
        tags.append("queryset:" + v[0].split("x")[0])
    if "fit_domain" in case:
        tags.append("explicit-fit-domain")
    if case.get("default_bw"):
        tags.append("default-bandwidth")
    if case.get("pooled"):
        tags.append("pooled>2000")
    if case.get("near"):
        tags.append("near-coincident-queries")
    if case.get("samegrid"):
        tags.append("request-looks-like-sampling-grid:" + case["samegrid"])
    if case.get("pooled_n"):
        tags.append(f"pooled-size:{case['pooled_n']}")
    if case.get("bigq") or case.get("many"):
        tags.append(f"query-size:{case.get('bigq') or case.get('many')}")
    if case.get("gap"):
        tags.append("gaussian-far-4..10h" if case.get("far") else "gap>2h")
    if case.get("int_axis0"):
        tags.append("int-dtype-axis0")
    if case.get("same_axes"):
        tags.append("coinciding-request-axes")
    if case.get("outside"):
        tags.append("request-outside-sampling-range:" + case["outside"])
    return tags
