"""C01 — FPCA components are ordered, non-negative and the leading ones are kept.

Correspondence: the eigen-solver is a parameter of the Lean model.  The harness
captures what LAPACK returned inside the FDApy call (`fpca_util.EigCapture`),
the Lean driver post-processes exactly those numbers with `computeEigenImpl`
(clip → slice, as coded) and the outputs are compared *exactly* (clipping and
slicing are exact operations on floats).  The oracle evaluates the property's own
clauses (order, sign, prefix, leading, fraction, pairing) on what FDApy returned.
"""
from __future__ import annotations

import ast
import itertools
import os
from fractions import Fraction

import numpy as np

import common
from common import F, Rng, close_all, digest, err_class, fl, pmat, pvec, rs
from fpca_util import (trapz_weights, multi_lowrank, pow2, special_grids, EigCapture, Fm, Fv, Smat, Svec, curves, dense, grid, non_increasing, quiet,
                       raw_from_call, sel_to_model, sel_to_py)

PROP = "C01"
MODULES = ["FDAProofs.Props.C01"]
DRIVER = "Drivers/C01.lean"
PARALLEL = True
EXHAUSTIVE = {"quick": False, "thorough": True}
RULE = (
    "helper level: symmetric PSD matrices Q diag(s) Q^T (Q = I with every ordering of the spectrum on the diagonal: "
    "all permutations for sizes <= 4 in quick, <= 6 in thorough; random orthogonal Q; B^T B with integer B; spectra distinct, "
    "tied, with zeros, with tiny negatives), sizes 1..40, every kind of n_components (None, 0..n+1, negative, fractions incl. "
    "values hitting a cumulated ratio, >= 1, non-int/float); estimator level: UFPCA fits (both methods, normalize on/off, smooth, "
    "low-rank, rough and Fourier-simulated data, uniform and non-uniform grids, 1-D and 2-D) and MFPCA fits (both methods). "
    "A case is non-trivial when the matrix/data are not all zero; distinct by content hash"
)
TRUSTED_EXTRA = ["translator harness/c01.py:translate() (ast, syntax only: comparison strictness, added constant, float guard, dispatch of _select_number_eigencomponents)"]
PARTIAL = [
    "translator: `_select_number_eigencomponents` is re-parsed with `ast` on every run into lean/FDAModel/Generated/SelectNpc.lean and "
    "proved equal to the model's selectNpc (C01.source_selectNpc); when the source shape is not recognised the reference translation harness/c01_selectnpc_reference.lean is "
    "used, a note is printed, coverage.translator says so and the tie rests on the correspondence only",
    "numpy.linalg.eig is a parameter: its output is captured, not verified; its eigen-residual is measured by the oracle (pairing clause)",
    "irregular data: the eigen helper receives the smoothed covariance; only dense fits are sampled at the estimator level",
    "fraction decisions whose exact margin is < 1e-9 are counted as ties and skipped by the oracle (the model still decides them exactly)",
]
UNSORTED = "solver_output_unsorted"

ENTRY = {"helper": "_compute_eigen"}


# --------------------------------------------------------------------------
# translator: `_select_number_eigencomponents` -> lean/FDAModel/Generated/SelectNpc.lean
# --------------------------------------------------------------------------

GEN_FILE = os.path.join(common.LEAN_DIR, "FDAModel", "Generated", "SelectNpc.lean")
TRANSLATOR = dict(status="not run")


class _Unrecognised(Exception):
    pass


def _is_call(node, mod, name):
    return (isinstance(node, ast.Call) and isinstance(node.func, ast.Attribute) and node.func.attr == name
            and isinstance(node.func.value, ast.Name) and node.func.value.id == mod)


def _is_isinstance(node, var, cls):
    return (isinstance(node, ast.Call) and isinstance(node.func, ast.Name) and node.func.id == "isinstance"
            and len(node.args) == 2 and isinstance(node.args[0], ast.Name) and node.args[0].id == var
            and isinstance(node.args[1], ast.Name) and node.args[1].id == cls)


def _cmp_op(node):
    if isinstance(node, ast.Compare) and len(node.ops) == 1 and isinstance(node.ops[0], (ast.Lt, ast.LtE)):
        return isinstance(node.ops[0], ast.Lt)
    raise _Unrecognised("comparison is not < or <=")


def parse_select_npc(path):
    """Extract (strict, offset, bound_strict, bound, dispatch) from the source of
    `_select_number_eigencomponents`; raises `_Unrecognised` for any other shape (no guessing)."""
    tree = ast.parse(open(path).read())
    fns = [n for n in ast.walk(tree) if isinstance(n, ast.FunctionDef) and n.name == "_select_number_eigencomponents"]
    if len(fns) != 1:
        raise _Unrecognised("function not found")
    fn = fns[0]
    if len(fn.args.args) != 2:
        raise _Unrecognised("signature")
    E, P = fn.args.args[0].arg, fn.args.args[1].arg
    body = [b for b in fn.body if not (isinstance(b, ast.Expr) and isinstance(getattr(b, "value", None), ast.Constant))]
    if len(body) != 1 or not isinstance(body[0], ast.If):
        raise _Unrecognised("body is not a single if/elif/else chain")
    branches, node = [], body[0]
    while True:
        branches.append((node.test, node.body))
        if len(node.orelse) == 1 and isinstance(node.orelse[0], ast.If):
            node = node.orelse[0]
        else:
            tail = node.orelse
            break
    if not (len(tail) == 1 and isinstance(tail[0], ast.Raise) and isinstance(tail[0].exc, ast.Call)
            and getattr(tail[0].exc.func, "id", None) == "ValueError"):
        raise _Unrecognised("else branch does not raise ValueError")
    out, dispatch = {}, []
    for test, blk in branches:
        if _is_isinstance(test, P, "int"):
            if not (len(blk) == 1 and isinstance(blk[0], ast.Return) and isinstance(blk[0].value, ast.Name) and blk[0].value.id == P):
                raise _Unrecognised("int branch")
            dispatch.append("int")
        elif isinstance(test, ast.Compare) and isinstance(test.left, ast.Name) and test.left.id == P and len(test.ops) == 1 \
                and isinstance(test.ops[0], ast.Is) and isinstance(test.comparators[0], ast.Constant) and test.comparators[0].value is None:
            r = blk[0].value if len(blk) == 1 and isinstance(blk[0], ast.Return) else None
            if not (isinstance(r, ast.Call) and getattr(r.func, "id", None) == "len" and getattr(r.args[0], "id", None) == E):
                raise _Unrecognised("None branch")
            dispatch.append("None")
        elif isinstance(test, ast.BoolOp) and isinstance(test.op, ast.And) and len(test.values) == 2 and _is_isinstance(test.values[0], P, "float"):
            g = test.values[1]
            out["bound_strict"] = _cmp_op(g)
            if not (isinstance(g.left, ast.Name) and g.left.id == P and isinstance(g.comparators[0], ast.Constant)
                    and isinstance(g.comparators[0].value, (int, float)) and not isinstance(g.comparators[0].value, bool)):
                raise _Unrecognised("float guard")
            out["bound"] = Fraction(g.comparators[0].value)
            if not (len(blk) == 2 and isinstance(blk[0], ast.Assign) and len(blk[0].targets) == 1 and isinstance(blk[0].targets[0], ast.Name)
                    and isinstance(blk[1], ast.Return)):
                raise _Unrecognised("float branch")
            var, val = blk[0].targets[0].id, blk[0].value
            if not (isinstance(val, ast.BinOp) and isinstance(val.op, ast.Div) and _is_call(val.left, "np", "cumsum") and _is_call(val.right, "np", "sum")
                    and getattr(val.left.args[0], "id", None) == E and getattr(val.right.args[0], "id", None) == E):
                raise _Unrecognised("cumulated ratio")
            ret = blk[1].value
            if not (isinstance(ret, ast.BinOp) and isinstance(ret.op, ast.Add) and _is_call(ret.left, "np", "sum") and isinstance(ret.right, ast.Constant)
                    and isinstance(ret.right.value, int) and not isinstance(ret.right.value, bool) and ret.right.value >= 0):
                raise _Unrecognised("count + constant")
            c = ret.left.args[0]
            out["strict"] = _cmp_op(c)
            if not (isinstance(c.left, ast.Name) and c.left.id == var and getattr(c.comparators[0], "id", None) == P):
                raise _Unrecognised("comparison operands")
            out["offset"] = ret.right.value
            dispatch.append("float")
        else:
            raise _Unrecognised("unknown branch test")
    if sorted(dispatch) != ["None", "float", "int"]:
        raise _Unrecognised("dispatch is not int / float / None")
    out["dispatch"] = dispatch + ["raise:ValueError"]
    return out


def lean_source(x):
    b = lambda v: "true" if v else "false"  # noqa: E731
    q = x["bound"]
    return f"""/- GENERATED by harness/c01.py:translate() from FDApy/misc/utils.py:_select_number_eigencomponents — do not edit. -/
import FDAModel.Eigen
namespace FDA.Generated
/-- `np.sum(var_explained {'<' if x['strict'] else '<='} percentage)`. -/
def fracStrict : Bool := {b(x['strict'])}
/-- `… + {x['offset']}`. -/
def fracOffset : Nat := {x['offset']}
/-- float branch guard `percentage {'<' if x['bound_strict'] else '<='} {q}`. -/
def floatBoundStrict : Bool := {b(x['bound_strict'])}
def floatBound : Rat := ({q.numerator} : Rat) / {q.denominator}
/-- dispatch order found in the source (informative). -/
def dispatch : List String := [{', '.join(chr(34) + d + chr(34) for d in x['dispatch'])}]
def selectNpcSrc : List Rat → FDA.Eigen.Sel → Except String Int :=
  FDA.Eigen.selectNpcParam fracStrict fracOffset floatBoundStrict floatBound
end FDA.Generated
"""


def translate():
    """Regenerate `Generated/SelectNpc.lean` from the working tree.  POLICY: an unrecognised source shape
    (a harmless refactor) neither alarms nor fails — the last generated file is kept, the evidence says so and
    the correspondence decides; only a successful translation whose proof (`C01.source_selectNpc`) fails is a
    broken obligation."""
    path = os.path.join(common.REPO, "FDApy", "misc", "utils.py")
    try:
        x = parse_select_npc(path)
    except (_Unrecognised, SyntaxError, OSError) as e:
        # not an alarm: fall back on the reference translation stored beside the translator (not on whatever an earlier run
        # left in Generated/), say so, and let the correspondence decide
        TRANSLATOR.clear()
        TRANSLATOR.update(status="source shape not recognised, tie rests on the correspondence only", detail=str(e)[:120])
        print("note: translator: shape of _select_number_eigencomponents not recognised, tie rests on the correspondence only "
              f"({str(e)[:100]})")
        src = open(os.path.join(os.path.dirname(os.path.abspath(__file__)), "c01_selectnpc_reference.lean")).read()
        if not os.path.exists(GEN_FILE) or open(GEN_FILE).read() != src:
            with open(GEN_FILE, "w") as fh:
                fh.write(src)
        return
    src = lean_source(x)
    old = open(GEN_FILE).read() if os.path.exists(GEN_FILE) else None
    if old != src:
        os.makedirs(os.path.dirname(GEN_FILE), exist_ok=True)
        with open(GEN_FILE, "w") as fh:
            fh.write(src)
    TRANSLATOR.update(status="translated", strict=x["strict"], offset=x["offset"], bound_strict=x["bound_strict"],
                      bound=str(x["bound"]), dispatch=x["dispatch"], regenerated=(old != src))


def extra_coverage(cases, impls, models):
    return dict(translator=dict(TRANSLATOR, file="lean/FDAModel/Generated/SelectNpc.lean", theorem="C01.source_selectNpc"))


# --------------------------------------------------------------------------
# generation
# --------------------------------------------------------------------------

def _spectrum(rng: Rng, n):
    kind = rng.choice(["distinct", "distinct", "tied", "zeros", "tinyneg", "geometric"])
    if kind == "distinct":
        s = rng.sample([Fraction(k, 4) for k in range(1, 16 * n + 8)], n)
    elif kind == "tied":
        base = [Fraction(rng.randint(1, 6)) for _ in range(max(1, n // 2))]
        s = [rng.choice(base) for _ in range(n)]
    elif kind == "zeros":
        s = [Fraction(rng.randint(0, 1) * rng.randint(1, 9)) for _ in range(n)]
    elif kind == "tinyneg":
        s = [Fraction(rng.randint(1, 9)) for _ in range(n)]
        for _ in range(max(1, n // 3)):
            s[rng.randrange(n)] = Fraction(-rng.randint(1, 9), 2**50)
    else:
        s = [Fraction(1, 2**k) for k in range(n)]
        rng.shuffle(s)
    return [float(x) for x in s], kind


def _sels(rng: Rng, n, spectrum=None):
    """Selectors worth trying on an n×n problem."""
    out = [["all"], ["int", 1], ["int", max(1, n // 2)], ["int", n]]
    out.append(["int", rng.randint(1, max(1, n))])
    out.append(["frac", rs(rng.choice([Fraction(1, 2), Fraction(9, 10), Fraction(99, 100), Fraction(1, 10), Fraction(3, 5)]))])
    if spectrum:
        pos = sorted([max(x, 0.0) for x in spectrum], reverse=True)
        tot = sum(pos)
        if tot > 0 and len(pos) > 1:
            k = rng.randrange(len(pos))
            out.append(["frac", rs(F(sum(pos[: k + 1]) / tot))])  # hits (up to rounding) a cumulated ratio
    return out


def _boundary_sels():
    return [["int", 0], ["int", -1], ["frac", "1"], ["frac", "3/2"], ["frac", "0"], ["frac", "-1/2"],
            ["bad", "np.int64"], ["bad", "str"], ["int", 1000]]


def _orth(npr, n):
    q, r = np.linalg.qr(npr.standard_normal((n, n)))
    return q * np.sign(np.diag(r))


def _helper_cases(rng: Rng, tier):
    big = tier == "thorough"
    # (a) every ordering of a spectrum on the diagonal
    maxn = 6 if big else 4
    for n in range(1, maxn + 1):
        base = [float(x) for x in rng.sample([Fraction(k, 2) for k in range(1, 40)], n)]
        if n >= 3 and rng.random() < 0.5:
            base[0] = 0.0
        perms = list(itertools.permutations(base))
        for p in perms:
            sel = rng.choice(_sels(rng, n, list(p)))
            yield dict(kind="helper", sub="diag", A=np.diag(p).tolist(), sel=sel, spectrum=list(p))
        # the same spectrum through a rotation: same reported values expected (perm_invariant)
    # (b) structured random
    N = 1500 if big else 90
    for k in range(N):
        n = rng.choice([1, 2, 2, 3, 3, 4, 5, 6, 8, 12]) if (k % 7) else rng.randint(13, 40 if big else 25)
        sub = rng.choice(["orth", "orth", "gram", "diag", "tied_orth"])
        npr = np.random.default_rng(rng.subseed())
        if sub == "gram":
            B = np.array([[rng.randint(-4, 4) for _ in range(n)] for _ in range(rng.randint(1, n + 1))], dtype=float)
            A = B.T @ B
            spec = None
        else:
            s, sk = _spectrum(rng, n)
            if sub == "diag":
                A = np.diag(s)
            else:
                q = _orth(npr, n)
                A = q @ np.diag(s) @ q.T
                A = (A + A.T) / 2
            spec = s
        sels = _sels(rng, n, spec) + (_boundary_sels() if k % 5 == 0 else [])
        sc = float(pow2(rng)) ** 2  # matrices of any scale (covariances of data in small / large units)
        yield dict(kind="helper", sub=sub, A=(A * sc).tolist(), sel=rng.choice(sels),
                   spectrum=None if spec is None else [x * sc for x in spec], scale=sc)
    # (b') fractions sitting exactly on a cumulated ratio, in exact float arithmetic (power-of-two totals)
    for spec in ([4.0, 2.0, 1.0, 1.0], [2.0, 1.0, 1.0], [8.0, 4.0, 2.0, 1.0, 1.0], [1.0, 1.0]):
        perms = list(itertools.permutations(spec))
        for p in (perms if big else rng.sample(perms, min(4, len(perms)))):
            tot = sum(p)
            k = rng.randrange(len(p) - 1)
            hit_solver = Fraction(sum(p[: k + 1])) / Fraction(tot)
            hit_sorted = Fraction(sum(sorted(p, reverse=True)[: k + 1])) / Fraction(tot)
            for frac in {hit_solver, hit_sorted}:
                if frac < 1:
                    yield dict(kind="helper", sub="exact_fraction", A=np.diag(p).tolist(), sel=["frac", rs(frac)], spectrum=list(p))
    # (b'') sizes around typical fast-path thresholds (200, 250, 256): symmetric PSD, a few integer components
    for n in ([201, 251, 257, 300] if big else [rng.choice([201, 251]), 257]):
        npr = np.random.default_rng(rng.subseed())
        s_ = sorted([float(x) for x in rng.sample([Fraction(k, 4) for k in range(1, 40 * n)], n)], reverse=True)
        q = _orth(npr, n)
        A = q @ np.diag(s_) @ q.T
        yield dict(kind="helper", sub="large", A=((A + A.T) / 2).tolist(), sel=["int", rng.randint(1, 8)], spectrum=s_)
    # (b3) fractions close to 0 and to 1 on spectra with a long weak tail (every run): exact dyadic spectra on a
    # descending diagonal (so the solver output is sorted and the exact model is the reference), dynamic range up to 2^-40;
    # fractions 1 - 10^-k and 10^-k (k = 2..9) and the cumulated shares of the spectrum itself +/- 1 ulp
    for spec in ([4.0, 1.0, 2.0 ** -3, 2.0 ** -16, 2.0 ** -17, 0.0],
                 [1.0, 2.0 ** -10, 2.0 ** -20, 2.0 ** -30, 2.0 ** -40],
                 [4.0, 2.0, 1.0, 0.5, 0.25, 0.25],                         # total 8: shares exact in floating point
                 [1.0, 0.5, 2.0 ** -2, 2.0 ** -3, 2.0 ** -12, 2.0 ** -12, 2.0 ** -13, 2.0 ** -13]):   # weak tail with ties
        fr = [Fraction(1) - Fraction(1, 10 ** k) for k in range(2, 10)] + [Fraction(1, 10 ** k) for k in range(2, 10)]
        tot = sum(spec)
        cs = np.cumsum(spec) / tot
        ulps = [float(np.nextafter(c, 0.0)) for c in cs[:-1]] + [float(np.nextafter(c, 2.0)) for c in cs[:-1]] + [float(c) for c in cs[:-1]]
        ps = [rs(f) for f in fr] + [rs(F(float(x))) for x in ulps if 0 < x < 1]
        for pstr in (ps if big else rng.sample(ps, 14)):
            if F(pstr) < 1:
                yield dict(kind="helper", sub="weak-tail", A=np.diag(spec).tolist(), sel=["frac", pstr], spectrum=list(spec))
    # (c) boundary selectors on a fixed small matrix
    for sel in _boundary_sels():
        yield dict(kind="helper", sub="boundary", A=[[2.0, 0.0, 0.0], [0.0, 5.0, 0.0], [0.0, 0.0, 3.0]], sel=sel, spectrum=[2.0, 5.0, 3.0])


def _sim_fourier(seed, n_obs, m, n_fun, noise):
    """Karhunen-Loève type simulation with a Fourier basis on [0,1] (the kind of data the
    package's own simulator produces), seeded; values are ordinary floats."""
    npr = np.random.default_rng(seed)
    t = np.linspace(0, 1, m)
    phi = [np.ones(m)]
    k = 1
    while len(phi) < n_fun:
        phi.append(np.sqrt(2) * np.sin(2 * np.pi * k * t))
        if len(phi) < n_fun:
            phi.append(np.sqrt(2) * np.cos(2 * np.pi * k * t))
        k += 1
    lam = np.array([1.0 / (j + 1) for j in range(n_fun)])
    xi = npr.standard_normal((n_obs, n_fun)) * np.sqrt(lam)
    X = xi @ np.array(phi)
    if noise:
        X = X + np.sqrt(noise) * npr.standard_normal(X.shape)
    return t, X


def _ufpca_cases(rng: Rng, tier):
    N = 600 if tier == "thorough" else 40
    for k in range(N):
        method = ["covariance", "inner-product"][k % 2]
        normalize = (k // 2) % 2 == 1
        if k % 3 == 0:
            sim = dict(seed=rng.subseed(), n_obs=rng.randint(4, 30), m=rng.randint(5, 40),
                       n_fun=rng.randint(2, 7), noise=rng.choice([0, 0, 0.05]))
            n, m = sim["n_obs"], sim["m"]
            data = dict(sim=sim)
            dk = "fourier-sim"
        elif k % 11 == 5 and method == "inner-product":
            m1, m2, n = rng.randint(3, 6), rng.randint(3, 6), rng.randint(3, 8)
            t1, t2 = grid(rng, m1), grid(rng, m2)
            X, dk = curves(rng, n, [Fraction(j) for j in range(m1 * m2)], rng.choice(["rough", "lowrank"]))
            data = dict(t=Svec(t1), t2=Svec(t2), X=Smat(X))
            m = m1 * m2
            dk = "2d-" + dk
        else:
            n, m = rng.randint(2, 16), rng.randint(3, 24)
            t = grid(rng, m)
            X, dk = curves(rng, n, t)
            data = dict(t=Svec(t), X=Smat(X))
        size = m if method == "covariance" else n
        sel = rng.choice(_sels(rng, size) + [["all"], ["int", 2]])
        case = dict(kind="ufpca", method=method, normalize=normalize, sel=sel, dk=dk, **data)
        if "X" in data and "t2" not in data:
            sc = pow2(rng)
            case["X"] = Smat([[F(x) * sc for x in r] for r in data["X"]])
            case["scale"] = rs(sc)
            # history: the same estimator object is fitted a second time, on data of another size and kind
            nB, mB = rng.randint(2, 12), rng.randint(3, 18)
            tB = grid(rng, mB)
            XB, dkB = curves(rng, nB, tB, "lowrank" if dk in ("rough", "offset") else "rough", rank=1)
            case["B"] = dict(t=Svec(tB), X=Smat(XB), dk=dkB)
        yield case


def _ufpca_amplitude_cases(rng: Rng, tier):
    """Amplitude sweep (every run): data × 2^e, e = ±30, ±20 (≈ 1e-9 … 1e9), both methods."""
    for i, e in enumerate([-30, -30, 30, -20, -20, 20]):
        method = ["inner-product", "covariance"][i % 2]
        n, m = rng.randint(3, 8), rng.randint(4, 10)
        t = grid(rng, m)
        X, dk = curves(rng, n, t, "smooth" if method == "inner-product" else None)
        sc = Fraction(2) ** e
        yield dict(kind="ufpca", method=method, normalize=False, sel=rng.choice([["all"], ["int", 2], ["int", 1]]),
                   dk=f"amplitude-2^{e}", t=Svec(t), X=Smat([[x * sc for x in r] for r in X]), scale=rs(sc))


def _ufpca_noisy_fraction_cases(rng: Rng, tier):
    """Fractions of explained variance on NOISY curves (smooth signal + rough noise of comparable size), both
    methods: on the Gram route the noise variance is subtracted before the fraction is resolved."""
    for i in range(40 if tier == "thorough" else 8):
        n, m = rng.randint(5, 12), rng.randint(8, 16)
        t = grid(rng, m)
        sig, _ = curves(rng, n, t, "lowrank", rank=2)
        noise, _ = curves(rng, n, t, "rough")
        a = rng.choice([Fraction(1, 4), Fraction(1, 2), Fraction(1)])
        X = [[x + a * e / 4 for x, e in zip(r1, r2)] for r1, r2 in zip(sig, noise)]
        yield dict(kind="ufpca", method=["inner-product", "inner-product", "covariance"][i % 3], normalize=False,
                   sel=["frac", rs(rng.choice([Fraction(1, 2), Fraction(7, 10), Fraction(9, 10), Fraction(19, 20)]))],
                   dk="noisy-fraction", t=Svec(t), X=Smat(X))


def _noisy(rng, n, t, amp):
    sig, _ = curves(rng, n, t, "lowrank", rank=2)
    noise, _ = curves(rng, n, t, "rough")
    return [[x + amp * e / 4 for x, e in zip(r1, r2)] for r1, r2 in zip(sig, noise)]


def _auto_fraction_cases(rng: Rng, tier):
    """Structured, present in EVERY run: noisy univariate and multivariate data, both routes, fitted with
    n_components=None and then with fractions DERIVED FROM THAT DECOMPOSITION — for several k a fraction just
    below and just above the k-th cumulated share (± 1e-6) and the midpoint to the next share.  Grids on a unit
    domain and more curves than signal directions, with small and with large noise: on the Gram route the small-noise
    cases have eigenvalues of G below the noise variance (negative after the correction, clipped to 0), the
    large-noise cases have none."""
    reps = 6 if tier == "thorough" else 1
    unit = lambda m, uni=None: rng.grid(m, lo=rng.choice([0, -1, 100]), scale=1, uniform=uni)  # noqa: E731
    for _ in range(reps):
        for method in ("covariance", "inner-product"):
            for amp in (Fraction(1, 8), Fraction(1, 2), Fraction(2)):
                n, m = rng.randint(7, 11), rng.randint(7, 12)
                t = unit(m)
                yield dict(kind="ufpca", method=method, normalize=False, sel=["all"], auto_fracs=True, dk="auto-fractions",
                           t=Svec(t), X=Smat(_noisy(rng, n, t, amp)))
        # spectra with a long weak tail: directions of amplitude 8^-k (variance ratio 64^-k) plus a little noise
        for method in ("covariance", "inner-product"):
            n, m = 8, rng.randint(8, 11)
            t = unit(m)
            base, _ = curves(rng, n, t, "rough")
            shapes, _ = curves(rng, 4, t, "smooth")
            X = [[sum(Fraction(1, 8 ** k) * shapes[k][j] * ((-1) ** (i * (k + 1))) * (i + 1 + k) for k in range(4))
                  + base[i][j] / 2 ** 22 for j in range(m)] for i in range(n)]
            yield dict(kind="ufpca", method=method, normalize=False, sel=["all"], auto_fracs=True, dk="auto-fractions-weak-tail",
                       t=Svec(t), X=Smat(X))
        for method, amp in (("inner-product", Fraction(1, 8)), ("inner-product", Fraction(1, 2)), ("inner-product", Fraction(2)),
                            ("covariance", Fraction(1, 2))):
            n = rng.randint(7, 10)
            comps = []
            for _p in range(rng.choice([2, 3])):
                t = unit(rng.randint(6, 10), True)
                comps.append(dict(t=Svec(t), X=Smat(_noisy(rng, n, t, amp))))
            yield dict(kind="mfpca", method=method, sel=["all"], auto_fracs=True, comps=comps, dk="auto-fractions")


def _ufpca_special_grid_cases(rng: Rng, tier):
    """Offset / step ratio and non-uniform × tiny scale (every run): see `fpca_util.special_grids`."""
    for i, (label, t) in enumerate(special_grids(rng, rng.randint(5, 8))):
        method = ["inner-product", "covariance"][i % 2]
        X, dk = curves(rng, rng.randint(4, 7), t, "smooth" if method == "inner-product" else None)
        yield dict(kind="ufpca", method=method, normalize=False, sel=rng.choice([["all"], ["int", 2]]), dk=f"grid:{label}",
                   t=Svec(t), X=Smat(X))


def _ufpca_large_cases(rng: Rng, tier):
    """Many observations (Gram route) / many grid points (covariance route) around fast-path thresholds,
    the other dimension tiny; a few integer components; rough data so that the noise variance is positive."""
    big = tier == "thorough"
    for n in ([201, 251, 257, 300] if big else [rng.choice([201, 257]), 251]):
        t = grid(rng, 3)
        X, dk = curves(rng, n, t, "rough")
        yield dict(kind="ufpca", method="inner-product", normalize=False, sel=["int", rng.randint(1, 5)], dk="large-n",
                   t=Svec(t), X=Smat(X))
    for m in ([201, 251, 257] if big else [rng.choice([201, 257])]):
        t = grid(rng, m)
        X, dk = curves(rng, rng.randint(3, 4), t, "rough")
        yield dict(kind="ufpca", method="covariance", normalize=False, sel=["int", rng.randint(1, 3)], dk="large-m",
                   t=Svec(t), X=Smat(X))


def _mfpca_cases(rng: Rng, tier):
    N = 80 if tier == "thorough" else 6
    for k in range(N):
        n = rng.randint(5, 12)
        comps = []
        for _ in range(2):
            m = rng.randint(6, 14)
            t = grid(rng, m, uniform=True)
            X, dk = curves(rng, n, t, rng.choice(["smooth", "lowrank", "rough"]))
            comps.append(dict(t=Svec(t), X=Smat(X)))
        method = ["inner-product", "covariance"][k % 2]
        sel = rng.choice([["all"], ["int", 2], ["int", 3], ["frac", "9/10"]]) if method == "inner-product" else rng.choice([["int", 2], ["int", 3], ["frac", "9/10"]])
        yield dict(kind="mfpca", method=method, sel=sel, comps=comps, dk="multi")
    # structured, every run: expansions that give only the method (all defaults), few multivariate components requested
    for uni_method, k_req in (("UFPCA", 2), ("UFPCA", 3), ("PSplines", 2)):
        P = rng.choice([2, 3])
        yield dict(kind="mfpca", method="covariance", sel=["int", k_req], comps=multi_lowrank(rng, P, rng.randint(9, 14), R=5),
                   uni=[3] * P, uni_keys="omitted", uni_method=uni_method, dk=f"multi-lowrank-P{P}-defaults")
    # structured, every run: ONE non-default expansions list (method UFPCA, n_components ≠ 5) re-used by the full fit and the
    # k-fits / fraction fits of the case, in both orders
    for full_first in (False, True):
        for sel in (["int", 2], ["frac", "9/10"]):
            P = rng.choice([2, 3])
            yield dict(kind="mfpca", method="covariance", sel=list(sel), comps=multi_lowrank(rng, P, rng.randint(9, 14), R=4),
                       uni=[rng.choice([2, 3, 4]) for _ in range(P)], full_first=full_first, dk=f"multi-lowrank-P{P}-sharedargs")
    # covariance route with 2..4 components of different sizes and different numbers of univariate components
    for k in range(60 if tier == "thorough" else 8):
        P = [3, 3, 4, 2][k % 4]
        comps = multi_lowrank(rng, P, rng.randint(8, 20))
        case = dict(kind="mfpca", method="covariance", sel=rng.choice([["int", 2], ["int", 3], ["int", 4], ["frac", "9/10"]]),
                    comps=comps, uni=[rng.choice([2, 3]) for _ in range(P)], dk=f"multi-lowrank-P{P}")
        if k % 4 == 2:
            # expansions that OMIT every optional key (defaults): rank-5 components so that the default 5 univariate
            # components are genuine
            case["comps"] = multi_lowrank(rng, P, rng.randint(9, 16), R=5)
            case["uni_keys"] = "omitted"
            case["uni_method"] = rng.choice(["UFPCA", "UFPCA", "PSplines"])
            case["dk"] += "-defaults"
        elif k % 2 == 1:
            # non-orthonormal univariate bases: P-spline expansions (B ≠ I, so B·Q ≠ Q·B)
            case["uni_method"] = "PSplines"
            case["uni"] = [rng.choice([3, 4, 5]) for _ in range(P)]   # numbers of segments
            case["dk"] += "-psplines"
        yield case


def gen_cases(rng: Rng, tier):
    yield from _helper_cases(rng, tier)
    yield from _ufpca_cases(rng, tier)
    yield from _auto_fraction_cases(rng, tier)
    yield from _ufpca_amplitude_cases(rng, tier)
    yield from _ufpca_special_grid_cases(rng, tier)
    yield from _ufpca_noisy_fraction_cases(rng, tier)
    yield from _ufpca_large_cases(rng, tier)
    yield from _mfpca_cases(rng, tier)


def search_cases(rng, tier):
    yield from gen_cases(rng, tier)


WITNESS_A = [[1.0, 0.0, 0.0], [0.0, 3.0, 0.0], [0.0, 0.0, 2.0]]


def witness_cases():
    """Replayed on every run: the witness of the open finding (`C01.counterexample`
    is proved on exactly this solver output) for its three clauses, and a seeded
    Fourier simulation on which the estimator reports an unsorted spectrum."""
    return [
        dict(kind="helper", sub="witness", A=WITNESS_A, sel=["all"], spectrum=[1.0, 3.0, 2.0]),
        dict(kind="helper", sub="witness", A=WITNESS_A, sel=["int", 1], spectrum=[1.0, 3.0, 2.0]),
        dict(kind="helper", sub="witness", A=WITNESS_A, sel=["frac", "3/5"], spectrum=[1.0, 3.0, 2.0]),
        # seeded Fourier simulations: n_components=2 keeps a non-leading component (clause `leading`)
        dict(kind="ufpca", method="covariance", normalize=False, sel=["int", 2], dk="fourier-sim",
             sim=dict(seed=24, n_obs=20, m=15, n_fun=5, noise=0)),
        dict(kind="ufpca", method="inner-product", normalize=False, sel=["int", 2], dk="fourier-sim",
             sim=dict(seed=21, n_obs=20, m=15, n_fun=5, noise=0)),
    ]


# --------------------------------------------------------------------------
# implementation side
# --------------------------------------------------------------------------

def _cols(v):
    v = np.asarray(v, dtype=float)
    return [[float(x) for x in v[:, k]] for k in range(v.shape[1])]


def _dataset(case):
    if "sim" in case:
        t, X = _sim_fourier(**case["sim"])
        return dense([[F(float(x)) for x in t]], X), X
    X = np.array(fl(Fm(case["X"])))
    if "t2" in case:
        t1, t2 = Fv(case["t"]), Fv(case["t2"])
        X = X.reshape(len(X), len(t1), len(t2))
        return dense([t1, t2], X), X
    return dense([Fv(case["t"])], X), X


def _multi(case):
    from FDApy.representation.functional_data import MultivariateFunctionalData

    return MultivariateFunctionalData([dense([Fv(c["t"])], np.array(fl(Fm(c["X"])))) for c in case["comps"]])


def _fit(case, sel_py, shared=None):
    """Fit the estimator of the case with `n_components = sel_py`; returns (estimator, captured call).

    `shared` (one dict per case) holds the ARGUMENT OBJECTS that are re-used by every fit of the case, the way a user
    writes a loop over n_components: ONE data object, ONE `univariate_expansions` list, ONE set of kwargs dictionaries —
    passed to the full fit and to each k-fit / fraction fit.  A fit must not consume or alter them."""
    from FDApy.preprocessing.dim_reduction.mfpca import MFPCA
    from FDApy.preprocessing.dim_reduction.ufpca import UFPCA

    shared = shared if shared is not None else {}
    with quiet(), EigCapture() as cap:
        if case["kind"] == "ufpca":
            if "fd" not in shared:
                shared["fd"] = _dataset(case)[0]
                shared["kw"] = dict(kwargs_mean={}, kwargs_covariance={}, kwargs_innpro={})
            fd = shared["fd"]
            est = UFPCA(method=case["method"], n_components=sel_py, normalize=case["normalize"])
            est.fit(fd, **shared["kw"])
            size = fd.n_obs if case["method"] == "inner-product" else fd.n_points[0]
        else:
            if "mfd" not in shared:
                shared["mfd"] = _multi(case)
            mfd = shared["mfd"]
            if case["method"] == "covariance" and "exps" in shared:
                est = MFPCA(n_components=sel_py, method="covariance", univariate_expansions=shared["exps"])
            elif case["method"] == "covariance":
                uni = case.get("uni") or [3] * len(case["comps"])
                if case.get("uni_keys") == "omitted":
                    # only the method is given: every other key (n_components, n_segments, penalty, …) at its default
                    exps = [dict(method=case.get("uni_method", "UFPCA")) for _ in case["comps"]]
                elif case.get("uni_method") == "PSplines":
                    exps = [dict(method="PSplines", penalty=1.0, n_segments=k) for k in uni]
                else:
                    exps = [dict(method="UFPCA", n_components=k) for k in uni]
                shared["exps"] = exps          # the SAME list object for every later fit of this case
                est = MFPCA(n_components=sel_py, method="covariance", univariate_expansions=exps)
            else:
                est = MFPCA(n_components=sel_py, method="inner-product")
            est.fit(mfd)
            size = None
    return est, cap.last(size)


def _reconfigure(case, sel_py, shared):
    """Estimator attributes changed between fits: ONE estimator is fitted, its public configuration attributes are
    assigned other values (n_components, method, normalize, univariate_expansions), it is fitted again on the SAME data
    object, and must then report what a fresh estimator built with the new configuration reports on that object."""
    from FDApy.preprocessing.dim_reduction.mfpca import MFPCA
    from FDApy.preprocessing.dim_reduction.ufpca import UFPCA

    res = {}
    with quiet():
        try:
            if case["kind"] == "ufpca":
                data = shared.get("fd") or _dataset(case)[0]
                two_d = "t2" in case
                new = dict(method=case["method"] if two_d else ("inner-product" if case["method"] == "covariance" else "covariance"),
                           n_components=(2 if sel_py == 1 else 1), normalize=not case["normalize"])
                est = UFPCA(method=case["method"], n_components=sel_py, normalize=case["normalize"])
                est.fit(data)
                mk = lambda: UFPCA(**new)  # noqa: E731
            else:
                data = shared.get("mfd") or _multi(case)
                P = len(case["comps"])
                if case["method"] == "covariance":
                    old_exps = shared.get("exps") or [dict(method="UFPCA", n_components=3) for _ in range(P)]
                    k_old = old_exps[0].get("n_components", 5) if old_exps else 5
                    new = dict(method="covariance", n_components=(3 if sel_py != 3 else 2), normalize=False,
                               univariate_expansions=[dict(method="UFPCA", n_components=(4 if k_old != 4 else 2)) for _ in range(P)])
                    est = MFPCA(n_components=sel_py, method="covariance", univariate_expansions=old_exps)
                else:
                    new = dict(method="inner-product", n_components=(2 if sel_py != 2 else 3), normalize=True)
                    est = MFPCA(n_components=sel_py, method="inner-product")
                est.fit(data)
                mk = lambda: MFPCA(**new)  # noqa: E731
            res["new"] = {k: (v if k != "univariate_expansions" else [dict(d) for d in v]) for k, v in new.items()}
            for k, v in new.items():
                setattr(est, k, v)
            try:
                est.fit(data)
                res["refit_vals"] = [float(x) for x in np.asarray(est.eigenvalues)]
            except Exception as e:  # noqa: BLE001
                res["refit_error"] = err_class(e)
            try:
                fresh = mk()
                fresh.fit(data)
                res["fresh_vals"] = [float(x) for x in np.asarray(fresh.eigenvalues)]
            except Exception as e:  # noqa: BLE001
                res["fresh_error"] = err_class(e)
        except Exception as e:  # noqa: BLE001
            res["skipped"] = err_class(e)
    return res


def _auto_fractions(case, full, shared=None):
    """Fits with fractions derived from the cumulated shares of the n_components=None decomposition `full`."""
    res = []
    tot = sum(x for x in full if x == x)
    if not (tot > 0) or any(x != x for x in full):
        return res
    cum = np.cumsum(full) / tot
    ks = [k for k in range(len(cum)) if cum[k] < 1 - 1e-5 and (k == 0 or cum[k] - cum[k - 1] > 1e-5)]
    ks = ks[:2] + ks[-2:] if len(ks) > 4 else ks
    ps = []
    for k in dict.fromkeys(ks):
        nxt = cum[k + 1] if k + 1 < len(cum) else 1.0
        ps += [cum[k] - 1e-6, cum[k] + 1e-6, (cum[k] + min(nxt, 1.0)) / 2]
    ps += [1 - 10.0 ** -k for k in (2, 4, 5, 7, 9)] + [10.0 ** -k for k in (2, 5, 9)]
    if len(cum) > 1:
        ps += [float(np.nextafter(cum[0], 0.0)), float(np.nextafter(cum[0], 2.0)), float(np.nextafter(cum[-2], 2.0))]
    for p in ps:
        p = float(p)
        if not (0 < p < 1):
            continue
        entry = dict(p=p)
        try:
            est, call = _fit(case, p, shared)
            entry["vals"] = [float(x) for x in np.asarray(est.eigenvalues)]
            if call is not None:
                entry["raw_vals"], _ = raw_from_call(call)
        except Exception as e:  # noqa: BLE001
            entry["error"] = err_class(e)
        res.append(entry)
    return res


def _mfpca_cov_pairing(est, vals):
    """Covariance-route MFPCA: relative residual of `Q B d_k = ν_k d_k` for the stacked coefficient
    vector `d_k` of eigenfunction `k` in the univariate bases (`Q` covariance of the univariate scores,
    `B` block-diagonal Gram matrix of the bases) — eigenfunction `k` is the eigen-direction of eigenvalue `k`.
    Uses the estimator's stored univariate decomposition; `None` if it is not available."""
    try:
        from FDApy.misc.utils import _block_diag

        D = np.hstack([np.asarray(c.coefficients, dtype=float) for c in est.eigenfunctions.data])
        Q = np.atleast_2d(np.cov(np.asarray(est._scores_univariate, dtype=float).T))
        B = _block_diag(*[np.asarray(b.basis.inner_product(), dtype=float) for b in est._basis_univariate])
        M = Q @ B
        res = []
        for k, lam in enumerate(vals):
            d = D[k]
            if not np.all(np.isfinite(d)):
                res.append(None)
                continue
            res.append(float(np.abs(M @ d - lam * d).max() / max(np.abs(M).max() * np.abs(d).max(), 1e-300)))
        return res
    except Exception:  # noqa: BLE001
        return None


def _eigfun_values(est):
    ef = est.eigenfunctions
    if hasattr(ef, "data"):
        return None
    return np.asarray(ef.values, dtype=float)


def run_impl(case):
    from FDApy.misc.utils import _compute_eigen

    out = {}
    sel_py = sel_to_py(case["sel"])
    if case["kind"] == "helper":
        A = np.array(case["A"], dtype=float)
        with quiet(), EigCapture() as cap:
            try:
                vals, vecs = _compute_eigen(A.copy(), sel_py)
                out["vals"] = [float(x) for x in np.asarray(vals)]
                out["vecs"] = _cols(vecs) if np.asarray(vecs).ndim == 2 else None
            except Exception as e:  # noqa: BLE001
                out["error"] = err_class(e)
        call = cap.last(len(A))
        if call is not None:
            out["raw_vals"], out["raw_vecs"] = raw_from_call(call)
            out["solver"] = call["fn"]
        with quiet():
            fv, fvec = _compute_eigen(A.copy(), None)
        out["full_vals"] = [float(x) for x in fv]
        out["full_vecs"] = _cols(fvec)
        return out
    # estimator level
    shared = {}
    if case.get("full_first") and case["sel"][0] != "all":
        # the order a user's loop may also take: the full decomposition first, then the k-fit, with the same argument objects
        try:
            est_full0, _ = _fit(case, None, shared)
            out["full_vals"] = [float(x) for x in np.asarray(est_full0.eigenvalues)]
        except Exception as e:  # noqa: BLE001
            out["full_error"] = err_class(e)
    try:
        est, call = _fit(case, sel_py, shared)
    except Exception as e:  # noqa: BLE001
        out["error"] = err_class(e)
        out["msg"] = str(e)[:200]
        return out
    out["vals"] = [float(x) for x in np.asarray(est.eigenvalues)]
    if call is not None:
        out["raw_vals"], _ = raw_from_call(call)
        out["solver"] = call["fn"]
        out["solver_size"] = int(call["a"].shape[0])
    if case["kind"] == "ufpca":
        fd, X = _dataset(case)
        out["n_obs"] = int(fd.n_obs)
        Phi = _eigfun_values(est)
        out["noise"] = float(est._noise_variance)
        out["weights"] = float(est.weights)
        # pairing residual (1-D only): covariance operator of the data the estimator decomposed
        if Phi is not None and Phi.ndim == 2:
            t = np.asarray(fd.argvals["input_dim_0"], dtype=float)
            w = trapz_weights(t)
            Xc = X - X.mean(axis=0)
            if case["normalize"]:
                Xc = Xc / np.sqrt(out["weights"])
            n = len(X)
            if case["method"] == "covariance":
                C = Xc.T @ Xc / (n - 1)
                shift = 0.0
            else:
                C = Xc.T @ Xc / n
                shift = out["noise"] / n
            res = []
            for k, lam in enumerate(out["vals"]):
                phi = Phi[k]
                if not np.all(np.isfinite(phi)):
                    res.append(None)
                    continue
                r = C @ (w * phi) - (lam + shift) * phi
                res.append(float(np.abs(r).max() / max(np.abs(C).max() * np.abs(w).sum() * max(np.abs(phi).max(), 1e-300), 1e-300)))
            out["pair_res"] = res
            with np.errstate(all="ignore"):
                out["norm2"] = [float(x) for x in ((Phi ** 2) * w).sum(axis=1)]
        else:
            out["n_obs"] = int(fd.n_obs)
    else:
        out["n_obs"] = int(len(Fm(case["comps"][0]["X"])))
        if case["method"] == "covariance":
            out["pair_res"] = _mfpca_cov_pairing(est, out["vals"])
    # history: refit the SAME estimator object on other data and compare with a fresh estimator
    if case["kind"] == "ufpca" and "B" in case:
        from FDApy.preprocessing.dim_reduction.ufpca import UFPCA

        fdB = dense([Fv(case["B"]["t"])], np.array(fl(Fm(case["B"]["X"]))))
        with quiet():
            try:
                est.fit(fdB)
                out["refit_vals"] = [float(x) for x in np.asarray(est.eigenvalues)]
            except Exception as e:  # noqa: BLE001
                out["refit_error"] = err_class(e)
            try:
                fresh = UFPCA(method=case["method"], n_components=sel_py, normalize=case["normalize"])
                fresh.fit(dense([Fv(case["B"]["t"])], np.array(fl(Fm(case["B"]["X"])))))
                out["fresh_vals"] = [float(x) for x in np.asarray(fresh.eigenvalues)]
            except Exception as e:  # noqa: BLE001
                out["fresh_error"] = err_class(e)
    if case.get("auto_fracs"):
        out["auto"] = _auto_fractions(case, out["vals"], shared)
    # the full decomposition, for the prefix / leading clauses
    if case["sel"][0] != "all" and "full_vals" not in out and "full_error" not in out:
        try:
            est_full, _ = _fit(case, None, shared)
            out["full_vals"] = [float(x) for x in np.asarray(est_full.eigenvalues)]
        except Exception as e:  # noqa: BLE001
            out["full_error"] = err_class(e)
    elif case["sel"][0] == "all":
        out["full_vals"] = list(out["vals"])
    if not str(case.get("dk", "")).startswith("large"):
        out["reconf"] = _reconfigure(case, sel_py, shared)
    # the same data with one more component requested (prefix clause ACROSS requests)
    if case["sel"][0] == "int" and int(case["sel"][1]) >= 1:
        try:
            est_next, _ = _fit(case, int(case["sel"][1]) + 1, shared)
            out["next_vals"] = [float(x) for x in np.asarray(est_next.eigenvalues)]
        except Exception as e:  # noqa: BLE001
            out["next_error"] = err_class(e)
    return out


# --------------------------------------------------------------------------
# model side
# --------------------------------------------------------------------------

def _ratvec(v):
    return ",".join(rs(F(x)) for x in v) if len(v) else "-"


def model_lines(case, impl):
    if "__crash__" in impl or "raw_vals" not in impl:
        return []  # nothing captured (refactor?) -> oracle only
    sel = sel_to_model(case["sel"])
    if case["kind"] == "helper":
        big = len(impl["raw_vals"]) > 64   # large matrices: values only (the vectors are checked by the oracle)
        cols = ";".join(_ratvec(c) for c in impl["raw_vecs"]) if (impl["raw_vecs"] and not big) else "-"
        return [f"impl {sel} {_ratvec(impl['raw_vals'])} {cols}"]
    gram = case["method"] == "inner-product"
    lines = [f"evgram {impl['n_obs']} {sel} {_ratvec(impl['raw_vals'])}" if gram else f"evcov {sel} {_ratvec(impl['raw_vals'])}"]
    for a in _auto_modelled(impl):
        fs = f"frac:{rs(F(a['p']))}"
        lines.append(f"evgram {impl['n_obs']} {fs} {_ratvec(a['raw_vals'])}" if gram else f"evcov {fs} {_ratvec(a['raw_vals'])}")
    return lines


def _auto_modelled(impl):
    return [a for a in impl.get("auto", []) if "raw_vals" in a and "vals" in a]


def _frac_tie(case, impl):
    """Fraction selector whose exact margin to some cumulated ratio (in solver order,
    as the code cumulates) is below 1e-9: float rounding may legitimately decide either way."""
    if case["sel"][0] != "frac" or "raw_vals" not in impl:
        return False
    p = F(case["sel"][1])
    vals = [max(F(x), Fraction(0)) for x in impl["raw_vals"]]
    tot = sum(vals)
    if tot == 0:
        return False
    acc = Fraction(0)
    near = False
    for v in vals:
        acc += v
        if abs(acc / tot - p) < Fraction(1, 10**9):
            near = True
    if not near:
        return False
    return not _float_cumratio_exact([float(v) for v in vals])


def _float_cumratio_exact(vals):
    """Is NumPy's `cumsum(v) / sum(v)` free of rounding on these values?  (Then a decision that
    sits exactly on a cumulated ratio is not a tie: `<` and `<=` differ and the property decides.)"""
    cs = np.cumsum(np.array(vals, dtype=float))
    tot = float(np.sum(np.array(vals, dtype=float)))
    acc = Fraction(0)
    for v, c in zip(vals, cs):
        acc += Fraction(v)
        if Fraction(float(c)) != acc:
            return False
    if Fraction(tot) != acc or tot == 0:
        return False
    return all(Fraction(float(c) / tot) == Fraction(float(c)) / Fraction(tot) for c in cs)


def parse_model(case, outs):
    return dict(out=outs[0], more=outs[1:])


def compare(case, impl, model):
    if "__crash__" in impl:
        return [f"implementation crashed: {impl['__crash__']} {impl.get('msg')}"]
    ds = _compare_main(case, impl, model)
    for a, o in zip(_auto_modelled(impl), model.get("more", [])):
        sub_case = dict(case, sel=["frac", rs(F(a["p"]))])
        sub_impl = dict(vals=a["vals"], raw_vals=a["raw_vals"], n_obs=impl.get("n_obs"))
        ds += [f"fraction {a['p']!r}: " + d for d in _compare_main(sub_case, sub_impl, dict(out=o))]
    return ds


def _compare_main(case, impl, model):
    toks = model["out"].split(" ")
    ds = []
    if toks[0].startswith("error:"):
        cls = toks[0][6:]
        if impl.get("error") != cls:
            ds.append(f"model rejects the selector with {cls}, implementation: {impl.get('error', 'no error')}")
        return ds
    if toks[0] != "ok":
        return [f"driver answered {model['out'][:80]}"]
    if "error" in impl:
        return [f"implementation raised {impl['error']} ({impl.get('msg')}), model returns {toks[1][:60]}"]
    mv = pvec(toks[1])
    if _frac_tie(case, impl):
        return []  # the float decision sits within 1e-9 of a cumulated ratio: counted as a tie, not compared
    if case["kind"] == "helper":
        iv = [F(x) for x in impl["vals"]]
        if iv != mv:
            ds.append(f"eigenvalues differ from clip→slice of the captured solver output: impl {impl['vals'][:6]} vs model {[float(x) for x in mv][:6]}")
        mc = [] if toks[2] == "-" else [pvec(r) for r in toks[2].split(";")]
        ic = [[F(x) for x in c] for c in (impl["vecs"] or [])]
        if len(impl.get("raw_vals", [])) > 64:
            if len(ic) != len(mv):
                ds.append(f"{len(ic)} eigenvectors for {len(mv)} eigenvalues")
        elif ic != mc:
            ds.append(f"eigenvectors differ from the first {len(mc)} captured columns")
    else:
        # reported eigenvalues: the helper's values (covariance route) or values / n_obs (Gram route)
        i = close_all(impl["vals"], mv, None, 1e-12)
        if i is not None:
            ds.append(f"reported eigenvalues differ from the model applied to the captured solver output at {i}: impl {impl['vals'][:6]} vs {[float(x) for x in mv][:6]}")
    return ds


# --------------------------------------------------------------------------
# the property's own predicate on the implementation's outputs
# --------------------------------------------------------------------------

def _entry(case):
    if case["kind"] == "helper":
        return "_compute_eigen"
    return ("UFPCA" if case["kind"] == "ufpca" else "MFPCA") + f".fit[{case['method']}]"


def oracle(case, impl):
    entry = _entry(case)
    if "__crash__" in impl:
        return [dict(clause="runs", entry=entry, msg=f"crash {impl['__crash__']}: {impl.get('msg')}")]
    sel = case["sel"]
    valid = sel[0] in ("all", "int") or (sel[0] == "frac" and F(sel[1]) < 1)
    vs = []
    causes = []
    if "raw_vals" in impl:
        if not non_increasing(impl["raw_vals"]):
            causes.append(UNSORTED)
    elif case["kind"] == "helper":
        w = np.real(np.linalg.eig(np.array(case["A"], dtype=float))[0])
        if not non_increasing(list(w)):
            causes.append(UNSORTED)

    def bad(clause, msg):
        vs.append(dict(clause=clause, entry=entry, msg=msg, causes=list(causes)))

    if impl.get("error") == "Other:ModuleNotFoundError":
        return vs  # DESIGN A.7: the Cholesky test of a basis Gram matrix failed and the fallback needs statsmodels (absent)
    if "error" in impl:
        if valid:
            bad("runs", f"valid selector {sel} rejected / fit failed with {impl['error']}: {impl.get('msg')}")
        return vs
    if not valid:
        bad("rejects", f"invalid selector {sel} accepted")
        return vs
    vals = impl["vals"]
    lam_max = max([abs(x) for x in vals + impl.get("full_vals", []) + [y / max(impl.get("n_obs", 1), 1) if (case["kind"] != "helper" and case.get("method") == "inner-product") else y for y in impl.get("raw_vals", [])]] + [1e-300])
    tol = 1e-10 * lam_max
    # non-increasing
    for i in range(len(vals) - 1):
        if vals[i + 1] > vals[i] + tol:
            bad("order", f"eigenvalue {i+1} ({vals[i+1]!r}) exceeds eigenvalue {i} ({vals[i]!r})")
            break
    if any((x < 0) or (x != x) for x in vals):
        bad("nonneg", f"negative or NaN eigenvalue in {vals[:8]}")
    full = impl.get("full_vals")
    if full is not None:
        k = len(vals)
        # exactly the first k entries of the full decomposition
        if k > len(full) or any(abs(a - b) > 1e-9 * lam_max for a, b in zip(vals, full[:k])):
            bad("prefix", f"the {k} reported values {vals[:6]} are not the first {k} of the full decomposition {full[:6]}")
        if case["kind"] == "helper" and impl.get("vecs") is not None:
            fv = impl["full_vecs"][:k]
            if len(fv) != len(impl["vecs"]) or any(not np.allclose(a, b, rtol=0, atol=1e-12) for a, b in zip(impl["vecs"], fv)):
                bad("prefix", "the reported vectors are not the first columns of the full decomposition")
        if sel[0] == "frac" and 0 < float(F(sel[1])) < 1 and sum(full) > 0 and all(x == x for x in full):
            # the count chosen by a fraction is the one its rule gives on the n_components=None decomposition
            # (cumulated shares in the reported order; independent of the sorting defect)
            p = float(F(sel[1]))
            cumf = np.cumsum(full) / sum(full)
            if np.abs(cumf - p).min() > 1e-9:
                wantf = int(np.sum(cumf < p)) + 1
                if k != wantf:
                    vs.append(dict(clause="fraction_count", entry=entry, causes=[],
                                   msg=f"fraction {p}: {k} components kept, but the cumulated shares of the full decomposition {[round(float(c), 4) for c in cumf[:6]]} ask for {wantf}"))
        srt = sorted(full, reverse=True)
        if sel[0] == "int":
            want = int(sel[1])
            if 0 <= want and k != min(want, len(full)):
                bad("count", f"asked for {want} components of {len(full)}, got {k}")
            if 0 <= want and any(abs(a - b) > 1e-9 * lam_max for a, b in zip(sorted(vals, reverse=True), srt[:k])):
                bad("leading", f"the {k} kept values {vals[:6]} are not the {k} largest of the spectrum {srt[:6]}")
        if sel[0] == "frac":
            p = float(F(sel[1]))
            tot = sum(srt)
            if tot > 0 and 0 < p < 1:
                cum = np.cumsum(srt) / tot
                if np.abs(cum - p).min() > 1e-9 or (_float_cumratio_exact(srt) and _float_cumratio_exact([max(x, 0.0) for x in impl.get("raw_vals", srt)])):
                    want = int(np.sum(cum < p)) + 1
                    if k != want or any(abs(a - b) > 1e-9 * lam_max for a, b in zip(vals, srt[:k])):
                        bad("fraction", f"fraction {p}: kept {vals[:6]} but the smallest leading set reaching it is {srt[:want][:6]}")
    # fractions derived from the full decomposition itself: the kept count is the one the cumulated shares ask for,
    # and the kept values are the leading ones of that decomposition
    if impl.get("auto") and full is not None and sum(full) > 0:
        cumf = np.cumsum(full) / sum(full)
        for a in impl["auto"]:
            if "error" in a:
                bad("runs", f"fit with the fraction {a['p']!r} failed with {a['error']}")
                break
            if np.abs(cumf - a["p"]).min() <= 1e-9:
                continue
            wantf = int(np.sum(cumf < a["p"])) + 1
            got = a["vals"]
            if len(got) != wantf:
                vs.append(dict(clause="fraction_count", entry=entry, causes=[],
                               msg=f"fraction {a['p']!r}: {len(got)} components kept, but the cumulated shares of the full decomposition {[round(float(c), 7) for c in cumf[:6]]} ask for {wantf}"))
                break
            if any(abs(x - y) > 1e-9 * lam_max for x, y in zip(got, full[:wantf])):
                bad("prefix", f"fraction {a['p']!r}: the kept values {got[:5]} are not the first {wantf} of the full decomposition {full[:5]}")
                break
    nxt = impl.get("next_vals")
    if nxt is not None and sel[0] == "int":
        k = len(vals)
        if len(nxt) < k or any(abs(a - b) > 1e-9 * max(lam_max, max([abs(x) for x in nxt] + [0.0])) for a, b in zip(vals, nxt[:k])):
            bad("prefix", f"the {k} values for n_components={sel[1]} {vals[:5]} are not the first {k} of the values for n_components={int(sel[1]) + 1} {nxt[:6]}")
    # pairing: each returned pair solves the eigenproblem it came from
    if case["kind"] == "helper" and impl.get("vecs"):
        A = np.array(case["A"], dtype=float)
        sym = np.allclose(A, A.T, rtol=0, atol=1e-12 * max(np.abs(A).max(), 1e-300))
        psd = sym and np.linalg.eigvalsh((A + A.T) / 2).min() >= -1e-9 * max(np.abs(A).max(), 1e-300)
        if psd:
            nrm = max(np.abs(A).max() * len(A), 1e-300)
            for lam, u in zip(vals, impl["vecs"]):
                u = np.array(u)
                if np.abs(A @ u - lam * u).max() > 1e-8 * nrm:
                    bad("paired", f"returned pair (value {lam!r}) does not satisfy A u = value·u (residual {np.abs(A @ u - lam * u).max():.3g})")
                    break
    # eigenfunction k is a normalised eigen-direction: ‖φ_k‖²_w = 1 (covariance route, outside repeated
    # eigenvalues) resp. (l_k + σ²)/l_k ≥ 1 (Gram route, l_k = n λ_k) — in particular never the zero function
    if impl.get("norm2") and case["kind"] == "ufpca":
        spectrum = [max(x, 0.0) for x in impl.get("raw_vals", vals)]
        if case["method"] == "inner-product":
            spectrum = [x / max(impl.get("n_obs", 1), 1) for x in spectrum]
        for k, nrm in enumerate(impl["norm2"]):
            if not (vals[k] > 1e-8 * lam_max) or nrm != nrm or nrm in (float("inf"),):
                continue
            if sum(1 for x in spectrum if abs(x - vals[k]) <= 1e-8 * lam_max) >= 2:
                continue  # repeated eigenvalue: C02's finding
            want = 1.0 if case["method"] == "covariance" else (vals[k] * impl["n_obs"] + impl["noise"]) / (vals[k] * impl["n_obs"])
            if abs(nrm - want) > 1e-6 * max(want, 1.0):
                bad("paired", f"eigenfunction {k} (eigenvalue {vals[k]!r}) has squared norm {nrm!r}, expected {want!r}")
                break
    rc = impl.get("reconf") or {}
    if "new" in rc:
        a1, a2 = rc.get("refit_vals"), rc.get("fresh_vals")
        if a1 is None or a2 is None:
            if rc.get("refit_error") != rc.get("fresh_error"):
                bad("stale_state", f"after assigning {rc['new']} to the fitted estimator, fit on the same data object: {rc.get('refit_error') or 'ok'}; fresh estimator with that configuration: {rc.get('fresh_error') or 'ok'}")
        elif len(a1) != len(a2) or not np.array_equal(np.array(a1), np.array(a2), equal_nan=True):
            bad("stale_state", f"after assigning {rc['new']} to the fitted estimator and fitting the same data object again it reports {len(a1)} eigenvalues {a1[:4]}; a fresh estimator with that configuration reports {len(a2)}: {a2[:4]}")
    if "refit_vals" in impl or "refit_error" in impl:
        a1, a2 = impl.get("refit_vals"), impl.get("fresh_vals")
        if a1 is None or a2 is None:
            if impl.get("refit_error") != impl.get("fresh_error"):
                bad("stale_state", f"second fit of the same estimator: {impl.get('refit_error')} vs fresh estimator: {impl.get('fresh_error')}")
        elif len(a1) != len(a2) or not np.array_equal(np.array(a1), np.array(a2), equal_nan=True):
            bad("stale_state", f"a second fit of the same estimator (n_components={sel}) reports {len(a1)} eigenvalues {a1[:4]}, a fresh estimator {len(a2)}: {a2[:4]}")
    if impl.get("pair_res"):
        for k, r in enumerate(impl["pair_res"]):
            if r is not None and vals[k] > 1e-8 * lam_max and r > 1e-7:
                bad("paired", f"eigenfunction {k} is not an eigenfunction of the covariance operator for eigenvalue {vals[k]!r} (relative residual {r:.3g})")
                break
    return vs


def nontrivial(case, impl):
    if case["kind"] == "helper" and not np.any(np.array(case["A"])):
        return None
    return digest({k: v for k, v in case.items() if k != "corpus"})


def classify(case, impl):
    tags = ["kind:" + case["kind"], "sel:" + case["sel"][0]]
    if case["kind"] == "helper":
        n = len(case["A"])
        tags += ["sub:" + case["sub"], "size:" + ("1" if n == 1 else "2-4" if n <= 4 else "5-12" if n <= 12 else "13+")]
    else:
        tags += ["method:" + case["method"], "data:" + str(case.get("dk"))]
        if case["kind"] == "ufpca":
            tags.append("normalize:" + str(case["normalize"]))
    if "raw_vals" in impl:
        tags.append("solver_sorted:" + str(non_increasing(impl["raw_vals"])))
        tags.append("solver:" + impl.get("solver", "?"))
    else:
        tags.append("solver:not-captured")
    if "error" in impl:
        tags.append("error:" + impl["error"])
    if _frac_tie(case, impl):
        tags.append("fraction:tie-skipped")
    return tags
