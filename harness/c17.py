"""C17 — FCP-TPA terminates and is a greedy rank-one deflation."""
import math
import warnings
from fractions import Fraction

import numpy as np

from common import F, Rng, close, digest, fl, rs

PROP = "C17"
MODULES = ["FDAProofs.Props.C17"]
DRIVER = "Drivers/C17.lean"
PARALLEL = True
RULE = (
    "seeded 3-way arrays n x m1 x m2 (random dyadic, low-rank, constant, zero-containing, all-zero) on uniform and "
    "non-uniform grids, n_components 1..5, tolerance 1e-8..1e-1 (plus 0 and 2), max_iteration 0..30 biased to tiny "
    "values, adapt in {F,T}, alpha ranges inside 1e-6..1e6, penalties {second-difference, zero, identity, random PSD}; "
    "every case runs fit three times (seeded, seeded again, seeded with normalize=True) with _update_components and "
    "_initialize_vectors wrapped from outside; non-trivial = data not all zero and at least one update call; distinct "
    "by content hash"
)
PARTIAL = [
    "the `values.any()` guard of the repaired loop is a flag handed to the controller (computed by the harness from its "
    "bitwise replay of the float deflation); a non-zero residual with an exactly zero contraction is the open finding",
    "_update_components (linear solves + scipy minimize_scalar on the GCV criterion) is an oracle of the controller: "
    "its outputs are recorded, not modelled",
    "the float convergence ratios norm(v-v_old)/norm(v) are recomputed by the harness with the code's expression and "
    "fed to the controller; a ratio within 1e-9 relative of a tolerance level is a tie (case skipped for the count)",
    "unit scaling v/norm(v) is float: the recorded unit vectors enter the exact model as rationals, "
    "|‖u‖²‖v‖²‖w‖²-1| <= 1e-14 is checked, the exact identity proved and checked is E' = E - c²(2-τ)",
    "square roots of the normalisation (norm_data) are taken in float from the exact squared norm",
    "bit-reproducibility under a fixed global seed is sampled (two runs per case), NumPy's generator is trusted",
    "_update_vector: np.linalg.solve is a parameter with the contract IsUpdate ((I+αΩ)(d·out) = b), whose exact residual is "
    "checked on the first recorded calls (arrays up to 320 entries); _gcv / _find_optimal_alpha (minimize_scalar) are not modelled: "
    "monotone decrease of the penalised objective is proved per block for FIXED smoothing parameters only",
    "translator: comparison operators and factors of the iteration loop are re-parsed from fcp_tpa.py into Generated/FcpLoop.lean "
    "(C17.source_controller); an unrecognised source shape keeps the last generated file and is noted in the evidence",
]
TRUSTED_EXTRA = [
    "translator harness/c17.py:translate() (Python `ast`, syntax only: comparison operators, numeric literals, `*`/`/`/`**`, keyword "
    "arguments of the iteration loop and of the normalisation block of FCPTPA.fit) -> lean/FDAModel/Generated/FcpLoop.lean; reference "
    "translation harness/c17_fcploop_reference.lean used when the source shape is not recognised",
]

# --------------------------------------------------------------------------
# translator: loop constants of `FCPTPA.fit` -> lean/FDAModel/Generated/FcpLoop.lean
# --------------------------------------------------------------------------
import ast  # noqa: E402
import os  # noqa: E402

import common  # noqa: E402

GEN_FILE = os.path.join(common.LEAN_DIR, "FDAModel", "Generated", "FcpLoop.lean")
TRANSLATOR = dict(status="not run")


class _Unrecognised(Exception):
    pass


def _name(node, ident):
    return isinstance(node, ast.Name) and node.id == ident


def _cmp(node, left, ops, right_pred):
    """`left <op> right` with op in `ops` (dict class -> value); returns the value."""
    if not (isinstance(node, ast.Compare) and len(node.ops) == 1 and len(node.comparators) == 1 and _name(node.left, left)):
        raise _Unrecognised(f"comparison on {left}")
    for cls, val in ops.items():
        if isinstance(node.ops[0], cls):
            if not right_pred(node.comparators[0]):
                raise _Unrecognised(f"right-hand side of the comparison on {left}")
            return val
    raise _Unrecognised(f"operator of the comparison on {left}")


def _const_times(node, ident):
    """`k * ident` with a non-negative numeric literal k; returns k as Fraction."""
    if (isinstance(node, ast.BinOp) and isinstance(node.op, ast.Mult) and isinstance(node.left, ast.Constant)
            and isinstance(node.left.value, (int, float)) and not isinstance(node.left.value, bool) and _name(node.right, ident)):
        return Fraction(node.left.value)
    raise _Unrecognised(f"factor * {ident}")


def parse_fcp_loop(path):
    """Extract the comparison operators and factors of the iteration loop of `FCPTPA.fit`; any other
    source shape raises `_Unrecognised` (no guessing)."""
    tree = ast.parse(open(path).read())
    cls = [n for n in tree.body if isinstance(n, ast.ClassDef) and n.name == "FCPTPA"]
    if len(cls) != 1:
        raise _Unrecognised("class FCPTPA")
    fit = [n for n in cls[0].body if isinstance(n, ast.FunctionDef) and n.name == "fit"]
    if len(fit) != 1:
        raise _Unrecognised("FCPTPA.fit")
    fors = [n for n in fit[0].body if isinstance(n, ast.For)]
    if len(fors) != 1:
        raise _Unrecognised("loop over the components")
    body = fors[0].body
    whiles = [k for k, n in enumerate(body) if isinstance(n, ast.While)]
    if len(whiles) != 1:
        raise _Unrecognised("while loop")
    wh = body[whiles[0]]
    out = {}
    # while any(norm(v - v_old) / norm(v) > tolerance for …)
    t = wh.test
    out["zero_guard"] = False
    if isinstance(t, ast.BoolOp) and isinstance(t.op, ast.And) and len(t.values) == 2:
        g = t.values[0]  # `values.any() and any(…)`
        if not (isinstance(g, ast.Call) and not g.args and isinstance(g.func, ast.Attribute) and g.func.attr == "any" and _name(g.func.value, "values")):
            raise _Unrecognised("guard of the while condition")
        out["zero_guard"] = True
        t = t.values[1]
    if not (isinstance(t, ast.Call) and _name(t.func, "any") and len(t.args) == 1 and isinstance(t.args[0], ast.GeneratorExp)):
        raise _Unrecognised("while condition is not any(<generator>)")
    c = t.args[0].elt
    if not (isinstance(c, ast.Compare) and len(c.ops) == 1 and isinstance(c.left, ast.BinOp) and isinstance(c.left.op, ast.Div)
            and _name(c.comparators[0], "tolerance") and isinstance(c.ops[0], (ast.Gt, ast.GtE))):
        raise _Unrecognised("while condition comparison")
    out["cond_gt"] = isinstance(c.ops[0], ast.Gt)
    # n_iter = n_iter + 1
    incs = [n for n in wh.body if isinstance(n, ast.Assign) and len(n.targets) == 1 and _name(n.targets[0], "n_iter")]
    if not (len(incs) == 1 and isinstance(incs[0].value, ast.BinOp) and isinstance(incs[0].value.op, ast.Add)
            and _name(incs[0].value.left, "n_iter") and isinstance(incs[0].value.right, ast.Constant) and incs[0].value.right.value == 1):
        raise _Unrecognised("n_iter increment")
    ifs = [n for n in wh.body if isinstance(n, ast.If)]
    if len(ifs) != 1:
        raise _Unrecognised("if n_iter … max_iteration")
    out["max_strict"] = _cmp(ifs[0].test, "n_iter", {ast.Gt: True, ast.GtE: False}, lambda r: _name(r, "max_iteration"))
    if ifs[0].orelse or len(ifs[0].body) != 1 or not isinstance(ifs[0].body[0], ast.If):
        raise _Unrecognised("nested adapt test")
    inner = ifs[0].body[0]
    if not (isinstance(inner.test, ast.BoolOp) and isinstance(inner.test.op, ast.And) and len(inner.test.values) == 2
            and _name(inner.test.values[0], "adapt_tolerance")):
        raise _Unrecognised("adapt_tolerance and …")
    fac = {}
    out["adapt_strict"] = _cmp(inner.test.values[1], "n_iter", {ast.Lt: True, ast.LtE: False},
                               lambda r: fac.setdefault("f", _const_times(r, "max_iteration")) is not None)
    if fac["f"].denominator != 1:
        raise _Unrecognised("adapt factor is not an integer")
    out["adapt_factor"] = int(fac["f"])
    if not (len(inner.body) == 1 and isinstance(inner.body[0], ast.Assign) and _name(inner.body[0].targets[0], "tolerance")):
        raise _Unrecognised("tolerance adaptation")
    out["tol_factor"] = _const_times(inner.body[0].value, "tolerance")
    forced = [n for n in inner.orelse if isinstance(n, ast.Assign)]
    if not (len(forced) == 1 and _name(forced[0].targets[0], "vectors_old") and _name(forced[0].value, "vectors")):
        raise _Unrecognised("forced exit")
    # reset after the loop
    resets = [n for n in body[whiles[0] + 1:] if isinstance(n, ast.If) and isinstance(n.test, ast.BoolOp)
              and _name(n.test.values[0], "adapt_tolerance")]
    if len(resets) != 1 or not isinstance(resets[0].test.op, ast.And) or len(resets[0].test.values) != 2:
        raise _Unrecognised("tolerance reset")
    out["reset_ge"] = _cmp(resets[0].test.values[1], "n_iter", {ast.GtE: True, ast.Gt: False}, lambda r: _name(r, "max_iteration"))
    rb = resets[0].body
    if not (len(rb) == 1 and isinstance(rb[0], ast.Assign) and _name(rb[0].targets[0], "tolerance") and _name(rb[0].value, "tolerance_old")):
        raise _Unrecognised("tolerance reset body")
    return out


def _self_attr(node, attr):
    return isinstance(node, ast.Attribute) and node.attr == attr and _name(node.value, "self")


def _pow_of(node, var):
    """`var` -> 1, `var ** k` / `np.power(var, k)` -> k, `np.square(var)` -> 2 (integer literal k)."""
    if _name(node, var):
        return 1
    if isinstance(node, ast.BinOp) and isinstance(node.op, ast.Pow) and _name(node.left, var) and isinstance(node.right, ast.Constant) \
            and isinstance(node.right.value, int) and not isinstance(node.right.value, bool):
        return node.right.value
    if isinstance(node, ast.Call) and isinstance(node.func, ast.Attribute) and _name(node.func.value, "np"):
        if node.func.attr == "power" and len(node.args) == 2 and _name(node.args[0], var) and isinstance(node.args[1], ast.Constant) \
                and isinstance(node.args[1].value, int) and not isinstance(node.args[1].value, bool):
            return node.args[1].value
        if node.func.attr == "square" and len(node.args) == 1 and _name(node.args[0], var):
            return 2
    raise _Unrecognised(f"power of {var}")


def _scaled(node, base_pred, var, allow_index=False):
    """`base * f(var)` -> +pow, `base / f(var)` -> -pow, where f is a power of `var` (optionally indexed `var[:, None, None]`)."""
    if not (isinstance(node, ast.BinOp) and isinstance(node.op, (ast.Mult, ast.Div)) and base_pred(node.left)):
        raise _Unrecognised("scaling by the norm")
    r = node.right
    if allow_index and isinstance(r, ast.Subscript) and _name(r.value, var):
        k = 1
    else:
        k = _pow_of(r, var)
    return k if isinstance(node.op, ast.Mult) else -k


def parse_fcp_norm(path):
    """The block `if self.normalize:` at the end of `FCPTPA.fit` (syntax only)."""
    tree = ast.parse(open(path).read())
    cls = [n for n in tree.body if isinstance(n, ast.ClassDef) and n.name == "FCPTPA"]
    fit = [n for n in cls[0].body if isinstance(n, ast.FunctionDef) and n.name == "fit"]
    blocks = [n for n in fit[0].body if isinstance(n, ast.If) and any(_self_attr(x, "normalize") for x in ast.walk(n.test))]
    if len(blocks) != 1 or blocks[0].orelse:
        raise _Unrecognised("normalisation block")
    blk = blocks[0]
    out = {"truth_test": _self_attr(blk.test, "normalize")}
    if not out["truth_test"]:
        t = blk.test
        if not (isinstance(t, ast.Compare) and len(t.ops) == 1 and isinstance(t.ops[0], (ast.Is, ast.Eq)) and _self_attr(t.left, "normalize")
                and isinstance(t.comparators[0], ast.Constant) and t.comparators[0].value is True):
            raise _Unrecognised("test of the normalisation block")
    assigns = {}
    for st in blk.body:
        if not (isinstance(st, ast.Assign) and len(st.targets) == 1):
            raise _Unrecognised("statement in the normalisation block")
        tg = st.targets[0]
        key = tg.id if isinstance(tg, ast.Name) else ("self." + (tg.attr if _name(tg.value, "self") else tg.value.attr + "." + tg.attr))
        assigns[key] = st.value
    nd = assigns.get("norm_data")
    if not (isinstance(nd, ast.Call) and isinstance(nd.func, ast.Attribute) and nd.func.attr == "norm" and _self_attr(nd.func.value, "_eigenfunctions") and not nd.args):
        raise _Unrecognised("norm_data")
    kw = {k.arg: k.value for k in nd.keywords}
    if set(kw) - {"squared", "use_argvals_stand"} or not all(isinstance(v, ast.Constant) and isinstance(v.value, bool) for v in kw.values()):
        raise _Unrecognised("arguments of norm")
    out["norm_squared"] = kw["squared"].value if "squared" in kw else False
    out["stand_grid"] = kw["use_argvals_stand"].value if "use_argvals_stand" in kw else False

    def resolve(key):
        v = assigns.get(key)
        return assigns.get(v.id, v) if isinstance(v, ast.Name) else v

    is_vals = lambda n: isinstance(n, ast.Attribute) and n.attr == "values" and _self_attr(n.value, "_eigenfunctions")  # noqa: E731
    out["image_pow"] = _scaled(resolve("self._eigenfunctions.values"), is_vals, "norm_data", allow_index=True)
    out["score_pow"] = _scaled(resolve("self._scores"), lambda n: _self_attr(n, "_scores"), "norm_data")
    out["eig_pow"] = _scaled(resolve("self._eigenvalues"), lambda n: _self_attr(n, "_eigenvalues"), "norm_data")
    return out


def lean_source(x):
    b = lambda v: "true" if v else "false"  # noqa: E731
    q = x["tol_factor"]
    return f"""/- GENERATED by harness/c17.py:translate() from FDApy/preprocessing/dim_reduction/fcp_tpa.py:FCPTPA.fit — do not edit. -/
import FDAModel.FCPTPA
namespace FDA.Generated
/-- while {'values.any() and ' if x['zero_guard'] else ''}… `{'>' if x['cond_gt'] else '>='} tolerance`; `if n_iter {'>' if x['max_strict'] else '>='} max_iteration`; `n_iter {'<' if x['adapt_strict'] else '<='} {x['adapt_factor']} * max_iteration`; `tolerance = {q} * tolerance`; reset `n_iter {'>=' if x['reset_ge'] else '>'} max_iteration`. -/
def fcpLoop : FDA.FCPTPA.LoopConsts :=
  {{ maxStrict := {b(x['max_strict'])}, adaptStrict := {b(x['adapt_strict'])}, adaptFactor := {x['adapt_factor']}, tolFactor := ({q.numerator} : Rat) / {q.denominator}, resetGe := {b(x['reset_ge'])}, condGt := {b(x['cond_gt'])}, zeroGuard := {b(x['zero_guard'])} }}
/-- `if self.normalize{'' if x['truth_test'] else ' is True'}:`; `norm(squared={x['norm_squared']})`; eigenimages `* norm_data ^ {x['image_pow']}`; scores `* norm_data ^ {x['score_pow']}`; eigenvalues `* norm_data ^ {x['eig_pow']}`. -/
def fcpNorm : FDA.FCPTPA.NormConsts :=
  {{ truthTest := {b(x['truth_test'])}, normSquared := {b(x['norm_squared'])}, standGrid := {b(x['stand_grid'])}, imagePow := {x['image_pow']}, scorePow := {x['score_pow']}, eigPow := {x['eig_pow']} }}
end FDA.Generated
"""


REFERENCE = os.path.join(os.path.dirname(os.path.abspath(__file__)), "c17_fcploop_reference.lean")


def translate():
    """Regenerate `Generated/FcpLoop.lean` from the working tree.  POLICY: an unrecognised source shape (a harmless
    refactor) neither alarms nor fails — the last generated file is kept, the evidence says so and the correspondence
    decides; only a successful translation whose proof (`C17.source_controller`) fails is a broken obligation."""
    path = os.path.join(common.REPO, "FDApy", "preprocessing", "dim_reduction", "fcp_tpa.py")
    try:
        x = parse_fcp_loop(path)
        x.update(parse_fcp_norm(path))
    except (_Unrecognised, SyntaxError, KeyError, IndexError, AttributeError, TypeError) as e:
        # NOT an alarm: fall back on the reference translation kept beside the translator (not on what an earlier
        # run left in Generated/); the tie to the source rests on the correspondence for this run
        TRANSLATOR.clear()
        TRANSLATOR.update(status="translator: source shape not recognised, tie rests on the correspondence only", detail=str(e)[:120])
        print("note:", TRANSLATOR["status"], "(" + TRANSLATOR["detail"] + ")")
        src = open(REFERENCE).read()
        if not os.path.exists(GEN_FILE) or open(GEN_FILE).read() != src:
            with open(GEN_FILE, "w") as fh:
                fh.write(src)
        return
    except OSError as e:
        raise common.InfraError(f"translator: cannot read {path}: {e}")
    src = lean_source(x)
    old = open(GEN_FILE).read() if os.path.exists(GEN_FILE) else None
    if old != src:
        os.makedirs(os.path.dirname(GEN_FILE), exist_ok=True)
        with open(GEN_FILE, "w") as fh:
            fh.write(src)
    TRANSLATOR.clear()
    TRANSLATOR.update(status="translated", regenerated=(old != src), **{k: (str(v) if isinstance(v, Fraction) else v) for k, v in x.items()})


def extra_coverage(cases, impls, models):
    return dict(translator=dict(TRANSLATOR, file="lean/FDAModel/Generated/FcpLoop.lean", theorems="C17.source_controller, C17.source_normalisation"))


TOLS = [1e-8, 1e-7, 1e-6, 1e-5, 1e-4, 1e-3, 1e-2, 1e-1, 3e-5, 0.05, 2.5e-7]
MAXS = [0, 1, 1, 1, 2, 2, 3, 3, 4, 5, 6, 8, 10, 15, 20, 30]


# --------------------------------------------------------------------------
# generation
# --------------------------------------------------------------------------

def _data(rng: Rng, n, m1, m2, kind):
    N = m1 * m2
    if kind == "zeros":
        return [[Fraction(0)] * N for _ in range(n)]
    if kind == "const":
        c = rng.choice([Fraction(2), Fraction(-3, 2), Fraction(1, 4), Fraction(5)])
        return [[c] * N for _ in range(n)]
    if kind == "lowrank":
        r = rng.randint(1, 2)
        X = [[Fraction(0)] * N for _ in range(n)]
        for _ in range(r):
            a = rng.dyadics(n, -3, 3, 1)
            b = rng.dyadics(m1, -3, 3, 1)
            c = rng.dyadics(m2, -3, 3, 1)
            for i in range(n):
                for j in range(m1):
                    for k in range(m2):
                        X[i][j * m2 + k] += a[i] * b[j] * c[k]
        return X
    if kind == "withzeros":
        X = [rng.dyadics(N, -8, 8, 3) for _ in range(n)]
        for i in range(n):
            for p in range(N):
                if rng.random() < 0.5:
                    X[i][p] = Fraction(0)
        if rng.random() < 0.5:  # a whole observation and a whole image row are zero
            X[rng.randrange(n)] = [Fraction(0)] * N
            j = rng.randrange(m1)
            for i in range(n):
                for k in range(m2):
                    X[i][j * m2 + k] = Fraction(0)
        return X
    if kind == "smooth":
        a = rng.dyadics(n, -2, 2, 2)
        X = []
        for i in range(n):
            X.append([a[i] * Fraction((j + 1) * (k + 2), m1 * m2) + Fraction(i * j - k, 8) for j in range(m1) for k in range(m2)])
        return X
    return [rng.dyadics(N, -8, 8, 4) for _ in range(n)]


SCRIPTS = ("never", "immediately", "after_max", "at_2max-1", "only_after_x10", "nan_mid")


def _script_action(pattern, j, mx):
    """What the fake update does at its j-th call (j >= 1) within a component."""
    if pattern == "never":
        return "flip"
    if pattern == "immediately":
        return "same"
    if pattern == "after_max":
        return "flip" if j <= mx else "same"
    if pattern == "at_2max-1":
        return "flip" if j < max(2 * mx - 1, 1) else "same"
    if pattern == "only_after_x10":
        return "grow"  # ratio 0.004975: above 1e-3, below 1e-2
    if pattern == "nan_mid":
        return "nan" if j == mx // 2 + 1 else "flip"
    raise ValueError(pattern)


def _case(rng: Rng, big):
    hi_n, hi_m = (15, 15) if big else (8, 8)
    n = rng.randint(2, hi_n)
    m1, m2 = rng.randint(3, hi_m), rng.randint(3, hi_m)
    if rng.random() < 0.08:
        n, m1, m2 = rng.choice([(2, 3, 3), (15, 3, 4), (2, 15, 3), (3, 3, 15), (15, 15, 15) if big else (10, 9, 11)])
    kind = rng.choice(["rand", "rand", "rand", "lowrank", "lowrank", "const", "withzeros", "withzeros", "smooth", "zeros"])
    if kind == "zeros" and rng.random() < 0.6:
        kind = "rand"
    X = _data(rng, n, m1, m2, kind)
    # dtype / memory-layout sweep: integer-valued stacks given as int64 / int32 / uint8 / float32 / float64 arrays,
    # C / Fortran / strided layouts (the float64 C-ordered copy is the reference of the model and the oracle)
    dtype, layout = "float64", "C"
    if rng.random() < 0.2:
        nonneg = rng.random() < 0.5
        X = [[Fraction(rng.randint(0 if nonneg else -9, 20 if nonneg else 9)) for _ in row] for row in X]
        if kind == "const":
            X = [[X[0][0] if X[0][0] != 0 else Fraction(3)] * (m1 * m2) for _ in range(n)]
        dtype = rng.choice(["int64", "int32", "uint8", "float32", "float64"] if nonneg else ["int64", "int32", "float32", "float64"])
        kind = kind if kind == "const" else "rand"
    if rng.random() < 0.3:
        layout = rng.choice(["F", "strided"])
    tol = rng.choice(TOLS)
    r = rng.random()
    if r < 0.04:
        tol = 0.0
    elif r < 0.08:
        tol = 2.0
    a = rng.randint(-6, 5)
    b = rng.randint(a + 1, 6)
    a2 = rng.randint(-6, 5)
    b2 = rng.randint(a2 + 1, 6)
    pen = rng.choice(["diff", "diff", "diff", "zero", "identity", "randpsd"])
    case = dict(
        kind="fit", n=n, m1=m1, m2=m2, ck=kind,
        X=[[rs(x) for x in row] for row in X],
        t1=[rs(x) for x in rng.grid(m1, lo=rng.choice([0, -1, 10]), scale=rng.choice([1, 4, Fraction(1, 2)]))],
        t2=[rs(x) for x in rng.grid(m2, lo=rng.choice([0, 2]), scale=rng.choice([1, 3]))],
        K=rng.randint(1, 5), tol=tol, max=rng.choice(MAXS), adapt=rng.random() < 0.5,
        ar_v=[10.0 ** a, 10.0 ** b], ar_w=[10.0 ** a2, 10.0 ** b2], pen=pen,
        pen_seed=rng.subseed(), seed=rng.subseed(), dtype=dtype, layout=layout,
    )
    return case


def gen_cases(rng: Rng, tier):
    n = dict(quick=130, thorough=1200)[tier]
    for k in range(n):
        yield _case(rng, big=(tier == "thorough" and k % 4 == 0))
    # scripted update step (the REAL fit loop driven by a fake `_update_components`): every branch of the
    # controller for every small max_iteration, both settings of adapt
    maxs = range(0, 5) if tier == "quick" else range(0, 9)
    for mx in maxs:
        for adapt in (False, True):
            for pattern in SCRIPTS:
                c = _case(rng, big=False)
                c.update(max=mx, adapt=adapt, script=pattern, tol=1e-3, K=rng.randint(1, 3), ck="rand", dtype="float64")
                c["X"] = [[rs(x) for x in row] for row in _data(rng, c["n"], c["m1"], c["m2"], "rand")]
                yield c


def search_cases(rng, tier):
    for _ in range(300 if tier == "quick" else 1500):
        yield _case(rng, big=False)


def witness_cases():
    """Witnesses of the open findings (known_findings.d/C17.json), plus — regression cases of the FIXED finding
    C17-zero-residual-nan — constant 2x3x4 data with K = 2 and the all-zero array (must now pass every clause)."""
    import json
    import os

    from common import VERIF

    path = os.path.join(VERIF, "known_findings.d", "C17.json")
    out = []
    if os.path.exists(path):
        for f in json.load(open(path)).get("open", []):
            if f.get("witness"):
                out.append(dict(f["witness"]))
    base = dict(kind="fit", n=2, m1=3, m2=4, ck="const", X=[["2"] * 12 for _ in range(2)], t1=["0", "1", "2"], t2=["0", "1", "2", "3"],
                K=2, tol=1e-4, max=5, adapt=True, ar_v=[1e-2, 1e2], ar_w=[1e-2, 1e2], pen="diff", pen_seed=0, seed=0,
                dtype="float64", layout="C", witness="fixed C17-zero-residual-nan (constant)")
    z = dict(base)
    z.update(ck="zeros_guarded", X=[["0"] * 12 for _ in range(2)], witness="fixed C17-zero-residual-nan (all-zero array)")
    return out + [base, z]


# --------------------------------------------------------------------------
# implementation side
# --------------------------------------------------------------------------

def _penalty(case, m, which):
    kind = case["pen"]
    if kind == "diff":
        d = np.diff(np.identity(m))
        return d @ d.T
    if kind == "zero":
        return np.zeros((m, m))
    if kind == "identity":
        return np.identity(m)
    r = np.random.RandomState(case["pen_seed"] + (0 if which == "v" else 1))
    A = r.randint(-2, 3, size=(m, m)).astype(float)
    return A @ A.T


def _ratio_token(vecs, olds, n_norm):
    """max_i ‖v_i − old_i‖/‖v_i‖ with the code's own expression; 'n' = all nan, 'i' = +inf."""
    vals = []
    with np.errstate(all="ignore"):
        for v, o in zip(vecs, olds):
            vals.append(float(n_norm(v - o) / n_norm(v)))
    fin = [x for x in vals if not math.isnan(x)]
    if not fin:
        return "n"
    mx = max(fin)
    if math.isinf(mx):
        return "i" if mx > 0 else "n"
    return mx


class Runaway(Exception):
    """Raised by the wrapper when the fit makes more update calls than K(2·max+1) + 3."""


def _fit_once(case, normalize, record, est=None, opts=None):
    """One seeded fit with `_update_components` / `_initialize_vectors` wrapped from outside."""
    from FDApy.preprocessing.dim_reduction import fcp_tpa
    from FDApy.representation.argvals import DenseArgvals
    from FDApy.representation.functional_data import DenseFunctionalData
    from FDApy.representation.values import DenseValues

    n, m1, m2 = case["n"], case["m1"], case["m2"]
    X = np.array([[float(F(x)) for x in row] for row in case["X"]]).reshape(n, m1, m2)
    t1 = np.array(fl([F(x) for x in case["t1"]]))
    t2 = np.array(fl([F(x) for x in case["t2"]]))
    Xin = X.astype(case.get("dtype", "float64"))
    lay = case.get("layout", "C")
    if lay == "F":
        Xin = np.asfortranarray(Xin)
    elif lay == "strided":
        big = np.zeros((n, m1, 2 * m2), dtype=Xin.dtype)
        big[:, :, ::2] = Xin
        Xin = big[:, :, ::2]
    else:
        Xin = Xin.copy()
    fd = DenseFunctionalData(DenseArgvals({"input_dim_0": t1, "input_dim_1": t2}), DenseValues(Xin))
    _fit_once.last_input = Xin
    calls, inits = [], []
    orig_u, orig_i = fcp_tpa._update_components, fcp_tpa._initialize_vectors

    state = dict(data=None, j=0)

    def fake_u(data, vectors, penalty_matrices, alphas, alpha_range, eigens):
        if state["data"] is not data:
            state["data"], state["j"] = data, 0
        state["j"] += 1
        act = _script_action(case["script"], state["j"], case["max"])
        f = dict(flip=-1.0, same=1.0, grow=1.005, nan=float("nan"))[act]
        return tuple(f * v for v in vectors), alphas

    limit = case["K"] * (2 * case["max"] + 1) + 3

    def wrap_u(data, vectors, *a, **k):
        if len(calls) >= limit:
            raise Runaway(f"{len(calls) + 1} update calls, bound K(2 max+1) = {limit - 3}")
        out = (fake_u if case.get("script") else orig_u)(data, vectors, *a, **k)
        if record:
            calls.append((data, tuple(np.array(v, copy=True) for v in vectors), tuple(np.array(v, copy=True) for v in out[0])))
        else:
            calls.append(None)
        return out

    def wrap_i(shape):
        out = orig_i(shape)
        inits.append(tuple(np.array(v, copy=True) for v in out))
        return out

    upd_calls, den_calls = [], []
    orig_uv, orig_cd = fcp_tpa._update_vector, fcp_tpa._compute_denominator

    def wrap_uv(data, vectors, penalty_matrix, alpha, denominator, formula):
        out = orig_uv(data, vectors, penalty_matrix=penalty_matrix, alpha=alpha, denominator=denominator, formula=formula)
        if record and len(upd_calls) < 6 and data.size <= 320:
            m = len(vectors[0])
            Om = np.zeros((m, m)) if np.isscalar(penalty_matrix) else np.array(penalty_matrix, dtype=float)
            upd_calls.append(dict(mode={"i, j, kij -> k": 0, "i, j, ikj -> k": 1, "i, j, ijk -> k": 2}.get(formula, -1),
                                  data=np.array(data, dtype=float).reshape(data.shape[0], -1).tolist(), a=np.array(vectors[1]).tolist(),
                                  b=np.array(vectors[2]).tolist(), Om=Om.tolist(), alpha=float(alpha), d=float(denominator),
                                  out=np.array(out).tolist()))
        return out

    def wrap_cd(a, alpha, penalty_matrix):
        out = orig_cd(a, alpha, penalty_matrix)
        if record and len(den_calls) < 6 and len(a) <= 20:
            m = len(a)
            Om = np.zeros((m, m)) if np.isscalar(penalty_matrix) else np.array(penalty_matrix, dtype=float)
            den_calls.append(dict(a=np.array(a).tolist(), alpha=float(alpha), Om=Om.tolist(), out=float(out)))
        return out

    if not case.get("script"):
        fcp_tpa._update_vector, fcp_tpa._compute_denominator = wrap_uv, wrap_cd
    _fit_once.last_inner = (upd_calls, den_calls)
    fcp_tpa._update_components, fcp_tpa._initialize_vectors = wrap_u, wrap_i
    opts = opts or {}
    if est is None:
        est = fcp_tpa.FCPTPA(n_components=opts.get("K", case["K"]), normalize=opts.get("normalize", normalize))
    n_warn = 0
    try:
        np.random.seed(case["seed"])
        with warnings.catch_warnings(record=True) as ws:
            warnings.simplefilter("always")
            with np.errstate(all="ignore"):
                est.fit(
                    fd,
                    penalty_matrices={"v": _penalty(case, m1, "v"), "w": _penalty(case, m2, "w")},
                    alpha_range={"v": tuple(case["ar_v"]), "w": tuple(case["ar_w"])},
                    tolerance=opts.get("tol", case["tol"]), max_iteration=opts.get("max", case["max"]),
                    adapt_tolerance=opts.get("adapt", case["adapt"]),
                )
        n_warn = sum(1 for w in ws if "did not converge" in str(w.message))
    finally:
        fcp_tpa._update_components, fcp_tpa._initialize_vectors = orig_u, orig_i
        fcp_tpa._update_vector, fcp_tpa._compute_denominator = orig_uv, orig_cd
    return est, fd, X, calls, inits, n_warn


def _group(case, X, calls, inits):
    """Split the recorded update calls into components by replaying the code's float deflation.

    Returns (counts, ratio tokens per component, unit vectors per component, ok)."""
    from numpy.linalg import norm

    K = case["K"]
    values = X
    cur = inits[0]
    pos = 0
    counts, ratios, units, zero_resid = [], [], [], []
    zero_contr = False
    for data, vin, _ in calls:
        # right-hand side of the u update; an exactly zero contraction makes u = 0 and the next divisors uᵀu = 0
        if all(np.isfinite(v).all() for v in vin) and not np.any(np.einsum("i, j, kij -> k", vin[1], vin[2], data) != 0):
            zero_contr = True
    for _ in range(K):
        zero_resid.append(bool(not np.any(values != 0)))  # also true when everything is nan? no: nan != 0
        zeros = tuple(np.zeros_like(v) for v in cur)
        toks = [_ratio_token(cur, zeros, norm)]
        cnt = 0
        # calls of this component: the ones that received this very `values` object content and chain from `cur`
        while pos < len(calls):
            data, vin, vout = calls[pos]
            if not (np.array_equal(data, values, equal_nan=True) and all(np.array_equal(a, b, equal_nan=True) for a, b in zip(vin, cur))):
                break
            if cnt > 0 and data is not calls[pos - 1][0]:
                break
            toks.append(_ratio_token(vout, vin, norm))
            cur = vout
            cnt += 1
            pos += 1
        counts.append(cnt)
        ratios.append(toks)
        with np.errstate(all="ignore"):
            unit = tuple(v / norm(v) for v in cur)
            c = np.einsum("ijk, i, j, k -> ...", values, *unit)
            values = values - (c * np.einsum("i, j, k -> ijk", *unit))
        units.append(unit)
        cur = unit
    return counts, ratios, units, pos == len(calls), zero_resid, zero_contr


def run_impl(case):
    out = {}
    try:
        est, fd, X, calls, inits, n_warn = _fit_once(case, False, True)
    except Runaway as e:
        return dict(runaway=str(e))
    out["upd_calls"], out["den_calls"] = _fit_once.last_inner
    counts, ratios, units, ok, zero_resid, zero_contr = _group(case, np.array(_fit_once.last_input, copy=True, order="K"), calls, inits)
    out["zero_resid"] = zero_resid
    out["zero_contraction"] = bool(zero_contr)
    kf = 0
    while kf < len(units) and all(np.isfinite(v).all() for v in units[kf]):
        kf += 1
    out["Kf"] = kf  # number of leading components with finite vectors
    out["counts"] = counts
    out["ratios"] = ratios
    out["grouping_ok"] = bool(ok)
    out["total_calls"] = len(calls)
    out["n_warn"] = n_warn
    out["U"] = [u[0].tolist() for u in units]
    out["V"] = [u[1].tolist() for u in units]
    out["W"] = [u[2].tolist() for u in units]
    S = np.asarray(est.transform(fd, method="FCPTPA"))
    E = np.asarray(est.eigenfunctions.values)
    out["scores"] = S.tolist()
    out["eigenvalues"] = np.asarray(est.eigenvalues).tolist()
    out["eigenimages"] = E.reshape(E.shape[0], -1).tolist()
    with np.errstate(all="ignore"):
        rec = np.asarray(est.inverse_transform(S).values)
        out["recon"] = rec.reshape(rec.shape[0], -1).tolist()
        out["numint"] = np.asarray(est.transform(fd, method="NumInt")).tolist()
    # read-only-looking calls must not write fitted state (scored with OTHER data in between)
    snap = (S.copy(), E.copy(), np.array(est.eigenvalues, copy=True))
    with np.errstate(all="ignore"):
        other_fd = type(fd)(fd.argvals, type(fd.values)(3.0 * np.asarray(fd.values)[::-1, ::-1, :] + 0.125))
        est.transform(other_fd, method="NumInt")
        est.inverse_transform(np.asarray(est.transform(other_fd, method="NumInt")))
        est.transform(other_fd, method="FCPTPA")
        rec_after = np.asarray(est.inverse_transform(S).values)
    out["readonly_ok"] = bool(
        np.array_equal(snap[0], np.asarray(est.transform(fd, method="FCPTPA")), equal_nan=True)
        and np.array_equal(snap[1], np.asarray(est.eigenfunctions.values), equal_nan=True)
        and np.array_equal(snap[2], np.asarray(est.eigenvalues), equal_nan=True)
        and np.array_equal(rec_after, rec, equal_nan=True)
        and np.array_equal(np.asarray(est.transform(fd, method="NumInt")), np.asarray(out["numint"]), equal_nan=True)
    )
    try:
        est.transform(fd, method="nope")
        out["bad_method"] = "accepted"
    except Exception as e:  # noqa: BLE001
        out["bad_method"] = type(e).__name__
    out["finite"] = bool(np.isfinite(S).all() and np.isfinite(E).all())
    out["data_unchanged"] = bool(np.array_equal(np.asarray(fd.values), X) and np.asarray(fd.values).dtype == np.dtype(case.get("dtype", "float64")))
    # --- same global seed again: identical results
    est2, _, _, calls2, _, _ = _fit_once(case, False, False)
    S2, E2 = np.asarray(est2.transform(fd, method="FCPTPA")), np.asarray(est2.eigenfunctions.values)
    out["repro"] = bool(
        len(calls2) == len(calls)
        and np.array_equal(S, S2, equal_nan=True)
        and np.array_equal(E, E2, equal_nan=True)
        and np.array_equal(est.eigenvalues, est2.eigenvalues, equal_nan=True)
    )
    # --- normalisation option, same seed
    est3, fd3, _, calls3, _, _ = _fit_once(case, True, False)
    S3, E3 = np.asarray(est3.transform(fd3, method="FCPTPA")), np.asarray(est3.eigenfunctions.values)
    out["n_calls_norm"] = len(calls3)
    out["scores_n"] = S3.tolist()
    out["eigenvalues_n"] = np.asarray(est3.eigenvalues).tolist()
    out["eigenimages_n"] = E3.reshape(E3.shape[0], -1).tolist()
    with np.errstate(all="ignore"):
        out["normsq_n"] = np.asarray(est3.eigenfunctions.norm(squared=True)).tolist()
        rec3 = np.asarray(est3.inverse_transform(S3).values)
        out["recon_n"] = rec3.reshape(rec3.shape[0], -1).tolist()
        out["numint_n"] = np.asarray(est3.transform(fd3, method="NumInt")).tolist()
    # --- history on ONE estimator object: fit something else first (other data, other options), then the case
    other = dict(case)
    other.update(K=max(1, (case["K"] + 1) % 4), max=2, tol=1e-2, adapt=not case["adapt"],
                 X=[row[::-1] for row in case["X"][::-1]], script=None,
                 # same shapes, different CONTENT of every fit argument (penalties, alpha ranges)
                 pen={"diff": "randpsd", "randpsd": "identity", "identity": "diff", "zero": "diff"}[case["pen"]],
                 pen_seed=case["pen_seed"] + 17,
                 ar_v=[case["ar_v"][0] * 10, case["ar_v"][1] * 100], ar_w=[case["ar_w"][0] / 10, case["ar_w"][1] * 10])
    est_h, fd_h, _, _, _, _ = _fit_once(other, True, False)
    with np.errstate(all="ignore"):  # use the first fit (fills any lazily computed state)
        est_h.inverse_transform(np.asarray(est_h.transform(fd_h, method="FCPTPA")))
        est_h.transform(fd_h, method="NumInt")
    est_h.n_components, est_h.normalize = case["K"], False
    est_h2, _, _, calls_h, _, _ = _fit_once(case, False, False, est=est_h)
    S4, E4 = np.asarray(est_h2.transform(fd, method="FCPTPA")), np.asarray(est_h2.eigenfunctions.values)
    out["history_ok"] = bool(
        len(calls_h) == len(calls) and np.array_equal(S, S4, equal_nan=True) and np.array_equal(E, E4, equal_nan=True)
        and np.array_equal(est.eigenvalues, est_h2.eigenvalues, equal_nan=True)
        and np.array_equal(np.asarray(est_h2.transform(fd, method="NumInt")), np.asarray(out["numint"]), equal_nan=True)
        and np.array_equal(np.asarray(est_h2.inverse_transform(S4).values), rec, equal_nan=True)
    )
    # --- option VALUES of other-but-equivalent types (np.bool_ / 0-1 int, NumPy scalars, 0-d and 1-element arrays):
    # same results as with the plain Python values; the caller's option objects are not modified; the SAME objects
    # reused in a second call give the same results
    pick = case["seed"] % 3
    tol_obj = [np.float64(case["tol"]), np.array(case["tol"]), np.array([case["tol"]])][pick]
    max_obj = [np.int64(case["max"]), np.array(case["max"]), np.int32(case["max"])][pick]
    opts = dict(normalize=np.bool_(True) if pick != 1 else 1, adapt=np.bool_(case["adapt"]) if pick != 2 else int(case["adapt"]),
                tol=tol_obj, max=max_obj, K=np.int64(case["K"]))
    before = (np.array(tol_obj, copy=True), np.array(max_obj, copy=True))
    typed = {}
    try:
        est5, fd5, _, calls5, _, _ = _fit_once(case, True, False, opts=opts)
        S5, E5 = np.asarray(est5.transform(fd5, method="FCPTPA")), np.asarray(est5.eigenfunctions.values)
        typed["same"] = bool(len(calls5) == len(calls3) and np.array_equal(S5, S3, equal_nan=True) and np.array_equal(E5, E3, equal_nan=True)
                             and np.array_equal(est5.eigenvalues, est3.eigenvalues, equal_nan=True))
        typed["options_unchanged"] = bool(np.array_equal(before[0], np.asarray(tol_obj)) and np.array_equal(before[1], np.asarray(max_obj)))
        est6, fd6, _, calls6, _, _ = _fit_once(case, True, False, opts=opts)  # the very same option objects again
        S6, E6 = np.asarray(est6.transform(fd6, method="FCPTPA")), np.asarray(est6.eigenfunctions.values)
        typed["reused_same"] = bool(len(calls6) == len(calls5) and np.array_equal(S6, S5, equal_nan=True) and np.array_equal(E6, E5, equal_nan=True))
    except Runaway as e:
        typed["error"] = "Runaway: " + str(e)
    except Exception as e:  # noqa: BLE001
        typed["error"] = type(e).__name__ + ": " + str(e)[:100]
    typed["kinds"] = dict(tol=type(tol_obj).__name__ + (str(np.shape(tol_obj)) if isinstance(tol_obj, np.ndarray) else ""), max=type(max_obj).__name__,
                          normalize=type(opts["normalize"]).__name__, adapt=type(opts["adapt"]).__name__)
    out["typed"] = typed
    # --- ties between a recorded ratio and a tolerance level
    tie = False
    tol = F(case["tol"])
    levels = [tol * 10 ** j for j in range(0, case["max"] + 2)]
    for toks in ratios:
        for r in toks:
            if isinstance(r, float):
                q = F(r)
                for lv in levels:
                    if abs(q - lv) <= Fraction(1, 10 ** 9) * max(lv, Fraction(1, 10 ** 30)):
                        tie = True
    out["tie"] = tie
    return out


# --------------------------------------------------------------------------
# model side
# --------------------------------------------------------------------------

def _tok(r):
    return r if isinstance(r, str) else rs(F(r))


def _positions(case):
    N = case["n"] * case["m1"] * case["m2"]
    if N <= 60:
        return list(range(N))
    r = Rng(f"pos-{case['seed']}")
    return sorted(r.sample(range(N), 40))


def _mat(rows):
    return ";".join(",".join(rs(F(x)) for x in r) for r in rows)


def model_lines(case, impl):
    if "__crash__" in impl or "runaway" in impl:
        return []
    # repaired loop: `values.any() and any(…)` — the controller gets the guard flag of every component
    nz = [0 if zr else 1 for zr in impl.get("zero_resid", [False] * len(impl["ratios"]))]
    ctl = "ctl {} {} {} {} {} {}".format(
        case["max"], 1 if case["adapt"] else 0, rs(F(case["tol"])), len(impl["ratios"]), ",".join(str(x) for x in nz),
        ";".join(",".join(_tok(r) for r in toks) for toks in impl["ratios"]),
    )
    lines = [ctl]
    for u in impl.get("upd_calls", []):
        if u["mode"] >= 0 and all(np.isfinite(np.asarray(u[k], dtype=float)).all() for k in ("data", "a", "b", "Om", "out")) and math.isfinite(u["d"]) and math.isfinite(u["alpha"]):
            lines.append("upd {} {} {} {} {} {} {} {} {} {} {}".format(
                u["mode"], case["n"], case["m1"], case["m2"], rs(F(u["alpha"])), _mat(u["Om"]), rs(F(u["d"])), _mat(u["data"]),
                ",".join(rs(F(x)) for x in u["a"]), ",".join(rs(F(x)) for x in u["b"]), ",".join(rs(F(x)) for x in u["out"])))
    for dcall in impl.get("den_calls", []):
        if np.isfinite(np.asarray(dcall["a"], dtype=float)).all() and math.isfinite(dcall["out"]):
            lines.append("den {} {} {}".format(rs(F(dcall["alpha"])), _mat(dcall["Om"]), ",".join(rs(F(x)) for x in dcall["a"])))
    K = impl["Kf"]
    if K == 0:
        return lines
    try:
        return lines + _fit_model_lines(case, impl, K)
    except ValueError:
        return lines  # non-finite implementation output where the replayed vectors are finite: compare() reports it


def _fit_model_lines(case, impl, K):
    lines = []
    n, m1, m2 = case["n"], case["m1"], case["m2"]
    X = ";".join(",".join(r) for r in case["X"])
    lines.append(
        f"fit {n} {m1} {m2} {K} {X} {_mat(impl['U'][:K])} {_mat(impl['V'][:K])} {_mat(impl['W'][:K])} "
        + ",".join(str(p) for p in _positions(case))
    )
    lines.append(f"norm {','.join(case['t1'])} {','.join(case['t2'])} {_mat(impl['V'][:K])} {_mat(impl['W'][:K])}")
    lines.append(f"numint {m1} {m2} 1 {X} {_mat(impl['eigenimages'][:K])}")
    if all(math.isfinite(x) for r in impl["eigenimages_n"][:K] for x in r):
        lines.append(f"numint {m1} {m2} {m1 * m2} {X} {_mat(impl['eigenimages_n'][:K])}")
    return lines


def _pv(s):
    return [] if s == "-" else [Fraction(t) for t in s.split(",")]


def _pm(s):
    return [] if s == "-" else [_pv(r) for r in s.split(";")]


def parse_model(case, outs):
    outs = list(outs)
    upd = [o[2:] for o in outs if o.startswith("U ")]
    den = [o[2:] for o in outs if o.startswith("D ")]
    outs = [o for o in outs if not o.startswith(("U ", "D "))]
    m = dict(ctl=outs[0], upd=upd, den=den)
    if len(outs) > 1:
        f = outs[1].split(" ")
        if len(f) == 7:
            m.update(coef=_pv(f[0]), cabs=_pv(f[1]), energy=_pv(f[2]), tau=_pv(f[3]), scores=_pm(f[4]), lam=_pv(f[5]), recon=_pv(f[6]))
        else:
            m["fit_error"] = outs[1]
        m["normsq"] = _pv(outs[2]) if "," in outs[2] or "/" in outs[2] or outs[2].lstrip("-").isdigit() else outs[2]
        m["numint"] = outs[3]
        if len(outs) > 4:
            m["numint_n"] = outs[4]
    return m


def compare(case, impl, model):
    if "__crash__" in impl:
        return [f"implementation crashed: {impl['__crash__']} {impl.get('msg')}"]
    ds = []
    ctl = model["ctl"].split(" ")
    if ctl[0] != "ok":
        ds.append(f"controller: model answers {model['ctl']!r} but the implementation terminated with counts {impl['counts']}")
    elif not impl["tie"]:
        mc = [] if ctl[1] == "-" else [int(x) for x in ctl[1].split(",")]
        if mc != impl["counts"]:
            ds.append(f"update calls per component: impl {impl['counts']} vs controller {mc}")
        if Fraction(ctl[2]) != F(case["tol"]):
            ds.append(f"controller ends with tolerance {ctl[2]} instead of the initial {case['tol']}")
    # inside `_update_components`: recorded `_update_vector` calls solve their normal equations (backward error),
    # `_compute_denominator` is aᵀ(a + αΩa)
    sent = [u for u in impl.get("upd_calls", []) if u["mode"] >= 0 and all(np.isfinite(np.asarray(u[k], dtype=float)).all() for k in ("data", "a", "b", "Om", "out")) and math.isfinite(u["d"]) and math.isfinite(u["alpha"])]
    for u, ans in zip(sent, model.get("upd", [])):
        parts = ans.split(" ")
        if len(parts) != 2:
            ds.append(f"model answer to upd: {ans[:60]}")
            break
        res, sc = _pv(parts[0]), _pv(parts[1])
        for i, (r, z) in enumerate(zip(res, sc)):
            if abs(r) > Fraction(1, 10 ** 9) * z + Fraction(1, 10 ** 300):
                ds.append(f"_update_vector (mode {u['mode']}): output does not solve (I+αΩ)(d·out) = einsum(…): residual[{i}] = {float(r)!r}, Σ|terms| = {float(z)!r}")
                break
    sentd = [d for d in impl.get("den_calls", []) if np.isfinite(np.asarray(d["a"], dtype=float)).all() and math.isfinite(d["out"])]
    for dcall, ans in zip(sentd, model.get("den", [])):
        q = Fraction(ans)
        a = np.abs(np.asarray(dcall["a"], dtype=float))
        scale = float(a @ a + abs(dcall["alpha"]) * (a @ np.abs(np.asarray(dcall["Om"], dtype=float)) @ a)) + 1e-300
        if not close(dcall["out"], q, scale, 1e-9):
            ds.append(f"_compute_denominator: impl {dcall['out']!r} vs exact {float(q)!r}")
            break
    if not impl["grouping_ok"]:
        ds.append("recorded update calls do not chain as (residual, vectors) of consecutive components")
    if "coef" not in model:
        if impl["Kf"] > 0:
            ds.append(f"model gave no fit answer: {model.get('fit_error')}")
        return ds
    K, n = impl["Kf"], case["n"]
    full = K == case["K"]
    cabs = [max(c, Fraction(1, 10 ** 300)) for c in model["cabs"]]
    # exact sanity of the driver's own numbers: E_{k+1} = E_k − c_k²(2 − τ_k)
    for k in range(K):
        if model["energy"][k + 1] != model["energy"][k] - model["coef"][k] ** 2 * (2 - model["tau"][k]):
            ds.append(f"model: energy recursion fails at component {k}")
        if abs(model["tau"][k] - 1) > Fraction(1, 10 ** 14):
            ds.append(f"component {k}: recorded vectors are not unit: ‖u‖²‖v‖²‖w‖² = {float(model['tau'][k])!r}")
    S = impl["scores"]
    for i in range(n):
        for k in range(K):
            if not close(S[i][k], model["scores"][i][k], cabs[k], 1e-9):
                ds.append(f"scores[{i}][{k}]: impl {S[i][k]!r} vs exact {float(model['scores'][i][k])!r}")
                break
        if ds:
            break
    for k in range(K):
        if not close(impl["eigenvalues"][k], model["lam"][k], cabs[k] ** 2, 1e-9):
            ds.append(f"eigenvalues[{k}]: impl {impl['eigenvalues'][k]!r} vs exact {float(model['lam'][k])!r}")
    # eigenimages = v ⊗ w of the recorded unit vectors
    m1, m2 = case["m1"], case["m2"]
    for k in range(K):
        V, W = impl["V"][k], impl["W"][k]
        for j in range(m1):
            for l in range(m2):
                if not close(impl["eigenimages"][k][j * m2 + l], F(V[j]) * F(W[l]), 1.0, 1e-12):
                    ds.append(f"eigenimage[{k}][{j},{l}] is not v_j w_l")
                    break
            else:
                continue
            break
    pos = _positions(case)
    sc = sum(cabs)
    N2 = m1 * m2
    for p, q in zip(pos, model["recon"]):
        f = impl["recon"][p // N2][p % N2]
        if full and not close(f, q, sc, 1e-9):
            ds.append(f"inverse_transform(_scores)[{p}]: impl {f!r} vs exact {float(q)!r}")
            break
    # reconstruction error of the implementation vs exact residual energy
    Xf = np.array([[float(F(x)) for x in row] for row in case["X"]])
    err = float(((Xf - np.array(impl["recon"])) ** 2).sum())
    if full and not close(err, model["energy"][K], max(model["energy"][0], Fraction(1, 10 ** 300)), 1e-9):
        ds.append(f"‖X − inverse_transform(scores)‖² = {err!r} vs exact residual energy {float(model['energy'][K])!r}")
    # NumInt scores
    for nm, key in (("numint", "numint"), ("numint_n", "numint_n")):
        if key in model and isinstance(model[key], str) and not model[key].startswith(("bad", "error")):
            Q = _pm(model[key])
            A = impl[nm]
            scale = float(np.abs(Xf).sum(axis=1).max()) * (1.0 if nm == "numint" else max(abs(x) for r in impl["eigenimages_n"][:K] for x in r) / (m1 * m2)) + 1e-300
            for i in range(n):
                for k in range(K):
                    if not close(A[i][k], Q[i][k], scale, 1e-9):
                        ds.append(f"transform NumInt ({nm})[{i}][{k}]: impl {A[i][k]!r} vs exact {float(Q[i][k])!r}")
                        break
                else:
                    continue
                break
    # normalisation option: same vectors (same seed), scaled by r_k, r_k² = exact squared L² norm of the eigenimage
    if impl["n_calls_norm"] == impl["total_calls"] and isinstance(model["normsq"], list):
        r2 = model["normsq"]
        for k in range(K):
            if r2[k] <= 0:
                continue
            r = math.sqrt(float(r2[k]))
            if not close(impl["eigenvalues_n"][k], model["lam"][k] * r2[k], cabs[k] ** 2 * r2[k], 1e-9):
                ds.append(f"normalised eigenvalue[{k}]: impl {impl['eigenvalues_n'][k]!r} vs exact {float(model['lam'][k] * r2[k])!r}")
            for i in range(n):
                if not close(impl["scores_n"][i][k], float(model["scores"][i][k]) * r, float(cabs[k]) * r, 1e-8):
                    ds.append(f"normalised scores[{i}][{k}]: impl {impl['scores_n'][i][k]!r} vs {float(model['scores'][i][k]) * r!r}")
                    break
            for p in range(N2):
                if not close(impl["eigenimages_n"][k][p] * r, impl["eigenimages"][k][p], 1.0, 1e-9):
                    ds.append(f"normalised eigenimage[{k}][{p}] is not eigenimage/norm")
                    break
    return ds


# --------------------------------------------------------------------------
# the property's own predicate, evaluated on the implementation
# --------------------------------------------------------------------------

def oracle(case, impl):
    if "__crash__" in impl:
        return [dict(clause="runs", entry="FCPTPA.fit", msg=f"crash {impl['__crash__']}: {impl.get('msg')} {impl.get('tb', '')[-300:]}")]
    vs = []

    def bad(clause, msg, entry="FCPTPA.fit", causes=()):
        vs.append(dict(clause=clause, entry=entry, msg=msg, causes=list(causes)))

    if "runaway" in impl:
        bad("terminates", f"fit did not stop: {impl['runaway']}")
        return vs

    mx = case["max"]
    for k, c in enumerate(impl["counts"]):
        if c > 2 * mx + 1:
            bad("terminates", f"component {k}: {c} updates > 2*{mx}+1")
    if impl["total_calls"] > case["K"] * (2 * mx + 1):
        bad("terminates", f"{impl['total_calls']} updates for {case['K']} components > K(2*{mx}+1)")
    if not impl["repro"]:
        bad("reproducible", "two fits under the same global seed differ")
    ty = impl.get("typed", {})
    if ty.get("error"):
        bad("option_types", f"options given as {ty.get('kinds')} are not accepted although the plain values are: {ty['error']}", causes=["option_value_type"])
    else:
        if not ty.get("same", True):
            bad("option_types", f"options given as {ty.get('kinds')} change the results w.r.t. the plain Python values (normalize=True run)", causes=["option_value_type"])
        if not ty.get("options_unchanged", True):
            bad("input_unchanged", f"fit modified the caller's option objects ({ty.get('kinds')})", causes=["option_object_mutated"])
        if not ty.get("reused_same", True):
            bad("reproducible", f"a second fit with the SAME option objects ({ty.get('kinds')}) under the same seed differs from the first", causes=["option_object_mutated"])
    if not impl.get("readonly_ok", True):
        bad("readonly_calls", "transform / inverse_transform on other data changed the fitted state or later results", "FCPTPA.transform", causes=["state_written_by_transform"])
    if not impl.get("data_unchanged", True):
        bad("input_unchanged", "fit changed the values of the data object it was given")
    if not impl["history_ok"]:
        bad("reproducible", "a fit on an estimator object that was fitted before (other data, other options) differs from a fresh fit under the same seed", causes=["stale_state"])
    if impl["bad_method"] != "ValueError":
        bad("transform_method", f"unknown transform method: {impl['bad_method']}", "FCPTPA.transform")
    X = np.array([[float(F(x)) for x in row] for row in case["X"]])
    n, m1, m2, K = case["n"], case["m1"], case["m2"], impl["Kf"]
    if not impl["finite"] or K < case["K"]:
        if case.get("script") == "nan_mid":
            return vs  # the scripted update step injected the nan itself
        causes = []
        zr = impl["zero_resid"]
        if impl["zero_contraction"] and not (any(zr) and zr.index(True) <= K):
            # 0/0 in the update step: a NON-zero residual whose contraction with the current v, w is exactly 0
            # (an exactly zero residual is handled by the `values.any()` guard since 5419aa3: a nan there is new)
            causes.append("zero_contraction")
        bad("finite", f"components {K}.. of {case['K']} are not finite (no unit-norm rank-one tensor); zero residual flags {zr}, zero contraction {impl['zero_contraction']}", causes=causes)
    S = np.array(impl["scores"])
    E = np.array(impl["eigenimages"])
    ex = float((X ** 2).sum())
    tolE = 1e-9 * max(ex, 1e-300)
    R = X.copy()
    prev = ex
    csq = 0.0
    for k in range(K):
        Ek = E[k].reshape(m1, m2)
        if not (np.isfinite(Ek).all() and np.isfinite(S[:, k]).all()):
            bad("finite", f"component {k}: non-finite eigenimage / scores although the recorded vectors are finite")
            return vs
        # unit norm and rank one
        fro = float((Ek ** 2).sum())
        if abs(fro - 1) > 1e-9:
            bad("unit_rank_one", f"eigenimage {k} has Frobenius norm² {fro}")
        sv = np.linalg.svd(Ek, compute_uv=False)
        if len(sv) > 1 and sv[1] > 1e-9 * max(sv[0], 1e-300):
            bad("unit_rank_one", f"eigenimage {k} is not rank one (σ₂/σ₁ = {sv[1] / sv[0]})")
        ck2 = float((S[:, k] ** 2).sum())  # = c_k² since u_k is a unit vector
        Tk = np.einsum("i,j->ij", S[:, k], E[k])  # c_k u_k ⊗ v_k ⊗ w_k
        proj = float((R * Tk).sum())  # ⟨R_k, c_k T_k⟩ must be c_k²
        if abs(proj - ck2) > 1e-9 * max(ex, 1e-300):
            bad("projection", f"component {k}: ⟨residual, c T⟩ = {proj} but c² = {ck2}: the coefficient is not the projection of the current residual")
        R = R - Tk
        cur = float((R ** 2).sum())
        csq += ck2
        if cur > prev + tolE:
            bad("error_monotone", f"reconstruction error increases at component {k}: {prev} -> {cur}")
        if abs(cur - (ex - csq)) > tolE:
            bad("energy_identity", f"after {k + 1} components ‖X−Σ‖² = {cur} but ‖X‖² − Σc² = {ex - csq}")
        prev = cur
    rec = np.array(impl["recon"])
    if K < case["K"]:
        return vs
    if np.abs((X - rec) - R).max() > 1e-9 * max(np.abs(X).max(), 1e-300) * max(K, 1) * 10:
        bad("reconstruction_from_scores", "inverse_transform(_scores) is not Σ_k c_k u_k⊗v_k⊗w_k", "FCPTPA.inverse_transform")
    lam = np.var(S, axis=0)
    if np.abs(lam - np.array(impl["eigenvalues"])).max() > 1e-9 * max(ex, 1e-300):
        bad("eigenvalues", "eigenvalues are not the variances of the scores")
    # normalisation option
    if impl["n_calls_norm"] == impl["total_calls"]:
        nn = np.array(impl["normsq_n"])
        okk = np.isfinite(nn)
        if okk.any() and np.abs(nn[okk] - 1).max() > 1e-9:
            bad("normalize_unit", f"normalised eigenimages have squared L² norms {nn.tolist()}")
        Sn = np.array(impl["scores_n"])
        ln = np.array(impl["eigenvalues_n"])
        if np.isfinite(Sn).all() and np.isfinite(ln).all() and np.abs(np.var(Sn, axis=0) - ln).max() > 1e-9 * max(float((Sn ** 2).mean(axis=0).max()), 1e-300):
            bad("normalize_eigenvalues", "normalised eigenvalues are not the variances of the normalised scores (scaled by norm²)")
        rec_n = np.array(impl["recon_n"])
        if np.isfinite(rec_n).all() and np.abs(rec_n - rec).max() > 1e-9 * max(np.abs(X).max(), 1e-300) * max(K, 1) * 10:
            bad("normalize_reconstruction", "normalisation changes inverse_transform(_scores)", "FCPTPA.inverse_transform")
    else:
        bad("reproducible", f"normalize=True run made {impl['n_calls_norm']} updates, normalize=False {impl['total_calls']} under the same seed")
    return vs


def nontrivial(case, impl):
    if case.get("ck") == "zeros" or "__crash__" in impl or "runaway" in impl or impl.get("total_calls", 0) == 0:
        return None
    return digest(case)


def classify(case, impl):
    tags = ["kind:" + ("scripted:" + case["script"] if case.get("script") else "fit"), "dtype:" + case.get("dtype", "float64"), "layout:" + case.get("layout", "C"), "content:" + case["ck"], "pen:" + case["pen"], f"adapt:{case['adapt']}",
            "max:" + ("0" if case["max"] == 0 else "1" if case["max"] == 1 else "2-5" if case["max"] <= 5 else "6+"),
            f"K:{case['K']}"]
    if "__crash__" in impl or "runaway" in impl:
        return tags + ["crash"]
    mx = case["max"]
    for c in impl["counts"]:
        if c == 0:
            tags.append("count:0")
        elif c > mx:
            tags.append("count:beyond_max")
        else:
            tags.append("count:converged")
        if c == max(2 * mx, mx + 1) and case["adapt"]:
            tags.append("count:adapt_limit")
    if impl.get("tie"):
        tags.append("tie")
    if not impl.get("finite", True):
        tags.append("nonfinite")
    if impl.get("n_warn"):
        tags.append("forced_exit_warning")
    return tags
