"""C16 — analysis never changes its inputs and is repeatable (histories over all public methods).

Every public method of every data class (dense 1-D / 2-D, irregular, basis expansion, multivariate)
and estimator (UFPCA, MFPCA, FCPTPA, PSplines, LocalPolynomial) is enumerated BY REFLECTION.  For each
call the generic oracle checks, on the implementation:
  (b) deep snapshots of the inputs, the estimator configuration and earlier results before / after
      the call, and over pairs of consecutive calls (call A; snapshot; call B; compare);
  (c) the same call with every input array made read-only (an in-place write raises);
  (d) the call repeated (refit) gives bitwise identical results (global seed fixed for FCP-TPA);
  (e) the call under two different heap poisonings gives identical results (no uninitialised memory).
Methods that have an ALIASING SKELETON in the Lean model (`FDAModel/Alias.lean`) additionally get
  (a) the predicted alias graph (which result cells are input cells) and the predicted set of
      written input cells compared with `is` / `np.shares_memory` and the snapshot difference.
A method without a skeleton is listed as unmodelled in the evidence.
"""
from __future__ import annotations

import inspect
import warnings
from fractions import Fraction

import numpy as np

import c16_util as U
from common import Rng, digest, err_class

warnings.simplefilter("ignore")

PROP = "C16"
MODULES = ["FDAProofs.Props.C16"]
DRIVER = "Drivers/C16.lean"
PARALLEL = True
RULE = (
    "all public methods of DenseFunctionalData (1-D, 2-D), IrregularFunctionalData, BasisFunctionalData, "
    "MultivariateFunctionalData and of UFPCA / MFPCA / FCPTPA / PSplines / LocalPolynomial enumerated by reflection, each "
    "with its default and its non-default option sets, on seeded small exact datasets that contain a zero-variance "
    "sampling point; single calls (snapshot, read-only inputs, repeat, two heap poisonings, alias graph) and pairs of "
    "consecutive calls (quick: a seeded sample of pairs, thorough: all pairs per class); non-trivial = the call returned; "
    "distinct by (subject, method, options)"
)
PARTIAL = [
    "the aliasing skeletons are abstractions of the Python source validated only dynamically (alias graph / written cells)",
    "NumPy views and object identity are observed (np.shares_memory / is), not proved",
    "uninitialised memory is made observable by heap poisoning, which depends on allocator reuse (sampled)",
    "methods without a skeleton get the generic oracle only (listed in the evidence as unmodelled)",
    "estimator skeletons (fit / transform / inverse_transform with the score array as an input cell) are proved to pass the check but compared dynamically only through snapshots / read-only inputs, not through an alias graph",
    "multivariate skeletons are written for two components; the irregular indexing skeleton is parametric in the index list",
]

MUTATORS = {"append", "clear", "extend", "insert", "pop", "remove", "reverse", "sort"}  # list mutators by contract (C11)


# --------------------------------------------------------------------------
# subjects
# --------------------------------------------------------------------------

def _dy(rng, shape, lo=-2, hi=2, bits=3):
    n = int(np.prod(shape))
    return np.array([float(rng.dyadic(lo, hi, bits)) for _ in range(n)], dtype=float).reshape(shape)


def make_subject(kind, seed):
    """Fresh inputs of a case: (subject, extra objects used as arguments)."""
    from FDApy.representation.argvals import DenseArgvals, IrregularArgvals
    from FDApy.representation.basis import Basis
    from FDApy.representation.functional_data import (BasisFunctionalData, DenseFunctionalData, IrregularFunctionalData,
                                                      MultivariateFunctionalData)
    from FDApy.representation.values import DenseValues, IrregularValues

    rng = Rng(f"c16-{kind}-{seed}")

    def dense1(n, m, zero_col=True):
        t = np.array([float(x) for x in rng.grid(m, uniform=(seed % 2 == 0))])
        X = _dy(rng, (n, m))
        if zero_col:
            X[:, rng.randint(0, m - 1)] = float(rng.dyadic(-1, 1, 2))
        return DenseFunctionalData(DenseArgvals({"input_dim_0": t}), DenseValues(X))

    def dense2(n, m1, m2):
        X = _dy(rng, (n, m1, m2))
        X[:, 0, 1] = 0.5
        return DenseFunctionalData(DenseArgvals({"input_dim_0": np.linspace(0, 1, m1), "input_dim_1": np.linspace(0, 2, m2)}), DenseValues(X))

    def irregular(n):
        arg, val = {}, {}
        for i in range(n):
            m = 6 + (i % 2)
            pts = sorted(rng.sample(range(0, 17), m))
            if i < 2:
                pts[0], pts[-1] = 0, 16
            arg[i] = DenseArgvals({"input_dim_0": np.array(pts, dtype=float) / 16})
            val[i] = _dy(rng, (m,))
        return IrregularFunctionalData(IrregularArgvals(arg), IrregularValues(val))

    def basisfd(n, K=3, m=9):
        b = Basis(name="fourier", n_functions=K, argvals=DenseArgvals({"input_dim_0": np.linspace(0, 1, m)}))
        C = _dy(rng, (n, K))
        C[:, 0] = 1.0
        return BasisFunctionalData(b, C)

    # size-ONE subjects (fast paths for a single observation / component / sampling point)
    if kind == "irregular:1":
        return irregular(1)
    if kind == "irregular:1of4":
        return irregular(4)[2]            # one curve taken out of a dataset: keeps its label 2
    if kind == "basis:1":
        return basisfd(1)
    if kind == "dense2d:1":
        return dense2(1, 4, 5)
    if kind == "multivariate1c":
        return MultivariateFunctionalData([dense1(5, 7)])
    if kind == "multivariate1c:irregular":
        return MultivariateFunctionalData([irregular(3)])
    if kind.startswith("dense1d:"):
        # size-threshold subjects `dense1d:<n_obs>x<n_points>` (fast paths that switch on above a size)
        n, m = (int(x) for x in kind.split(":")[1].split("x"))
        return dense1(n, m)
    if kind.startswith("multivariate:"):
        n, m = (int(x) for x in kind.split(":")[1].split("x"))
        return MultivariateFunctionalData([dense1(n, m), dense1(n, m + 1)])
    if kind.startswith("multivariate3"):
        n, m = (int(x) for x in kind.split(":")[1].split("x")) if ":" in kind else (5, 7)
        return MultivariateFunctionalData([dense1(n, m), dense1(n, m - 1), dense1(n, m + 1)])
    if kind == "dense1d":
        return dense1(5, (6, 7, 9)[seed % 3])
    if kind == "dense2d":
        return dense2(3, 4, 5)
    if kind == "irregular":
        return irregular(4)
    if kind == "basis":
        return basisfd(4)
    if kind == "multivariate":
        return MultivariateFunctionalData([dense1(5, 7), dense1(5, 6)])
    if kind == "multivariate_basis":
        return MultivariateFunctionalData([basisfd(4), basisfd(4, K=3, m=7)])
    raise ValueError(kind)


DATA_KINDS = ["dense1d", "dense2d", "irregular", "basis", "multivariate"]

PS2 = dict(n_segments=np.array([2, 2]), degree=np.array([1, 1]))

# option sets per (kind, method); a method not listed here is called without arguments
ARGS = {
    ("dense1d", "center"): [{}, {"method_smoothing": "LP"}, {"mean": "@mean"}],
    ("dense1d", "mean"): [{}, {"method_smoothing": "PS"}, {"method_smoothing": "LP", "bandwidth": 0.5}],
    ("dense1d", "covariance"): [{}, {"method_smoothing": "LP", "bandwidth": 0.5}, {"center": False},
                                {"method_smoothing": "LP", "kwargs_center": {"kernel_name": "epanechnikov"}},
                                {"method_smoothing": "PS", "kwargs_center": {"penalty": 2.0}}],
    ("dense1d", "inner_product"): [{}, {"noise_variance": 0.25}, {"method_integration": "simpson"}],
    ("dense1d", "noise_variance"): [{}, {"order": 3}],
    ("dense1d", "norm"): [{}, {"squared": True}, {"use_argvals_stand": True}],
    ("dense1d", "normalize"): [{}, {"use_argvals_stand": True}],
    ("dense1d", "rescale"): [{}, {"weights": 2.0}, {"use_argvals_stand": True}],
    ("dense1d", "smooth"): [{}, {"method": "LP", "bandwidth": 0.4}, {"method": "PS", "penalty": 2.0}],
    ("dense1d", "standardize"): [{}, {"center": False}],
    ("dense1d", "to_basis"): [{}, {"penalty": 2.0}],
    ("dense1d", "to_long"): [{}, {"reindex": True}],
    ("dense1d", "concatenate"): [{"@static": ["@self", "@other"]}],
    ("dense2d", "smooth"): [dict(PS2), {"method": "LP", "bandwidth": 0.8}],
    ("dense2d", "to_basis"): [dict(PS2)],
    ("dense2d", "mean"): [{}, dict(method_smoothing="PS", **PS2)],
    ("dense2d", "center"): [{}],
    ("dense2d", "standardize"): [{}, {"center": False}],
    ("dense2d", "norm"): [{}, {"squared": True}],
    ("dense2d", "rescale"): [{}, {"weights": 3.0}],
    ("dense2d", "inner_product"): [{}, {"noise_variance": 0.5}],
    ("dense2d", "concatenate"): [{"@static": ["@self", "@other"]}],
    ("irregular", "center"): [{}, {"bandwidth": 0.5}],
    ("irregular", "mean"): [{}, {"method_smoothing": "PS"}],
    ("irregular", "covariance"): [{}, {"smooth": False}, {"kwargs_center": {"bandwidth": 0.5}}],
    ("irregular", "inner_product"): [{}, {"noise_variance": 0.25}],
    ("irregular", "norm"): [{}, {"squared": True}],
    ("irregular", "rescale"): [{}, {"weights": 2.0}],
    ("irregular", "smooth"): [{}, {"method": "LP", "bandwidth": 0.5}],
    ("irregular", "standardize"): [{}, {"center": False}],
    ("irregular", "to_long"): [{}, {"reindex": True}],
    ("irregular", "concatenate"): [{"@static": ["@self", "@other"]}],
    ("basis", "norm"): [{}, {"squared": True}],
    ("basis", "rescale"): [{}, {"weights": 2.0}],
    ("basis", "standardize"): [{}, {"center": False}],
    ("basis", "concatenate"): [{"@static": ["@self", "@other"]}],
    ("multivariate", "center"): [{}, {"method_smoothing": "LP"}],
    ("multivariate", "mean"): [{}, {"method_smoothing": "PS"}, {"points": "@pointslist"}, {"points": "@pointslist", "method_smoothing": "LP", "bandwidth": 0.5}],
    ("multivariate", "covariance"): [{}, {"points": "@pointslist"}],
    ("multivariate", "inner_product"): [{}, {"noise_variance": "@nv2"}],
    ("multivariate", "norm"): [{}, {"squared": True}],
    ("multivariate", "rescale"): [{}, {"weights": "@w2"}],
    ("multivariate", "standardize"): [{}, {"center": False}],
    ("multivariate", "smooth"): [{}, {"method": "LP", "bandwidth": 0.5}, {"points": "@pointslist"}, {"method": "LP", "bandwidth": [0.5, 0.4]},
                                 {"method": "PS", "penalty": [1.0, 2.0]}],
    ("multivariate", "concatenate"): [{"@static": ["@self", "@other"]}],
    ("dense1d", "__getitem__"): [{"@pos": ["@int:1"]}, {"@pos": ["@slice:1:3"]}, {"@pos": ["@idx:0,2"]}],
    ("dense2d", "__getitem__"): [{"@pos": ["@int:1"]}, {"@pos": ["@slice:0:2"]}, {"@pos": ["@idx:0,2"]}],
    ("irregular", "__getitem__"): [{"@pos": ["@int:1"]}, {"@pos": ["@slice:1:3"]}, {"@pos": ["@idx:0,2"]}],
    ("basis", "__getitem__"): [{"@pos": ["@int:1"]}, {"@pos": ["@slice:1:3"]}, {"@pos": ["@idx:0,2"]}],
    ("multivariate", "__getitem__"): [{"@pos": ["@int:1"]}, {"@pos": ["@slice:1:3"]}, {"@pos": ["@idx:0,2"]}],
    ("multivariate", "count"): [{"@pos": ["@comp0"]}],
    ("multivariate", "index"): [{"@pos": ["@comp0"]}],
}


def _fdapy_modules():
    import sys

    return [m for n, m in sorted(sys.modules.items()) if n.startswith("FDApy") and m is not None]


def function_state():
    """State that lives in functions and modules rather than in objects: the default values
    (`__defaults__`, `__kwdefaults__`) of every function / method defined in FDApy and the mutable
    module-level containers.  No analysis call may change it (mutable default arguments,
    module-level caches)."""
    out = {}
    for mod in _fdapy_modules():
        for name, obj in list(vars(mod).items()):
            if getattr(obj, "__module__", None) != mod.__name__ and not isinstance(obj, (dict, list, set)):
                continue
            if inspect.isfunction(obj):
                funcs = [(name, obj)]
            elif inspect.isclass(obj):
                funcs = []
                for n2, o2 in list(vars(obj).items()):
                    f = o2.__func__ if isinstance(o2, (staticmethod, classmethod)) else (o2.fget if isinstance(o2, property) else o2)
                    if inspect.isfunction(f):
                        funcs.append((f"{name}.{n2}", f))
                    elif isinstance(o2, (dict, list, set, np.ndarray)) and not (n2.startswith("__") and n2.endswith("__")):
                        # class-level mutable attribute: shared by every instance
                        out[f"{mod.__name__}:{name}.{n2} (class attribute)"] = U.deep(sorted(o2, key=repr) if isinstance(o2, set) else o2)
            elif isinstance(obj, (dict, list, set)) and not name.startswith("__"):
                out[f"{mod.__name__}:{name}"] = U.deep(sorted(obj, key=repr) if isinstance(obj, set) else obj)
                continue
            else:
                continue
            for fn, f in funcs:
                d, k = f.__defaults__, f.__kwdefaults__
                if d and any(isinstance(x, (dict, list, set, np.ndarray)) for x in d):
                    out[f"{mod.__name__}:{fn}.__defaults__"] = U.deep([x if isinstance(x, (dict, list, set, np.ndarray)) else None for x in d])
                if k and any(isinstance(x, (dict, list, set, np.ndarray)) for x in k.values()):
                    out[f"{mod.__name__}:{fn}.__kwdefaults__"] = U.deep({a: x for a, x in k.items() if isinstance(x, (dict, list, set, np.ndarray))})
    return out


_FUNCTION_STATE0 = None


def _function_state_violation(entry, before):
    """Compare with the state recorded before the calls of this case."""
    d = U.diff_paths(before, function_state())
    if d:
        return [_viol("repeatable", entry, f"a call changed state held by functions / modules (mutable default arguments, module-level containers) at {d[:3]}: later calls in the same process no longer behave as in a fresh one", ["function_state"])]
    return []


def public_methods(cls):
    out = []
    for n, m in inspect.getmembers(cls):
        if n.startswith("_"):
            continue
        if isinstance(inspect.getattr_static(cls, n), property):
            continue
        if callable(m):
            out.append(n)
    if hasattr(cls, "__getitem__"):
        out.append("__getitem__")  # indexing is public API: the subset may be a view of its parent
    return out


def _class_of(kind):
    import FDApy.representation.functional_data as fd

    return {"dense1d": fd.DenseFunctionalData, "dense2d": fd.DenseFunctionalData, "irregular": fd.IrregularFunctionalData,
            "basis": fd.BasisFunctionalData, "multivariate": fd.MultivariateFunctionalData, "multivariate3": fd.MultivariateFunctionalData, "multivariate1c": fd.MultivariateFunctionalData}[kind.split(":")[0]]


SIZE_THRESHOLDS = {"quick": [129, 257, 385, 513], "thorough": [33, 65, 129, 201, 257, 385, 513, 1025]}
# the Gram matrix of many curves costs O(n^2) Python-level integrations: fewer "tall" sizes in the quick tier
SIZE_THRESHOLDS_TALL = {"quick": [129, 385], "thorough": [33, 65, 129, 201, 257, 385, 513]}
# exactly one observation / one component / one or two sampling points
SIZE_ONE_KINDS = ["dense1d:1x7", "dense1d:3x1", "dense1d:3x2", "dense2d:1", "irregular:1", "irregular:1of4", "basis:1", "multivariate:1x7",
                  "multivariate1c", "multivariate1c:irregular"]
SIZED_METHODS = ["mean", "center", "covariance", "inner_product", "norm", "normalize", "standardize", "rescale", "noise_variance"]


def enumerate_calls():
    """(kind, method, option index) for every public method found by reflection."""
    calls = []
    for kind in DATA_KINDS:
        for m in public_methods(_class_of(kind)):
            if m in MUTATORS:
                continue
            for oi in range(len(ARGS.get((kind, m), [{}]))):
                calls.append((kind, m, oi))
    return calls


def _resolve(kind, seed, subject, spec):
    """Build (callable, args, kwargs, argument objects) from an option set."""
    other = None
    extra = []

    def val(v):
        nonlocal other
        if isinstance(v, str) and v.startswith("@"):
            if v == "@self":
                return subject
            if v == "@other":
                other = make_subject(kind, seed)  # same grids (concatenation needs them), another object
                extra.append(("other", other))
                return other
            if v == "@mean":
                mobj = make_subject(kind, seed).mean()
                extra.append(("mean", mobj))
                return mobj
            if v == "@nv2":
                a = np.array([0.25, 0.5])
                extra.append(("noise_variance", a))
                return a
            if v == "@w2":
                a = np.array([2.0, 0.5])
                extra.append(("weights", a))
                return a
            if v == "@comp0":
                return subject.data[0]
            if v == "@pointslist":
                pl = [type(c_.argvals)({k_: np.array(a_, copy=True) for k_, a_ in c_.argvals.items()}) for c_ in subject.data]
                extra.append(("points", pl))
                return pl
            if v.startswith("@int:"):
                return int(v[5:])
            if v.startswith("@slice:"):
                a, b = v[7:].split(":")
                return slice(int(a), int(b))
            if v.startswith("@idx:"):
                return np.array([int(x) for x in v[5:].split(",")])
        if isinstance(v, np.ndarray):
            v = v.copy()
            extra.append(("option", v))
        elif isinstance(v, (dict, list)):
            import copy

            v = copy.deepcopy(v)  # the user's own dictionary / list: an input like any other
            extra.append(("option", v))
        return v

    args, kwargs, static = [], {}, False
    for k, v in spec.items():
        if k == "@static":
            static = True
            args = [val(x) for x in v]
        elif k == "@pos":
            args = [val(x) for x in v]
        else:
            kwargs[k] = val(v)
    return static, args, kwargs, extra


def _shapes(*objs):
    return sorted({a.shape for o in objs for a in U.arrays_of(o) if a.size})


def call_method(kind, seed, method, oi, subject=None, poison=None):
    """Call `method` with option set `oi` on a fresh (or given) subject.  Returns (subject, extra, result, exc)."""
    if subject is None:
        subject = make_subject(kind, seed)
    spec = ARGS.get((kind, method), [{}])[oi]
    static, args, kwargs, extra = _resolve(kind, seed, subject, spec)
    fn = getattr(type(subject), method) if static else getattr(subject, method)
    np.random.seed(12345)
    try:
        if poison:
            with U.Poison(poison, _shapes(subject)):
                res = fn(*args, **kwargs)
        else:
            res = fn(*args, **kwargs)
        return subject, extra, res, None
    except Exception as e:  # noqa: BLE001
        return subject, extra, None, e


# --------------------------------------------------------------------------
# generation
# --------------------------------------------------------------------------

def _heavy(c):
    if "@" in c.get("est", ""):
        return True
    sub = c.get("subject", "")
    return ":" in sub and sub not in SIZE_ONE_KINDS and c.get("method") in ("inner_product", "covariance")


def gen_cases(rng: Rng, tier):
    """Heavy (size-threshold) cases are spread over the stream, one per block of light cases, and come
    first, so that the worker pool starts them early and never runs two of them in one chunk."""
    cases = list(_gen_cases(rng, tier))
    def size_of(c):
        txt = c["est"].split("@")[1] if c.get("est") else c["subject"].split(":")[1]
        return max(int(x) for x in txt.split("x"))

    heavy = sorted([c for c in cases if _heavy(c)], key=lambda c: -size_of(c))
    light = [c for c in cases if not _heavy(c)]
    block = max(1, len(light) // max(len(heavy), 1))
    out, li = [], 0
    for h in heavy:
        out.append(h)
        out += light[li: li + block]
        li += block
    out += light[li:]
    return out


def _gen_cases(rng: Rng, tier):
    calls = enumerate_calls()
    seeds = [rng.randint(0, 10**6) for _ in range(2 if tier == "quick" else 6)]
    for (kind, m, oi) in calls:
        for s in seeds[: (1 if tier == "quick" else 3)]:
            yield dict(kind="single", subject=kind, seed=s, method=m, opt=oi)
    # size thresholds: a wide (many sampling points) and a tall (many curves) dataset per size, default options
    for S in sorted(set(SIZE_THRESHOLDS[tier]) | set(SIZE_THRESHOLDS_TALL[tier])):
        for kind in ([f"dense1d:3x{S}"] if S in SIZE_THRESHOLDS[tier] else []) + ([f"dense1d:{S}x5"] if S in SIZE_THRESHOLDS_TALL[tier] else []):
            for m in SIZED_METHODS:
                yield dict(kind="single", subject=kind, seed=seeds[0], method=m, opt=0)
    # size-one datasets: every public method found by reflection, default options
    for kind in SIZE_ONE_KINDS:
        for m in public_methods(_class_of(kind)):
            if m not in MUTATORS and m not in ("concatenate", "count", "index", "__getitem__", "copy"):
                yield dict(kind="single", subject=kind, seed=seeds[0], method=m, opt=0)
    # pairs of consecutive calls
    by_kind = {}
    for c in calls:
        by_kind.setdefault(c[0], []).append(c)
    for kind, cs in by_kind.items():
        pairs = [(a, b) for a in cs for b in cs]
        if tier == "quick":
            pairs = rng.sample(pairs, min(len(pairs), 70 if kind != "irregular" else 40))
        for a, b in pairs:
            yield dict(kind="pair", subject=kind, seed=seeds[0], a=[a[1], a[2]], b=[b[1], b[2]])
    # two objects that share cells: a subset (view) and its parent, two basis-expansion objects on one basis
    for kind, cs in by_kind.items():
        combos = [(a, b, x, y) for a in cs for b in cs for x in ("parent", "sub") for y in ("parent", "sub") if (x, y) != ("parent", "parent")]
        for a, b, x, y in rng.sample(combos, min(len(combos), 14 if tier == "quick" else 150)):
            yield dict(kind="shared", subject=kind, seed=seeds[0], a=[a[1], a[2], x], b=[b[1], b[2], y])
    yield from gen_estimator_cases(rng, tier)
    # the same method twice on ONE object with DIFFERENT arguments: every returned array is kept
    for (kind, m, oi) in calls:
        nopt = len(ARGS.get((kind, m), [{}]))
        if nopt >= 2 and oi == 0:
            for i in range(nopt):
                for j in range(nopt):
                    if i != j:
                        yield dict(kind="twice", subject=kind, seed=seeds[0], method=m, a=i, b=j)
    # a REFIT that fails (every naturally rejected configuration, every internal step made to fail in turn) must leave
    # an already fitted estimator as it was; the container constructors must copy the builtin container they are given
    for est in ("ufpca_cov", "ufpca_inpro", "mfpca_cov", "mfpca_inpro", "fcptpa", "psplines1", "psplines2"):
        yield dict(kind="refit", est=est, seed=seeds[0], n_faults=14 if tier == "quick" else 60)
    for ctor in CONSTRUCTORS:
        yield dict(kind="ctor", ctor=ctor, seed=seeds[0])


def gen_estimator_cases(rng: Rng, tier):
    n = 1 if tier == "quick" else 4
    for s in range(n):
        seed = rng.randint(0, 10**6)
        for est in ("ufpca_cov", "ufpca_inpro", "ufpca_2d", "ufpca_cov_big", "ufpca_inpro_big", "ufpca_pace", "ufpca_pace_irregular",
                    "ufpca_cov_norm", "ufpca_inpro_norm", "mfpca_cov_norm", "mfpca_inpro_norm",
                    "mfpca_cov_points_none", "mfpca_cov_points_mixed", "mfpca_inpro_points_none", "mfpca_inpro_points_mixed",
                    "mfpca_cov_fewer1", "mfpca_cov_fewer0", "mfpca3_cov_fewer2", "ufpca_cov_points",
                    "fcptpa_generic", "mfpca_inpro_generic", "psplines1_generic", "psplines2_generic", "localpoly_generic", "ufpca_cov_generic", "mfpca_cov", "mfpca_inpro", "mfpca_pace", "fcptpa", "psplines1", "psplines2", "localpoly"):
            yield dict(kind="est", est=est, seed=seed)
    # size thresholds for the fits (eigen-solvers and blocked loops may switch algorithm above a size)
    seed = rng.randint(0, 10**6)
    for S in SIZE_THRESHOLDS[tier]:
        yield dict(kind="est", est=f"ufpca_cov@{S}", seed=seed)
    for S in SIZE_THRESHOLDS_TALL[tier]:
        yield dict(kind="est", est=f"ufpca_inpro@{S}", seed=seed)
        if tier == "thorough" or S == 385:
            yield dict(kind="est", est=f"mfpca_inpro@{S}", seed=seed)


def search_cases(rng, tier):
    yield from gen_cases(rng, "quick")


def witness_cases():
    # open finding C16-multivariate-copy-shares-container (known_findings.d/C16.json)
    return [dict(kind="single", subject="multivariate", seed=1, method="copy", opt=0)]


# --------------------------------------------------------------------------
# implementation side
# --------------------------------------------------------------------------

def _viol(clause, entry, msg, causes=()):
    return dict(clause=clause, entry=entry, msg=msg, causes=list(causes))


def _entry(kind, method):
    return f"{_class_of(kind).__name__}.{method}"


def _single(case):
    kind, seed, method, oi = case["subject"], case["seed"], case["method"], case["opt"]
    entry = _entry(kind, method)
    viol = []
    out = dict(entry=entry)
    # ---- plain call with snapshots (b) and alias graph (a)
    U.poison("nan")
    subject = make_subject(kind, seed)
    spec = ARGS.get((kind, method), [{}])[oi]
    static, args, kwargs, extra = _resolve(kind, seed, subject, spec)
    inputs = [("s", subject)] + [(f"a{i}", o) for i, (_, o) in enumerate(extra)]
    before = [U.deep(o) for _, o in inputs]
    fn = getattr(type(subject), method) if static else getattr(subject, method)
    np.random.seed(12345)
    try:
        with U.Poison("nan", _shapes(subject)):
            res = fn(*args, **kwargs)
        exc = None
    except Exception as e:  # noqa: BLE001
        res, exc = None, e
    after = [U.deep(o) for _, o in inputs]
    out["status"] = "ok" if exc is None else "error:" + err_class(exc)
    out["msg"] = "" if exc is None else str(exc)[:100]
    changed = []
    for (nm, o), b, a in zip(inputs, before, after):
        for p in U.diff_paths(b, a):
            changed.append(nm + p)
    out["changed"] = changed
    if changed:
        viol.append(_viol("inputs_unchanged", entry, f"the call changed its inputs at {changed[:4]}", ["input_mutated"]))
    if exc is not None:
        out["viol"] = viol
        return out
    out["alias"] = [list(p) for p in U.alias_pairs(res, inputs)]
    out["heap"], out["roots"] = U.heap_spec(inputs)
    out["result_shape"] = _shape_of(res)
    r1 = U.deep(res, skip_cache=False)
    # ---- (d) repeat on the same object, and on a fresh object
    np.random.seed(12345)
    try:
        res2 = fn(*args, **kwargs)
        r2 = U.deep(res2, skip_cache=False)
        if U.diff_paths(_nocache(r1), _nocache(r2)):
            viol.append(_viol("repeatable", entry, f"repeating the call on the same object gives another result at {U.diff_paths(_nocache(r1), _nocache(r2))[:3]}", ["second_call_differs"]))
    except Exception as e:  # noqa: BLE001
        viol.append(_viol("repeatable", entry, f"the second call raised {err_class(e)}: {str(e)[:80]}", ["second_call_differs"]))
    # earlier result untouched by the second call
    if U.diff_paths(r1, U.deep(res, skip_cache=False)):
        viol.append(_viol("earlier_results_unchanged", entry, "the second call changed the result returned by the first", ["result_mutated"]))
    # ---- (e) other heap poisoning, fresh subject
    _, _, res3, exc3 = call_method(kind, seed, method, oi, poison="big")
    if exc3 is None:
        d = U.diff_paths(_nocache(r1), _nocache(U.deep(res3, skip_cache=False)))
        if d:
            viol.append(_viol("no_uninitialised_memory", entry, f"the result depends on uninitialised memory: entries never written by a `where=` ufunc / np.empty differ at {d[:3]} between two poison values", ["uninitialised"]))
    if _has_poison(res) or (exc3 is None and _has_poison(res3)):
        if not _has_poison_inputs(subject):
            viol.append(_viol("no_uninitialised_memory", entry, "the result contains the poison value put into never-written memory", ["uninitialised"]))
    # ---- (c) read-only inputs
    subject4 = make_subject(kind, seed)
    static4, args4, kwargs4, extra4 = _resolve(kind, seed, subject4, spec)
    fn4 = getattr(type(subject4), method) if static4 else getattr(subject4, method)
    np.random.seed(12345)
    with U.ReadOnly(subject4, *[o for _, o in extra4]):
        try:
            res4 = fn4(*args4, **kwargs4)
            d = U.diff_paths(_nocache(r1), _nocache(U.deep(res4, skip_cache=False)))
            if d:
                viol.append(_viol("repeatable", entry, f"with read-only inputs the result differs at {d[:3]}", ["second_call_differs"]))
        except ValueError as e:
            if "read-only" in str(e):
                viol.append(_viol("inputs_unchanged", entry, f"the call writes into an input array in place ({str(e)[:60]})", ["input_written_in_place"]))
            else:
                viol.append(_viol("repeatable", entry, f"with read-only inputs the call raised ValueError: {str(e)[:80]}", ["second_call_differs"]))
        except Exception as e:  # noqa: BLE001
            viol.append(_viol("repeatable", entry, f"with read-only inputs the call raised {err_class(e)}: {str(e)[:80]}", ["second_call_differs"]))
    # ---- (f) the result is the caller's: changing it in place must not reach the inputs
    viol += _result_independence(kind, seed, method, oi, entry)
    out["viol"] = viol
    return out


def _is_data(o):
    from FDApy.representation.functional_data import FunctionalData, MultivariateFunctionalData

    return isinstance(o, (FunctionalData, MultivariateFunctionalData))


def _spoil_result(node, input_ids, log, depth=0):
    """Change the CONTAINER cells of a result in place the way its owner may (list methods of a
    multivariate object, `popitem` of dictionaries, overwriting a data frame).  Nodes that ARE input
    nodes (shared on purpose: argvals objects, component objects) are left alone."""
    import pandas as pd
    from FDApy.representation.functional_data import MultivariateFunctionalData

    if depth > 4 or id(node) in input_ids:
        return
    if isinstance(node, pd.DataFrame):
        if len(node):
            node.iloc[:, :] = -1
            log.append("DataFrame[:] = -1")
        return
    if isinstance(node, (MultivariateFunctionalData, list)):
        items = list(node.data) if isinstance(node, MultivariateFunctionalData) else list(node)
        if len(node) > 0:
            node.reverse()
            node.pop()
            log.append(f"{type(node).__name__}.reverse(); .pop()")
        for it in items:
            _spoil_result(it, input_ids, log, depth + 1)
        return
    if isinstance(node, tuple):
        for it in node:
            _spoil_result(it, input_ids, log, depth + 1)
        return
    if isinstance(node, dict) or (hasattr(node, "popitem") and hasattr(node, "items")):
        items = list(node.values())
        if len(node) > 0:
            try:
                node.popitem()
                log.append(f"{type(node).__name__}.popitem()")
            except Exception:  # noqa: BLE001
                pass
        for it in items:
            _spoil_result(it, input_ids, log, depth + 1)
        return
    if _is_data(node):
        for _, child in U.layout(node):
            _spoil_result(child, input_ids, log, depth + 1)


def _result_independence(kind, seed, method, oi, entry):
    """Fresh inputs; call; (i) a result that is a data object must not BE one of the inputs; (ii) the
    owner of the result changes its containers in place: the inputs must stay what they were, and
    (iii) the same call then returns what it returned before."""
    viol = []
    subject = make_subject(kind, seed)
    spec = ARGS.get((kind, method), [{}])[oi]
    static, args, kwargs, extra = _resolve(kind, seed, subject, spec)
    inputs = [("s", subject)] + [(f"a{i}", o) for i, (_, o) in enumerate(extra)]
    fn = getattr(type(subject), method) if static else getattr(subject, method)
    np.random.seed(12345)
    try:
        res = fn(*args, **kwargs)
    except Exception:  # noqa: BLE001
        return viol
    before = [U.deep(o) for _, o in inputs]
    r1 = _nocache(U.deep(res, skip_cache=False))
    if _is_data(res) or isinstance(res, (list, dict)):
        for nm, o in inputs:
            if res is o:
                viol.append(_viol("result_independent", entry, f"the result IS the input object `{nm}`: whatever its owner does to it (pop / append / reverse, setters) is done to the input",
                                  ["result_is_input"]))
    input_ids = {id(o) for nm, io in inputs for _, o in U.walk(io, nm)}
    log = []
    try:
        _spoil_result(res, input_ids - {id(o) for _, o in inputs if o is res}, log)
    except Exception as e:  # noqa: BLE001
        log.append(f"(spoiling raised {err_class(e)})")
    changed = []
    for (nm, o), b in zip(inputs, before):
        changed += [nm + p_ for p_ in U.diff_paths(b, U.deep(o))]
    if changed:
        viol.append(_viol("result_independent", entry, f"changing the RESULT in place ({'; '.join(log[:3])}) changed the inputs at {changed[:3]}", ["input_reached_through_result"]))
        return viol
    if log:
        np.random.seed(12345)
        try:
            res2 = fn(*args, **kwargs)
            d = U.diff_paths(r1, _nocache(U.deep(res2, skip_cache=False)))
            if d:
                viol.append(_viol("result_independent", entry, f"after its earlier result was changed in place ({'; '.join(log[:3])}) the same call returns something else at {d[:3]}", ["shared_result"]))
        except Exception as e:  # noqa: BLE001
            viol.append(_viol("result_independent", entry, f"after its earlier result was changed in place the same call raised {err_class(e)}: {str(e)[:80]}", ["shared_result"]))
    return viol


def _nocache(d):
    if isinstance(d, dict):
        return {k: _nocache(v) for k, v in d.items() if k not in U.DATA_CACHE_ATTRS}
    if isinstance(d, list):
        return [_nocache(x) for x in d]
    return d


def _has_poison(res):
    for a in U.arrays_of(res):
        if a.dtype.kind == "f" and a.size and (np.any(np.abs(a[np.isfinite(a)]) >= 1e299)):
            return True
    return False


def _has_poison_inputs(subject):
    return False


def _shape_of(res):
    """Layout tree of a result, for the model (class tags)."""
    return type(res).__name__


def _pair(case):
    kind, seed = case["subject"], case["seed"]
    (ma, oa), (mb, ob) = case["a"], case["b"]
    viol = []
    subject = make_subject(kind, seed)
    _, extra_a, res_a, exc_a = call_method(kind, seed, ma, oa, subject)
    snap_in = U.deep(subject)
    snap_extra = [U.deep(o) for _, o in extra_a]
    snap_res = U.deep(res_a, skip_cache=True)
    _, extra_b, res_b, exc_b = call_method(kind, seed, mb, ob, subject)
    entry = _entry(kind, mb)
    d = U.diff_paths(snap_in, U.deep(subject))
    if d:
        viol.append(_viol("inputs_unchanged", entry, f"after {ma}: {mb} changed the data object at {d[:3]}", ["input_mutated"]))
    for (nm, o), s in zip(extra_a, snap_extra):
        if U.diff_paths(s, U.deep(o)):
            viol.append(_viol("inputs_unchanged", entry, f"{mb} changed an argument of the earlier call {ma}", ["input_mutated"]))
    if exc_a is None:
        d = U.diff_paths(snap_res, U.deep(res_a, skip_cache=True))
        if d:
            viol.append(_viol("earlier_results_unchanged", entry, f"{mb} changed the result returned earlier by {ma} at {d[:3]}", ["result_mutated"]))
    # B after A equals B on a fresh object (no hidden state beyond the documented caches)
    if exc_b is None:
        _, _, res_f, exc_f = call_method(kind, seed, mb, ob)
        if exc_f is None:
            d = U.diff_paths(_nocache(U.deep(res_b, skip_cache=False)), _nocache(U.deep(res_f, skip_cache=False)))
            if d:
                viol.append(_viol("repeatable", entry, f"{mb} after {ma} differs from {mb} on a fresh object at {d[:3]}", ["state_leak"]))
    return dict(status_a="ok" if exc_a is None else "error:" + err_class(exc_a), status_b="ok" if exc_b is None else "error:" + err_class(exc_b), viol=viol)


def _derive(kind, parent):
    """An object sharing cells with `parent`: a slice (view) for grid / multivariate data, the centred
    data (same basis object) for basis expansions."""
    if kind == "basis":
        return parent.center()
    return parent[1:4] if kind in ("dense1d", "multivariate") else parent[1:3]


def _shared(case):
    kind, seed = case["subject"], case["seed"]
    (ma, oa, xa), (mb, ob, xb) = case["a"], case["b"]
    viol = []
    parent = make_subject(kind, seed)
    sub = _derive(kind, parent)
    objs = {"parent": parent, "sub": sub}
    _, extra_a, res_a, exc_a = call_method(kind, seed, ma, oa, objs[xa])
    snap = {k: U.deep(v) for k, v in objs.items()}
    snap_res = U.deep(res_a, skip_cache=True)
    _, extra_b, res_b, exc_b = call_method(kind, seed, mb, ob, objs[xb])
    entry = _entry(kind, mb)
    for k, v in objs.items():
        d = U.diff_paths(snap[k], U.deep(v))
        if d:
            viol.append(_viol("inputs_unchanged", entry, f"{mb} on the {xb} changed the {k} (they share cells) at {d[:3]}", ["input_mutated", "shared_cells"]))
    if exc_a is None:
        d = U.diff_paths(snap_res, U.deep(res_a, skip_cache=True))
        if d:
            viol.append(_viol("earlier_results_unchanged", entry, f"{mb} on the {xb} changed the result returned earlier by {ma} on the {xa} at {d[:3]}", ["result_mutated", "shared_cells"]))
    if exc_b is None:
        p2 = make_subject(kind, seed)
        fresh = {"parent": p2, "sub": _derive(kind, p2)}[xb]
        _, _, res_f, exc_f = call_method(kind, seed, mb, ob, fresh)
        if exc_f is None:
            d = U.diff_paths(_nocache(U.deep(res_b, skip_cache=False)), _nocache(U.deep(res_f, skip_cache=False)))
            if d:
                viol.append(_viol("repeatable", entry, f"{mb} on the {xb} after {ma} on the {xa} differs from the same call on fresh objects at {d[:3]}", ["state_leak", "shared_cells"]))
    return dict(status_a="ok" if exc_a is None else "error:" + err_class(exc_a), status_b="ok" if exc_b is None else "error:" + err_class(exc_b), viol=viol)


def _twice(case):
    """call with option set A, keep the result and a snapshot; call with option set B on the same object: the first
    result must be what it was, and the two results may share memory only where they share it with the inputs"""
    kind, seed, method = case["subject"], case["seed"], case["method"]
    entry = _entry(kind, method)
    viol = []
    subject = make_subject(kind, seed)
    _, extra_a, res_a, exc_a = call_method(kind, seed, method, case["a"], subject)
    if exc_a is not None:
        return dict(status_a="error:" + err_class(exc_a), status_b="-", viol=viol)
    snap_a = U.deep(res_a, skip_cache=False)
    _, extra_b, res_b, exc_b = call_method(kind, seed, method, case["b"], subject)
    d = U.diff_paths(snap_a, U.deep(res_a, skip_cache=False))
    if d:
        viol.append(_viol("earlier_results_unchanged", entry, f"a second {method} with other arguments (option set {case['b']}) changed the result returned by the first (option set {case['a']}) at {d[:3]}",
                          ["result_mutated", "second_call_other_arguments"]))
    if exc_b is None:
        ins = [a for o in [subject] + [x for _, x in extra_a] + [x for _, x in extra_b] for a in U.arrays_of(o)]
        for x in U.arrays_of(res_a):
            for y in U.arrays_of(res_b):
                if x.size and y.size and np.shares_memory(x, y) and not any(np.shares_memory(x, i) for i in ins if i.size):
                    viol.append(_viol("result_independent", entry, f"the results of two {method} calls with different arguments share memory that is not the inputs': the later call works in the buffer handed out earlier",
                                      ["shared_result", "second_call_other_arguments"]))
                    break
            else:
                continue
            break
    return dict(status_a="ok", status_b="ok" if exc_b is None else "error:" + err_class(exc_b), viol=_dedupe(viol))


# ---- container constructors ---------------------------------------------------

CONSTRUCTORS = ["MultivariateFunctionalData(list)", "DenseArgvals(dict)", "IrregularArgvals(dict)", "IrregularValues(dict)"]


def _ctor_parts(ctor, seed):
    """(builtin container the harness keeps, constructor, an extra item that may legally be added)"""
    from FDApy.representation.argvals import DenseArgvals, IrregularArgvals
    from FDApy.representation.functional_data import MultivariateFunctionalData
    from FDApy.representation.values import IrregularValues

    if ctor == "MultivariateFunctionalData(list)":
        comps = list(make_subject("multivariate3", seed).data)
        return comps[:2], MultivariateFunctionalData, ("append", comps[2])
    if ctor == "DenseArgvals(dict)":
        return {"input_dim_0": np.linspace(0, 1, 4), "input_dim_1": np.linspace(0, 2, 3)}, DenseArgvals, ("set", "input_dim_2", np.linspace(0, 1, 2))
    irr = make_subject("irregular", seed)
    if ctor == "IrregularArgvals(dict)":
        return dict(irr.argvals.items()), IrregularArgvals, ("set", 9, DenseArgvals({"input_dim_0": np.linspace(0, 1, 3)}))
    return dict(irr.values.items()), IrregularValues, ("set", 9, np.zeros(3))


def _edit(container, extra):
    """what an owner may do to a list / dict (or to an object built from one)"""
    if extra[0] == "append":
        container.append(extra[1])
        container.reverse()
        container.pop(0)
    else:
        container[extra[1]] = extra[2]
        k = next(iter(container.keys()))
        del container[k]


def _ctor(case):
    """`X = C(builtin)`: edits of the object must not reach the builtin container the caller keeps, edits of that
    container must not reach the object."""
    ctor, seed = case["ctor"], case["seed"]
    viol = []
    entry = ctor.split("(")[0] + ".__init__"
    for direction in ("object", "container"):
        raw, C, extra = _ctor_parts(ctor, seed)
        try:
            obj = C(raw)
        except Exception as e:  # noqa: BLE001
            return dict(status="error:" + err_class(e), viol=viol)
        if obj is raw or getattr(obj, "data", None) is raw:
            viol.append(_viol("result_independent", entry, f"the object built by {ctor} keeps the caller's {type(raw).__name__} itself as its container", ["result_is_input", "constructor"]))
        snap_raw, snap_obj = U.deep(raw), U.deep(obj)
        try:
            _edit(obj if direction == "object" else raw, extra)
        except Exception as e:  # noqa: BLE001
            viol.append(_viol("runs", entry, f"editing the {direction} raised {err_class(e)}: {str(e)[:80]}"))
            continue
        other_changed = U.diff_paths(snap_raw, U.deep(raw)) if direction == "object" else U.diff_paths(snap_obj, U.deep(obj))
        if other_changed:
            what = (f"editing the object (append / reverse / pop, item assignment / deletion) changed the {type(raw).__name__} it was built from" if direction == "object"
                    else f"editing the {type(raw).__name__} the object was built from changed the object")
            viol.append(_viol("result_independent", entry, f"{ctor}: {what} at {other_changed[:3]}", ["input_reached_through_result", "constructor"]))
    return dict(status="ok", viol=_dedupe(viol))


# ---- failed refits ------------------------------------------------------------

class _Injected(Exception):
    pass


class _FaultPatch:
    """Make the k-th internal call of a fit fail: every FDApy function visible in the estimator's module (its own helpers
    and the imported ones) and the analysis methods of the data classes are wrapped from outside."""

    METHODS = ["mean", "center", "rescale", "noise_variance", "covariance", "inner_product", "smooth", "norm", "to_grid", "to_basis", "standardize", "normalize"]

    def __init__(self, est_obj, fail_at=None):
        self.mod = inspect.getmodule(type(est_obj))
        self.fail_at, self.n, self.labels, self.saved = fail_at, 0, [], []

    def _wrap(self, fn, label):
        def w(*a, **k):
            self.labels.append(label)
            i = self.n
            self.n += 1
            if self.fail_at is not None and i == self.fail_at:
                raise _Injected(label)
            return fn(*a, **k)

        return w

    def __enter__(self):
        import FDApy.representation.functional_data as fd

        for name, f in list(vars(self.mod).items()):
            if inspect.isfunction(f) and (getattr(f, "__module__", "") or "").startswith("FDApy"):
                self.saved.append((self.mod, name, f))
                setattr(self.mod, name, self._wrap(f, name))
        for cls in (fd.DenseFunctionalData, fd.IrregularFunctionalData, fd.BasisFunctionalData, fd.MultivariateFunctionalData):
            for m in self.METHODS:
                f = cls.__dict__.get(m)
                if inspect.isfunction(f):
                    self.saved.append((cls, m, f))
                    setattr(cls, m, self._wrap(f, f"{cls.__name__}.{m}"))
        return self

    def __exit__(self, *exc):
        for owner, name, f in reversed(self.saved):
            setattr(owner, name, f)
        return False


def _state_of(e, skip=()):
    return _nocache(U.deep({k: v for k, v in e.__dict__.items() if k not in skip}, skip_cache=False))


def _apply_results(e, ctx, steps):
    out, scores = [], None
    for name, f in steps[1:]:
        base = name.split("|")[0]
        np.random.seed(777)
        c = dict(ctx)
        c["scores"] = scores
        try:
            r = f(e, c)
            out.append((name, U.deep(r, skip_cache=True)))
            if base == "transform" and scores is None:
                scores = np.array(r, copy=True)
        except Exception as ex:  # noqa: BLE001
            out.append((name, "error:" + err_class(ex)))
    return out


def _rejections(est, e, ctx2):
    """naturally rejected refits: (label, attribute overrides on the estimator, overrides of the fit context, extra kwargs)"""
    out = []
    if hasattr(e, "method"):
        out.append(("invalid method", {"method": "no-such-method"}, {}, {}))
    if hasattr(e, "n_components"):
        out.append(("invalid n_components", {"n_components": "many"}, {}, {}))
        out.append(("n_components = -1", {"n_components": -1}, {}, {}))
    if est.startswith("ufpca"):
        out.append(("duplicated keyword", {}, {}, {"method_smoothing": "LP", "kwargs_mean": {"method_smoothing": "PS"}}))
    import copy

    for key in ("data", "y"):
        if key in ctx2:
            bad = copy.deepcopy(ctx2[key])
            arrs = U.arrays_of(bad)
            big = [a for a in arrs if a.dtype.kind == "f" and a.size > 3]
            if big:
                big[-1].flat[1] = np.nan
                out.append(("non-finite data", {}, {key: bad}, {}))
    if "pen" in ctx2:
        out.append(("invalid penalty", {}, {"pen": "heavy"}, {}))
    return out


def _refit(case):
    est, seed = case["est"], case["seed"]
    mk, ctx, steps, cls = _est_setup(est, seed)
    alt = ctx.pop("alt", None) or {}
    viol, recs = [], []
    fit = steps[0][1]
    entry = f"{cls}.fit"

    def fitted():
        e = mk()
        np.random.seed(777)
        c = dict(ctx)
        c["scores"] = None
        fit(e, c)
        return e

    ctx2 = dict(ctx)
    ctx2.update(alt)
    ctx2["scores"] = None

    def check(e, before_state, before_apply, how, skip=()):
        d = U.diff_paths(before_state, _state_of(e, skip))
        if d:
            viol.append(_viol("fitted_state_unchanged", entry, f"a refit that FAILED ({how}) changed the fitted estimator at {d[:3]}: it now mixes old and new state", ["failed_refit"]))
            return
        after_apply = _apply_results(e, ctx, steps)
        if U.diff_paths([x for _, x in before_apply], [x for _, x in after_apply]):
            viol.append(_viol("repeatable", entry, f"after a refit that FAILED ({how}) transform / inverse_transform / predict return other results than before", ["failed_refit"]))

    # (1) naturally rejected configurations
    try:
        e0 = fitted()
    except Exception as ex:  # noqa: BLE001
        return dict(status="error:" + err_class(ex), viol=[], recs=[])
    for label, attrs, cover, kw in _rejections(est, e0, ctx2):
        e = fitted()
        before_apply = _apply_results(e, ctx, steps)
        saved = {k: getattr(e, k) for k in attrs}
        skip = tuple(attrs) + tuple("_" + k for k in attrs)
        before_state = _state_of(e, skip)
        for k, v in attrs.items():
            setattr(e, k, v)
        c = dict(ctx2)
        c.update(cover)
        try:
            np.random.seed(777)
            if kw:
                e.fit(c["data"], **kw)
            else:
                fit(e, c)
            recs.append((label, "accepted"))
            continue     # the configuration is accepted: nothing to check
        except Exception as ex:  # noqa: BLE001
            recs.append((label, err_class(ex)))
        for k, v in saved.items():
            setattr(e, k, v)
        check(e, before_state, before_apply, f"{label}: {recs[-1][1]}", skip)
    # (2) every internal step of the refit made to fail in turn
    e = fitted()
    with _FaultPatch(e) as fp:
        try:
            np.random.seed(777)
            fit(e, dict(ctx2))
        except Exception:  # noqa: BLE001
            pass
    labels = list(fp.labels)
    T = len(labels)
    krng = Rng(f"refit-{est}-{seed}")
    # the first occurrence of every distinct label, then a sample of the rest
    first = sorted({labels.index(l) for l in set(labels)})
    rest = [k for k in range(T) if k not in first]
    ks = (first + krng.sample(rest, min(len(rest), max(0, case.get("n_faults", 14) - len(first)))))[: max(case.get("n_faults", 14), len(first))]
    for k in sorted(ks):
        e = fitted()
        before_apply = _apply_results(e, ctx, steps)
        before_state = _state_of(e)
        raised = None
        with _FaultPatch(e, fail_at=k):
            try:
                np.random.seed(777)
                fit(e, dict(ctx2))
            except _Injected as ex:
                raised = str(ex)
            except Exception as ex:  # noqa: BLE001
                raised = err_class(ex)
        if raised is None:
            continue
        check(e, before_state, before_apply, f"internal call {k} `{labels[k]}` made to raise")
    return dict(status="ok", n_fault_points=T, n_faults=len(ks), labels=sorted(set(labels)), rejections=recs, viol=_dedupe(viol))


# ---- estimators ------------------------------------------------------------

def _est_setup(est, seed):
    """(estimator factory, list of steps); a step is (name, callable(est_obj, ctx) -> result)."""
    from FDApy.preprocessing.dim_reduction.fcp_tpa import FCPTPA
    from FDApy.preprocessing.dim_reduction.mfpca import MFPCA
    from FDApy.preprocessing.dim_reduction.ufpca import UFPCA
    from FDApy.preprocessing.smoothing.local_polynomial import LocalPolynomial
    from FDApy.preprocessing.smoothing.psplines import PSplines

    rng = Rng(f"c16-est-{est}-{seed}")
    if "@" in est:
        base, S = est.split("@")
        S = int(S)
        if base == "ufpca_cov":      # many sampling points, few curves
            data = make_subject(f"dense1d:4x{S}", seed)
            mk = lambda: UFPCA(n_components=2, method="covariance")  # noqa: E731
            steps = [("fit", lambda e, c: e.fit(c["data"])), ("transform", lambda e, c: e.transform(c["data"], method="NumInt")),
                     ("inverse_transform", lambda e, c: e.inverse_transform(c["scores"]))]
            return mk, dict(data=data), steps, "UFPCA"
        if base == "ufpca_inpro":    # many curves, few sampling points
            data = make_subject(f"dense1d:{S}x5", seed)
            mk = lambda: UFPCA(n_components=2, method="inner-product")  # noqa: E731
            steps = [("fit", lambda e, c: e.fit(c["data"])), ("transform", lambda e, c: e.transform(method="InnPro")),
                     ("inverse_transform", lambda e, c: e.inverse_transform(c["scores"]))]
            return mk, dict(data=data), steps, "UFPCA"
        if base == "mfpca_inpro":
            data = make_subject(f"multivariate:{S}x5", seed)
            mk = lambda: MFPCA(n_components=2, method="inner-product")  # noqa: E731
            steps = [("fit", lambda e, c: e.fit(c["data"], method_smoothing=None)), ("transform", lambda e, c: e.transform(method="InnPro")),
                     ("inverse_transform", lambda e, c: e.inverse_transform(c["scores"]))]
            return mk, dict(data=data), steps, "MFPCA"
        raise ValueError(est)

    def richer(seed2):
        """another dense 1-D dataset: more curves on a finer grid (for refits on richer data)"""
        from FDApy.representation.argvals import DenseArgvals
        from FDApy.representation.functional_data import DenseFunctionalData
        from FDApy.representation.values import DenseValues

        r2 = Rng(f"c16-richer-{seed2}")
        return DenseFunctionalData(DenseArgvals({"input_dim_0": np.linspace(0, 1, 12)}), DenseValues(_dy(r2, (9, 12))))

    if est in ("ufpca_cov", "ufpca_inpro", "ufpca_cov_big", "ufpca_inpro_big", "ufpca_pace", "ufpca_cov_norm", "ufpca_inpro_norm"):
        data = make_subject("dense1d", seed)
        method = "covariance" if est in ("ufpca_cov", "ufpca_cov_big", "ufpca_pace", "ufpca_cov_norm") else "inner-product"
        # `_big`: more components requested than the data can provide (7 grid points / 5 curves)
        ncomp = 10 if est.endswith("_big") else 2
        norm = est.endswith("_norm")
        mk = lambda: UFPCA(n_components=ncomp, method=method, normalize=norm)  # noqa: E731
        steps = [("fit", lambda e, c: e.fit(c["data"])), ("transform", lambda e, c: e.transform(c["data"], method="NumInt")),
                 ("inverse_transform", lambda e, c: e.inverse_transform(c["scores"]))]
        if method == "inner-product":
            steps[1] = ("transform", lambda e, c: e.transform(method="InnPro"))
        if est == "ufpca_pace":
            steps[1] = ("transform|default", lambda e, c: e.transform(c["data"], method="PACE"))
            steps.insert(2, ("transform", lambda e, c: e.transform(method="PACE")))
            steps.insert(3, ("transform|tol", lambda e, c: e.transform(c["data"], method="PACE", tol=50.0)))
            steps.insert(4, ("transform|default", lambda e, c: e.transform(c["data"], method="PACE")))
        if est == "ufpca_cov":
            steps[1] = ("transform|default", lambda e, c: e.transform(c["data"], method="NumInt"))
            steps.insert(2, ("transform|simpson", lambda e, c: e.transform(c["data"], method="NumInt", integration_method="simpson")))
            steps.insert(3, ("transform|default", lambda e, c: e.transform(c["data"], method="NumInt")))
        return mk, dict(data=data, alt=dict(data=richer(seed))), steps, "UFPCA"
    if est == "ufpca_pace_irregular":
        data = make_subject("irregular", seed)
        mk = lambda: UFPCA(n_components=2, method="covariance")  # noqa: E731
        steps = [("fit", lambda e, c: e.fit(c["data"], method_smoothing="LP")),
                 ("transform|default", lambda e, c: e.transform(c["data"], method="PACE", method_smoothing="LP")),
                 ("transform|tol", lambda e, c: e.transform(c["data"], method="PACE", method_smoothing="LP", tol=50.0)),
                 ("transform|default", lambda e, c: e.transform(c["data"], method="PACE", method_smoothing="LP")),
                 ("inverse_transform", lambda e, c: e.inverse_transform(c["scores"]))]
        return mk, dict(data=data), steps, "UFPCA"
    if est == "ufpca_2d":
        data = make_subject("dense2d", seed)
        mk = lambda: UFPCA(n_components=2, method="inner-product")  # noqa: E731
        steps = [("fit", lambda e, c: e.fit(c["data"])), ("transform", lambda e, c: e.transform(method="InnPro")),
                 ("inverse_transform", lambda e, c: e.inverse_transform(c["scores"]))]
        return mk, dict(data=data), steps, "UFPCA"
    if est == "ufpca_cov_points":
        from FDApy.representation.argvals import DenseArgvals

        data = make_subject("dense1d", seed)
        pts = DenseArgvals({"input_dim_0": np.linspace(float(data.argvals["input_dim_0"][0]), float(data.argvals["input_dim_0"][-1]), 6)})
        mk = lambda: UFPCA(n_components=2, method="covariance")  # noqa: E731
        steps = [("fit", lambda e, c: e.fit(c["data"], points=c["points"], method_smoothing="LP")),
                 ("transform", lambda e, c: e.transform(c["data"], method="NumInt")), ("inverse_transform", lambda e, c: e.inverse_transform(c["scores"]))]
        return mk, dict(data=data, points=pts), steps, "UFPCA"
    if est.startswith("mfpca") and ("_points_" in est or "_fewer" in est):
        # container arguments: a `points` LIST (with None entries) given by the caller, a configuration list
        # with fewer entries than components — all are inputs: snapshotted, and reused on other data
        three = est.startswith("mfpca3")
        data = make_subject("multivariate3" if three else "multivariate", seed)
        method = "inner-product" if "_inpro_" in est else "covariance"
        n_given = {"fewer0": 0, "fewer1": 1, "fewer2": 2}.get(est.split("_")[-1], 3 if three else 2)
        exps = [{"method": "UFPCA", "n_components": 2} for _ in range(n_given)]
        ctx = dict(data=data, config=exps, alt=dict(data=make_subject("multivariate3:6x9" if three else "multivariate:6x9", seed)))
        if "_points_" in est:
            grid = data.data[1].argvals
            ctx["points"] = [None, None] if est.endswith("none") else [None, type(grid)({k: np.array(v, copy=True) for k, v in grid.items()})]
            fit = lambda e, c: e.fit(c["data"], points=c["points"], method_smoothing=None)  # noqa: E731
        else:
            fit = lambda e, c: e.fit(c["data"], method_smoothing=None)  # noqa: E731
        if method == "covariance":
            mk = lambda: MFPCA(n_components=2, method="covariance", univariate_expansions=exps)  # noqa: E731
            steps = [("fit", fit), ("transform", lambda e, c: e.transform(c["data"], method="NumInt")),
                     ("inverse_transform", lambda e, c: e.inverse_transform(c["scores"]))]
        else:
            mk = lambda: MFPCA(n_components=2, method="inner-product")  # noqa: E731
            steps = [("fit", fit), ("transform", lambda e, c: e.transform(method="InnPro")),
                     ("inverse_transform", lambda e, c: e.inverse_transform(c["scores"]))]
            ctx.pop("config")
        return mk, ctx, steps, "MFPCA"
    if est in ("mfpca_cov", "mfpca_inpro", "mfpca_pace", "mfpca_cov_norm", "mfpca_inpro_norm"):
        data = make_subject("multivariate", seed)
        exps = [{"method": "UFPCA", "n_components": 2}, {"method": "UFPCA", "n_components": 2}]
        mnorm = est.endswith("_norm")
        if est == "mfpca_pace":
            mk = lambda: MFPCA(n_components=2, method="covariance", univariate_expansions=exps)  # noqa: E731
            steps = [("fit", lambda e, c: e.fit(c["data"], method_smoothing=None)), ("transform", lambda e, c: e.transform(c["data"], method="PACE")),
                     ("inverse_transform", lambda e, c: e.inverse_transform(c["scores"]))]
            return mk, dict(data=data, config=exps), steps, "MFPCA"
        if est in ("mfpca_cov", "mfpca_cov_norm"):
            mk = lambda: MFPCA(n_components=2, method="covariance", univariate_expansions=exps, normalize=mnorm)  # noqa: E731
            steps = [("fit", lambda e, c: e.fit(c["data"], method_smoothing=None)), ("transform", lambda e, c: e.transform(c["data"], method="NumInt")),
                     ("inverse_transform", lambda e, c: e.inverse_transform(c["scores"]))]
        else:
            mk = lambda: MFPCA(n_components=2, method="inner-product", normalize=mnorm)  # noqa: E731
            steps = [("fit", lambda e, c: e.fit(c["data"], method_smoothing=None)), ("transform", lambda e, c: e.transform(method="InnPro")),
                     ("inverse_transform", lambda e, c: e.inverse_transform(c["scores"]))]
        return mk, dict(data=data, config=exps, alt=dict(data=make_subject("multivariate", seed + 7))), steps, "MFPCA"
    # ---- GENERIC arguments: without the special structure the code may normalise away (non-symmetric penalty
    #      matrices, unsorted / unnormalised integer weights given as lists, non-contiguous and Fortran-ordered arrays,
    #      integer dtypes, lists for arrays); all of them are in `ctx`, i.e. snapshotted by value around every step
    if est == "fcptpa_generic":
        data = make_subject("dense2d", seed)
        data = type(data)(data.argvals, type(data.values)(np.asfortranarray(np.asarray(data.values))))
        m1, m2 = data.n_points

        def one_sided(m):
            D = np.diff(np.eye(m), 2, axis=0)
            P = D.T @ D
            P = P + np.triu(np.ones((m, m)), 1) * 0.125          # not symmetric: a one-sided roughness matrix
            return np.asfortranarray(P)

        mats = {"v": one_sided(m1), "w": one_sided(m2)[::1, ::1]}
        ranges = {"v": [1e-2, 1e2], "w": [1e-2, 1e2]}             # lists instead of tuples
        mk = lambda: FCPTPA(n_components=2)  # noqa: E731
        steps = [("fit", lambda e, c: e.fit(c["data"], penalty_matrices=c["mats"], alpha_range=c["ranges"], tolerance=1e-3, max_iteration=8)),
                 ("transform", lambda e, c: e.transform(c["data"])), ("inverse_transform", lambda e, c: e.inverse_transform(c["scores"]))]
        return mk, dict(data=data, mats=mats, ranges=ranges), steps, "FCPTPA"
    if est == "mfpca_inpro_generic":
        data = make_subject("multivariate", seed)
        weights = [3, 1]                                         # unnormalised, unsorted, integers, a list
        mk = lambda: MFPCA(n_components=2, method="inner-product", weights=weights)  # noqa: E731
        steps = [("fit", lambda e, c: e.fit(c["data"], method_smoothing=None)), ("transform", lambda e, c: e.transform(method="InnPro")),
                 ("inverse_transform", lambda e, c: e.inverse_transform(c["scores"]))]
        return mk, dict(data=data, config=weights), steps, "MFPCA"
    if est == "ufpca_cov_generic":
        data = make_subject("dense1d", seed)
        big = np.asfortranarray(np.round(np.asarray(data.values) * 8))
        wide = np.zeros((big.shape[0], 2 * big.shape[1]))
        wide[:, ::2] = big
        vals = wide[:, ::2]                                       # a non-contiguous (strided) view with integer values
        data = type(data)(data.argvals, type(data.values)(vals))
        mk = lambda: UFPCA(n_components=2, method="covariance")  # noqa: E731
        steps = [("fit", lambda e, c: e.fit(c["data"])), ("transform", lambda e, c: e.transform(c["data"], method="NumInt")),
                 ("inverse_transform", lambda e, c: e.inverse_transform(c["scores"]))]
        return mk, dict(data=data), steps, "UFPCA"
    if est in ("psplines1_generic", "psplines2_generic"):
        if est == "psplines1_generic":
            x = np.array([float(v) for v in rng.grid(9)] * 2)[:9]     # (a list is refused by the tree: TypeError)
            y = np.arange(18)[::2] % 5                             # integer dtype, strided
            w = np.array([2, 1, 1, 3, 1, 1, 0, 1, 2])              # unnormalised integer weights
            mk = lambda: PSplines(n_segments=4, degree=3)  # noqa: E731
            pen, xn = 2, np.array([0.5, 0.25])                      # an integer penalty, unsorted query points
        else:
            x = [np.linspace(0, 1, 5), list(np.linspace(0, 1, 6))]
            y = np.asfortranarray(_dy(rng, (5, 6)))
            w = np.asfortranarray(np.arange(30).reshape(5, 6) % 3 + 1)
            ns, dg = [2, 3], [2, 2]                                # lists for the arrays of segments / degrees
            mk = lambda: PSplines(n_segments=ns, degree=dg)  # noqa: E731
            pen, xn = [1.0, 2.0], [np.linspace(0, 1, 3), np.linspace(0, 1, 4)]
        steps = [("fit", lambda e, c: e.fit(y=c["y"], x=c["x"], sample_weights=c["w"], penalty=c["pen"])), ("predict", lambda e, c: e.predict()),
                 ("predict", lambda e, c: e.predict(c["xn"]))]
        ctx = dict(x=x, y=y, w=w, pen=pen, xn=xn)
        if est == "psplines2_generic":
            ctx["config"] = [ns, dg]
        return mk, ctx, steps, "PSplines"
    if est == "localpoly_generic":
        x = np.array([float(v) for v in rng.grid(12)])[::-1].copy()    # not sorted
        y = (np.arange(24)[::2] % 7)                                   # integer dtype, strided
        xn = np.array([0.1, 0.9, 0.5])                                 # not sorted (a list is refused by the tree)
        mk = lambda: LocalPolynomial(kernel_name="epanechnikov", bandwidth=0.4, degree=1)  # noqa: E731
        steps = [("predict", lambda e, c: e.predict(y=c["y"], x=c["x"])), ("predict", lambda e, c: e.predict(y=c["y"], x=c["x"], x_new=c["xn"]))]
        return mk, dict(x=x, y=y, xn=xn), steps, "LocalPolynomial"
    if est == "fcptpa":
        data = make_subject("dense2d", seed)
        m1, m2 = data.n_points
        mats = {"v": np.diff(np.eye(m1), 2, axis=0).T @ np.diff(np.eye(m1), 2, axis=0), "w": np.diff(np.eye(m2), 2, axis=0).T @ np.diff(np.eye(m2), 2, axis=0)}
        ranges = {"v": (1e-2, 1e2), "w": (1e-2, 1e2)}
        mk = lambda: FCPTPA(n_components=2)  # noqa: E731
        steps = [("fit", lambda e, c: e.fit(c["data"], penalty_matrices=c["mats"], alpha_range=c["ranges"], tolerance=1e-3, max_iteration=8)),
                 ("transform", lambda e, c: e.transform(c["data"])), ("inverse_transform", lambda e, c: e.inverse_transform(c["scores"]))]
        return mk, dict(data=data, mats=mats, ranges=ranges, alt=dict(data=make_subject("dense2d", seed + 7))), steps, "FCPTPA"
    if est in ("psplines1", "psplines2"):
        if est == "psplines1":
            x = np.array([float(v) for v in rng.grid(9)])
            y = _dy(rng, (9,))
            mk = lambda: PSplines(n_segments=4, degree=3)  # noqa: E731
            pen = 1.0
            xn = np.linspace(0.1, 0.9, 5)
        else:
            x = [np.linspace(0, 1, 5), np.linspace(0, 1, 6)]
            y = _dy(rng, (5, 6))
            ns, dg = np.array([2, 3]), np.array([2, 2])
            mk = lambda: PSplines(n_segments=ns, degree=dg)  # noqa: E731
            pen = (1.0, 2.0)
            xn = [np.linspace(0, 1, 3), np.linspace(0, 1, 4)]
        w = np.ones_like(y)
        w.flat[0] = 0.0
        steps = [("fit", lambda e, c: e.fit(y=c["y"], x=c["x"], sample_weights=c["w"], penalty=c["pen"])), ("predict", lambda e, c: e.predict()),
                 ("predict", lambda e, c: e.predict(c["xn"]))]
        ctx = dict(x=x, y=y, w=w, pen=pen, xn=xn)
        if est == "psplines2":
            ctx["config"] = [ns, dg]
            ctx["alt"] = dict(y=_dy(rng, (5, 6)))
        else:
            x2 = np.linspace(float(x[0]), float(x[-1]), 15)
            ctx["alt"] = dict(x=x2, y=_dy(rng, (15,)), w=np.ones(15))
        return mk, ctx, steps, "PSplines"
    if est == "localpoly":
        x = np.array([float(v) for v in rng.grid(12)])
        y = _dy(rng, (12,))
        xn = np.linspace(0, 1, 5)
        mk = lambda: LocalPolynomial(kernel_name="epanechnikov", bandwidth=0.4, degree=1)  # noqa: E731
        steps = [("predict", lambda e, c: e.predict(y=c["y"], x=c["x"])), ("predict", lambda e, c: e.predict(y=c["y"], x=c["x"], x_new=c["xn"]))]
        return mk, dict(x=x, y=y, xn=xn), steps, "LocalPolynomial"
    raise ValueError(est)


def _same_value(a, b):
    """Same configuration value, whatever the container (a scalar may be promoted to an array)."""
    try:
        if isinstance(a, (int, float, np.ndarray, np.generic, list, tuple)) and isinstance(b, (int, float, np.ndarray, np.generic, list, tuple)):
            aa, bb = np.asarray(a), np.asarray(b)
            if aa.dtype != object and bb.dtype != object:
                return bool(np.array_equal(np.broadcast_to(aa, bb.shape) if aa.ndim == 0 else aa, bb))
    except (ValueError, TypeError):
        pass
    return not U.diff_paths(U.deep(a), U.deep(b))


def _raw_config(e):
    out = {}
    try:
        params = [p for p in inspect.signature(type(e).__init__).parameters if p != "self"]
    except (TypeError, ValueError):
        params = []
    for p in params:
        for nm in (p, "_" + p):
            if nm in getattr(e, "__dict__", {}):
                v = e.__dict__[nm]
                out[p] = v.copy() if isinstance(v, np.ndarray) else v
                break
    return out


def _handed_out(e):
    """The results a fitted estimator hands out: the values of its public properties and public
    attributes that are not constructor arguments (found by reflection)."""
    try:
        params = {p for p in inspect.signature(type(e).__init__).parameters if p != "self"}
    except (TypeError, ValueError):
        params = set()
    out = {}
    for n in dir(type(e)):
        if n.startswith("_") or n in params:
            continue
        if isinstance(inspect.getattr_static(type(e), n), property):
            try:
                v = getattr(e, n)
            except Exception:  # noqa: BLE001
                continue
            if v is not None and not callable(v):
                out[n] = v
    for n, v in getattr(e, "__dict__", {}).items():
        if not n.startswith("_") and n not in params and v is not None and not callable(v):
            out.setdefault(n, v)
    # public data attributes found on the class only (e.g. a class-level dictionary read through the instance)
    for n in dir(type(e)):
        if n.startswith("_") or n in params or n in out:
            continue
        st = inspect.getattr_static(type(e), n)
        if isinstance(st, (dict, list, set, np.ndarray)):
            out[n] = getattr(e, n)
    return out


def _other_activity(mk, ctx, alt, steps, seed):
    """Fits that have nothing to do with the estimator under observation."""
    import copy

    from FDApy.preprocessing.dim_reduction.ufpca import UFPCA
    from FDApy.preprocessing.smoothing.local_polynomial import LocalPolynomial
    from FDApy.preprocessing.smoothing.psplines import PSplines

    other = make_subject("dense1d", seed + 11)
    other.smooth(method="PS")
    other.smooth(method="LP", bandwidth=0.5)
    other.mean(method_smoothing="PS")
    UFPCA(n_components=2, method="covariance").fit(other)
    x = np.linspace(0, 2, 11)
    PSplines(n_segments=3, degree=2).fit(y=np.cos(3 * x), x=x, penalty=2.0)
    LocalPolynomial(bandwidth=0.7).predict(y=np.sin(x), x=x)
    irr = make_subject("irregular", seed + 11)
    irr.smooth(method="PS")
    # another instance of the same class, on other data when the case has some
    e2 = mk()
    c2 = {k: (copy.deepcopy(v) if isinstance(v, (list, dict)) else v) for k, v in ctx.items()}
    if alt is not None:
        c2.update(alt)
    c2["scores"] = None
    np.random.seed(4242)
    steps[0][1](e2, c2)


def _config_of(e):
    """The user-supplied configuration of an estimator: constructor arguments as stored."""
    out = {}
    try:
        params = [p for p in inspect.signature(type(e).__init__).parameters if p != "self"]
    except (TypeError, ValueError):
        params = []
    for p in params:
        for nm in (p, "_" + p):
            if nm in getattr(e, "__dict__", {}):
                out[p] = U.deep(e.__dict__[nm])
                break
    return out


def _run_steps(mk, ctx, steps, readonly=False):
    e = mk()
    results = []
    scores = None
    ro = U.ReadOnly(*[v for k, v in ctx.items() if k != "scores"]) if readonly else None
    if ro:
        ro.__enter__()
    try:
        for name, f in steps:
            name = name.split("|")[0]
            np.random.seed(777)
            c = dict(ctx)
            c["scores"] = scores
            try:
                r = f(e, c)
                exc = None
            except Exception as ex:  # noqa: BLE001
                r, exc = None, ex
            if name == "transform" and exc is None and scores is None:
                scores = np.array(r, copy=True)
                if readonly:
                    scores.flags.writeable = False
            if name == "fit" and exc is None:
                r = {k: v for k, v in e.__dict__.items()}
            results.append((name, r, exc))
    finally:
        if ro:
            ro.__exit__()
    return e, results


def _est(case):
    est, seed = case["est"], case["seed"]
    mk, ctx, steps, cls = _est_setup(est, seed)
    viol = []
    U.poison("nan")
    import copy as _copy

    alt = ctx.pop("alt", None)
    pristine_containers = {k: _copy.deepcopy(v) for k, v in ctx.items() if isinstance(v, (list, dict))}
    snap_ctx0 = {k: U.deep(v) for k, v in ctx.items()}
    heap0 = U.heap_spec([("s", [ctx["config"]])]) if ("config" in ctx and est == "mfpca_cov") else None
    e = mk()
    cfg0 = _config_of(e)
    raw0 = _raw_config(e)
    scores = None
    recs = []
    earlier = []
    by_tag = {}
    for name, f in steps:
        full, name = name, name.split("|")[0]
        entry = f"{cls}.{name}"
        np.random.seed(777)
        c = dict(ctx)
        c["scores"] = scores
        before_ctx = {k: U.deep(v) for k, v in ctx.items()}
        before_scores = U.deep(scores)
        before_state = U.deep(dict(e.__dict__), skip_cache=False) if (name.split("|")[0] != "fit" and steps[0][0] == "fit") else None
        try:
            r = f(e, c)
            exc = None
        except Exception as ex:  # noqa: BLE001
            r, exc = None, ex
        if before_state is not None:
            # a read-only call (transform / inverse_transform / predict) must leave EVERY attribute of the fitted
            # estimator — private ones included — as it was
            d = U.diff_paths(before_state, U.deep(dict(e.__dict__), skip_cache=False))
            if d:
                viol.append(_viol("fitted_state_unchanged", entry, f"{name} changed the state of the fitted estimator at {d[:3]}: later calls do not behave like on a freshly fitted twin", ["estimator_state_changed"]))
        if U.diff_paths(before_scores, U.deep(scores)):
            viol.append(_viol("inputs_unchanged", entry, f"{name} changed the score array it was given", ["input_mutated"]))
        recs.append(dict(step=name, status="ok" if exc is None else "error:" + err_class(exc), msg="" if exc is None else str(exc)[:100]))
        for k, v in ctx.items():
            d = U.diff_paths(before_ctx[k], U.deep(v))
            if d:
                what = "the user-supplied configuration" if k == "config" else (f"the {type(v).__name__} the caller passed as `{k}`" if isinstance(v, (list, dict)) else f"its input `{k}`")
                viol.append(_viol("config_unchanged" if k == "config" else "inputs_unchanged", entry, f"{name} changed {what} at {d[:3]}", ["config_consumed" if k == "config" else "input_mutated"]))
        cfg = _config_of(e)
        if name != "fit":
            d = U.diff_paths(cfg0, cfg)
            if d:
                viol.append(_viol("config_unchanged", entry, f"{name} changed the estimator configuration at {d[:3]}", ["config_changed"]))
        else:
            # fit may rebind a parameter left to None to its derived value and may promote scalars to arrays;
            # a value the user supplied must keep its value
            raw1 = _raw_config(e)
            for p, v0 in raw0.items():
                if v0 is not None and p in raw1 and not _same_value(v0, raw1[p]):
                    viol.append(_viol("config_unchanged", entry, f"fit changed the value of the user-supplied parameter `{p}`", ["config_changed"]))
            cfg0 = cfg
        for (en, er, es) in earlier:
            if U.diff_paths(es, U.deep(er, skip_cache=True)):
                viol.append(_viol("earlier_results_unchanged", entry, f"{name} changed the result returned earlier by {en}", ["result_mutated"]))
        if exc is None:
            if name == "transform" and (scores is None or "|" not in full or full.endswith("|default")):
                scores = np.array(r, copy=True)
            if r is not None:
                earlier.append((name, r, U.deep(r, skip_cache=True)))
                if "|" in full:
                    # X(default) … X(other options) … X(default): calls with the same options must agree bitwise
                    dd = _nocache(U.deep(r, skip_cache=True))
                    if full in by_tag and U.diff_paths(by_tag[full], dd):
                        viol.append(_viol("repeatable", entry, f"{full.replace('|', ' with options ')}: the same call gives another result after an intermediate call with other option values (differs at {U.diff_paths(by_tag[full], dd)[:3]})", ["second_call_differs", "option_call_left_state"]))
                    by_tag.setdefault(full, dd)
            if name == "fit":
                # what the fitted estimator hands out (covariance, eigenfunctions, mean, …) are earlier results too
                for hn, hv in _handed_out(e).items():
                    earlier.append((f"fit (estimator.{hn})", hv, U.deep(hv, skip_cache=True)))
            else:
                # the same call once more on the same fitted estimator: identical result
                np.random.seed(777)
                c2 = dict(ctx)
                c2["scores"] = scores if name != "transform" else c["scores"]
                try:
                    r2 = f(e, c2)
                    d = U.diff_paths(_nocache(U.deep(r, skip_cache=True)), _nocache(U.deep(r2, skip_cache=True)))
                    if d:
                        viol.append(_viol("repeatable", entry, f"calling {name} a second time on the same fitted estimator gives another result at {d[:3]}", ["second_call_differs"]))
                except Exception as ex:  # noqa: BLE001
                    viol.append(_viol("repeatable", entry, f"the second {name} raised {err_class(ex)}: {str(ex)[:80]}", ["second_call_differs"]))
                for (en, er, es) in earlier:
                    if U.diff_paths(es, U.deep(er, skip_cache=True)):
                        viol.append(_viol("earlier_results_unchanged", entry, f"a repeated {name} changed the result returned earlier by {en}", ["result_mutated"]))
    if steps[0][0] == "fit" and recs and recs[0]["status"] != "ok" and recs[0]["status"].split(":")[1] not in ("ValueError", "TypeError", "NotImplementedError"):
        # not a documented rejection of the arguments but an internal error of the fit
        viol.append(_viol("runs", f"{cls}.fit", f"fit raised {recs[0]['status']} ({recs[0]['msg']}) on a valid configuration", ["internal_error"]))
    if steps[0][0] == "fit" and recs and recs[0]["status"] != "ok":
        # the fit is rejected (e.g. no univariate expansion at all): nothing to repeat; inputs / configuration were compared above
        out = dict(recs=recs, viol=_dedupe(viol))
        if heap0 is not None:
            out["heap"], out["roots"] = heap0
        return out
    # (d) whole sequence again on a fresh estimator, and refit of the same estimator
    U.poison("big")
    sized = "@" in est
    e1, res1 = _run_steps(mk, ctx, steps)
    # a second fresh estimator on the same data (for the size-threshold cases the history above is the first run)
    e2, res2 = (e, [(n_, r_, None) for (n_, r_, _) in earlier if not n_.startswith("fit (")]) if sized else _run_steps(mk, ctx, steps)
    if sized:
        res1 = [x for x in res1 if x[0] != "fit"]
        first_fit = _nocache(U.deep({k: v for k, v in e.__dict__.items()}, skip_cache=True))
        d = U.diff_paths(first_fit, _nocache(U.deep({k: v for k, v in e1.__dict__.items()}, skip_cache=True)))
        if d:
            viol.append(_viol("repeatable", f"{cls}.fit", f"two fresh estimators fitted on the same data differ at {d[:3]}", ["second_call_differs"]))
    for (n1, r1, x1), (n2, r2, x2) in zip(res1, res2):
        if (x1 is None) != (x2 is None):
            viol.append(_viol("repeatable", f"{cls}.{n1}", "the outcome differs between two identical runs", ["second_call_differs"]))
        elif x1 is None:
            d = U.diff_paths(_nocache(U.deep(r1, skip_cache=True)), _nocache(U.deep(r2, skip_cache=True)))
            if d:
                viol.append(_viol("repeatable", f"{cls}.{n1}", f"two identical runs (same global seed) differ at {d[:3]}", ["second_call_differs"]))
    if steps[0][0] == "fit":
        # refit the same estimator on the same data
        np.random.seed(777)
        c = dict(ctx)
        c["scores"] = None
        first = _nocache(U.deep({k: v for k, v in e1.__dict__.items()}, skip_cache=True))
        try:
            steps[0][1](e1, c)
            second = _nocache(U.deep({k: v for k, v in e1.__dict__.items()}, skip_cache=True))
            d = U.diff_paths(first, second)
            if d:
                viol.append(_viol("repeatable", f"{cls}.fit", f"refitting the same estimator on the same data differs at {d[:3]}", ["refit_differs"]))
        except Exception as ex:  # noqa: BLE001
            viol.append(_viol("repeatable", f"{cls}.fit", f"refitting the same estimator raised {err_class(ex)}: {str(ex)[:80]}", ["refit_differs"]))
    # refit on OTHER (richer) data: the estimator fitted before must end up like a fresh estimator
    # with the same configuration fitted on those data (no state or configuration carried over)
    if steps[0][0] == "fit" and alt is not None:
        import copy

        def fresh_ctx():
            """the arguments as the user wrote them: list / dict arguments are fresh copies of the pristine ones"""
            c = dict(ctx)
            for k_, v_ in pristine_containers.items():
                if k_ != "config":
                    c[k_] = copy.deepcopy(v_)
            c["scores"] = None
            return c

        try:
            np.random.seed(777)
            ea = mk()
            ca = fresh_ctx()
            ca.update(alt)
            steps[0][1](ea, ca)                  # fresh estimator, fresh arguments, other data
            np.random.seed(777)
            eb = mk()
            cb = fresh_ctx()
            steps[0][1](eb, cb)                  # first the original data …
            np.random.seed(777)
            cb2 = dict(cb)                       # … then refit on the other data, RE-USING the same list / dict arguments
            cb2.update(alt)
            steps[0][1](eb, cb2)
            da = _nocache(U.deep({k: v for k, v in ea.__dict__.items()}, skip_cache=True))
            db = _nocache(U.deep({k: v for k, v in eb.__dict__.items()}, skip_cache=True))
            d = U.diff_paths(da, db)
            if d:
                viol.append(_viol("repeatable", f"{cls}.fit", f"an estimator refitted on other data differs from a fresh estimator with the same configuration fitted on those data at {d[:3]}", ["refit_differs", "state_leak"]))
        except Exception as ex:  # noqa: BLE001
            viol.append(_viol("repeatable", f"{cls}.fit", f"refit on other data raised {err_class(ex)}: {str(ex)[:80]}", ["refit_differs"]))
    # (c) read-only inputs (skipped for the size-threshold cases: cost)
    try:
        e3, res3 = (e1, res1) if sized else _run_steps(mk, ctx, steps, readonly=True)
        for (n1, r1, x1), (n3, r3, x3) in zip(res1, res3):
            if x3 is not None and x1 is None:
                kindc = "input_written_in_place" if "read-only" in str(x3) else "second_call_differs"
                viol.append(_viol("inputs_unchanged" if kindc == "input_written_in_place" else "repeatable", f"{cls}.{n1}",
                                  f"with read-only inputs {n1} raised {err_class(x3)}: {str(x3)[:80]}", [kindc]))
    except Exception as ex:  # noqa: BLE001
        viol.append(_viol("repeatable", f"{cls}.{steps[0][0]}", f"read-only run crashed: {err_class(ex)} {str(ex)[:80]}", ["second_call_differs"]))
    # ---- OTHER fits: another instance of the same class on other data, data-object methods that use the smoothers /
    #      estimators internally.  Whatever the first estimator handed out (attributes read after its fit, returned
    #      results — references taken BEFORE these fits) must be unchanged.
    try:
        _other_activity(mk, ctx, alt, steps, seed)
    except Exception:  # noqa: BLE001
        pass
    for (en, er, es) in earlier:
        d = U.diff_paths(es, U.deep(er, skip_cache=True))
        if d:
            viol.append(_viol("earlier_results_unchanged", f"{cls}.fit", f"a later fit of ANOTHER estimator / a data-object method changed what this estimator had handed out: {en} at {d[:3]}",
                              ["result_mutated", "changed_by_another_fit"]))
    d_all = {k: U.diff_paths(snap_ctx0[k], U.deep(v)) for k, v in ctx.items()}
    for k, d in d_all.items():
        if d and not any(v["clause"] in ("inputs_unchanged", "config_unchanged") for v in viol):
            viol.append(_viol("inputs_unchanged", f"{cls}.{steps[0][0]}", f"`{k}` changed over the history at {d[:3]}", ["input_mutated"]))
    out = dict(recs=recs, viol=_dedupe(viol))
    if heap0 is not None:
        out["heap"], out["roots"] = heap0
    return out


def _dedupe(viol):
    seen, out = set(), []
    for v in viol:
        key = (v["clause"], v["entry"], tuple(v.get("causes", [])))
        if key not in seen:
            seen.add(key)
            out.append(v)
    return out


def run_impl(case):
    global _FUNCTION_STATE0
    if _FUNCTION_STATE0 is None:
        import FDApy.preprocessing.dim_reduction.fcp_tpa  # noqa: F401
        import FDApy.preprocessing.dim_reduction.mfpca  # noqa: F401
        import FDApy.preprocessing.dim_reduction.ufpca  # noqa: F401
        import FDApy.preprocessing.smoothing.local_polynomial  # noqa: F401
        import FDApy.preprocessing.smoothing.psplines  # noqa: F401
        import FDApy.representation.basis  # noqa: F401
        import FDApy.representation.functional_data  # noqa: F401

        _FUNCTION_STATE0 = function_state()
    state_before = function_state()
    if case["kind"] == "single":
        out = _single(case)
    elif case["kind"] == "pair":
        out = _pair(case)
    elif case["kind"] == "shared":
        out = _shared(case)
    elif case["kind"] == "twice":
        out = _twice(case)
    elif case["kind"] == "refit":
        out = _refit(case)
    elif case["kind"] == "ctor":
        out = _ctor(case)
    else:
        out = _est(case)
    entry = out.get("entry") or (f"{_class_of(case['subject']).__name__}.{case['b'][0]}" if case["kind"] in ("pair", "shared") else (f"{_class_of(case['subject']).__name__}.{case['method']}" if case["kind"] == "twice" else f"{case.get('est') or case.get('ctor')}"))
    out["viol"] = list(out.get("viol", [])) + _function_state_violation(entry, state_before)
    return out


# --------------------------------------------------------------------------
# model side
# --------------------------------------------------------------------------

SKELETONS = {}  # filled by c16_skeletons (name of the Lean skeleton per (kind, method, option index))

try:
    import c16_skeletons as _SK

    SKELETONS = _SK.SKELETONS
except ImportError:  # pragma: no cover
    pass


def skeleton_of(case):
    if case["kind"] != "single":
        return None
    if case.get("skeleton"):
        return case["skeleton"]
    base = case["subject"].split(":")[0]
    if base == "multivariate1c":
        return None  # the multivariate skeletons are written for two components
    return SKELETONS.get((base, case["method"], case["opt"])) or SKELETONS.get((base, case["method"], None))


def model_lines(case, impl):
    if case["kind"] == "est" and case["est"] == "mfpca_cov" and "__crash__" not in impl and impl.get("heap"):
        return [f"skel {case.get('skeleton', 'mfpca_fit')} {impl['heap']} {impl['roots']}"]
    sk = skeleton_of(case)
    if sk is None or "__crash__" in impl or impl.get("status") != "ok":
        return []
    return [f"skel {sk} {impl['heap']} {impl['roots']}"]


def parse_model(case, outs):
    o = outs[0]
    if o.startswith("bad") or o.startswith("unknown"):
        return dict(error=o)
    parts = dict(p.split("=", 1) for p in o.split(" "))
    return dict(check=parts["check"], alias=sorted(parts["alias"].split("|")) if parts["alias"] != "-" else [],
                written=sorted(parts["written"].split("|")) if parts["written"] != "-" else [])


def compare(case, impl, model):
    if "__crash__" in impl:
        return [f"implementation harness crashed: {impl['__crash__']} {impl.get('msg')} {impl.get('tb', '')[-300:]}"]
    if "error" in model:
        return [f"model: {model['error']}"]
    ds = []
    if case["kind"] == "est":
        consumed = any(v["clause"] == "config_unchanged" and "config_consumed" in v.get("causes", []) for v in impl.get("viol", []))
        if consumed != bool(model["written"]):
            ds.append(f"MFPCA.fit: configuration dictionaries {'changed' if consumed else 'unchanged'}, skeleton says written={model['written']}")
        return ds
    got = sorted(f"{a}~{b}" for a, b in impl["alias"])
    if got != model["alias"]:
        ds.append(f"alias graph: observed {got} vs skeleton {model['alias']}")
    wrote = sorted(set(_cell_of_change(p) for p in impl["changed"]))
    if bool(wrote) != bool(model["written"]):
        ds.append(f"written input cells: observed {impl['changed'][:4]} vs skeleton {model['written']}")
    if model["check"] != "true" and not impl["changed"]:
        ds.append("the skeleton fails freshTargets but no input changed")
    return ds


def _cell_of_change(p):
    return p.split(".")[0]


# --------------------------------------------------------------------------
# oracle / bookkeeping
# --------------------------------------------------------------------------

def oracle(case, impl):
    if "__crash__" in impl:
        return [dict(clause="runs", entry=case.get("method", case.get("est", "pair")), msg=f"harness crash {impl['__crash__']}: {impl.get('msg')} {impl.get('tb', '')[-400:]}")]
    return [dict(clause=v["clause"], entry=v["entry"], msg=v["msg"], causes=v.get("causes", [])) for v in impl.get("viol", [])]


def nontrivial(case, impl):
    if "__crash__" in impl:
        return None
    if case["kind"] == "single":
        return f"{case['subject']}.{case['method']}.{case['opt']}.{case['seed']}" if impl.get("status") == "ok" else None
    if case["kind"] in ("pair", "shared", "twice"):
        return digest(case) if impl.get("status_b") == "ok" else None
    return digest(case)


def _classify_extra(case, impl, tags):
    if case["kind"] == "refit":
        tags.append("refit:" + case["est"])
        tags.append("refit_fault_points:" + str(impl.get("n_fault_points")))
        for lab, res in impl.get("rejections", []):
            tags.append(f"refit_rejection:{case['est']}:{lab}:{res}")
    if case["kind"] == "ctor":
        tags.append("ctor:" + case["ctor"] + ":" + impl.get("status", "?"))


def classify(case, impl):
    tags = ["kind:" + case["kind"]]
    if "__crash__" in impl:
        return tags + ["crash"]
    if case["kind"] == "single":
        tags.append("subject:" + case["subject"].split(":")[0])
        if ":" in case["subject"]:
            tags.append("size_threshold:" + case["subject"].split(":")[1])
        tags.append("status:" + impl["status"])
        tags.append("modelled" if skeleton_of(case) else "unmodelled:" + _entry(case["subject"], case["method"]))
    elif case["kind"] in ("pair", "shared", "twice"):
        tags.append("subject:" + case["subject"])
        tags.append("pair_status:" + impl["status_a"].split(":")[0] + "/" + impl["status_b"].split(":")[0])
    elif case["kind"] in ("refit", "ctor"):
        _classify_extra(case, impl, tags)
    else:
        tags.append("est:" + case["est"])
        if "@" in case["est"]:
            tags.append("size_threshold:" + case["est"].split("@")[1])
        for r in impl["recs"]:
            tags.append(f"est_step:{case['est']}.{r['step']}:{r['status']}")
    return tags


def extra_coverage(cases, impls, models):
    modelled, unmodelled = set(), set()
    for c in cases:
        if c["kind"] == "single":
            (modelled if skeleton_of(c) else unmodelled).add(_entry(c["subject"], c["method"]) + f"[{c['subject']}]")
    return dict(methods_with_skeleton=sorted(modelled), methods_unmodelled_generic_oracle_only=sorted(unmodelled),
                mutators_excluded_by_contract=sorted(MUTATORS))
