"""Translator for C20: `FDApy/simulation/simulation.py` -> `lean/FDAModel/Generated/SimBodies.lean`.

Syntax only.
* The bodies of `Simulation.add_noise`, `Simulation.sparsify`, `Simulation.add_noise_and_sparsify`, statement by
  statement, each statement mapped onto one constructor of `FDA.PySim.Simple` / `FDA.PySim.Stmt`
  (`lean/FDAModel/Core/PySim.lean`) in the order of the source; nothing is dropped, merged or reordered.  An attribute
  assignment whose right-hand side is the noisy / sparse version of `self.data` becomes `compute…; assign…Local`
  (Python evaluates the right-hand side first).
* The formulas of `_add_noise_univariate_data` (value of a noisy sample from source value, standard deviation and draw;
  `std = sqrt(variance)`; the parameters of the draw; the grid) and of `_sparsify_univariate_data` (bounds of the
  retained percentage, probabilities of the Bernoulli mask, threshold / size / replacement of the fallback, NaN for the
  dropped samples).
`C20.generated_add_noise_eq_model` / `generated_sparsify_eq_model` / `generated_combined_eq_model` prove that executing the
generated bodies — under every fault schedule — is exactly the model's operation, `generated_noise_formula` /
`generated_sparsify_formulas` tie the formulas to the model's payloads.  Anything not recognised raises `Shape`: not an
alarm, the caller falls back on the reference translation `c20_simbodies_reference.lean`.
"""
import ast
from fractions import Fraction


class Shape(ValueError):
    pass


def _self_attr(e, me):
    return e.attr if isinstance(e, ast.Attribute) and isinstance(e.value, ast.Name) and e.value.id == me else None


def _body(fn):
    b = list(fn.body)
    if b and isinstance(b[0], ast.Expr) and isinstance(b[0].value, ast.Constant) and isinstance(b[0].value.value, str):
        b = b[1:]
    return b


def _callname(e):
    if isinstance(e, ast.Call):
        f = e.func
        return f.attr if isinstance(f, ast.Attribute) else (f.id if isinstance(f, ast.Name) else None)
    return None


def _names_in(e):
    return {n.id for n in ast.walk(e) if isinstance(n, ast.Name)}


# --------------------------------------------------------------------------
# method bodies
# --------------------------------------------------------------------------

def _is_source_binding(st, me):
    """`if self.random_state is None: rnorm = np.random.normal else: rnorm = self.random_state.normal` and the
    one-line forms `gen = np.random if self.random_state is None else self.random_state`, `rnorm = gen.normal`:
    local names bound to generator functions, nothing else."""
    def only_local_bindings(stmts):
        for s in stmts:
            if not (isinstance(s, ast.Assign) and all(isinstance(t, (ast.Name, ast.Tuple)) for t in s.targets)):
                return False
            src = ast.unparse(s.value)
            if "random" not in src and "generator" not in src.lower() and "gen." not in src:
                return False
            if _callname(s.value) is not None:
                return False
        return True

    if isinstance(st, ast.If) and "random_state" in ast.unparse(st.test):
        return only_local_bindings(st.body) and only_local_bindings(st.orelse)
    if isinstance(st, ast.Assign):
        return only_local_bindings([st])
    return False


def _version_expr(e, me, helper, loopable=True):
    """is `e` the noisy (sparse) version of `self.data`: `helper(self.data, …)`?"""
    return _callname(e) == helper and e.args and _self_attr(e.args[0], me) == "data"


def _multi_version_expr(e, me, helper):
    """`MultivariateFunctionalData([helper(d, …) for d in self.data.data])`"""
    if _callname(e) != "MultivariateFunctionalData" or len(e.args) != 1 or not isinstance(e.args[0], ast.ListComp):
        return False
    lc = e.args[0]
    if len(lc.generators) != 1 or lc.generators[0].ifs or not isinstance(lc.generators[0].target, ast.Name):
        return False
    it = lc.generators[0].iter
    if not (isinstance(it, ast.Attribute) and it.attr == "data" and _self_attr(it.value, me) == "data"):
        return False
    v = lc.generators[0].target.id
    return _callname(lc.elt) == helper and lc.elt.args and isinstance(lc.elt.args[0], ast.Name) and lc.elt.args[0].id == v


def _helper_args_ok(call, params, skip_first=True):
    """the remaining arguments of the helper are the parameters of the method, in the order of the helper's signature"""
    got = [ast.unparse(a) for a in call.args[1:]] + [ast.unparse(k.value) for k in call.keywords]
    return got == params


def _compute_assign(st, me, which, helper_params):
    """`if isinstance(self.data, DenseFunctionalData): T = helper(self.data, …) else: T = Multivariate([...])` with
    T = `self.<attr>` (-> compute + assign) or a local name (-> compute only)."""
    helper, attr = {"noise": ("_add_noise_univariate_data", "noisy_data"), "sparse": ("_sparsify_univariate_data", "sparse_data")}[which]
    if not (isinstance(st, ast.If) and len(st.body) == 1 and len(st.orelse) == 1):
        return None
    t = st.test
    if not (_callname(t) == "isinstance" and len(t.args) == 2 and _self_attr(t.args[0], me) == "data"
            and isinstance(t.args[1], ast.Name) and t.args[1].id == "DenseFunctionalData"):
        return None
    a, b = st.body[0], st.orelse[0]
    if not (isinstance(a, ast.Assign) and isinstance(b, ast.Assign) and len(a.targets) == 1 and len(b.targets) == 1):
        return None
    if ast.unparse(a.targets[0]) != ast.unparse(b.targets[0]):
        return None
    if not (_version_expr(a.value, me, helper) and _multi_version_expr(b.value, me, helper)):
        return None
    if not (_helper_args_ok(a.value, helper_params) and _helper_args_ok(b.value.args[0].elt, helper_params)):
        raise Shape(f"arguments of {helper} are not {helper_params}: {ast.unparse(a.value)}")
    tgt = a.targets[0]
    C = {"noise": "Noise", "sparse": "Sparse"}[which]
    if _self_attr(tgt, me) == attr:
        return [f".compute{C}", f".assign{'Noisy' if which == 'noise' else 'Sparse'}Local"], None
    if isinstance(tgt, ast.Name):
        return [f".compute{C}"], tgt.id
    return None


def _method_body(fn, which):
    """`which` in add_noise / sparsify / combined -> list of Lean statement terms"""
    me = fn.args.args[0].arg
    params = [a.arg for a in fn.args.args[1:]]
    out = []
    local = {}   # local name -> "noise" | "sparse" | "tmp"

    def simple(st):
        # self._check_data() / self._check_dimension() / self.add_noise(...) / self.sparsify(...)
        if isinstance(st, ast.Expr) and isinstance(st.value, ast.Call):
            c = st.value
            m = _self_attr(c.func, me)
            if m == "_check_data" and not c.args and not c.keywords:
                return [".checkData"]
            if m == "_check_dimension" and not c.args and not c.keywords:
                return [".checkDim"]
            if m in ("add_noise", "sparsify"):
                want = {"add_noise": ["noise_variance"], "sparsify": ["percentage", "epsilon"]}[m]
                got = {k.arg: ast.unparse(k.value) for k in c.keywords}
                pos = [ast.unparse(a) for a in c.args]
                if (got == {w: w for w in want} and not pos) or (pos == want and not got):
                    return [".callAddNoise" if m == "add_noise" else ".callSparsify"]
                raise Shape(f"{m} is not called with its parameters forwarded one to one: {ast.unparse(st)}")
            raise Shape(f"call not recognised: {ast.unparse(st)}")
        if _is_source_binding(st, me):
            return [".bindSources"]
        for w, hp in (("noise", ["noise_variance", "rnorm"]), ("sparse", ["percentage", "epsilon", "runif", "rchoice"])):
            r = _compute_assign(st, me, w, hp)
            if r is not None:
                if r[1] is not None:
                    local[r[1]] = w
                return r[0]
        if isinstance(st, ast.Assign) and len(st.targets) == 1 and isinstance(st.targets[0], ast.Tuple) and isinstance(st.value, ast.Tuple):
            tg = [_self_attr(t, me) for t in st.targets[0].elts]
            vs = [_self_attr(v, me) for v in st.value.elts]
            if tg == ["data", "noisy_data"] and vs == ["noisy_data", "data"] or tg == ["noisy_data", "data"] and vs == ["data", "noisy_data"]:
                return [".swapDataNoisy"]
        if isinstance(st, ast.Assign) and len(st.targets) == 1:
            tgt, v = st.targets[0], st.value
            ta = _self_attr(tgt, me)
            if isinstance(tgt, ast.Name) and _self_attr(v, me) == "data":
                local[tgt.id] = "tmp"
                return [".saveData"]
            if ta == "data" and _self_attr(v, me) == "noisy_data":
                return [".setDataNoisy"]
            if ta == "data" and isinstance(v, ast.Name) and local.get(v.id) == "tmp":
                return [".restoreData"]
            if ta == "noisy_data" and isinstance(v, ast.Name) and local.get(v.id) == "noise":
                return [".assignNoisyLocal"]
            if ta == "sparse_data" and isinstance(v, ast.Name) and local.get(v.id) == "sparse":
                return [".assignSparseLocal"]
            if ta == "noisy_data" and _self_attr(v, me) == "data":
                return [".assignNoisyData"]
        raise Shape(f"statement not recognised in {fn.name}: {ast.unparse(st)[:120]}")

    for st in _body(fn):
        if isinstance(st, ast.Try):
            if st.handlers or st.orelse or not st.finalbody:
                raise Shape("try statement with handlers / else")
            body = [x for s in st.body for x in simple(s)]
            fin = [x for s in st.finalbody for x in simple(s)]
            out.append(f".tryFinally [{', '.join(body)}] [{', '.join(fin)}]")
        else:
            out += [f".s {x}" for x in simple(st)]
    return out


# --------------------------------------------------------------------------
# formulas
# --------------------------------------------------------------------------

def _q(v):
    q = Fraction(repr(v)) if isinstance(v, float) else Fraction(v)
    return f"({q.numerator} : Rat)" if q.denominator == 1 else f"(({q.numerator} : Rat) / {q.denominator})"


class _Expr:
    """expression over named leaves -> Lean Rat term"""

    def __init__(self, leaf):
        self.leaf = leaf

    def tr(self, e):
        r = self.leaf(e)
        if r is not None:
            return r
        if isinstance(e, ast.Constant) and isinstance(e.value, (int, float)) and not isinstance(e.value, bool):
            return _q(e.value)
        if isinstance(e, ast.UnaryOp) and isinstance(e.op, ast.USub):
            return f"(-{self.tr(e.operand)})"
        if isinstance(e, ast.BinOp) and type(e.op) in (ast.Add, ast.Sub, ast.Mult, ast.Div):
            op = {ast.Add: "+", ast.Sub: "-", ast.Mult: "*", ast.Div: "/"}[type(e.op)]
            return f"({self.tr(e.left)} {op} {self.tr(e.right)})"
        n = _callname(e)
        if n in ("multiply", "add", "subtract") and len(e.args) == 2:
            op = {"multiply": "*", "add": "+", "subtract": "-"}[n]
            return f"({self.tr(e.args[0])} {op} {self.tr(e.args[1])})"
        if n in ("max", "min", "maximum", "minimum") and len(e.args) == 2:
            return f"({'ratMax' if n.startswith('max') else 'ratMin'} {self.tr(e.args[0])} {self.tr(e.args[1])})"
        raise Shape("expression not recognised: " + ast.unparse(e)[:80])


def _subst(e, env):
    import copy

    class T(ast.NodeTransformer):
        def visit_Name(self, n):
            return copy.deepcopy(env[n.id]) if n.id in env else n

    return T().visit(copy.deepcopy(e))


def _noise_formulas(fn):
    data = fn.args.args[0].arg
    var = fn.args.args[1].arg
    rn = fn.args.args[2].arg
    env, ret = {}, None
    for st in _body(fn):
        if isinstance(st, ast.Assign) and len(st.targets) == 1 and isinstance(st.targets[0], ast.Name):
            env[st.targets[0].id] = _subst(st.value, env)
        elif isinstance(st, ast.Return):
            ret = _subst(st.value, env)
        else:
            raise Shape("statement in _add_noise_univariate_data: " + ast.unparse(st)[:80])
    if ret is None or _callname(ret) != "DenseFunctionalData" or len(ret.args) != 2:
        raise Shape("return of _add_noise_univariate_data")
    g, v = ret.args
    if _callname(g) == "DenseArgvals":
        g = g.args[0]
    keeps_grid = isinstance(g, ast.Attribute) and g.attr == "argvals" and isinstance(g.value, ast.Name) and g.value.id == data
    if _callname(v) == "DenseValues":
        v = v.args[0]
    seen = dict(loc=None, scale=None, std=None)

    def leaf(e):
        if isinstance(e, ast.Attribute) and e.attr == "values" and isinstance(e.value, ast.Name) and e.value.id == data:
            return "x"
        if isinstance(e, ast.Call) and isinstance(e.func, ast.Name) and e.func.id == rn:
            if len(e.args) < 2:
                raise Shape("draw without loc / scale")
            seen["loc"], seen["scale"] = ast.literal_eval(e.args[0]), ast.literal_eval(e.args[1])
            return "z"
        if _callname(e) == "sqrt" and len(e.args) == 1 and isinstance(e.args[0], ast.Name) and e.args[0].id == var:
            seen["std"] = "sqrt"
            return "s"
        if isinstance(e, ast.Name) and e.id == var:
            seen["std"] = "variance"      # the variance itself is used as a standard deviation
            return "(s * s)"
        return None

    body = _Expr(leaf).tr(v)
    if seen["loc"] is None:
        raise Shape("no draw in the noisy values")
    return dict(entry=body, std_sqrt=seen["std"] == "sqrt", loc=_q(seen["loc"]), scale=_q(seen["scale"]), grid=keeps_grid)


def _sparse_formulas(fn):
    p, e = fn.args.args[1].arg, fn.args.args[2].arg
    runif, rchoice = fn.args.args[3].arg, fn.args.args[4].arg
    out = {}
    perc_elem = None
    for node in ast.walk(fn):
        if isinstance(node, ast.Call) and isinstance(node.func, ast.Name) and node.func.id == runif and len(node.args) >= 2:
            def leaf(x):
                if isinstance(x, ast.Name) and x.id == p:
                    return "p"
                if isinstance(x, ast.Name) and x.id == e:
                    return "e"
                return None
            out["lo"], out["hi"] = _Expr(leaf).tr(node.args[0]), _Expr(leaf).tr(node.args[1])
        if isinstance(node, ast.For) and isinstance(node.target, ast.Tuple):
            # for idx, (obs, perc_obs) in enumerate(zip(data, perc))
            names = [n.id for n in ast.walk(node.target) if isinstance(n, ast.Name)]
            perc_elem = names[-1] if names else None
    if "lo" not in out:
        raise Shape("uniform draw of the percentage not found")
    for node in ast.walk(fn):
        if isinstance(node, ast.Call) and isinstance(node.func, ast.Name) and node.func.id == rchoice:
            kw = {k.arg: k.value for k in node.keywords}
            if "p" in kw:
                pop = ast.literal_eval(node.args[0])
                probs = kw["p"].elts
                if sorted(map(bool, pop)) != [False, True] or len(probs) != 2:
                    raise Shape("population of the mask")

                def leaf2(x):
                    if isinstance(x, ast.Name) and x.id == perc_elem:
                        return "perc"
                    return None
                out["keep"] = _Expr(leaf2).tr(probs[pop.index(True)])
                out["drop"] = _Expr(leaf2).tr(probs[pop.index(False)])
            else:
                out["size"] = int(ast.literal_eval(kw["size"])) if "size" in kw else int(ast.literal_eval(node.args[1]))
                out["replace"] = bool(ast.literal_eval(kw["replace"])) if "replace" in kw else True
        if isinstance(node, ast.If) and isinstance(node.test, ast.Compare) and _callname(node.test.left) == "sum" \
                and len(node.test.ops) == 1 and isinstance(node.test.comparators[0], ast.Constant):
            k = int(node.test.comparators[0].value)
            op = node.test.ops[0]
            out["threshold"] = k if isinstance(op, ast.Lt) else (k + 1 if isinstance(op, ast.LtE) else None)
            if out["threshold"] is None:
                raise Shape("comparison of the fallback")
        if isinstance(node, ast.Assign) and isinstance(node.targets[0], ast.Subscript) and "~" in ast.unparse(node.targets[0]):
            out["nan"] = ast.unparse(node.value).endswith("nan")
    for k in ("keep", "drop", "size", "replace", "threshold", "nan"):
        if k not in out:
            raise Shape(f"`{k}` of _sparsify_univariate_data not found")
    return out


def lean_source(repo):
    import os

    tree = ast.parse(open(os.path.join(repo, "FDApy", "simulation", "simulation.py")).read())
    cls = next((n for n in tree.body if isinstance(n, ast.ClassDef) and n.name == "Simulation"), None)
    if cls is None:
        raise Shape("class Simulation not found")
    meth = {it.name: it for it in cls.body if isinstance(it, ast.FunctionDef)}
    fns = {n.name: n for n in tree.body if isinstance(n, ast.FunctionDef)}
    for m in ("add_noise", "sparsify", "add_noise_and_sparsify"):
        if m not in meth:
            raise Shape(f"Simulation.{m} not found")
    for f in ("_add_noise_univariate_data", "_sparsify_univariate_data"):
        if f not in fns:
            raise Shape(f"{f} not found")
    a = _method_body(meth["add_noise"], "add_noise")
    s = _method_body(meth["sparsify"], "sparsify")
    c = _method_body(meth["add_noise_and_sparsify"], "combined")
    nf = _noise_formulas(fns["_add_noise_univariate_data"])
    sf = _sparse_formulas(fns["_sparsify_univariate_data"])
    B = lambda b: "true" if b else "false"  # noqa: E731
    return f"""/-
GENERATED by `harness/c20_translate.py` from `FDApy/simulation/simulation.py` (bodies of
`Simulation.add_noise`, `sparsify`, `add_noise_and_sparsify`; formulas of `_add_noise_univariate_data` and
`_sparsify_univariate_data`).  Do not edit.  Syntax only, statement by statement:
`C20.generated_*_eq_model` prove that these bodies are the model's operations.
-/
import FDAModel.Core.PySim

namespace FDA.Generated.SimBodies
open FDA.PySim FDA.Sim

def addNoiseBody : List Stmt :=
  [{', '.join(a)}]

def sparsifyBody : List Stmt :=
  [{', '.join(s)}]

def combinedBody : List Stmt :=
  [{', '.join(c)}]

def bodies : Bodies := ⟨addNoiseBody, sparsifyBody, combinedBody⟩

/-- `_add_noise_univariate_data`: value of one sample from the source value `x`, the standard deviation `s` and the draw `z` -/
def noiseEntrySrc (s x z : Rat) : Rat := {nf['entry']}
/-- `std_noise = np.sqrt(noise_variance)`: the square of the standard deviation is the variance -/
def noiseStdIsSqrtOfVariance : Bool := {B(nf['std_sqrt'])}
/-- the draws are `rnorm(loc, scale, shape)` with -/
def noiseDrawLoc : Rat := {nf['loc']}
def noiseDrawScale : Rat := {nf['scale']}
/-- the noisy curves are put on the sampling points of the source -/
def noiseKeepsSourceGrid : Bool := {B(nf['grid'])}

/-- `_sparsify_univariate_data`: bounds of the uniform draw of the retained percentage -/
def percLoSrc (p e : Rat) : Rat := {sf['lo'][1:-1] if sf['lo'].startswith('(rat') else sf['lo']}
def percHiSrc (p e : Rat) : Rat := {sf['hi'][1:-1] if sf['hi'].startswith('(rat') else sf['hi']}
/-- population `[False, True]` with probabilities `(1 - perc, perc)`: probability of keeping a sample -/
def maskKeepProbSrc (perc : Rat) : Rat := {sf['keep']}
def maskDropProbSrc (perc : Rat) : Rat := {sf['drop']}
/-- the fallback: taken when fewer than this many samples are kept, draws this many indices, with / without replacement -/
def fallbackThresholdSrc : Nat := {sf['threshold']}
def fallbackSizeSrc : Nat := {sf['size']}
def fallbackReplaceSrc : Bool := {B(sf['replace'])}
/-- dropped samples are set to NaN -/
def droppedAreNaN : Bool := {B(sf['nan'])}

end FDA.Generated.SimBodies
"""
