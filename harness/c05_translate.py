"""Translator for C05: closed formulas of `FDApy/preprocessing/smoothing/psplines.py` -> `lean/FDAModel/Generated/PSplineFormulas.lean`.

What is mapped (syntax only):

* the defaults of `PSplines.__init__` (`n_segments`, `degree`, `order_penalty`, `order_derivative`)
* the number of basis functions handed to `_basis_bsplines` in `fit` and in `predict` (`n_functions=n_segments + degree`)
* how the difference penalty is built: `np.diff(np.eye(n), n=<order>, axis=<axis>)` and the Gram product
  (`pen_mat.T @ pen_mat`), in `_fit_one_dimensional` and in `_fit_n_dimensional`
* the arrangement of `bwb_mat` and of the inverse in `_fit_n_dimensional`: `np.repeat` / `np.tile` of the basis sizes and the two
  arguments of `_create_permutation` (the site of the repaired hat-matrix defect)
* `_create_permutation` itself (`np.arange`, `np.add.outer`, `.flatten("F")`) onto the combinators `arangeN`, `outerAdd`,
  `flattenF` / `flattenC` of `lean/FDAModel/GLAM.lean`
* `_row_tensor` (`np.kron(x, ones) * np.kron(ones, y)`) onto `kronOnesRight` / `kronOnesLeft`, `_rotate` (`np.moveaxis(x, 0, -1)`)

`C05.*_src_eq_model` prove the generated definitions equal to the model's.  An unrecognised shape raises `Shape`: no alarm,
the caller falls back on the reference translation stored beside this file.
"""
import ast

from c18_translate import Expr, Shape, _np_attr, _np_call


def _fn(scope, name):
    f = next((n for n in ast.walk(scope) if isinstance(n, ast.FunctionDef) and n.name == name), None)
    if f is None:
        raise Shape(f"function {name} not found")
    return f


def _assigns(fn):
    out = {}
    for st in ast.walk(fn):
        if isinstance(st, ast.Assign) and len(st.targets) == 1 and isinstance(st.targets[0], ast.Name):
            out.setdefault(st.targets[0].id, []).append(st.value)
    return out


def defaults(tree):
    cls = next((n for n in tree.body if isinstance(n, ast.ClassDef) and n.name == "PSplines"), None)
    if cls is None:
        raise Shape("class PSplines not found")
    init = _fn(cls, "__init__")
    names = [a.arg for a in init.args.args][1:]
    vals = init.args.defaults
    if len(vals) != len(names):
        raise Shape("PSplines.__init__: not every parameter has a default")
    d = {}
    for n, v in zip(names, vals):
        if not (isinstance(v, ast.Constant) and isinstance(v.value, int) and not isinstance(v.value, bool) and v.value >= 0):
            raise Shape(f"default of {n} is not a non-negative integer")
        d[n] = v.value
    for k in ("n_segments", "degree", "order_penalty", "order_derivative"):
        if k not in d:
            raise Shape(f"parameter {k} not found")
    return d, cls


def n_functions(cls, method):
    fn = _fn(cls, method)
    calls = [n for n in ast.walk(fn) if isinstance(n, ast.Call) and isinstance(n.func, ast.Name) and n.func.id == "_basis_bsplines"]
    if len(calls) != 1:
        raise Shape(f"{method}: expected one call of _basis_bsplines")
    kw = {k.arg: k.value for k in calls[0].keywords}
    if "n_functions" not in kw or "degree" not in kw:
        raise Shape(f"{method}: keywords of _basis_bsplines not recognised")
    q = Expr({"n_segments": ("nseg", "nat"), "degree": ("p", "nat")}, "ℚ", allow_trig=False)
    (nf, k1), (dg, k2) = q.tr(kw["n_functions"]), q.tr(kw["degree"])
    if k1 != "nat" or k2 != "nat":
        raise Shape(f"{method}: n_functions / degree not integer expressions")
    return nf, dg


def _diff_call(e, order_name):
    """np.diff(<eye>, n=<order>, axis=<axis>) -> (order expr, axis)."""
    if not (_np_attr(getattr(e, "func", None), ("diff",)) and len(e.args) == 1):
        raise Shape("penalty is not np.diff(<identity>, ...)")
    kw = {k.arg: k.value for k in e.keywords}
    if "n" not in kw or not (isinstance(kw.get("axis"), ast.Constant) and isinstance(kw["axis"].value, int)):
        raise Shape("np.diff options not recognised")
    q = Expr({order_name: ("ord", "nat")}, "ℚ", allow_trig=False)
    o, k = q.tr(kw["n"])
    if k != "nat":
        raise Shape("difference order not an integer expression")
    return o, kw["axis"].value


def _gram(e, name):
    """`<name>.T @ <name>` (possibly times a scalar on the left) -> True; `<name> @ <name>.T` -> False."""
    mm = next((n for n in ast.walk(e) if isinstance(n, ast.BinOp) and isinstance(n.op, ast.MatMult)), None)
    if mm is None:
        raise Shape("no matrix product in the penalty")
    def isT(x):
        return isinstance(x, ast.Attribute) and x.attr == "T" and isinstance(x.value, ast.Name) and x.value.id == name
    def has(x, pred):
        return any(pred(n) for n in ast.walk(x))
    isN = lambda x: isinstance(x, ast.Name) and x.id == name  # noqa: E731
    if has(mm.left, isT) and isN(mm.right):
        return True
    if isN(mm.left) and isT(mm.right):
        return False
    raise Shape("Gram product of the difference matrix not recognised")


def penalty_1d(tree):
    fn = _fn(tree, "_fit_one_dimensional")
    a = _assigns(fn)
    if "pen_mat" not in a or len(a["pen_mat"]) != 2:
        raise Shape("_fit_one_dimensional: pen_mat is not assigned twice")
    order, axis = _diff_call(a["pen_mat"][0], "order_penalty")
    return order, axis, _gram(a["pen_mat"][1], "pen_mat")


def penalty_nd(tree):
    fn = _fn(tree, "_fit_n_dimensional")
    a = _assigns(fn)
    d = a.get("diff_mats", [None])[0]
    if not (isinstance(d, ast.ListComp) and len(d.generators) == 1):
        raise Shape("_fit_n_dimensional: diff_mats is not a comprehension")
    order, axis = _diff_call(d.elt, "order_penalty")
    g = a.get("prod_diff_mats", [None])[0]
    if not (isinstance(g, ast.ListComp) and len(g.generators) == 1 and isinstance(g.generators[0].target, ast.Name)):
        raise Shape("_fit_n_dimensional: prod_diff_mats is not a comprehension")
    return order, axis, _gram(g.elt, g.generators[0].target.id)


def _arrangement(e, base):
    """<base>.reshape(np.repeat|np.tile(n_basis, 2)).transpose(_create_permutation(A, B)).reshape(...)"""
    def call(x, attr):
        return isinstance(x, ast.Call) and isinstance(x.func, ast.Attribute) and x.func.attr == attr
    if not (call(e, "reshape") and call(e.func.value, "transpose") and call(e.func.value.func.value, "reshape")):
        raise Shape(f"{base}: not reshape(...).transpose(...).reshape(...)")
    tr, rs = e.func.value, e.func.value.func.value
    if not (isinstance(rs.func.value, ast.Name) and rs.func.value.id == base):
        raise Shape(f"{base}: chain does not start from {base}")
    sh, pm = rs.args[0], tr.args[0]
    if not (_np_call(sh, ("repeat", "tile")) and len(sh.args) == 2 and isinstance(sh.args[0], ast.Name) and sh.args[0].id == "n_basis"
            and isinstance(sh.args[1], ast.Constant) and isinstance(sh.args[1].value, int)):
        raise Shape(f"{base}: shape is not np.repeat/np.tile(n_basis, r)")
    if not (isinstance(pm, ast.Call) and isinstance(pm.func, ast.Name) and pm.func.id == "_create_permutation" and len(pm.args) == 2):
        raise Shape(f"{base}: permutation is not _create_permutation(a, b)")
    def parg(x):
        if isinstance(x, ast.Constant) and isinstance(x.value, int):
            return str(x.value)
        if isinstance(x, ast.Call) and isinstance(x.func, ast.Name) and x.func.id == "len" and isinstance(x.args[0], ast.Name) \
                and x.args[0].id in ("n_basis", "basis_list", "tensor_list"):
            return "d"
        raise Shape(f"{base}: argument of _create_permutation not recognised")
    kind = {"repeat": "FDA.GLAM.repeatL", "tile": "FDA.GLAM.tileL"}[sh.func.attr]
    return f"{kind} {sh.args[1].value} ms", f"FDA.GLAM.createPermutation {parg(pm.args[0])} {parg(pm.args[1])}"


def arrangements(tree):
    fn = _fn(tree, "_fit_n_dimensional")
    a = _assigns(fn)
    bwb = next((v for v in a.get("bwb_mat", []) if isinstance(v, ast.Call) and isinstance(v.func, ast.Attribute) and v.func.attr == "reshape"), None)
    hat = next((v for v in a.get("rot_hat_mat", []) if isinstance(v, ast.Call) and isinstance(v.func, ast.Attribute) and v.func.attr == "reshape"), None)
    if bwb is None or hat is None:
        raise Shape("_fit_n_dimensional: arrangement of bwb_mat / rot_hat_mat not found")
    return _arrangement(bwb, "bwb_mat"), _arrangement(hat, "rot_hat_mat")


def create_permutation(tree):
    fn = _fn(tree, "_create_permutation")
    args = [x.arg for x in fn.args.args]
    if args != ["p", "k"]:
        raise Shape("_create_permutation: signature changed")
    a = {k_: v[0] for k_, v in _assigns(fn).items()}
    ar = {}
    q = Expr({"p": ("p", "nat"), "k": ("k", "nat")}, "ℚ", allow_trig=False)
    for nm, e in a.items():
        if _np_call(e, ("arange",)) and len(e.args) in (1, 2):
            lo, hi = (ast.Constant(0), e.args[0]) if len(e.args) == 1 else e.args
            (l, kl), (h, kh) = q.tr(lo), q.tr(hi)
            if kl != "nat" or kh != "nat":
                raise Shape("np.arange bounds not integer expressions")
            ar[nm] = (l, h)
    outer = next((e for e in a.values() if isinstance(e, ast.Call) and isinstance(e.func, ast.Attribute) and e.func.attr == "outer"
                  and _np_attr(e.func.value, ("add",)) and len(e.args) == 2), None)
    if outer is None:
        raise Shape("_create_permutation: np.add.outer not found")

    def elem(e, var):
        """element-wise expression in one arange -> (lean function of the index, length expr)."""
        names = [n.id for n in ast.walk(e) if isinstance(n, ast.Name) and n.id in ar]
        if len(set(names)) != 1:
            raise Shape("operand of np.add.outer does not involve exactly one arange")
        nm = names[0]
        lo, hi = ar[nm]
        qq = Expr({"p": ("p", "nat"), "k": ("k", "nat"), nm: (f"(FDA.GLAM.arangeN ({lo}) {var})", "nat")}, "ℚ", allow_trig=False)
        s, kk = qq.tr(e)
        if kk != "nat":
            raise Shape("operand of np.add.outer not an integer expression")
        return f"(fun {var} => {s})", f"(({hi}) - ({lo}))"

    (f, rows), (g, cols) = elem(outer.args[0], "i"), elem(outer.args[1], "j")
    ret = next((st.value for st in fn.body if isinstance(st, ast.Return)), None)
    if not (isinstance(ret, ast.Call) and isinstance(ret.func, ast.Attribute) and ret.func.attr == "flatten"):
        raise Shape("_create_permutation does not return <matrix>.flatten(...)")
    order = "C"
    if ret.args:
        if not (isinstance(ret.args[0], ast.Constant) and ret.args[0].value in ("F", "C")):
            raise Shape("flatten order not recognised")
        order = ret.args[0].value
    return f"FDA.GLAM.flatten{order} {rows} {cols} (FDA.GLAM.outerAdd {f} {g})"


def row_tensor(tree):
    fn = _fn(tree, "_row_tensor")
    a = {k_: v[0] for k_, v in _assigns(fn).items()}
    ones = {}
    for nm, e in a.items():
        if _np_call(e, ("ones",)) and len(e.args) == 1 and isinstance(e.args[0], ast.Tuple) and len(e.args[0].elts) == 2:
            r, c = e.args[0].elts
            if isinstance(r, ast.Constant) and r.value == 1 and isinstance(c, ast.Subscript) and isinstance(c.value, ast.Attribute) \
                    and c.value.attr == "shape" and isinstance(c.value.value, ast.Name) and isinstance(c.slice, ast.Constant) and c.slice.value == 1:
                ones[nm] = c.value.value.id          # a row of ones as long as the rows of that matrix
    ret = next((st.value for st in fn.body if isinstance(st, ast.Return)), None)
    if not (isinstance(ret, ast.BinOp) and isinstance(ret.op, ast.Mult)):
        raise Shape("_row_tensor does not return a product")

    def factor(e):
        if not (_np_call(e, ("kron",)) and len(e.args) == 2 and all(isinstance(x, ast.Name) for x in e.args)):
            raise Shape("factor is not np.kron(<name>, <name>)")
        l, r = e.args[0].id, e.args[1].id
        mat = {"x": "X", "y": "Y"}
        if r in ones and l in mat:      # kron(M, 1ᵀ of the width of ones[r])
            return f"FDA.GLAM.kronOnesRight {'qx' if ones[r] == 'x' else 'q'} {mat[l]} i c"
        if l in ones and r in mat:      # kron(1ᵀ, M): M has its own number of columns
            return f"FDA.GLAM.kronOnesLeft {'q' if r == 'y' else 'qx'} {mat[r]} i c"
        raise Shape("operands of np.kron not recognised")

    return f"{factor(ret.left)} * {factor(ret.right)}"


def rotate(tree):
    fn = _fn(tree, "_rotate")
    ret = next((st.value for st in fn.body if isinstance(st, ast.Return)), None)
    if not (_np_call(ret, ("moveaxis",)) and len(ret.args) == 3 and all(isinstance(x, (ast.Constant, ast.UnaryOp)) for x in ret.args[1:])):
        raise Shape("_rotate is not np.moveaxis(x, <int>, <int>)")
    return ast.literal_eval(ret.args[1]), ast.literal_eval(ret.args[2])


def lean_source(path):
    tree = ast.parse(open(path).read())
    d, cls = defaults(tree)
    nf_fit, dg_fit = n_functions(cls, "fit")
    nf_pr, dg_pr = n_functions(cls, "predict")
    o1, ax1, g1 = penalty_1d(tree)
    on, axn, gn = penalty_nd(tree)
    (bs, bp), (hs, hp) = arrangements(tree)
    cp = create_permutation(tree)
    rt = row_tensor(tree)
    r0, r1 = rotate(tree)
    B = lambda b: "true" if b else "false"  # noqa: E731
    L = ["/-",
         "GENERATED by harness/c05_translate.py from FDApy/preprocessing/smoothing/psplines.py.  Do not edit: regenerated on every run",
         "of `./check C05`.  `C05.defaults_src_eq_model`, `C05.n_functions_src_eq_model`, `C05.penalty_src_eq_model`,",
         "`C05.arrangement_src_eq_model`, `C05.create_permutation_src_eq_model`, `C05.row_tensor_src_eq_model`, `C05.rotate_src_eq_model`",
         "prove these equal to the model's.", "-/", "import FDAModel.GLAM", "", "namespace FDA.Generated.PSpline", "",
         f"def defaultNSegments : ℕ := {d['n_segments']}", f"def defaultDegree : ℕ := {d['degree']}",
         f"def defaultOrderPenalty : ℕ := {d['order_penalty']}", f"def defaultOrderDerivative : ℕ := {d['order_derivative']}", "",
         "/-! `_basis_bsplines(n_functions=…, degree=…)` in `fit` and in `predict` -/",
         f"def nFunFit (nseg p : ℕ) : ℕ := {nf_fit}", f"def degFit (nseg p : ℕ) : ℕ := {dg_fit}",
         f"def nFunPredict (nseg p : ℕ) : ℕ := {nf_pr}", f"def degPredict (nseg p : ℕ) : ℕ := {dg_pr}", "",
         "/-! difference penalty: `np.diff(np.eye(n), n=<order>, axis=<axis>)`, Gram product `D.T @ D` (true) or `D @ D.T` (false) -/",
         f"def penOrder1 (ord : ℕ) : ℕ := {o1}", f"def penAxis1 : ℕ := {ax1}", f"def penGramDtD1 : Bool := {B(g1)}",
         f"def penOrderN (ord : ℕ) : ℕ := {on}", f"def penAxisN : ℕ := {axn}", f"def penGramDtDN : Bool := {B(gn)}", "",
         "/-! arrangement of `bwb_mat` and of the inverse (`ms` = basis sizes, `d` = number of dimensions) -/",
         f"def bwbShape (ms : List ℕ) : List ℕ := {bs}", f"def bwbPerm (d : ℕ) : List ℕ := {bp}",
         f"def hatShape (ms : List ℕ) : List ℕ := {hs}", f"def hatPerm (d : ℕ) : List ℕ := {hp}", "",
         "/-! `_create_permutation(p, k)` -/", f"def createPermutationSrc (p k : ℕ) : List ℕ := {cp}", "",
         "/-! `_row_tensor(x, y)[i, c]` (`qx`, `q` = number of columns of `x`, `y`) -/",
         f"def rowTensorSrc (qx q : ℕ) (X Y : ℕ → ℕ → ℚ) (i c : ℕ) : ℚ := {rt}", "",
         "/-! `_rotate`: `np.moveaxis(x, src, dst)` -/", f"def rotateSrcAxis : ℤ := {r0}", f"def rotateDstAxis : ℤ := {r1}", "",
         "end FDA.Generated.PSpline", ""]
    return "\n".join(L)


if __name__ == "__main__":
    import sys
    print(lean_source(sys.argv[1]))
