#!/usr/bin/env python3
"""Run every seeded change against its property's quick check (scratch copy of /repo, see try_seeded.sh),
record the outcome in seeded/<id>/meta.json ("detection") and write docs/SEEDED.md.
usage: tools/seed_matrix.py [-j N] [ids...]"""
import json, os, subprocess, sys, concurrent.futures as cf
V = os.path.dirname(os.path.dirname(os.path.abspath(__file__)))
args = sys.argv[1:]
jobs = 3
if args[:1] == ["-j"]:
    jobs = int(args[1]); args = args[2:]
ids = args or sorted(d for d in os.listdir(os.path.join(V, "seeded")) if os.path.exists(os.path.join(V, "seeded", d, "meta.json")))

def one(i):
    d = os.path.join(V, "seeded", i)
    p = subprocess.run([os.path.join(V, "tools", "try_seeded.sh"), d], capture_output=True, text=True)
    line = (p.stdout.strip().split("\n") or [""])[-1]
    m = json.load(open(os.path.join(d, "meta.json")))
    ex = None
    for tok in line.split():
        if tok.startswith("exit="):
            ex = int(tok[5:])
    kind = "missed" if ex == 0 else "failing-input" if ex == 1 and "no-failing-input-found" not in line else "no-failing-input-found" if ex == 1 else "infra"
    if os.environ.get("SEED_MATRIX_NO_RECORD"):      # e.g. a re-run with another VERIF_SEED: report only
        return i, kind
    if "first_detection" not in m and "detection" in m:
        m["first_detection"] = dict(outcome=m["detection"].get("outcome"), note="outcome of the check as it stood when the change was first tried")
    m["detection"] = dict(check=m.get("property"), exit=ex, outcome=kind, line=line[-300:], how="tools/try_seeded.sh (patch applied to a scratch copy of /repo's working tree, quick tier, VERIF_SEED=0)")
    json.dump(m, open(os.path.join(d, "meta.json"), "w"), indent=1)
    return i, kind

# seeds of one property run one after the other (a property's translator rewrites its generated Lean file
# from the tree under test, and its Lean modules are rebuilt): parallelism is across properties only
groups = {}
for i in ids:
    groups.setdefault(i.split("-")[0], []).append(i)

def group(g):
    return [one(i) for i in g]

with cf.ThreadPoolExecutor(jobs) as ex:
    res = [r for rs in ex.map(group, groups.values()) for r in rs]
for i, k in res:
    print(i, k)

if os.environ.get("SEED_MATRIX_NO_RECORD"):
    sys.exit(0)
rows = []
for i in sorted(os.listdir(os.path.join(V, "seeded"))):
    mp = os.path.join(V, "seeded", i, "meta.json")
    if not os.path.exists(mp):
        continue
    m = json.load(open(mp))
    det = m.get("detection", {})
    conf = m.get("confirmed", {})
    first = m.get("first_detection", {}).get("outcome", det.get("outcome", "not run"))
    rows.append(f"| {i} | {m.get('property')} | {str(m.get('summary',''))[:160].replace('|','/')} | {str(m.get('needs',''))[:120].replace('|','/')} | {'yes' if conf.get('ok') else 'no' if conf else '?'} | {first} | {det.get('outcome','not run')} |")
with open(os.path.join(V, "docs", "SEEDED.md"), "w") as fh:
    fh.write("# Independently seeded property-breaking changes and what catches them\n\n"
             "Each change was written by a fresh sub-agent that saw only the property text and a scratch copy of the repository, "
             "passes the unedited test suite, and comes with a demo that fails with it and passes without it (`confirmed`: re-run by "
             "`tools/verify_seeded.sh`).  `first outcome` is what the property's quick check reported when the change was first tried, `current outcome` what it reports now (after the checks were strengthened generally, never by special-casing a change) "
             "(`tools/seed_matrix.py`).\n\n| id | property | change | needs | confirmed | first outcome | current outcome |\n|---|---|---|---|---|---|---|\n" + "\n".join(rows) + "\n")
