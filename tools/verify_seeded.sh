#!/bin/bash
# tools/verify_seeded.sh <seeded-dir> : confirm a seeded change in a scratch copy of /repo (outside /repo and /verif):
# the patch applies, demo.py exits 0 on the unchanged tree and non-zero on the changed one, and the test suite
# still shows exactly the baseline (520 stable tests pass).  Writes the outcome into meta.json ("confirmed").
d=$(realpath "$1")
base=/root/scratch/vs_base_$$; mut=/root/scratch/vs_mut_$$
trap 'rm -rf $base $mut' EXIT
rsync -a --exclude .git ${SEED_BASE:-/repo}/ $base/; rsync -a --exclude .git ${SEED_BASE:-/repo}/ $mut/
(cd $mut && patch -p1 -s --no-backup-if-mismatch < "$d/patch.diff") || { echo "$d: patch does not apply"; exit 2; }
(cd /root/scratch && PYTHONPATH=$base OMP_NUM_THREADS=1 timeout 600 /venv/bin/python "$d/demo.py" > /dev/null 2>&1); e0=$?
(cd /root/scratch && PYTHONPATH=$mut OMP_NUM_THREADS=1 timeout 600 /venv/bin/python "$d/demo.py" > /dev/null 2>&1); e1=$?
(cd $mut && PYTHONPATH=$mut OMP_NUM_THREADS=1 /venv/bin/python -m pytest -q -p no:cacheprovider --timeout=900 -n ${VS_JOBS:-6} --junitxml=$mut/junit.xml > $mut/suite.log 2>&1)
python3 - "$d" $e0 $e1 $mut <<'PY'
import json, sys, xml.etree.ElementTree as ET
d, e0, e1, mut = sys.argv[1], int(sys.argv[2]), int(sys.argv[3]), sys.argv[4]
base = json.load(open('/root/.vp/BASELINE.json'))
stable = set(base['stable_pass'])
passed = set()
for tc in ET.parse(mut + '/junit.xml').getroot().iter('testcase'):
    if not any(ch.tag in ('failure', 'error', 'skipped') for ch in tc):
        passed.add(tc.get('classname') + '::' + tc.get('name'))
missing = sorted(stable - passed)
ok = (e0 == 0 and e1 != 0 and not missing)
m = json.load(open(d + '/meta.json'))
m['confirmed'] = dict(demo_exit_unchanged=e0, demo_exit_changed=e1, stable_tests_passing=len(stable & passed), stable_tests_broken=missing[:10], ok=ok,
                      how='tools/verify_seeded.sh: scratch copies of /repo outside /repo and /verif; patch -p1; demo.py on both; full pytest suite on the changed copy compared with BASELINE.json stable_pass')
json.dump(m, open(d + '/meta.json', 'w'), indent=1)
print(d, 'OK' if ok else 'NOT-CONFIRMED', 'demo', e0, e1, 'stable passing', len(stable & passed), 'broken', missing[:3])
PY
