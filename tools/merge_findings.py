#!/usr/bin/env python3
"""Merge known_findings.d/*.json into known_findings.json (the file of record).
Run by hand after editing a per-property file; never at check time."""
import json, os, glob
V = os.path.dirname(os.path.dirname(os.path.abspath(__file__)))
out = {"open": [], "fixed": []}
for f in sorted(glob.glob(os.path.join(V, "known_findings.d", "*.json"))):
    d = json.load(open(f))
    out["open"] += d.get("open", [])
    out["fixed"] += d.get("fixed", [])
json.dump(out, open(os.path.join(V, "known_findings.json"), "w"), indent=1)
print(len(out["open"]), "open,", len(out["fixed"]), "fixed")
