#!/usr/bin/env python3
"""Run every behaviour-preserving refactoring (refactors/<id>/) against the quick check of every property it touches
(scratch copy of /repo, see try_refactor.sh); every check is expected to exit 0.  Records the outcome in
refactors/<id>/meta.json ("detection") and prints one line per refactoring.  Refactorings whose first property is the
same run one after the other (a property's translator rewrites its generated Lean file from the tree under test).
usage: tools/refactor_matrix.py [-j N] [ids...]"""
import json, os, subprocess, sys, concurrent.futures as cf
V = os.path.dirname(os.path.dirname(os.path.abspath(__file__)))
args = sys.argv[1:]
jobs = 3
if args[:1] == ["-j"]:
    jobs = int(args[1]); args = args[2:]
ids = args or sorted(d for d in os.listdir(os.path.join(V, "refactors")) if os.path.exists(os.path.join(V, "refactors", d, "meta.json")))


def one(i):
    d = os.path.join(V, "refactors", i)
    p = subprocess.run([os.path.join(V, "tools", "try_refactor.sh"), d], capture_output=True, text=True)
    lines = [l for l in p.stdout.strip().split("\n") if l.strip()]
    m = json.load(open(os.path.join(d, "meta.json")))
    res, alarm = [], False
    for l in lines:
        toks = l.split()
        if "patch does not apply" in l:
            res.append("stale: patch does not apply to the current tree")
            continue
        pid = next((t for t in toks if t.startswith("C") and len(t) == 3 and t[1:].isdigit()), "?")
        ex = next((t[5:] for t in toks if t.startswith("exit=")), "?")
        res.append(f"{pid}: exit {ex}")
        alarm |= ex != "0"
    if any(r.startswith("stale") for r in res):
        # keep what was recorded when the refactoring was written; later fix: commits rewrote the same function
        m.setdefault("detection", {})["note"] = "as tried when written; the patch no longer applies to the current tree because later fix: commits rewrote the same function (not re-run)"
        json.dump(m, open(os.path.join(d, "meta.json"), "w"), indent=1)
        return i, res, False
    m["detection"] = dict(results=res, how="tools/try_refactor.sh: patch applied to a scratch copy of /repo, quick tier of every property it touches; expected exit 0")
    json.dump(m, open(os.path.join(d, "meta.json"), "w"), indent=1)
    return i, res, alarm


groups = {}
for i in ids:
    m = json.load(open(os.path.join(V, "refactors", i, "meta.json")))
    groups.setdefault((m.get("properties") or ["?"])[0], []).append(i)

with cf.ThreadPoolExecutor(jobs) as ex:
    out = [r for rs in ex.map(lambda g: [one(i) for i in g], groups.values()) for r in rs]
def write_table():
    rows = []
    for i in sorted(os.listdir(os.path.join(V, "refactors"))):
        mp = os.path.join(V, "refactors", i, "meta.json")
        if not os.path.exists(mp):
            continue
        m = json.load(open(mp))
        det = m.get("detection", {})
        rd = m.get("equiv_max_relative_difference", m.get("equiv_max_relative_difference_vs_largest_entry"))
        kind = "bitwise identical" if rd in (None, 0, 0.0) and m.get("equiv_identical", True) else f"floating-point reordering (max rel. diff {rd})"
        note = " (" + det["note"] + ")" if det.get("note") else ""
        rows.append(f"| {i} | {', '.join(m.get('properties', []))} | {str(m.get('summary', ''))[:220].replace('|', '/')} | {kind} | {'; '.join(det.get('results', ['not run']))}{note} |")
    with open(os.path.join(V, "docs", "REFACTORS.md"), "w") as fh:
        fh.write("# Behaviour-preserving refactorings (no alarm expected)\n\n"
                 "Rewrites of the code the properties are anchored in, written by fresh sub-agents that saw only the property texts and a scratch copy "
                 "of the tree.  Round 1 (`A-`..`E-`): structural rewrites with byte-identical `equiv.py` digests on both trees (vectorised / "
                 "un-vectorised loops, extracted helpers, table-driven dispatch, renamed privates, reordered independent statements).  Round 2 "
                 "(`A2-`..`E2-`, written after the checks had been strengthened through six rounds of seeded changes): mostly rewrites that are "
                 "mathematically equivalent but NOT bitwise identical (regrouped sums and products, einsum/tensordot/matmul interchanged, "
                 "Fortran-ordered temporaries, blockwise integration), agreeing with the unchanged tree to 1e-13 of the natural scale.  Each keeps "
                 "the unedited suite at its baseline.  `tools/refactor_matrix.py` applies each to a scratch copy of /repo and runs the quick check of "
                 "every property it touches; the expected outcome is exit 0 everywhere.  One false alarm was found this way and corrected: `E2-r6` "
                 "(the combined noise+sparsify operation no longer calls the public `sparsify`) made C20's correspondence disagree on the internal "
                 "call trace and the number of fault points - the shape of the code, not its behaviour; C20 now compares observable outcomes per "
                 "abstract phase only (docs/C20.md).\n\n"
                 "| id | properties | what was rewritten | kind | checks |\n|---|---|---|---|---|\n" + "\n".join(rows) + "\n")


bad = 0
write_table()
for i, res, alarm in sorted(out):
    print(i, "; ".join(res), "ALARM" if alarm else "")
    bad += alarm
sys.exit(1 if bad else 0)
