#!/usr/bin/env python3
"""Regenerate MANIFEST.json from the per-property table below.

A property is *claimed* iff harness/cXX.py and lean/FDAProofs/Props/CXX.lean
exist and it is listed in CLAIMED; every other property of properties.jsonl is
listed under not_applicable with its reason."""
import json, os, sys

V = os.path.dirname(os.path.dirname(os.path.abspath(__file__)))
props = [json.loads(l) for l in open(os.path.join(V, "properties.jsonl"))]

TRUST = ("Trusted base: Lean 4.33 kernel + Mathlib (axioms propext/Classical.choice/Quot.sound only, audited by #print axioms "
         "on every run); the hand-written Lean model of the code (FDApy itself is modelled, not verified) tied to /repo (a) by the "
         "correspondence run of the same check (seeded sample, exact rational model value vs float result under a stated tolerance) and "
         "(b) where a translator exists, by Lean definitions regenerated from the source on every run (Python ast -> a small vocabulary "
         "whose meaning is stated in lean/FDAModel/Core/Np*.lean, Py*.lean; the translators harness/cXX_translate.py and that vocabulary "
         "are trusted; an unrecognised source shape falls back on a reference translation and is reported in the evidence, not as an alarm); "
         "LAPACK/SciPy/pandas/NumPy-RNG are parameters with the contracts of DESIGN.md §2; IEEE rounding is not modelled.")

# id -> (technique, level text, partial note)
TABLE = json.load(open(os.path.join(V, "tools", "manifest_table.json")))

checks, na = [], []
for p in props:
    pid = p["id"]
    row = TABLE.get(pid)
    ok = row and row.get("claimed") and os.path.exists(os.path.join(V, "harness", pid.lower() + ".py")) \
        and os.path.exists(os.path.join(V, "lean", "FDAProofs", "Props", pid + ".lean"))
    if not ok:
        na.append(dict(property_id=pid, reason=(row or {}).get("reason", "check not built yet in this round (no theorem + correspondence committed); not claimed")))
        continue
    checks.append(dict(
        property_id=pid,
        quick_cmd=f"./check {pid} --tier quick",
        thorough_cmd=f"./check {pid} --tier thorough",
        evidence_file=f"evidence/{pid}.json",
        replay_cmd_template=f"./check {pid} --replay {{path}}",
        engine="lean4+correspondence",
        level_claimed=dict(category="proof", text=row["text"], design_ref=row.get("design_ref", f"DESIGN.md §4 {pid}")),
        level_note=TRUST + " " + row.get("partial", ""),
        technique=row["technique"],
    ))

man = dict(
    version=1,
    setup_cmd="./tools/setup.sh",
    hooks=dict(guard="FDAPY_VERIF", enable="no source hooks: the harness wraps FDApy/NumPy entry points from outside, in-process (FDAPY_VERIF=1 is exported for completeness)",
               baseline_off_cmd="cd /repo && /venv/bin/python -m pytest -ra -q -p no:cacheprovider --timeout=900 --continue-on-collection-errors",
               source_commits=[], add_only=True),
    engines=[dict(name="lean4+correspondence", path="check", serves_properties=[c["property_id"] for c in checks],
                  kind_free_text="Lean 4 theorems about a hand-written executable model (lean/FDAModel, lean/FDAProofs/Props) + differential correspondence between the model (lean/Drivers via line protocol) and the real FDApy code (harness/*.py)")],
    checks=checks,
    notes="See DESIGN.md. known_findings.json lists open and fixed findings. Exit codes: 0 held, 1 VIOLATION, 2 infrastructure failure.",
    not_applicable=na,
)
json.dump(man, open(os.path.join(V, "MANIFEST.json"), "w"), indent=1)
print("claimed:", [c["property_id"] for c in checks])
print("not claimed:", [n["property_id"] for n in na])
