#!/bin/bash
# setup_cmd: build the Lean library of every claimed property, offline, from files on disk only.
# A module that fails to build only affects its own property (its check reports it).
cd "$(dirname "$0")/../lean" || exit 2
mods=$(python3 - <<'PY'
import json,os
man=json.load(open('../MANIFEST.json'))
print(' '.join('FDAProofs.Props.'+c['property_id'] for c in man['checks']))
PY
)
lake build $mods || for m in $mods; do lake build $m || echo "setup: $m failed to build"; done
exit 0
