#!/bin/bash
# tools/try_seeded.sh <seeded-dir> [check ids...]
# Apply a seeded change to a scratch copy of /repo's working tree (outside /repo and /verif), run the
# quick checks against it (VERIF_REPO), remove the copy.  Prints "<dir> <check> exit=<n> <VIOLATION lines>".
# TRY_IN_REPO=1 applies it to /repo itself instead (git apply … ; checks ; git checkout -- .).
d=$(realpath "$1"); shift
cd "$(dirname "$0")/.." || exit 2
prop=$(python3 -c "import json;print(json.load(open('$d/meta.json'))['property'])")
ids=${@:-$prop}
mkdir -p replays/logs
if [ -n "$TRY_IN_REPO" ]; then
  [ -z "$(git -C /repo status --porcelain --untracked-files=no)" ] || { echo "/repo not clean"; exit 2; }
  trap 'git -C /repo checkout -- .' EXIT
  git -C /repo apply "$d/patch.diff" || { echo "$d patch does not apply"; exit 2; }
  tree=/repo
else
  tree=/root/scratch/seedtry_$$
  trap 'rm -rf $tree; git -C "$PWD" checkout -q -- lean/FDAModel/Generated 2>/dev/null' EXIT
  rsync -a --exclude .git ${SEED_BASE:-/repo}/ $tree/
  (cd $tree && patch -p1 -s --no-backup-if-mismatch < "$d/patch.diff") || { echo "$d patch does not apply"; exit 2; }
  export VERIF_REPO=$tree
fi
for id in $ids; do
  log=replays/logs/seeded-$(basename $(dirname $d))-$(basename $d)-$id.log
  ./check $id --tier quick > $log 2>&1
  echo "$d $id exit=$? $(grep -E '^VIOLATION' $log | head -2 | tr '\n' ' ')"
done
