#!/bin/bash
# tools/try_seeded.sh <seeded-dir> [check ids...] : apply a seeded change to /repo, run the checks, undo it.
# Prints "<dir> <check> exit=<n>"; /repo is restored even on interruption.
d=$1; shift
cd "$(dirname "$0")/.." || exit 2
[ -z "$(git -C /repo status --porcelain --untracked-files=no)" ] || { echo "/repo not clean"; exit 2; }
trap 'git -C /repo checkout -- . ' EXIT
git -C /repo apply "$d/patch.diff" || git -C /repo apply -3 "$d/patch.diff" || { echo "$d patch does not apply"; exit 2; }
prop=$(python3 -c "import json;print(json.load(open('$d/meta.json'))['property'])")
ids=${@:-$prop}
mkdir -p replays/logs
for id in $ids; do
  ./check $id --tier quick > replays/logs/seeded-$(basename $d)-$id.log 2>&1
  echo "$d $id exit=$? $(grep -E '^VIOLATION' replays/logs/seeded-$(basename $d)-$id.log | head -2 | tr '\n' ' ')"
done
