#!/bin/bash
# tools/run_all.sh [quick|thorough] [jobs] : run every claimed check, print one line each
cd "$(dirname "$0")/.." || exit 2
tier=${1:-quick}; jobs=${2:-4}
mkdir -p replays/logs
python3 -c "import json;print('\n'.join(c['property_id'] for c in json.load(open('MANIFEST.json'))['checks']))" \
 | xargs -P "$jobs" -I{} bash -c "./check {} --tier $tier > replays/logs/{}.$tier.log 2>&1; echo \"{} exit=\$? \$(grep -E '^(VIOLATION|KNOWN-FINDING)' replays/logs/{}.$tier.log | head -3 | tr '\n' ' ')\""
