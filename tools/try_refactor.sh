#!/bin/bash
# tools/try_refactor.sh <refactor-dir> : apply a behaviour-preserving refactoring to a scratch copy of /repo and run
# the quick checks of the properties it touches; every one of them is expected to exit 0 (no alarm).
d=$(realpath "$1")
cd "$(dirname "$0")/.." || exit 2
ids=$(python3 -c "import json;m=json.load(open('$d/meta.json'));print(' '.join(m.get('properties',[])))")
tree=/root/scratch/reftry_$$
trap 'rm -rf $tree; git -C "$PWD" checkout -q -- lean/FDAModel/Generated 2>/dev/null' EXIT
rsync -a --exclude .git /repo/ $tree/
(cd $tree && patch -p1 -s --no-backup-if-mismatch < "$d/patch.diff") || { echo "$d patch does not apply"; exit 2; }
export VERIF_REPO=$tree
mkdir -p replays/logs
for id in $ids; do
  log=replays/logs/refactor-$(basename $d)-$id.log
  ./check $id --tier quick > $log 2>&1
  echo "$d $id exit=$? $(grep -E '^VIOLATION' $log | head -2 | tr '\n' ' ')"
done
