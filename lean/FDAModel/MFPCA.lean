/-
MFPCA, covariance route (`FDApy/preprocessing/dim_reduction/mfpca.py`,
`_fit_covariance_multivariate` l.150-207, `_transform_pace_multivariate`,
`MFPCA.inverse_transform`; `FDApy/misc/utils.py` `_block_diag`;
`FDApy/representation/basis.py` `Basis.inner_product`), as executable exact-rational
definitions on the numeric layer of `Core/Quadrature.lean` (vectors `ℕ → ℚ` read on
`range n`, matrices `ℕ → ℕ → ℚ`).

Parameters of the model (captured from the real run, never recomputed): the univariate
scores `ξ` (`N × M`), the transposed Cholesky factors of the basis Gram matrices, the
output `(ν_m, c_m)` of `_compute_eigen`, the basis functions on their grids, the roots
`ρ_m` (`ρ_m² = ν_m · ‖ξ c_m‖²/(N−1)`) and `r_p` (`r_p² = weight_p`).
-/
import FDAModel.Core.Quadrature

namespace FDA.MFPCA
open Finset

/-! ## `_block_diag` -/

/-- `_block_diag(*arrs)`: the blocks (block `p` has shape `shapes[p] = (rr, cc)`, entries
`blk p a b`) are written one after the other on the diagonal of a zero matrix
(`out[r:r+rr, c:c+cc] = arrs[p]; r += rr; c += cc`).  Peeling the first block and
shifting by its shape is that loop. -/
def blockDiag : List (ℕ × ℕ) → (ℕ → ℕ → ℕ → ℚ) → ℕ → ℕ → ℚ
  | [], _, _, _ => 0
  | (rr, cc) :: rest, blk, i, j =>
    if i < rr then (if j < cc then blk 0 i j else 0)
    else if j < cc then 0
    else blockDiag rest (fun p => blk (p + 1)) (i - rr) (j - cc)

/-- Row offset of block `p` (`r` when the loop reaches block `p`). -/
def rowOff (shapes : List (ℕ × ℕ)) (p : ℕ) : ℕ := ((shapes.take p).map Prod.fst).sum

/-- Column offset of block `p`. -/
def colOff (shapes : List (ℕ × ℕ)) (p : ℕ) : ℕ := ((shapes.take p).map Prod.snd).sum

/-- Square shapes `(s, s)` from a list of sizes. -/
def squares (sizes : List ℕ) : List (ℕ × ℕ) := sizes.map fun s => (s, s)

/-- Offset of block `p` for square blocks (`nb_eigenfunction_uni_cum[p]`). -/
def off (sizes : List ℕ) (p : ℕ) : ℕ := (sizes.take p).sum

/-! ## dense linear algebra on `range` -/

def dot (M : ℕ) (x y : ℕ → ℚ) : ℚ := ∑ j ∈ range M, x j * y j

def mulVec (M : ℕ) (A : ℕ → ℕ → ℚ) (x : ℕ → ℚ) (i : ℕ) : ℚ := ∑ k ∈ range M, A i k * x k

def matMul (M : ℕ) (A B : ℕ → ℕ → ℚ) (i j : ℕ) : ℚ := ∑ k ∈ range M, A i k * B k j

def tr (A : ℕ → ℕ → ℚ) (i j : ℕ) : ℚ := A j i

/-- Bilinear form `xᵀ A y`. -/
def bil (M : ℕ) (A : ℕ → ℕ → ℚ) (x y : ℕ → ℚ) : ℚ := dot M x (mulVec M A y)

/-- Column `m` of a matrix (e.g. eigenvector `m` of `eigenvectors[:, m]`). -/
def col (c : ℕ → ℕ → ℚ) (m : ℕ) (k : ℕ) : ℚ := c k m

/-! ## Step 2-4 of `_fit_covariance_multivariate` -/

/-- `scores_normed.T @ scores_normed` with `scores_normed = ξ/√(N−1)`: the UNcentred second
moment. -/
def secondMoment (N : ℕ) (ξ : ℕ → ℕ → ℚ) (j k : ℕ) : ℚ :=
  (∑ i ∈ range N, ξ i j * ξ i k) / ((N : ℚ) - 1)

/-- `np.cov(scores_univariate.T)`: sample covariance (ddof = 1) of the columns of `ξ`, i.e.
the second moment of the column-centred scores (`center` = subtract the column means). -/
def cov (N : ℕ) (ξ : ℕ → ℕ → ℚ) : ℕ → ℕ → ℚ := secondMoment N (center N ξ)

/-- `cholesky_matrix.T @ cholesky_matrix`. -/
def gramOfFactor (M : ℕ) (U : ℕ → ℕ → ℚ) : ℕ → ℕ → ℚ := matMul M (tr U) U

/-- The matrix handed to `_compute_eigen`:
`(cholesky_matrix.T @ cholesky_matrix) @ np.cov(scores_univariate.T)`. -/
def solverMatrix (M N : ℕ) (U ξ : ℕ → ℕ → ℚ) : ℕ → ℕ → ℚ :=
  matMul M (gramOfFactor M U) (cov N ξ)

/-- `weights = scores_normed.T @ scores_normed @ eigenvectors`. -/
def weights (M N : ℕ) (ξ c : ℕ → ℕ → ℚ) : ℕ → ℕ → ℚ := matMul M (secondMoment N ξ) c

/-- `_transform_pace_multivariate`: `np.dot(scores_univariate, eigenvectors)`. -/
def pace (M : ℕ) (ξ c : ℕ → ℕ → ℚ) (i m : ℕ) : ℚ := ∑ k ∈ range M, ξ i k * c k m

/-- `np.diag((scores_normed @ eigenvectors).T @ (scores_normed @ eigenvectors))[m]`
(`norm_factor[m] = 1/√·`). -/
def normSqProjOf (N : ℕ) (P : ℕ → ℕ → ℚ) (m : ℕ) : ℚ :=
  (∑ i ∈ range N, P i m * P i m) / ((N : ℚ) - 1)

def normSqProj (M N : ℕ) (ξ c : ℕ → ℕ → ℚ) (m : ℕ) : ℚ := normSqProjOf N (pace M ξ c) m

/-- `ρ_m² `: square of the divisor `√ν_m · √normSqProj_m` of the eigenfunction coefficients. -/
def rhoSq (M N : ℕ) (ξ c : ℕ → ℕ → ℚ) (ν : ℕ → ℚ) (m : ℕ) : ℚ := ν m * normSqProj M N ξ c m

/-- Coefficients of the multivariate eigenfunctions in the stacked univariate bases:
`1/√ν_m · norm_factor_m · weights[j, m]`, with `ρ m` standing for `√ν_m·√normSqProj_m`. -/
def eigenCoef (ρ : ℕ → ℚ) (W : ℕ → ℕ → ℚ) (j m : ℕ) : ℚ := W j m / ρ m

/-- Numerator of the product-space Gram matrix of the eigenfunctions (root-free):
`W[:,m]ᵀ B W[:,l]`; the eigenfunctions are orthonormal iff this is `ρ_m²` for `m = l` and `0`
otherwise. -/
def prodGramNum (M : ℕ) (B W : ℕ → ℕ → ℚ) (m l : ℕ) : ℚ := bil M B (col W m) (col W l)

/-! ## functions on grids -/

/-- `Basis.inner_product()` (closed form of the upper-triangle procedure, cf. C08):
Gram matrix of `s` basis functions `φ j` sampled on the grid `t` (`n` points). -/
def basisGram (n : ℕ) (t : ℕ → ℚ) (φ : ℕ → ℕ → ℚ) (j k : ℕ) : ℚ := inner n t (φ j) (φ k)

/-- `BasisFunctionalData.to_grid` of the block of coefficients of component `p`
(`s` functions, offset `o` in the stacked index):
`einsum("ij,j... -> i...", coefficients, basis.values)`; row `m` = eigenfunction `m`. -/
def toGrid (s o : ℕ) (a : ℕ → ℕ → ℚ) (φ : ℕ → ℕ → ℚ) (m t : ℕ) : ℚ :=
  ∑ j ∈ range s, a (o + j) m * φ j t

/-- `MFPCA.inverse_transform`, one component: `√weight · einsum("ij,j...->i...", scores, ψ) + mean`
with `r` standing for `√weight`. -/
def inverseTransform (K : ℕ) (r : ℚ) (mean : ℕ → ℚ) (S ψ : ℕ → ℕ → ℚ) (i t : ℕ) : ℚ :=
  r * (∑ m ∈ range K, S i m * ψ m t) + mean t

/-- Product-space inner product of two multivariate functions given componentwise on their
own grids: `Σ_p ⟨f_p, g_p⟩` (grids: `grids p = (n_p, t_p)`). -/
def prodInner (P : ℕ) (n : ℕ → ℕ) (t : ℕ → ℕ → ℚ) (f g : ℕ → ℕ → ℚ) : ℚ :=
  ∑ p ∈ range P, inner (n p) (t p) (f p) (g p)

/-! ## The pure bookkeeping of `_fit_covariance_multivariate` / `inverse_transform` as source-level
parameters (target of the translator `harness/c04_translate.py` → `Generated/MfpcaBlocks.lean`) -/

/-- What the source says, syntactically, about stacking, slicing and scaling. -/
structure BlockConsts where
  /-- `scores_normed = ξ / np.sqrt(len(ξ) - d)`: the `d`. -/
  ddofNormed : ℕ
  /-- `np.cov(ξ.T[, ddof=d])` (NumPy default `1`). -/
  ddofCov : ℕ
  /-- the Cholesky factors are transposed (`.T`) before the block assembly. -/
  cholTransposed : Bool
  /-- the Gram factor product is `C.T @ C` (`true`) rather than `C @ C.T`. -/
  gramLeftTransposed : Bool
  /-- the solver matrix is `gram @ cov` (`true`) rather than `cov @ gram`. -/
  gramTimesCov : Bool
  /-- `nb_eigenfunction_uni = [c]`: first entry of the list that is cumulated. -/
  cumInit : ℕ
  /-- `start = cum[idx + a]`. -/
  startShift : ℕ
  /-- `end = cum[idx + b]`. -/
  endShift : ℕ
  /-- the slice is taken on the rows of `weights` (`weights[start:end, :]`). -/
  sliceRows : Bool
  /-- the coefficients carry the factor `1 / np.sqrt(eigenvalues)`. -/
  eigInvSqrt : Bool
  /-- … and the factor `norm_factor = 1 / np.sqrt(diag(…))`. -/
  normFactor : Bool
  /-- `inverse_transform`: `np.sqrt(weight)` (`true`) or `weight` when normalising. -/
  weightSqrt : Bool
  /-- `inverse_transform`: the scale used when `normalize` is false is the literal `1`. -/
  plainScaleOne : Bool
deriving Repr, DecidableEq

/-- `np.cumsum([c] + sizes)[k]`. -/
def cumP (c : BlockConsts) (sizes : List ℕ) (k : ℕ) : ℕ := c.cumInit + (sizes.take k).sum

/-- `(start, end)` of component `p` as the source computes them. -/
def blockRangeP (c : BlockConsts) (sizes : List ℕ) (p : ℕ) : ℕ × ℕ :=
  (cumP c sizes (p + c.startShift), cumP c sizes (p + c.endShift))

/-- second moment with a general `ddof`. -/
def secondMomentD (d N : ℕ) (ξ : ℕ → ℕ → ℚ) (j k : ℕ) : ℚ :=
  (∑ i ∈ range N, ξ i j * ξ i k) / ((N : ℚ) - d)

/-- The matrix handed to the solver, as the source orders and transposes the factors. -/
def solverMatrixP (c : BlockConsts) (M N : ℕ) (U ξ : ℕ → ℕ → ℚ) : ℕ → ℕ → ℚ :=
  let F := if c.cholTransposed then U else tr U
  let G := if c.gramLeftTransposed then matMul M (tr F) F else matMul M F (tr F)
  let Q := secondMomentD c.ddofCov N (center N ξ)
  if c.gramTimesCov then matMul M G Q else matMul M Q G

/-- Square of the divisor of the eigenfunction coefficients, as the source composes it. -/
def rhoSqP (c : BlockConsts) (M N : ℕ) (ξ cvec : ℕ → ℕ → ℚ) (ν : ℕ → ℚ) (m : ℕ) : ℚ :=
  (if c.eigInvSqrt then ν m else 1) *
    (if c.normFactor then (∑ i ∈ range N, pace M ξ cvec i m * pace M ξ cvec i m) / ((N : ℚ) - c.ddofNormed) else 1)

/-- Square of the back-scaling of `inverse_transform`. -/
def backScaleSqP (c : BlockConsts) (normalize : Bool) (w : ℚ) : ℚ :=
  if normalize then (if c.weightSqrt then w else w ^ 2) else (if c.plainScaleOne then 1 else w)

/-- The constants of the hand-written model (`off`, `solverMatrix`, `rhoSq`, `inverseTransform` with `r² = weight`). -/
def codedBlockConsts : BlockConsts :=
  { ddofNormed := 1, ddofCov := 1, cholTransposed := true, gramLeftTransposed := true, gramTimesCov := true, cumInit := 0,
    startShift := 0, endShift := 1, sliceRows := true, eigInvSqrt := true, normFactor := true, weightSqrt := true,
    plainScaleOne := true }

/-! ## Gram (inner-product) route: `_fit_inner_product_multivariate`, `_transform_innpro`,
`_transform_numerical_integration_multivariate`

`D p` are the curves `data_uni._data_inpro.values` of component `p` (the data centred by
`inner_product`, whatever mean was subtracted), `σ2 p` the noise variance subtracted on the diagonal
of the component Gram matrix. -/

/-- `MultivariateFunctionalData.inner_product`: `Σ_p (⟨D_p[i], D_p[k]⟩ − σ_p²·[i = k])`. -/
def gramRouteMatrix (P : ℕ) (n : ℕ → ℕ) (t : ℕ → ℕ → ℚ) (D : ℕ → ℕ → ℕ → ℚ) (σ2 : ℕ → ℚ) (i k : ℕ) : ℚ :=
  ∑ p ∈ range P, (basisGram (n p) (t p) (D p) i k - if i = k then σ2 p else 0)

/-- `np.matmul(D_p.T, eigenvectors)[:, k]`: numerator of eigenfunction `k`, component `p`. -/
def gramEigenNum (N : ℕ) (Dp : ℕ → ℕ → ℚ) (v : ℕ → ℕ → ℚ) (k u : ℕ) : ℚ := ∑ i ∈ range N, v i k * Dp i u

/-- `… / np.sqrt(eigenvalues)`, `ρ k` standing for `√l_k`. -/
def gramEigenfunction (N : ℕ) (ρ : ℕ → ℚ) (Dp : ℕ → ℕ → ℚ) (v : ℕ → ℕ → ℚ) (k u : ℕ) : ℚ :=
  gramEigenNum N Dp v k u / ρ k

/-- `results["eigenvalues"] = eigenvalues / data.n_obs`. -/
def gramEigenvalue (N : ℕ) (l : ℕ → ℚ) (k : ℕ) : ℚ := l k / N

/-- `_transform_innpro`: `√(n_obs·λ_k)·v_ik = √l_k · v_ik`. -/
def innProScores (ρ : ℕ → ℚ) (v : ℕ → ℕ → ℚ) (i k : ℕ) : ℚ := ρ k * v i k

/-- `_transform_numerical_integration_multivariate` for one (centred, rescaled) observation `x`:
`Σ_p ⟨x_p, ψ_k^{(p)}⟩`. -/
def numIntScore (P : ℕ) (n : ℕ → ℕ) (t : ℕ → ℕ → ℚ) (x : ℕ → ℕ → ℚ) (ψ : ℕ → ℕ → ℕ → ℚ) (k : ℕ) : ℚ :=
  prodInner P n t x (fun p => ψ p k)

end FDA.MFPCA
