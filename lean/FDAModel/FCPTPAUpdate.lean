/-
FCP-TPA, inside one pass of `_update_components`
(`FDApy/preprocessing/dim_reduction/fcp_tpa.py`): `_compute_denominator`, `_update_vector`
(as the solution of its penalised normal equations — the linear solver is a parameter with the
contract `IsUpdate`), the penalised rank-one objective the three block updates minimise, and
the new-data entry points `transform(data, "NumInt")`, `inverse_transform` on arbitrary scores.
Linear algebra (`dot`, `mulVec`, `bil`) is the one of `FDAModel/MFPCA.lean`.
-/
import FDAModel.FCPTPA
import FDAModel.MFPCA

namespace FDA.FCPTPA
open Finset
open FDA.MFPCA (mulVec bil)

/-- `a = np.eye(m) + alpha * penalty_matrix` of `_update_vector`. -/
def smat (α : ℚ) (Ω : ℕ → ℕ → ℚ) (i k : ℕ) : ℚ := (if i = k then 1 else 0) + α * Ω i k

/-- `_compute_denominator(a, alpha, Ω) = aᵀ(a + alpha·Ω a)`. -/
def computeDenominator (m : ℕ) (α : ℚ) (Ω : ℕ → ℕ → ℚ) (a : ℕ → ℚ) : ℚ :=
  ∑ i ∈ range m, a i * (a i + α * mulVec m Ω a i)

/-- Right-hand side of the `v` update: `np.einsum("i, j, ikj -> k", u, w, data)`. -/
def powerV (n m₂ : ℕ) (R : ℕ → ℕ → ℕ → ℚ) (u w : ℕ → ℚ) (j : ℕ) : ℚ :=
  ∑ i ∈ range n, ∑ k ∈ range m₂, u i * w k * R i j k

/-- Right-hand side of the `w` update: `np.einsum("i, j, ijk -> k", u, v, data)`. -/
def powerW (n m₁ : ℕ) (R : ℕ → ℕ → ℕ → ℚ) (u v : ℕ → ℚ) (k : ℕ) : ℚ :=
  ∑ i ∈ range n, ∑ j ∈ range m₁, u i * v j * R i j k

/-- Contract of `_update_vector`: `out = np.linalg.solve(I + αΩ, b) / d`, i.e.
`(I + αΩ)(d·out) = b` on `range m`. -/
def IsUpdate (m : ℕ) (α : ℚ) (Ω : ℕ → ℕ → ℚ) (b : ℕ → ℚ) (d : ℚ) (out : ℕ → ℚ) : Prop :=
  ∀ i < m, mulVec m (smat α Ω) (fun k => d * out k) i = b i

/-- Residual of the normal equations (what the driver evaluates on the recorded output). -/
def updateResidual (m : ℕ) (α : ℚ) (Ω : ℕ → ℕ → ℚ) (b : ℕ → ℚ) (d : ℚ) (out : ℕ → ℚ) (i : ℕ) : ℚ :=
  mulVec m (smat α Ω) (fun k => d * out k) i - b i

/-- The part of the penalised objective that depends on one block `x` (the other two fixed):
`d·xᵀ(I+αΩ)x − 2·xᵀb`. -/
def blockObjective (m : ℕ) (α : ℚ) (Ω : ℕ → ℕ → ℚ) (b : ℕ → ℚ) (d : ℚ) (x : ℕ → ℚ) : ℚ :=
  d * bil m (smat α Ω) x x - 2 * FDA.MFPCA.dot m x b

/-- Penalised rank-one objective of the regularised tensor power step (Allen 2013; Huang,
Shen, Buja 2009): `‖R‖² − 2⟨R, u⊗v⊗w⟩ + (uᵀu)(vᵀS_v v)(wᵀS_w w)`, `S = I + αΩ`. -/
def penObjective (n m₁ m₂ : ℕ) (R : ℕ → ℕ → ℕ → ℚ) (αv αw : ℚ) (Ωv Ωw : ℕ → ℕ → ℚ) (T : Comp) : ℚ :=
  energy n m₁ m₂ R - 2 * coef n m₁ m₂ R T
    + dot n T.u T.u * bil m₁ (smat αv Ωv) T.v T.v * bil m₂ (smat αw Ωw) T.w T.w

end FDA.FCPTPA
