/-
Line-protocol front end of the local-polynomial model (shared by Drivers/C06.lean and
Drivers/C07.lean): parses a request, evaluates the model's own `ckernel`, `lpPredict1`,
`lpPredict2`, `lpEstimate1W`, `lpEstimate2W`, prints the answer.  Only the Gaussian
weights and the square root inside the 2-D tricube weight go through `Float`.
-/
import FDAModel.Core.Proto
import FDAModel.LocalPoly

namespace FDA.LP.IO
open FDA FDA.Proto FDA.LP

def ratToFloat (q : ℚ) : Float := Float.ofInt q.num / Float.ofNat q.den

/-- Exact rational value of a finite `Float` (decoded from its bits). -/
def floatToRat (f : Float) : ℚ :=
  let b := f.toBits.toNat
  let sign := b >>> 63
  let e := (b >>> 52) &&& 0x7ff
  let m := b &&& (2 ^ 52 - 1)
  let mant : ℕ := if e = 0 then m else m + 2 ^ 52
  let ex : Int := if e = 0 then -1074 else (e : Int) - 1075
  let v : ℚ := if ex ≥ 0 then (mant : ℚ) * (2 : ℚ) ^ ex.toNat else (mant : ℚ) / (2 : ℚ) ^ (-ex).toNat
  if sign = 1 then -v else v

/-- `_gaussian(u)` in `Float`. -/
def gaussF (u : Float) : Float := Float.exp (-(u * u) / 2) / Float.sqrt (2 * 3.141592653589793)

/-- Round a non-negative rational to a multiple of `2^-k` (keeps the denominators of the
Float-assisted weights common and small; the rounding is far inside the float tolerance). -/
def quant (k : ℕ) (q : ℚ) : ℚ := ((q * (2 : ℚ) ^ k).floor : ℚ) / (2 : ℚ) ^ k

def gaussQ (u : ℚ) : ℚ := quant 80 (floatToRat (gaussF (ratToFloat u)))

/-- Gaussian weights of a whole window, normalised by the largest one before rounding to
multiples of `2^-80` (the estimate is invariant under a common factor of the weights, and
a window whose weights are all tiny must keep their ratios). -/
def gaussWeights (n : ℕ) (u : ℕ → ℚ) : Array ℚ :=
  let wf : Array Float := Array.ofFn (n := n) fun i => gaussF (ratToFloat (u i.val))
  let wmax := wf.foldl (fun a b => if a < b then b else a) 0.0
  if wmax == 0.0 then wf.map fun _ => (0 : ℚ) else wf.map fun w => quant 80 (floatToRat (w / wmax))

def rootF (s : ℚ) : ℚ := quant 64 (floatToRat (Float.sqrt (ratToFloat s)))

def parseCK? : String → Option CKernel
  | "epanechnikov" => some .epanechnikov
  | "tricube" => some .tricube
  | "bisquare" => some .bisquare
  | _ => none

def showOpt : Option ℚ → String
  | some v => showRat v
  | none => "s"

def showOpts (l : List (Option ℚ)) : String :=
  if l.isEmpty then "-" else ",".intercalate (l.map showOpt)

def answerTokens (toks : List String) : String :=
  match toks with
  | ["kern", name, u] =>
    match parseVec? u with
    | some us =>
      if name = "gaussian" then showVec (us.map gaussQ) else
      match parseCK? name with
      | some k => showVec (us.map (ckernel k))
      | none => "error:NotImplementedError"
    | none => "bad"
  | ["bwcount", e, sz] =>
    match parseNatVec? sz with
    | some sizes =>
      if sizes.isEmpty ∨ sizes.any (· = 0) then "error:ValueError" else
      if e = "dense" then showRat (bandwidthCount .denseSmooth sizes)
      else if e = "irregular" then showRat (bandwidthCount .irregularSmooth sizes)
      else if e = "covariance" then showRat (bandwidthCount .covariance sizes)
      else "bad"
    | none => "bad"
  | ["monos2", d] =>
    match d.toNat? with
    | some d => ";".intercalate ((monos2 d).map fun e => toString e.1 ++ "," ++ toString e.2)
    | none => "bad"
  | ["lp1", name, hs, ds, xs, ys, qs] =>
    match parseRat? hs, ds.toNat?, parseVec? xs, parseVec? ys, parseVec? qs with
    | some h, some d, some x, some y, some q =>
      if h ≤ 0 then "error:ValueError" else
      if x.length ≠ y.length then "error:ValueError" else
      let n := x.length
      let xa := x.toArray
      let ya := y.toArray
      if name = "gaussian" then
        showOpts (q.map fun x0 =>
          let wa := gaussWeights n fun i => |rd xa i - x0| / h
          lpEstimate1W (rd wa) h d n (rd xa) (rd ya) x0)
      else
      match parseCK? name with
      | some k => showOpts (lpPredict1 k h d n (rd xa) (rd ya) q)
      | none => "error:NotImplementedError"
    | _, _, _, _, _ => "bad"
  | ["lp2", name, hs, ds, x1s, x2s, ys, q1s, q2s] =>
    match parseRat? hs, ds.toNat?, parseVec? x1s, parseVec? x2s, parseVec? ys, parseVec? q1s, parseVec? q2s with
    | some h, some d, some x1, some x2, some y, some q1, some q2 =>
      if h ≤ 0 then "error:ValueError" else
      if x1.length ≠ y.length ∨ x2.length ≠ y.length ∨ q1.length ≠ q2.length then "error:ValueError" else
      let n := y.length
      let x1a := x1.toArray
      let x2a := x2.toArray
      let ya := y.toArray
      let Q := q1.zip q2
      if name = "gaussian" then
        showOpts (Q.map fun q =>
          let wa := gaussWeights n fun i => rootF (sqDist2 (rd x1a i) (rd x2a i) q.1 q.2) / h
          lpEstimate2W (rd wa) h d n (rd x1a) (rd x2a) (rd ya) q.1 q.2)
      else if name = "tricube" then
        showOpts (Q.map fun q =>
          let wa := tabA n fun i => weight2 rootF .tricube h (rd x1a i) (rd x2a i) q.1 q.2
          lpEstimate2W (rd wa) h d n (rd x1a) (rd x2a) (rd ya) q.1 q.2)
      else if name = "epanechnikov" then showOpts (lpPredict2 false h d n (rd x1a) (rd x2a) (rd ya) Q)
      else if name = "bisquare" then showOpts (lpPredict2 true h d n (rd x1a) (rd x2a) (rd ya) Q)
      else "error:NotImplementedError"
    | _, _, _, _, _, _, _ => "bad"
  | _ => "bad-op"

end FDA.LP.IO
