/-
C12 — arithmetic, equality and membership of grid functional data (import-free).

A dataset is either dense (one grid, one row of values per observation) or irregular
(a dictionary `label ↦ (grid, values)`, in the insertion order of the `IrregularValues`
dictionary).  A grid is one list of sampling points per dimension (`DenseArgvals`); the values
of an observation are the row-major flattening of its array.  Inputs are exact rationals (every
finite `float64` is one); an *output* entry is a `Val = Option Rat`, `none` meaning "the float
result is not finite" (`inf` / `nan`), so that a division by zero is never silently a number.

Mirrors (tree under validation, `FDApy/representation/functional_data.py`, `argvals.py`):
  `FunctionalData._check_same_type/_check_same_nobs/_check_same_ndim`, `GridFunctionalData._is_compatible`
                                                                  → the guard inside `combine`
  `DenseFunctionalData._perform_computation`                     → `combine` (dense branch)
  `IrregularFunctionalData._perform_computation`                 → `combine false` (`pairZip`, as coded)
                                                                    `combine true` (`pairLabel`, what "pointwise" asks for)
  `…_perform_computation_number`, `__add__ … __floordiv__`, `__rmul__` → `scalarop`, `rscalarop`
  `DenseArgvals.__eq__`, `IrregularArgvals.__eq__`                → `=` on `Grid`, `sameGrids`
  `GridFunctionalData.__eq__` (repaired, `fixes/C12-eq-total.diff`) → `eq`;  pristine → `eqOld`
  `MultivariateFunctionalData.remove` / `in` (`list.remove`, `list.__contains__`) → `removeFirst`, `contains`
-/
import FDAModel.Core.Dict
import FDAModel.Select

namespace FDA.Arith
open FDA.Dict FDA.Select

/-- Sampling points of one observation: one list per dimension (`DenseArgvals`). -/
abbrev Grid := List (List Rat)

/-- A float result: `some q` = finite with exact value `q`; `none` = `inf` / `nan`. -/
abbrev Val := Option Rat

/-- A `DenseFunctionalData` / `IrregularFunctionalData` object with entries of type `α`. -/
inductive Data (α : Type)
  | dense (grid : Grid) (rows : List (List α))
  | irreg (obs : D (Grid × List α))
  deriving Repr

instance {α : Type} [DecidableEq α] : DecidableEq (Data α) := fun a b =>
  match a, b with
  | .dense g r, .dense g' r' =>
    if h : g = g' ∧ r = r' then isTrue (by rw [h.1, h.2]) else isFalse (fun e => by cases e; exact h ⟨rfl, rfl⟩)
  | .irreg x, .irreg y =>
    if h : x = y then isTrue (by rw [h]) else isFalse (fun e => by cases e; exact h rfl)
  | .dense _ _, .irreg _ => isFalse (fun e => by cases e)
  | .irreg _, .dense _ _ => isFalse (fun e => by cases e)

variable {α β γ : Type}

/-- Number of values an observation on grid `g` holds (`prod(n_points)`). -/
def gridSize (g : Grid) : Nat := (g.map List.length).foldr (· * ·) 1

/-- The invariant the containers maintain (C11): every array has the shape of its grid, and the
labels of an irregular dataset are distinct (a Python dictionary). -/
def Data.WF : Data α → Prop
  | .dense g rows => ∀ r ∈ rows, r.length = gridSize g
  | .irreg obs => NodupKeys obs ∧ ∀ p ∈ obs, p.2.2.length = gridSize p.2.1

instance (a : Data α) : Decidable a.WF := by
  cases a <;> unfold Data.WF <;> unfold NodupKeys <;> exact inferInstance

/-- `n_obs`. -/
def Data.nObs : Data α → Nat
  | .dense _ rows => rows.length
  | .irreg obs => obs.length

/-- `n_dimension` of an irregular dataset: that of its first observation (`none`: the dataset is
empty and `n_dimension` raises `StopIteration`). -/
def dimOf : D (Grid × List α) → Option Nat
  | [] => none
  | p :: _ => some p.2.1.length

def Data.isDense : Data α → Bool
  | .dense _ _ => true
  | .irreg _ => false

/-- `IrregularArgvals.__eq__`: same number of labels and every label of the first is a label of
the second with an equal grid (insertion order is irrelevant). -/
def sameGrids (x : D (Grid × List α)) (y : D (Grid × List β)) : Bool :=
  eqBy (fun p => p.1) (fun p => p.1) x y

/-- Apply `f` to every value; grid, labels and order are kept. -/
def mapData (f : α → β) : Data α → Data β
  | .dense g rows => .dense g (rows.map (List.map f))
  | .irreg obs => .irreg (mapVals (fun e => (e.1, e.2.map f)) obs)

/-- `func(values1, values2)` on two dense arrays of the same shape. -/
def zipRows (f : α → β → γ) (r : List (List α)) (r' : List (List β)) : List (List γ) :=
  List.zipWith (List.zipWith f) r r'

/-- Irregular operands **as coded**: the two value dictionaries are zipped in their own
insertion orders, the label comes from the left operand.  An observation pair with different
numbers of values is not combined (NumPy refuses, or the constructor rejects the result).  Pairs
of arrays with equally many values but different shapes (2-D: `(3,2)` against `(2,3)`) and the
broadcastable one-point case can only arise under the order defect (finding
`C12-irregular-value-order`); they are outside the model and the harness does not send them. -/
def pairZip (f : α → β → γ) : D (Grid × List α) → D (Grid × List β) → Option (D (Grid × List γ))
  | [], _ => some []
  | _ :: _, [] => some []
  | p :: t, q :: u =>
    if p.2.2.length = q.2.2.length then
      (pairZip f t u).map fun r => (p.1, (p.2.1, List.zipWith f p.2.2 q.2.2)) :: r
    else none

/-- Irregular operands **by label** (what "pointwise" means): the observation labelled `l` of
the left operand is combined with the observation labelled `l` of the right one. -/
def pairLabel (f : α → β → γ) : D (Grid × List α) → D (Grid × List β) → Option (D (Grid × List γ))
  | [], _ => some []
  | p :: t, y =>
    match get? y p.1, pairLabel f t y with
    | some q, some r => some ((p.1, (p.2.1, List.zipWith f p.2.2 q.2)) :: r)
    | _, _ => none

/-- A binary operation between two datasets: the compatibility guard in the code's order
(class → `TypeError`; `n_obs` → `ValueError`; dimension → `ValueError`; sampling points →
`ValueError`), then `f` entry by entry; the result lives on the grid of the **left** operand.
`byLabel = false` is `IrregularFunctionalData._perform_computation` as coded, `true` pairs
irregular observations by label. -/
def combine (byLabel : Bool) (f : α → β → γ) : Data α → Data β → Except Err (Data γ)
  | .dense g r, .dense g' r' =>
    if r.length ≠ r'.length then .error .valueError
    else if g.length ≠ g'.length then .error .valueError
    else if g ≠ g' then .error .valueError
    else .ok (.dense g (zipRows f r r'))
  | .irreg x, .irreg y =>
    if x.length ≠ y.length then .error .valueError
    else match dimOf x, dimOf y with
      | some d, some d' =>
        if d ≠ d' then .error .valueError
        else if sameGrids x y = false then .error .valueError
        else if byLabel then
          match pairLabel f x y with
          | some r => .ok (.irreg r)
          | none => .error .keyError     -- unreachable after the guard (`C12.by_label_total`)
        else
          match pairZip f x y with
          | some r => .ok (.irreg r)
          | none => .error .valueError
      | _, _ => .error .other            -- empty irregular data: `n_dimension` raises
  | _, _ => .error .typeError

/-! ### The five operators -/

inductive Op
  | add | sub | mul | div | floordiv
  deriving DecidableEq, Repr

/-- One entry of `np.add / subtract / multiply / true_divide / floor_divide` on floats, in exact
arithmetic; a zero divisor gives a non-finite float (`inf` or `nan`), never a number. -/
def Op.ap : Op → Rat → Rat → Val
  | .add, x, y => some (x + y)
  | .sub, x, y => some (x - y)
  | .mul, x, y => some (x * y)
  | .div, x, y => if y = 0 then none else some (x / y)
  | .floordiv, x, y => if y = 0 then none else some ((x / y).floor : Int)

/-- `a op b` for two functional operands, observations paired by label (the property's reading). -/
def binop (op : Op) (a b : Data Rat) : Except Err (Data Val) := combine true op.ap a b

/-- `a op b` exactly as `_perform_computation` is coded (irregular: dictionaries zipped in order). -/
def binopImpl (op : Op) (a b : Data Rat) : Except Err (Data Val) := combine false op.ap a b

/-- An exact (never failing) entry operation lifted to datasets; `binop .add = ringop (· + ·)`
up to the embedding `some` (`C12.binop_ring`).  Used to chain operations in the identities. -/
def ringop (f : Rat → Rat → Rat) (a b : Data Rat) : Except Err (Data Rat) := combine true f a b

/-- No entry of the dataset is zero (the guard of the division identities). -/
def Data.noZero : Data Rat → Bool
  | .dense _ rows => rows.all fun r => r.all fun x => decide (x ≠ 0)
  | .irreg obs => obs.all fun p => p.2.2.all fun x => decide (x ≠ 0)

/-- Every entry is finite. -/
def Data.allFinite : Data Val → Bool
  | .dense _ rows => rows.all fun r => r.all Option.isSome
  | .irreg obs => obs.all fun p => p.2.2.all Option.isSome

/-! ### Scalars -/

/-- What can stand where a number is expected. -/
inductive SKind
  | pyInt | pyFloat | pyBool | npFloat64      -- `isinstance(·, (float, int))` holds
  | npInt64 | npFloat32 | str | array | other -- it does not
  -- further foreign operands, none of them an `int` / `float`: list, tuple, `fractions.Fraction`,
  -- `decimal.Decimal`, complex, `None`, dict, `np.bool_`, 0-d array, NumPy integer / float of other widths
  | pyList | pyTuple | fraction | decimal | complex | none | dict | npBool | array0d | npInt32 | npFloat16
  deriving DecidableEq, Repr

def SKind.accepted : SKind → Bool
  | .pyInt | .pyFloat | .pyBool | .npFloat64 => true
  | _ => false

/-- `a op c` with a non-functional right operand of kind `k` and numeric value `c`
(`True = 1`, `False = 0`; ignored for kinds that are not numbers). -/
def scalarop (op : Op) (a : Data Rat) (k : SKind) (c : Rat) : Except Err (Data Val) :=
  if k.accepted then .ok (mapData (fun x => op.ap x c) a) else .error .typeError

/-- `c op a` with a Python scalar on the left: only `__rmul__` exists (`c * a = a * c`); every
other reflected operator is Python's own `TypeError`. -/
def rscalarop (op : Op) (a : Data Rat) (k : SKind) (c : Rat) : Except Err (Data Val) :=
  if op = .mul then scalarop .mul a k c else .error .typeError

/-! ### Equality -/

def absQ (x : Rat) : Rat := if x < 0 then -x else x

def atol : Rat := 1 / 100000000
def rtol : Rat := 1 / 100000

/-- `np.isclose(a, b)` with the default tolerances: `|a − b| ≤ atol + rtol·|b|` (asymmetric in `b`). -/
def close (a b : Rat) : Bool := decide (absQ (a - b) ≤ atol + rtol * absQ b)

/-- Same length and entry-wise close. -/
def closeList : List Rat → List Rat → Bool
  | [], [] => true
  | a :: as, b :: bs => close a b && closeList as bs
  | _, _ => false

/-- Same shape (number of rows, length of each row) and entry-wise close. -/
def closeRows : List (List Rat) → List (List Rat) → Bool
  | [], [] => true
  | r :: rs, s :: ss => closeList r s && closeRows rs ss
  | _, _ => false

/-- Every observation of `x` is an observation of `y` (same label) with values of the same
shape that are close. -/
def closeObs (x y : D (Grid × List Rat)) : Bool :=
  x.all fun p => match get? y p.1 with
    | some q => closeList p.2.2 q.2
    | none => false

/-- `a == b` in the tree under validation (`fixes/C12-eq-total.diff`): `False` when the classes
or the sampling points differ, otherwise same shapes and `np.allclose`; always a `bool`. -/
def eq : Data Rat → Data Rat → Bool
  | .dense g r, .dense g' r' => decide (g = g') && closeRows r r'
  | .irreg x, .irreg y => sameGrids x y && closeObs x y
  | _, _ => false

/-! #### What the statement asks of `==` (the specification `eq` is proved equivalent to) -/

/-- "`a` is close to `b`". -/
def Close (a b : Rat) : Prop := absQ (a - b) ≤ atol + rtol * absQ b

/-- Same shape and every value close. -/
def CloseList (v w : List Rat) : Prop :=
  v.length = w.length ∧ ∀ (i : Nat) (h : i < v.length) (h' : i < w.length), Close v[i] w[i]

def CloseRows (r s : List (List Rat)) : Prop :=
  r.length = s.length ∧ ∀ (i : Nat) (h : i < r.length) (h' : i < s.length), CloseList r[i] s[i]

/-- "Sampling points coincide and values are close": same class; dense: the same grid, the same
number of observations, rows of the same length with close entries; irregular: the same number
of labels, and every label of `a` is a label of `b` with the same grid and close values of the
same shape. -/
def eqSpec : Data Rat → Data Rat → Prop
  | .dense g r, .dense g' r' => g = g' ∧ CloseRows r r'
  | .irreg x, .irreg y =>
    x.length = y.length ∧
      ∀ p ∈ x, ∃ q, get? y p.1 = some q ∧ q.1 = p.2.1 ∧ CloseList p.2.2 q.2
  | _, _ => False

/-- `a == b` in the pristine tree: `(argvals == argvals) & np.allclose(values, values)`.
Dense: arrays of different shapes raise from broadcasting (`ValueError`; shapes that happen to
broadcast are outside this sketch); irregular: `np.allclose` sees the two lists of *labels*, so
the values are ignored; dense against irregular raises.  Kept only to document the repaired
defect (`C12.counterexample_old`); the driver never evaluates it. -/
def eqOld : Data Rat → Data Rat → Except Err Bool
  | .dense g r, .dense g' r' =>
    if r.map List.length = r'.map List.length then .ok (decide (g = g') && closeRows r r')
    else .error .valueError
  | .irreg x, .irreg y =>
    if x.length = y.length then .ok (sameGrids x y && decide (keys x = keys y))
    else .error .valueError
  | _, _ => .error .valueError

/-! ### Multivariate objects: `in` and `remove` go through `==` -/

/-- `item in mfd` (`list.__contains__`): some component `c` has `c == item`. -/
def contains (cs : List (Data Rat)) (x : Data Rat) : Bool := cs.any fun c => eq c x

/-- `mfd.remove(item)` (`list.remove`): drop the first component `c` with `c == item`;
`ValueError` when there is none. -/
def removeFirst : List (Data Rat) → Data Rat → Except Err (List (Data Rat))
  | [], _ => .error .valueError
  | c :: cs, x =>
    if eq c x then .ok cs
    else match removeFirst cs x with
      | .ok r => .ok (c :: r)
      | .error e => .error e

/-- `mfd.count(item)`: how many components `c` have `c == item`. -/
def countEq (cs : List (Data Rat)) (x : Data Rat) : Nat := (cs.filter fun c => eq c x).length

/-- `mfd.index(item)`: position of the first component `c` with `c == item` (`none` = `ValueError`). -/
def indexOf : List (Data Rat) → Data Rat → Option Nat
  | [], _ => none
  | c :: cs, x => if eq c x then some 0 else (indexOf cs x).map (· + 1)

/-! ### Closeness on non-finite values (`np.allclose(…, equal_nan=True)` as `__eq__` calls it) -/

/-- A `float64` entry: finite (its exact rational value), NaN, +∞ or −∞. -/
inductive XVal
  | fin (q : Rat)
  | nan
  | pinf
  | ninf
  deriving DecidableEq, Repr

/-- One entry of `np.isclose(a, b, equal_nan=True)`: NaN is close to NaN only; an infinity is close to
the infinity of the same sign only; finite entries by `|a − b| ≤ atol + rtol·|b|`. -/
def closeX : XVal → XVal → Bool
  | .fin a, .fin b => close a b
  | .nan, .nan => true
  | .pinf, .pinf => true
  | .ninf, .ninf => true
  | _, _ => false

/-- `np.allclose` on two arrays of the same shape (flattened). -/
def closeListX : List XVal → List XVal → Bool
  | [], [] => true
  | a :: v, b :: w => closeX a b && closeListX v w
  | _, _ => false

/-! ### Exact equality: the special case in which `==` is an equivalence relation -/

/-- Same class, same sampling points, *equal* values (irregular: label by label, whatever the order
of the dictionaries — Python's `dict.__eq__`). -/
def exactEq : Data Rat → Data Rat → Bool
  | .dense g r, .dense g' r' => decide (g = g') && decide (r = r')
  | .irreg x, .irreg y => eqBy id id x y
  | _, _ => false

/-! ### Operators of a multivariate object: the inherited *list* operators, not arithmetic

`MultivariateFunctionalData` defines no arithmetic: `+` and `*` are `UserList.__add__` / `__mul__`
(concatenation and repetition of the list of components, through the constructor), `==` is list equality. -/

def allSameNobs : List (Data Rat) → Bool
  | [] => true
  | c :: t => t.all fun d => d.nObs == c.nObs

/-- `mfd + other` (other: a multivariate object or a list of components). -/
def mvAdd (cs ds : List (Data Rat)) : Except Err (List (Data Rat)) :=
  if allSameNobs (cs ++ ds) then .ok (cs ++ ds) else .error .valueError

/-- `mfd * k`, `k * mfd`. -/
def mvMul (cs : List (Data Rat)) (k : Int) : Except Err (List (Data Rat)) :=
  let r := (List.replicate k.toNat cs).flatten
  if allSameNobs r then .ok r else .error .valueError

/-- `mfd == other` (list equality: same number of components, pairwise `==`). -/
def mvEq : List (Data Rat) → List (Data Rat) → Bool
  | [], [] => true
  | c :: cs, d :: ds => eq c d && mvEq cs ds
  | _, _ => false

end FDA.Arith
