/-
Selection, iteration and concatenation of datasets (import-free; C13, used by C11).

A dense dataset is a list of rows (`DenseValues`, first axis = observations;
`BasisFunctionalData.coefficients` likewise), an irregular dataset is a
dictionary `label ↦ observation` (`IrregularArgvals` / `IrregularValues`).
The entry type `α` is arbitrary: shapes in C11, labelled contents in C13.
-/
import FDAModel.Core.Dict
import FDAModel.Slice

namespace FDA.Select
open FDA.Dict FDA.Slice

/-- Exception classes the harness distinguishes. -/
inductive Err
  | typeError | valueError | indexError | keyError | notImplemented | other
  deriving Repr, DecidableEq

variable {α β : Type}

/-- The entries at the given positions (positions out of range are skipped;
`resolve` only produces positions in range — `C13.resolve_in_range`). -/
def pick (l : List α) (ps : List Nat) : List α := ps.filterMap (l[·]?)

/-- `DenseFunctionalData.__getitem__` / `BasisFunctionalData.__getitem__`:
NumPy indexing of the first axis; an integer index keeps the observation axis. -/
def denseGet (rows : List α) (ix : Index) : Except Err (List α) :=
  match resolve rows.length ix with
  | .one p => .ok (pick rows [p])
  | .many ps => .ok (pick rows ps)
  | .indexError => .error .indexError
  | .valueError => .error .valueError

/-- Positions selected by a boolean mask (`values[mask]`, NumPy): the indices of the `True` entries. -/
def maskPosFrom : Nat → List Bool → List Nat
  | _, [] => []
  | o, b :: t => if b then o :: maskPosFrom (o + 1) t else maskPosFrom (o + 1) t

def maskPos (mask : List Bool) : List Nat := maskPosFrom 0 mask

/-- `DenseFunctionalData.__getitem__` / `BasisFunctionalData.__getitem__` with a boolean index array:
the mask must have exactly one entry per observation (`IndexError` otherwise; NumPy lets an *empty*
boolean array through, selecting nothing); the rows whose entry is `True` are kept, in order. -/
def denseGetMask (rows : List α) (mask : List Bool) : Except Err (List α) :=
  if mask.isEmpty then .ok []
  else if mask.length = rows.length then .ok (pick rows (maskPos mask)) else .error .indexError

/-- The labels selected by an index: `labels = list(argvals.keys())`, then
`labels[index]` (slice), `[labels[int(o)] for o in index]` (array) or
`[labels[index]]` (integer) — `IrregularFunctionalData.__getitem__`. -/
def selectLabels (d : D α) (ix : Index) : Except Err (List Int) :=
  match resolve d.length ix with
  | .one p => .ok (pick (keys d) [p])
  | .many ps => .ok (pick (keys d) ps)
  | .indexError => .error .indexError
  | .valueError => .error .valueError

/-- `[(label, d[label]) for label in labels]` (`none` = `KeyError`). -/
def lookupAll (d : D α) (ls : List Int) : Option (List (Int × α)) :=
  ls.mapM fun l => (get? d l).map fun e => (l, e)

/-- `{label: d[label] for label in labels}` (`KeyError` on a missing label; a
repeated label is kept once, at its first position). -/
def restrict (d : D α) (ls : List Int) : Except Err (D α) :=
  match lookupAll d ls with
  | none => .error .keyError
  | some ps => .ok (ofList ps)

/-- `IrregularFunctionalData.__getitem__` on one dictionary. -/
def irregGet (d : D α) (ix : Index) : Except Err (D α) :=
  match selectLabels d ix with
  | .error e => .error e
  | .ok ls => restrict d ls

/-- `iter(dense)`: one single-row dataset per observation, in order. -/
def iterDense (rows : List α) : List (List α) := rows.map fun r => [r]

/-- `iter(irregular)` in the tree under validation: the observation at position
`p` comes out as a one-entry dictionary keyed by `p` (the position, not the
label), so that `for idx, obs in enumerate(self): obs.values[idx]` is total. -/
def iterIrregFrom : Nat → D α → List (D α)
  | _, [] => []
  | o, (_, e) :: t => [((o : Int), e)] :: iterIrregFrom (o + 1) t

def iterIrreg (d : D α) : List (D α) := iterIrregFrom 0 d

/-- `DenseValues.concatenate` (`np.vstack`). -/
def concatDense (pieces : List (List α)) : List α := pieces.flatten

/-- `IrregularArgvals.concatenate` / `IrregularValues.concatenate` as coded:
every key of a piece is shifted by the *current length* of the result. -/
def concatImpl (pieces : List (D α)) : D α :=
  pieces.foldl (fun acc d => setAll acc (shift (acc.length : Int) d)) []

/-- What the property asks for: the observations of the pieces in order,
labelled as in a freshly built dataset (`0, 1, …`). -/
def concatSpec (pieces : List (D α)) : D α := fresh (pieces.map vals).flatten

/-- A piece is *canonically labelled* when its labels are `0, 1, …, k-1` in order. -/
def Canonical (d : D α) : Prop := keys d = (List.range d.length).map fun (i : Nat) => (i : Int)

instance (d : D α) : Decidable (Canonical d) := by unfold Canonical; exact inferInstance

/-! ### The pristine tree (before the repair `c13b`), kept only to document the repaired defect -/

/-- Pristine `iter(irregular)`: the one-entry dictionaries were keyed by the *label*. -/
def iterIrregOld (d : D α) : List (D α) := d.map fun p => [p]

/-- Pristine `IrregularFunctionalData.__getitem__`: positions produced by a slice / array were
used as *labels* (`argvals.get(obs)` → `None` → `TypeError` on a miss), an integer was a label
(`KeyError` on a miss). -/
def irregGetOld (d : D α) (ix : Index) : Except Err (D α) :=
  match ix with
  | .int i => match get? d i with
    | some e => .ok [(i, e)]
    | none => .error .keyError
  | .slice a b c => match slicePos d.length a b c with
    | none => .error .valueError
    | some ps => match lookupAll d (ps.map fun (p : Nat) => (p : Int)) with
      | some xs => .ok (ofList xs)
      | none => .error .typeError
  | .arr idx => match lookupAll d idx with
    | some xs => .ok (ofList xs)
    | none => .error .typeError

/-! ### Components of a multivariate object -/

/-- One component: dense / basis data (rows) or irregular data (labelled observations). -/
inductive Comp (α : Type)
  | dense (rows : List α)
  | irreg (d : D α)
  | basis (rows : List α)      -- `BasisFunctionalData`: rows of the coefficient matrix
  deriving Repr

def Comp.nObs : Comp α → Nat
  | .dense rows => rows.length
  | .irreg d => d.length
  | .basis rows => rows.length

/-- The contents in order, labels forgotten. -/
def Comp.contents : Comp α → List α
  | .dense rows => rows
  | .irreg d => vals d
  | .basis rows => rows

/-- A freshly built dataset with the same content (the twin of the property). -/
def Comp.twin : Comp α → Comp α
  | .dense rows => .dense rows
  | .irreg d => .irreg (relabel d)
  | .basis rows => .basis rows

def Comp.get (c : Comp α) (ix : Index) : Except Err (Comp α) :=
  match c with
  | .dense rows => (denseGet rows ix).map .dense
  | .irreg d => (irregGet d ix).map .irreg
  | .basis rows => (denseGet rows ix).map .basis

/-- A boolean index array on one component.  Dense / basis data: NumPy mask semantics.  Irregular
data as coded: `[labels[int(o)] for o in index]` reads the booleans as the integers 0 / 1 (mirrored,
not judged: boolean masks are outside the property's index kinds for irregular data). -/
def Comp.getMask (c : Comp α) (mask : List Bool) : Except Err (Comp α) :=
  match c with
  | .dense rows => (denseGetMask rows mask).map .dense
  | .basis rows => (denseGetMask rows mask).map .basis
  | .irreg d => (irregGet d (.arr (mask.map fun b => if b then 1 else 0))).map .irreg

def allEqNat : List Nat → Bool
  | [] => true
  | a :: t => t.all fun b => b == a

def getComps (ix : Index) : List (Comp α) → Except Err (List (Comp α))
  | [] => .ok []
  | c :: cs =>
    match c.get ix with
    | .error e => .error e
    | .ok g =>
      match getComps ix cs with
      | .error e => .error e
      | .ok gs => .ok (g :: gs)

/-- `MultivariateFunctionalData.__getitem__`: the index is applied to every component, then
the constructor checks that the numbers of observations agree. -/
def multiGet (cs : List (Comp α)) (ix : Index) : Except Err (List (Comp α)) :=
  match getComps ix cs with
  | .error e => .error e
  | .ok gs => if allEqNat (gs.map Comp.nObs) then .ok gs else .error .valueError

/-- `iter(x)` for one component. -/
def Comp.iter : Comp α → List (Comp α)
  | .dense rows => (iterDense rows).map .dense
  | .irreg d => (iterIrreg d).map .irreg
  | .basis rows => (iterDense rows).map .basis

def allDenseRows : List (Comp α) → Option (List (List α))
  | [] => some []
  | .dense r :: t => (allDenseRows t).map (r :: ·)
  | _ :: _ => none

def allIrregDicts : List (Comp α) → Option (List (D α))
  | [] => some []
  | .irreg d :: t => (allIrregDicts t).map (d :: ·)
  | _ :: _ => none

/-- `X.concatenate(*pieces)` for univariate pieces of one class (`TypeError` otherwise),
irregular data with the label arithmetic of the code. -/
def concatCompsImpl (pieces : List (Comp α)) : Except Err (Comp α) :=
  match pieces with
  | [] => .error .other
  | .dense _ :: _ =>
    match allDenseRows pieces with
    | some rs => .ok (.dense (concatDense rs))
    | none => .error .typeError
  | .irreg _ :: _ =>
    match allIrregDicts pieces with
    | some ds => .ok (.irreg (concatImpl ds))
    | none => .error .typeError
  | .basis _ :: _ => .error .notImplemented     -- `BasisFunctionalData.concatenate` raises `NotImplementedError`

/-- The same with the labelling the property asks for. -/
def concatCompsSpec (pieces : List (Comp α)) : Except Err (Comp α) :=
  match pieces with
  | [] => .error .other
  | .dense _ :: _ =>
    match allDenseRows pieces with
    | some rs => .ok (.dense (concatDense rs))
    | none => .error .typeError
  | .irreg _ :: _ =>
    match allIrregDicts pieces with
    | some ds => .ok (.irreg (concatSpec ds))
    | none => .error .typeError
  | .basis _ :: _ => .error .notImplemented     -- `BasisFunctionalData.concatenate` raises `NotImplementedError`

/-! ### Whole objects: univariate or multivariate -/

inductive Obj (α : Type)
  | uni (c : Comp α)
  | multi (cs : List (Comp α))
  deriving Repr

def getMaskComps (mask : List Bool) : List (Comp α) → Except Err (List (Comp α))
  | [] => .ok []
  | c :: cs =>
    match c.getMask mask with
    | .error e => .error e
    | .ok g =>
      match getMaskComps mask cs with
      | .error e => .error e
      | .ok gs => .ok (g :: gs)

def Obj.getMask (x : Obj α) (mask : List Bool) : Except Err (Obj α) :=
  match x with
  | .uni c => (c.getMask mask).map .uni
  | .multi cs =>
    match getMaskComps mask cs with
    | .error e => .error e
    | .ok gs => if allEqNat (gs.map Comp.nObs) then .ok (.multi gs) else .error .valueError

def Obj.get (x : Obj α) (ix : Index) : Except Err (Obj α) :=
  match x with
  | .uni c => (c.get ix).map .uni
  | .multi cs => (multiGet cs ix).map .multi

def allUniComps : List (Obj α) → Option (List (Comp α))
  | [] => some []
  | .uni c :: t => (allUniComps t).map (c :: ·)
  | .multi _ :: _ => none

def allMultiComps : List (Obj α) → Option (List (List (Comp α)))
  | [] => some []
  | .multi cs :: t => (allMultiComps t).map (cs :: ·)
  | .uni _ :: _ => none

def concatColumns (cat : List (Comp α) → Except Err (Comp α)) : List (List (Comp α)) → Except Err (List (Comp α))
  | [] => .ok []
  | col :: cols =>
    match cat col with
    | .error e => .error e
    | .ok g =>
      match concatColumns cat cols with
      | .error e => .error e
      | .ok gs => .ok (g :: gs)

/-- `MultivariateFunctionalData.concatenate`: same number of components (`ValueError`), component
`k` of the result is the concatenation of the `k`-th components, then the constructor's
number-of-observations check. -/
def concatMultiWith (cat : List (Comp α) → Except Err (Comp α)) (objs : List (List (Comp α))) :
    Except Err (List (Comp α)) :=
  match objs with
  | [] => .error .other
  | first :: _ =>
    if ¬ allEqNat (objs.map List.length) then .error .valueError
    else match concatColumns cat ((List.range first.length).map fun k => objs.filterMap (·[k]?)) with
      | .error e => .error e
      | .ok cs => if allEqNat (cs.map Comp.nObs) then .ok cs else .error .valueError

def concatObjsWith (cat : List (Comp α) → Except Err (Comp α)) (objs : List (Obj α)) : Except Err (Obj α) :=
  match objs with
  | [] => .error .other
  | .uni _ :: _ =>
    match allUniComps objs with
    | some cs => (cat cs).map .uni
    | none => .error .typeError
  | .multi _ :: _ =>
    match allMultiComps objs with
    | some ms => (concatMultiWith cat ms).map .multi
    | none => .error .other

/-- Concatenation as coded / as the property asks. -/
def concatObjsImpl (objs : List (Obj α)) : Except Err (Obj α) := concatObjsWith concatCompsImpl objs
def concatObjsSpec (objs : List (Obj α)) : Except Err (Obj α) := concatObjsWith concatCompsSpec objs

/-- A grouping of pieces: concatenate the results of the sub-groupings. -/
inductive Tree (α : Type)
  | leaf (x : Obj α)
  | node (ts : List (Tree α))

mutual
  def Tree.eval (cat : List (Obj α) → Except Err (Obj α)) : Tree α → Except Err (Obj α)
    | .leaf x => .ok x
    | .node ts => match Tree.evalAll cat ts with
      | .error e => .error e
      | .ok xs => cat xs
  def Tree.evalAll (cat : List (Obj α) → Except Err (Obj α)) : List (Tree α) → Except Err (List (Obj α))
    | [] => .ok []
    | t :: ts => match Tree.eval cat t with
      | .error e => .error e
      | .ok x => match Tree.evalAll cat ts with
        | .error e => .error e
        | .ok xs => .ok (x :: xs)
end

/-! ### The iteration protocol of the analysis methods -/

/-- `[f(idx, obs.values[idx]) for idx, obs in enumerate(self)]`: what `smooth`, `center`,
`noise_variance`, `normalize`, `standardize`, `to_basis`, `to_long` do with an irregular dataset.
`none` = the `KeyError` of a look-up that misses. -/
def enumLookup (f : Nat → α → β) (pieces : List (D α)) : Option (List β) :=
  (pieces.zipIdx).mapM fun p => (get? p.1 (p.2 : Int)).map (f p.2)

/-- A per-observation result computed through the iteration protocol. -/
def perObs (f : Nat → α → β) (d : D α) : Option (List β) := enumLookup f (iterIrreg d)

/-- … keyed by the labels of the dataset it was computed on (`center`, `normalize`, `standardize`). -/
def perObsKeyed (f : Nat → α → β) (d : D α) : Option (D β) :=
  (perObs f d).map fun rs => (keys d).zip rs

end FDA.Select
