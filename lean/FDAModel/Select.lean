/-
Selection, iteration and concatenation of datasets (import-free; C13, used by C11).

A dense dataset is a list of rows (`DenseValues`, first axis = observations;
`BasisFunctionalData.coefficients` likewise), an irregular dataset is a
dictionary `label ↦ observation` (`IrregularArgvals` / `IrregularValues`).
The entry type `α` is arbitrary: shapes in C11, labelled contents in C13.
-/
import FDAModel.Core.Dict
import FDAModel.Slice

namespace FDA.Select
open FDA.Dict FDA.Slice

/-- Exception classes the harness distinguishes. -/
inductive Err
  | typeError | valueError | indexError | keyError | other
  deriving Repr, DecidableEq

variable {α β : Type}

/-- The entries at the given positions (positions out of range are skipped;
`resolve` only produces positions in range — `C13.resolve_in_range`). -/
def pick (l : List α) (ps : List Nat) : List α := ps.filterMap (l[·]?)

/-- `DenseFunctionalData.__getitem__` / `BasisFunctionalData.__getitem__`:
NumPy indexing of the first axis; an integer index keeps the observation axis. -/
def denseGet (rows : List α) (ix : Index) : Except Err (List α) :=
  match resolve rows.length ix with
  | .one p => .ok (pick rows [p])
  | .many ps => .ok (pick rows ps)
  | .indexError => .error .indexError
  | .valueError => .error .valueError

/-- The labels selected by an index: `labels = list(argvals.keys())`, then
`labels[index]` (slice), `[labels[int(o)] for o in index]` (array) or
`[labels[index]]` (integer) — `IrregularFunctionalData.__getitem__`. -/
def selectLabels (d : D α) (ix : Index) : Except Err (List Int) :=
  match resolve d.length ix with
  | .one p => .ok (pick (keys d) [p])
  | .many ps => .ok (pick (keys d) ps)
  | .indexError => .error .indexError
  | .valueError => .error .valueError

/-- `[(label, d[label]) for label in labels]` (`none` = `KeyError`). -/
def lookupAll (d : D α) (ls : List Int) : Option (List (Int × α)) :=
  ls.mapM fun l => (get? d l).map fun e => (l, e)

/-- `{label: d[label] for label in labels}` (`KeyError` on a missing label; a
repeated label is kept once, at its first position). -/
def restrict (d : D α) (ls : List Int) : Except Err (D α) :=
  match lookupAll d ls with
  | none => .error .keyError
  | some ps => .ok (ofList ps)

/-- `IrregularFunctionalData.__getitem__` on one dictionary. -/
def irregGet (d : D α) (ix : Index) : Except Err (D α) :=
  match selectLabels d ix with
  | .error e => .error e
  | .ok ls => restrict d ls

/-- `iter(dense)`: one single-row dataset per observation, in order. -/
def iterDense (rows : List α) : List (List α) := rows.map fun r => [r]

/-- `iter(irregular)` in the tree under validation: the observation at position
`p` comes out as a one-entry dictionary keyed by `p` (the position, not the
label), so that `for idx, obs in enumerate(self): obs.values[idx]` is total. -/
def iterIrregFrom : Nat → D α → List (D α)
  | _, [] => []
  | o, (_, e) :: t => [((o : Int), e)] :: iterIrregFrom (o + 1) t

def iterIrreg (d : D α) : List (D α) := iterIrregFrom 0 d

/-- `DenseValues.concatenate` (`np.vstack`). -/
def concatDense (pieces : List (List α)) : List α := pieces.flatten

/-- `IrregularArgvals.concatenate` / `IrregularValues.concatenate` as coded:
every key of a piece is shifted by the *current length* of the result. -/
def concatImpl (pieces : List (D α)) : D α :=
  pieces.foldl (fun acc d => setAll acc (shift (acc.length : Int) d)) []

/-- What the property asks for: the observations of the pieces in order,
labelled as in a freshly built dataset (`0, 1, …`). -/
def concatSpec (pieces : List (D α)) : D α := fresh (pieces.map vals).flatten

/-- A piece is *canonically labelled* when its labels are `0, 1, …, k-1` in order. -/
def Canonical (d : D α) : Prop := keys d = (List.range d.length).map fun (i : Nat) => (i : Int)

instance (d : D α) : Decidable (Canonical d) := by unfold Canonical; exact inferInstance

end FDA.Select
