/-
Further L² geometry of FDApy (C08): multivariate norms / Gram matrices, the
coefficient-space Gram matrix of basis-expansion data, standardised grids, the
package's own Simpson weights.

Mirrors: `MultivariateFunctionalData.norm` / `.inner_product`,
`BasisFunctionalData.inner_product` (`C G Cᵀ`), `Basis.inner_product` (uncentred
Gram matrix of the basis functions), `DenseArgvals.normalization`,
`_integration_weights(…, "simpson")`.
-/
import FDAModel.Core.Quadrature

namespace FDA
open Finset

/-- `MultivariateFunctionalData.inner_product(noise_variance = 0)`: the sum over the
`P` components of the component Gram matrices (`np.sum([...], axis=0)`).
Component `p` has `n p` grid points, grid `t p` and `N` curves `X p`. -/
def gramMulti (P N : ℕ) (n : ℕ → ℕ) (t : ℕ → ℕ → ℚ) (X : ℕ → ℕ → ℕ → ℚ) (i k : ℕ) : ℚ :=
  ∑ p ∈ range P, gram N (n p) (t p) (X p) i k

/-- `MultivariateFunctionalData.norm(squared=True)`: sum of the squared component norms. -/
def normSqMulti (P : ℕ) (n : ℕ → ℕ) (t : ℕ → ℕ → ℚ) (x : ℕ → ℕ → ℚ) : ℚ :=
  ∑ p ∈ range P, normSq (n p) (t p) (x p)

/-- Multivariate inner product `Σ_p ⟨x_p, y_p⟩`. -/
def innerMulti (P : ℕ) (n : ℕ → ℕ) (t : ℕ → ℕ → ℚ) (x y : ℕ → ℕ → ℚ) : ℚ :=
  ∑ p ∈ range P, inner (n p) (t p) (x p) (y p)

/-- Uncentred Gram matrix of `K` basis functions `Φ k` (`Basis.inner_product`
without the 1e-12 zeroing, which is the identity in exact arithmetic on the
inputs the correspondence feeds). -/
def basisGram (n : ℕ) (t : ℕ → ℚ) (Φ : ℕ → ℕ → ℚ) (k l : ℕ) : ℚ := inner n t (Φ k) (Φ l)

/-- `BasisFunctionalData.to_grid`: `X i j = Σ_k c_ik Φ_k(t_j)`. -/
def toGrid (K : ℕ) (C : ℕ → ℕ → ℚ) (Φ : ℕ → ℕ → ℚ) (i j : ℕ) : ℚ :=
  ∑ k ∈ range K, C i k * Φ k j

/-- `BasisFunctionalData.inner_product`: `C G Cᵀ`. -/
def coefGram (K n : ℕ) (t : ℕ → ℚ) (Φ C : ℕ → ℕ → ℚ) (i j : ℕ) : ℚ :=
  ∑ k ∈ range K, ∑ l ∈ range K, C i k * basisGram n t Φ k l * C j l

/-- `DenseArgvals.normalization`: `(t − t_min)/(t_max − t_min)` on a sorted grid of `n` points. -/
def standGrid (n : ℕ) (t : ℕ → ℚ) (j : ℕ) : ℚ := (t j - t 0) / (t (n - 1) - t 0)

/-- `_integration_weights(t, "simpson")` as coded (the package's own rule):
`⅓·concat([t₁−t₀], [4h_j if j even else 2h_j for j, h_j in enumerate(t[1:n−1] − t[:n−2])], [t_{n−1}−t_{n−2}])`. -/
def simpsonW (n : ℕ) (t : ℕ → ℚ) (j : ℕ) : ℚ :=
  if j = 0 then (t 1 - t 0) / 3
  else if j = n - 1 then (t (n - 1) - t (n - 2)) / 3
  else (if (j - 1) % 2 = 0 then 4 else 2) * (t j - t (j - 1)) / 3

end FDA
