/-
The covariance *procedures* of FDApy around their smoothers, as executable exact-rational
definitions (C09, C10).  The smoothers themselves (local polynomials, P-splines, `np.interp`
is modelled) are parameters: any function.

Mirrors (FDApy/representation/functional_data.py):
* `IrregularFunctionalData.covariance`, raw part   → `coCount`, `coSum`, `rawCovIrr`
  (masks of co-observed pairs, counts, `np.divide(sum, count, where=count != 0, out=zeros)`)
* `_smooth_covariance`, LP branch                  → `removeDiag`, `longFormat`, `smoothCovLP`
  (`np.fill_diagonal(cov, nan)`, `to_long().dropna()`, `lp.predict(y, x, x_new)` reshaped)
* `_smooth_covariance`, PS branch                  → `zeroDiag`, `psWeights`, `smoothCovPS`
  (`weights[cov == 0] = 0` computed by the caller BEFORE `np.fill_diagonal(cov, 0)`)
* `.covariance(method_smoothing=…)` as a whole      → `covSmoothedLP`, `covSmoothedPS`
  (raw estimator → smoother → `(C + Cᵀ)/2`)
* `np.interp(points, x, y)` as used by `IrregularFunctionalData.smooth("interpolation")`
  (the interpolant behind `.norm`)                  → `interp`
* irregular `standardize`: `np.divide(v, sd, out=zeros, where=(sd > 1e-12))` → `standardizeThr`
-/
import FDAModel.Transform

namespace FDA
open Finset

/-! ### raw covariance of irregular data: co-observed pairs -/

/-- `cov_count[a, b]`: number of curves observed (not NaN) at both union-grid points. -/
def coCount (N : ℕ) (obs : ℕ → ℕ → Bool) (a b : ℕ) : ℕ :=
  ((range N).filter fun i => obs i a && obs i b).card

/-- `cov_sum[a, b]`: sum of the products over those curves. -/
def coSum (N : ℕ) (obs : ℕ → ℕ → Bool) (D : ℕ → ℕ → ℚ) (a b : ℕ) : ℚ :=
  ∑ i ∈ (range N).filter (fun i => obs i a && obs i b), D i a * D i b

/-- `np.divide(cov_sum, cov_count, where=(cov_count != 0), out=zeros)`: the raw covariance of
irregular data; pairs of points never observed together get the defined value `0`. -/
def rawCovIrr (N : ℕ) (obs : ℕ → ℕ → Bool) (D : ℕ → ℕ → ℚ) (a b : ℕ) : ℚ :=
  if coCount N obs a b = 0 then 0 else coSum N obs D a b / (coCount N obs a b : ℚ)

/-! ### the procedure around the covariance smoothers -/

/-- `np.fill_diagonal(cov, np.nan)` (`none` = NaN). -/
def removeDiag (M : ℕ → ℕ → ℚ) (a b : ℕ) : Option ℚ := if a = b then none else some (M a b)

/-- `DenseFunctionalData(argvals², cov[np.newaxis]).to_long().dropna()`: the rows
`(a, b, value)` in row-major order, NaN rows dropped — the training set of the LP smoother. -/
def longFormat (m : ℕ) (M : ℕ → ℕ → Option ℚ) : List (ℕ × ℕ × ℚ) :=
  (List.range m).flatMap fun a => (List.range m).filterMap fun b => (M a b).map fun v => (a, b, v)

/-- LP branch of `_smooth_covariance`: the smoother `S` (any function of the training rows and
of the query indices) sees the raw covariance without its diagonal. -/
def smoothCovLP (S : List (ℕ × ℕ × ℚ) → ℕ → ℕ → ℚ) (m : ℕ) (M : ℕ → ℕ → ℚ) : ℕ → ℕ → ℚ :=
  S (longFormat m (removeDiag M))

/-- `np.fill_diagonal(cov, 0)`. -/
def zeroDiag (M : ℕ → ℕ → ℚ) (a b : ℕ) : ℚ := if a = b then 0 else M a b

/-- The caller's `weights = ones; weights[cov == 0] = 0`, computed on the raw covariance
*before* its diagonal is zeroed (so a non-zero diagonal entry keeps weight one). -/
def psWeights (M : ℕ → ℕ → ℚ) (a b : ℕ) : ℚ := if M a b = 0 then 0 else 1

/-- PS branch: the smoother `S` (any function of the data matrix, the weights and the query
indices) gets the zero-diagonal matrix and the caller's weights. -/
def smoothCovPS (S : (ℕ → ℕ → ℚ) → (ℕ → ℕ → ℚ) → ℕ → ℕ → ℚ) (M : ℕ → ℕ → ℚ) : ℕ → ℕ → ℚ :=
  S (zeroDiag M) (psWeights M)

/-- The data whose cross-products are taken when a smoothing method is requested:
`data.center(method_smoothing=…)` subtracts the *smoothed* sample mean `Sm (colMean N X)`
(`Sm` = the mean smoother, any function). -/
def centerSmoothed (Sm : (ℕ → ℚ) → ℕ → ℚ) (N : ℕ) (X : ℕ → ℕ → ℚ) (i j : ℕ) : ℚ :=
  X i j - Sm (colMean N X) j

/-- `.covariance(method_smoothing="LP")` of dense data: centring with the smoothed mean →
`XcᵀXc/(n−1)` → covariance smoother → `(C+Cᵀ)/2`. -/
def covSmoothedLP (Sm : (ℕ → ℚ) → ℕ → ℚ) (S : List (ℕ × ℕ × ℚ) → ℕ → ℕ → ℚ) (N m : ℕ)
    (X : ℕ → ℕ → ℚ) : ℕ → ℕ → ℚ :=
  symmetrise (smoothCovLP S m (covOf N 1 (centerSmoothed Sm N X)))

/-- `.covariance(method_smoothing="PS")`. -/
def covSmoothedPS (Sm : (ℕ → ℚ) → ℕ → ℚ) (S : (ℕ → ℕ → ℚ) → (ℕ → ℕ → ℚ) → ℕ → ℕ → ℚ) (N : ℕ)
    (X : ℕ → ℕ → ℚ) : ℕ → ℕ → ℚ :=
  symmetrise (smoothCovPS S (covOf N 1 (centerSmoothed Sm N X)))

/-! ### `np.interp` -/

/-- Search of the segment: `k` = current left node, `fuel` = segments left. -/
def interpAux (tp fp : ℕ → ℚ) (u : ℚ) : ℕ → ℕ → ℚ
  | 0, k => fp k
  | fuel + 1, k =>
    if u ≤ tp (k + 1) then fp k + (fp (k + 1) - fp k) * ((u - tp k) / (tp (k + 1) - tp k))
    else interpAux tp fp u fuel (k + 1)

/-- `np.interp(u, tp, fp)` for `n` increasing nodes: constant outside the nodes, piecewise
linear inside. -/
def interp (n : ℕ) (tp fp : ℕ → ℚ) (u : ℚ) : ℚ :=
  if n = 0 then 0 else if u ≤ tp 0 then fp 0 else interpAux tp fp u (n - 1) 0

/-! ### irregular standardisation -/

/-- `np.divide(v, sd, out=zeros, where=(sd > thr))` (`thr = 1e-12` in the code); `sd = none`
stands for `sqrt` of a negative smoothed variance (NaN: the comparison is false). -/
def standardizeThr (thr : ℚ) (sd : ℕ → Option ℚ) (v : ℕ → ℚ) (k : ℕ) : ℚ :=
  match sd k with
  | some s => if thr < s then v k / s else 0
  | none => 0

end FDA
