/-
Python index semantics (import-free): `slice.indices(n)` + `range`, negative
integer indices, integer index arrays.  Mirrors CPython's `PySlice_Unpack` /
`PySlice_AdjustIndices` / `range.__len__`, which is what NumPy's first-axis
indexing (`DenseValues[index]`, `coefficients[index]`) and `list[slice]`
(`IrregularFunctionalData.__getitem__`) use.
-/
namespace FDA.Slice

/-- `slice(start, stop, step).indices(n)`; `none` = `ValueError` (step 0). -/
def sliceIndices (n : Nat) (start stop step : Option Int) : Option (Int × Int × Int) :=
  let st : Int := step.getD 1
  if st = 0 then none else
  let len : Int := n
  let adj (v : Int) : Int :=
    if v < 0 then
      (if v + len < 0 then (if st < 0 then -1 else 0) else v + len)
    else if v ≥ len then (if st < 0 then len - 1 else len) else v
  let s : Int := match start with
    | none => if st < 0 then len - 1 else 0
    | some v => adj v
  let e : Int := match stop with
    | none => if st < 0 then -1 else len
    | some v => adj v
  some (s, e, st)

/-- `len(range(s, e, st))` for `st ≠ 0` (CPython's `compute_range_length`). -/
def rangeLen (s e st : Int) : Nat :=
  if st > 0 then (if s < e then ((e - s - 1) / st + 1).toNat else 0)
  else (if e < s then ((s - e - 1) / (-st) + 1).toNat else 0)

/-- `list(range(s, e, st))`. -/
def rangeList (s e st : Int) : List Int :=
  (List.range (rangeLen s e st)).map fun (i : Nat) => s + (i : Int) * st

/-- Positions selected by `[start:stop:step]` on a sequence of length `n`. -/
def slicePos (n : Nat) (start stop step : Option Int) : Option (List Nat) :=
  (sliceIndices n start stop step).map fun p => (rangeList p.1 p.2.1 p.2.2).map Int.toNat

/-- Position selected by the integer index `i` (`none` = `IndexError`). -/
def intPos (n : Nat) (i : Int) : Option Nat :=
  if 0 ≤ i then (if i < n then some i.toNat else none)
  else (if 0 ≤ i + n then some (i + n).toNat else none)

/-- Positions selected by an integer index array (`none` = `IndexError`). -/
def arrPos (n : Nat) (idx : List Int) : Option (List Nat) :=
  idx.mapM (intPos n)

/-- The three index kinds of `__getitem__`. -/
inductive Index
  | int (i : Int)
  | slice (start stop step : Option Int)
  | arr (idx : List Int)
  deriving Repr, DecidableEq

/-- Outcome of resolving an index against a length. -/
inductive Sel
  | one (p : Nat)            -- integer index: a single position
  | many (ps : List Nat)     -- slice / array: several positions in order
  | indexError
  | valueError
  deriving Repr, DecidableEq

def resolve (n : Nat) : Index → Sel
  | .int i => match intPos n i with
    | some p => .one p
    | none => .indexError
  | .slice a b c => match slicePos n a b c with
    | some ps => .many ps
    | none => .valueError
  | .arr idx => match arrPos n idx with
    | some ps => .many ps
    | none => .indexError

/-- The positions of a successful selection. -/
def Sel.positions : Sel → Option (List Nat)
  | .one p => some [p]
  | .many ps => some ps
  | _ => none

end FDA.Slice
