/-
Centring, normalising, standardising and rescaling of FDApy data as executable
exact-rational definitions (C10).  Numeric layer convention of
`Core/Quadrature.lean`.

Mirrors (FDApy/representation/functional_data.py):
* `DenseFunctionalData.center` (no smoothing)        → `center` (Core/Quadrature)
* `BasisFunctionalData.to_grid` / `.center`           → `toGrid`, `center` on the coefficients
* `IrregularFunctionalData.center`                    → `selectMean`, `centerIrregular`
  (the `np.isin` mask on the union grid; the smoothed mean is a parameter)
* `.normalize`                                        → `scaleBy` with `r = norm`, `normalizedSq`
* `DenseFunctionalData.standardize` (repaired: `out=zeros`) → `standardize`, `standardizedSq`
* `BasisFunctionalData.standardize`                   → `standardize` applied to the basis values
* `.rescale`                                          → `rescaleWeight`, `rescaleWeight2`, `scaleBy`
* `MultivariateFunctionalData.norm / normalize`       → `multiNorm`, `scaleBy`
Square roots never run in the model: the driver prints signed squares
(`signedSq v = v·|v|`), the theorems take the root as a hypothesis (`r² = q`, `r > 0`).
-/
import FDAModel.Stats

namespace FDA
open Finset

/-- `v ↦ v·|v|`: an injective, order-preserving stand-in for `v` that is rational when
`v` is a rational divided by a square root. -/
def signedSq (v : ℚ) : ℚ := v * |v|

/-- Division of a whole curve by a number (`values / norm`, `self / np.sqrt(weights)`). -/
def scaleBy (r : ℚ) (x : ℕ → ℚ) (j : ℕ) : ℚ := x j / r

/-! ### basis expansions -/

/-- `BasisFunctionalData.to_grid`: `einsum("ij,j...->i...", coefficients, basis.values)`
(`K` basis functions, values flattened over the grid). -/
def toGrid (K : ℕ) (C B : ℕ → ℕ → ℚ) (i j : ℕ) : ℚ := ∑ k ∈ range K, C i k * B k j

/-! ### irregular centring -/

/-- `data_mean.values[0][np.isin(union_grid, obs_points)]`: the union grid zipped with
the mean values on it, filtered by membership of the point in the curve's own points. -/
def selectMean (UV : List (ℚ × ℚ)) (pts : List ℚ) : List (ℚ × ℚ) :=
  UV.filter fun p => pts.contains p.1

/-- `obs.values[idx] - mean_obs` with NumPy's broadcasting (`none` = `NaN`, which stays
`NaN`): equal lengths subtract position-wise; a single selected mean value or a single
sample broadcasts; anything else is NumPy's `ValueError`. -/
def centerIrregular (UV : List (ℚ × ℚ)) (pts : List ℚ) (vals : List (Option ℚ)) :
    Except String (List (Option ℚ)) :=
  let sel := (selectMean UV pts).map Prod.snd
  if sel.length = vals.length then .ok (List.zipWith (fun v m => v.map (· - m)) vals sel)
  else match sel, vals with
    | [m], _ => .ok (vals.map fun v => v.map (· - m))
    | _, [v] => .ok (sel.map fun m => v.map (· - m))
    | _, _ => .error "ValueError"

/-! ### normalising -/

/-- Signed square of the normalised value `x_j / ‖x‖`: `x_j |x_j| / ‖x‖²`
(`none` when the norm vanishes: the code divides by zero there). -/
def normalizedSq (nsq : ℚ) (x : ℕ → ℚ) (j : ℕ) : Option ℚ :=
  if nsq = 0 then none else some (signedSq (x j) / nsq)

/-- `MultivariateFunctionalData.norm(squared=False)`: the sum of the component norms. -/
def multiNorm (P : ℕ) (r : ℕ → ℚ) : ℚ := ∑ p ∈ range P, r p

/-! ### standardising -/

/-- `np.divide(D, sd, out=zeros, where=(sd != 0))`: the data `D` (centred or not)
divided pointwise by the standard deviation `sd`; zero-variance points get `0`. -/
def standardize (sd : ℕ → ℚ) (D : ℕ → ℕ → ℚ) (i j : ℕ) : ℚ :=
  if sd j = 0 then 0 else D i j / sd j

/-- Signed square of the standardised value, from the variance alone. -/
def standardizedSq (var : ℕ → ℚ) (D : ℕ → ℕ → ℚ) (i j : ℕ) : ℚ :=
  if var j = 0 then 0 else signedSq (D i j) / var j

/-- Division that records a zero divisor (`none` = the code would have produced
`inf`/`nan`). -/
def divE (a b : ℚ) : Option ℚ := if b = 0 then none else some (a / b)

/-- `standardize` with the division made explicit: used to state that every output is
a number (no division by zero is ever performed). -/
def standardizeE (sd : ℕ → ℚ) (D : ℕ → ℕ → ℚ) (i j : ℕ) : Option ℚ :=
  if sd j = 0 then some 0 else divE (D i j) (sd j)

/-- What the code did *before* the repair (`np.divide(..., where=...)` without `out=`):
entries at zero-variance points are whatever the fresh buffer `g` contained. -/
def standardizeUninit (g : ℕ → ℕ → ℚ) (sd : ℕ → ℚ) (D : ℕ → ℕ → ℚ) (i j : ℕ) : ℚ :=
  if sd j = 0 then g i j else D i j / sd j

/-! ### rescaling -/

/-- `_integrate(np.var(values, axis=0), t)`: the weight returned by `rescale` (1-D). -/
def rescaleWeight (n : ℕ) (t : ℕ → ℚ) (N : ℕ) (X : ℕ → ℕ → ℚ) : ℚ := trapz n t (popVar N X)

/-- 2-D data (images flattened row-major, `n₂` columns). -/
def rescaleWeight2 (n₁ n₂ : ℕ) (t₁ t₂ : ℕ → ℚ) (N : ℕ) (X : ℕ → ℕ → ℚ) : ℚ :=
  integrate2 n₁ n₂ t₁ t₂ (fun a b => popVar N X (a * n₂ + b))

/-- `argvals_stand` of a sorted grid: `(t - min) / (max - min)`. -/
def standGrid (n : ℕ) (t : ℕ → ℚ) (j : ℕ) : ℚ := (t j - t 0) / (t (n - 1) - t 0)

/-- `BasisFunctionalData.rescale` / `.standardize` take `np.diag` of the covariance
evaluated on the grid; for a basis on a `d`-dimensional domain that array has `2d`
axes and `np.diag` accepts only one or two: the code as it is raises `ValueError` for
`d ≥ 2` (open finding C10-basis-2d-variance). -/
def basisVarianceImpl (d : ℕ) (var : ℕ → ℚ) : Except String (ℕ → ℚ) :=
  if d = 1 then .ok var else .error "ValueError"

/-- `MultivariateFunctionalData.normalize` divides every component by the multivariate
norm with `component / norm`; `BasisFunctionalData` defines no division, so the code as
it is raises `TypeError` as soon as one component is a basis expansion (open finding
C10-multivariate-basis-normalize).  `hasBasis i` says whether component `i` is one. -/
def multiNormalizeImpl (P : ℕ) (hasBasis : ℕ → Bool) : Except String Unit :=
  if (List.range P).any hasBasis then .error "TypeError" else .ok ()

end FDA
