/-
C16 — a small heap semantics, aliasing skeletons of the public analysis methods
(hand-derived from the source of the target tree), and the freshness check.
Import-free.

A cell is an array (buffer content `data`), or a dict / list / object whose
`fields` hold references; `cache` holds the private cache slots of a data object
(`_mean`, `_covariance`, `_noise_variance`, `_noise_variance_cov`,
`_inner_product_matrix`, `_data_inpro`) or the fitted state of an estimator —
the slots an analysis call is allowed to set.

A skeleton is a straight-line program over variables (`0` = `self`, `1, 2, …`
= the other arguments, `≥ 10` temporaries).  It records only what matters for
aliasing: which objects are newly allocated, which references are copied
where, and which cells are written in place.
-/
namespace FDA.Alias

structure Cell where
  data : Nat
  fields : List Nat
  cache : List Nat
deriving DecidableEq, Repr

structure Heap where
  cell : Nat → Cell
  next : Nat            -- first unallocated reference

inductive Stmt where
  | alloc (d : Nat)                        -- d := new array / object / dict (no fields yet)
  | load (d s f : Nat)                     -- d := s.fields[f]
  | loadCache (d s f : Nat)                -- d := s.cache[f]
  | move (d s : Nat)                       -- d := s
  | copyDict (d s : Nat)                   -- d := dict(s) / list(s) / Argvals(s): NEW cell, same fields
  | concat (d s t : Nat)                   -- d := {**s, **t}: NEW cell, fields of s then of t
  | select (d s : Nat) (idx : List Nat)    -- d := {k: s[k] for k in idx}: NEW cell, the chosen fields of s
  | setFields (o : Nat) (fs : List Nat)    -- o.fields := values of those variables   (in-place)
  | writeData (o : Nat) (v : Nat)          -- in-place write into the buffer of o
  | popKey (o f : Nat)                     -- del o[f]                                (in-place)
  | setCache (o : Nat) (fs : List Nat)     -- o.cache := values of those variables    (allowed)
deriving DecidableEq, Repr

abbrev Env := Nat → Nat

def upd (e : Env) (v : Nat) (r : Nat) : Env := fun x => if x = v then r else e x

def hupd (h : Heap) (r : Nat) (c : Cell) : Heap :=
  { h with cell := fun x => if x = r then c else h.cell x }

def halloc (h : Heap) (c : Cell) : Heap :=
  { cell := fun x => if x = h.next then c else h.cell x, next := h.next + 1 }

def exec1 (s : Stmt) (e : Env) (h : Heap) : Env × Heap :=
  match s with
  | .alloc d => (upd e d h.next, halloc h ⟨0, [], []⟩)
  | .load d s f => (upd e d (((h.cell (e s)).fields)[f]?.getD 0), h)
  | .loadCache d s f => (upd e d (((h.cell (e s)).cache)[f]?.getD 0), h)
  | .move d s => (upd e d (e s), h)
  | .copyDict d s => (upd e d h.next, halloc h ⟨(h.cell (e s)).data, (h.cell (e s)).fields, []⟩)
  | .concat d s t => (upd e d h.next, halloc h ⟨0, (h.cell (e s)).fields ++ (h.cell (e t)).fields, []⟩)
  | .select d s idx => (upd e d h.next, halloc h ⟨0, idx.filterMap fun i => (h.cell (e s)).fields[i]?, []⟩)
  | .setFields o fs => (e, hupd h (e o) { (h.cell (e o)) with fields := fs.map e })
  | .writeData o v => (e, hupd h (e o) { (h.cell (e o)) with data := v })
  | .popKey o f => (e, hupd h (e o) { (h.cell (e o)) with fields := (h.cell (e o)).fields.eraseIdx f })
  | .setCache o fs => (e, hupd h (e o) { (h.cell (e o)) with cache := fs.map e })

def exec : List Stmt → Env → Heap → Env × Heap
  | [], e, h => (e, h)
  | s :: ss, e, h => exec ss (exec1 s e h).1 (exec1 s e h).2

/-- The syntactic discipline: in-place writes (`setFields`, `writeData`, `popKey`) only through
variables bound to cells allocated inside this call; caches may be set anywhere.  `fresh` is the
list of variables currently known to hold a cell allocated in this call. -/
def check : List Stmt → List Nat → Bool
  | [], _ => true
  | .alloc d :: ss, fresh => check ss (d :: fresh)
  | .copyDict d _ :: ss, fresh => check ss (d :: fresh)
  | .concat d _ _ :: ss, fresh => check ss (d :: fresh)
  | .select d _ _ :: ss, fresh => check ss (d :: fresh)
  | .load d _ _ :: ss, fresh => check ss (fresh.filter (· != d))
  | .loadCache d _ _ :: ss, fresh => check ss (fresh.filter (· != d))
  | .move d s :: ss, fresh => check ss (if fresh.contains s then d :: fresh else fresh.filter (· != d))
  | .setFields o _ :: ss, fresh => fresh.contains o && check ss fresh
  | .writeData o _ :: ss, fresh => fresh.contains o && check ss fresh
  | .popKey o _ :: ss, fresh => fresh.contains o && check ss fresh
  | .setCache _ _ :: ss, fresh => check ss fresh

/-- A NumPy view (`a[1:3]`, `a[i]`, `a.reshape(…)`, `moveaxis`): another array object on the SAME
buffer.  In the heap of buffers it is the same cell, so a view of an input is never fresh and
`check` refuses every in-place write through it. -/
abbrev Stmt.view (d s : Nat) : Stmt := .move d s

/-- the references written in place while the program runs (targets of `setFields`,
`writeData`, `popKey`), in order -/
def writes : List Stmt → Env → Heap → List Nat
  | [], _, _ => []
  | s :: ss, e, h =>
    (match s with
      | .setFields o _ => [e o]
      | .writeData o _ => [e o]
      | .popKey o _ => [e o]
      | _ => []) ++ writes ss (exec1 s e h).1 (exec1 s e h).2

/-- does the program read a cache slot? -/
def readsCache : List Stmt → Bool
  | [] => false
  | .loadCache _ _ _ :: _ => true
  | _ :: ss => readsCache ss

structure Skel where
  body : List Stmt
  ret : Nat
deriving Repr

def freshTargets (s : Skel) : Bool := check s.body []

/-- a call: a skeleton and the references bound to its argument variables -/
structure Call where
  skel : Skel
  args : List Nat          -- args[i] is bound to variable i

def Call.env (c : Call) : Env := fun v => c.args[v]?.getD 0

/-- run a history of calls; the heap is threaded -/
def runCalls : List Call → Heap → Heap
  | [], h => h
  | c :: cs, h => runCalls cs (exec c.skel.body c.env h).2

/-! ### the skeletons (target tree)

Layouts (field order): dense / irregular data `[argvals, values]`; `argvals` = one field per
dimension (dense) or per curve (irregular); basis-expansion data `[basis, coefficients]` with
`basis = [argvals, values]`; multivariate data = one field per component; a tuple result =
one field per item. -/

open Stmt

/-- new object `[new Argvals(same arrays), new values]`:
`DenseFunctionalData.center`, `.standardize(center=True)` of each multivariate component -/
def skCopyArgvals : Skel :=
  ⟨[load 10 0 0, copyDict 12 10, alloc 13, alloc 14, setFields 14 [12, 13], setCache 0 [14]], 14⟩

/-- new object sharing the argvals object, new values: dense `mean`, `normalize`, `smooth`,
`standardize`, `concatenate`; irregular `center`, `normalize`, `standardize` -/
def skShareArgvals : Skel :=
  ⟨[load 10 0 0, alloc 13, alloc 14, setFields 14 [10, 13], setCache 0 [14]], 14⟩

/-- a result that shares nothing with the inputs (arrays, floats, data frames, data on new
points): `norm`, `inner_product`, `noise_variance`, `to_long`, irregular `mean`/`covariance`/
`smooth`/`to_basis` -/
def skFresh : Skel := ⟨[alloc 11, setCache 0 [11]], 11⟩

/-- `rescale`: the tuple `(new object sharing the argvals, weight)` -/
def skRescale : Skel :=
  ⟨[load 10 0 0, alloc 13, alloc 14, setFields 14 [10, 13], alloc 15, alloc 16, setFields 16 [14, 15]], 16⟩

/-- dense 1-D `covariance`: new argvals holding the same sampling array twice; cached -/
def skCovarianceDense : Skel :=
  ⟨[load 10 0 0, load 11 10 0, alloc 12, setFields 12 [11, 11], alloc 13, alloc 14, setFields 14 [12, 13],
    setCache 0 [14]], 14⟩

/-- dense `to_basis`: basis object on the argvals of `self`, new coefficients -/
def skToBasisDense : Skel :=
  ⟨[load 10 0 0, alloc 11, alloc 12, setFields 12 [10, 11], alloc 13, alloc 14, setFields 14 [12, 13]], 14⟩

/-- irregular `concatenate(self, other)`: new argvals / values dicts holding the per-curve
objects of both operands -/
def skConcatIrregular : Skel :=
  ⟨[load 10 0 0, load 11 1 0, concat 12 10 11, load 13 0 1, load 14 1 1, concat 15 13 14, alloc 16,
    setFields 16 [12, 15]], 16⟩

/-- basis data `center`, `mean`, `normalize`: the basis object is shared, new coefficients -/
def skBasisShare : Skel :=
  ⟨[load 10 0 0, alloc 11, alloc 12, setFields 12 [10, 11]], 12⟩

/-- basis data `rescale`: tuple of the former and the weight -/
def skBasisRescale : Skel :=
  ⟨[load 10 0 0, alloc 11, alloc 12, setFields 12 [10, 11], alloc 13, alloc 14, setFields 14 [12, 13]], 14⟩

/-- basis data `covariance`: new basis on argvals holding the sampling array twice -/
def skBasisCovariance : Skel :=
  ⟨[load 10 0 0, load 11 10 0, load 12 11 0, alloc 13, setFields 13 [12, 12], alloc 14, alloc 15,
    setFields 15 [13, 14], alloc 16, alloc 17, setFields 17 [15, 16]], 17⟩

/-- basis data `to_grid`: dense data on the argvals object of the basis -/
def skBasisToGrid : Skel :=
  ⟨[load 10 0 0, load 11 10 0, alloc 12, alloc 13, setFields 13 [11, 12]], 13⟩

/-- `BasisFunctionalData.standardize(center=True)` in the target tree: a NEW basis object (new
argvals holding the same arrays, new values), new centred coefficients -/
def skBasisStandardize : Skel :=
  ⟨[load 10 0 0, load 11 10 0, copyDict 12 11, alloc 13, alloc 14, setFields 14 [12, 13], alloc 15, alloc 16,
    setFields 16 [14, 15]], 16⟩

/-- the same with `center=False`: the coefficients array of `self` is reused -/
def skBasisStandardizeNoCenter : Skel :=
  ⟨[load 10 0 0, load 11 10 0, copyDict 12 11, alloc 13, alloc 14, setFields 14 [12, 13], load 15 0 1, alloc 16,
    setFields 16 [14, 15]], 16⟩

/-- `BasisFunctionalData.standardize` as coded before the repair: `fdata = self.center()` shares
`self.basis`; `fdata.basis.values = …` then writes through the shared basis object -/
def skBasisStandardizeCoded : Skel :=
  ⟨[load 10 0 0, alloc 11, alloc 12, setFields 12 [10, 11], load 13 10 0, alloc 14, setFields 10 [13, 14],
    alloc 16, setFields 16 [10, 11]], 16⟩

/-- multivariate (two components), each component through `skCopyArgvals`: `center`,
`standardize(center=True)` -/
def skMultiCopyArgvals : Skel :=
  ⟨[load 20 0 0, load 21 0 1,
    load 10 20 0, copyDict 12 10, alloc 13, alloc 14, setFields 14 [12, 13],
    load 30 21 0, copyDict 32 30, alloc 33, alloc 34, setFields 34 [32, 33],
    alloc 40, setFields 40 [14, 34]], 40⟩

/-- multivariate, each component through `skShareArgvals`: `mean`, `normalize`, `smooth`,
`standardize(center=False)` -/
def skMultiShareArgvals : Skel :=
  ⟨[load 20 0 0, load 21 0 1,
    load 10 20 0, alloc 13, alloc 14, setFields 14 [10, 13],
    load 30 21 0, alloc 33, alloc 34, setFields 34 [30, 33],
    alloc 40, setFields 40 [14, 34]], 40⟩

/-- multivariate `covariance`: each component through `skCovarianceDense` -/
def skMultiCovariance : Skel :=
  ⟨[load 20 0 0, load 21 0 1,
    load 10 20 0, load 11 10 0, alloc 12, setFields 12 [11, 11], alloc 13, alloc 14, setFields 14 [12, 13],
    load 30 21 0, load 31 30 0, alloc 32, setFields 32 [31, 31], alloc 33, alloc 34, setFields 34 [32, 33],
    alloc 40, setFields 40 [14, 34], setCache 0 [40]], 40⟩

/-- multivariate `rescale`: tuple (list of components sharing their argvals, weights) -/
def skMultiRescale : Skel :=
  ⟨[load 20 0 0, load 21 0 1,
    load 10 20 0, alloc 13, alloc 14, setFields 14 [10, 13],
    load 30 21 0, alloc 33, alloc 34, setFields 34 [30, 33],
    alloc 40, setFields 40 [14, 34], alloc 41, alloc 42, setFields 42 [40, 41]], 42⟩

/-- multivariate `to_basis`: each component through `skToBasisDense` -/
def skMultiToBasis : Skel :=
  ⟨[load 20 0 0, load 21 0 1,
    load 10 20 0, alloc 11, alloc 12, setFields 12 [10, 11], alloc 13, alloc 14, setFields 14 [12, 13],
    load 30 21 0, alloc 31, alloc 32, setFields 32 [30, 31], alloc 33, alloc 34, setFields 34 [32, 33],
    alloc 40, setFields 40 [14, 34]], 40⟩

/-- multivariate `to_grid` of grid data: a new list of the same component objects -/
def skMultiToGrid : Skel := ⟨[copyDict 40 0], 40⟩

/-- `UFPCA.fit` / `FCPTPA.fit` / `PSplines.fit`: new results stored as fitted state of the
estimator (attributes rebound, never mutated); the data are only read -/
def skEstimatorFit : Skel :=
  ⟨[load 10 1 0, load 11 1 1, alloc 12, alloc 13, setFields 13 [12], setCache 0 [13]], 13⟩

/-- `transform` / `inverse_transform` / `predict`: a new result from the fitted state -/
def skEstimatorApply : Skel := ⟨[loadCache 10 0 0, alloc 11, alloc 12, setFields 12 [11]], 12⟩

/-- `MFPCA.fit` (covariance route) in the target tree: each user dictionary of
`univariate_expansions` is COPIED before `method` / `n_components` are popped -/
def skMFPCAFit : Skel :=
  ⟨[load 10 0 0, load 11 10 0, copyDict 12 11, popKey 12 0, popKey 12 0,
    load 13 10 1, copyDict 14 13, popKey 14 0, popKey 14 0, alloc 15, setCache 0 [15]], 15⟩

/-- `MFPCA.fit` as coded before the repair: pops from the user's dictionaries -/
def skMFPCAFitCoded : Skel :=
  ⟨[load 10 0 0, load 11 10 0, popKey 11 0, popKey 11 0, load 13 10 1, popKey 13 0, popKey 13 0,
    alloc 15, setCache 0 [15]], 15⟩

/-- `fd[i]`, `fd[a:b]` on dense or basis-expansion data: a new object whose first field (argvals /
basis) is the one of `self` and whose second field (values / coefficients) is a VIEW of the
array of `self` -/
def skGetitemView : Skel :=
  ⟨[load 10 0 0, load 11 0 1, Stmt.view 12 11, alloc 14, setFields 14 [10, 12]], 14⟩

/-- `fd[idx]` on irregular data: new argvals / values dictionaries holding the selected per-curve
objects of `self` (the arrays themselves are shared, not copied) -/
def skGetitemIrregular (idx : List Nat) : Skel :=
  ⟨[load 10 0 0, select 12 10 idx, load 13 0 1, select 15 13 idx, alloc 16, setFields 16 [12, 15]], 16⟩

/-- `mfd[i]`, `mfd[a:b]` on multivariate data (two components): each component through `skGetitemView` -/
def skMultiGetitemView : Skel :=
  ⟨[load 20 0 0, load 21 0 1,
    load 10 20 0, load 11 20 1, Stmt.view 12 11, alloc 14, setFields 14 [10, 12],
    load 30 21 0, load 31 21 1, Stmt.view 32 31, alloc 34, setFields 34 [30, 32],
    alloc 40, setFields 40 [14, 34]], 40⟩

/-- multivariate `mean` / `smooth` with a user-supplied `points` LIST (variable 1): each component of
the result sits on the corresponding element of the caller's list (the list itself is only read) -/
def skMultiOnPoints : Skel :=
  ⟨[load 20 1 0, load 21 1 1, alloc 13, alloc 14, setFields 14 [20, 13], alloc 33, alloc 34, setFields 34 [21, 33],
    alloc 40, setFields 40 [14, 34]], 40⟩

/-- multivariate `covariance` with a `points` list: new argvals holding each given array twice -/
def skMultiCovarianceOnPoints : Skel :=
  ⟨[load 20 1 0, load 21 1 1,
    load 11 20 0, alloc 12, setFields 12 [11, 11], alloc 13, alloc 14, setFields 14 [12, 13],
    load 31 21 0, alloc 32, setFields 32 [31, 31], alloc 33, alloc 34, setFields 34 [32, 33],
    alloc 40, setFields 40 [14, 34], setCache 0 [40]], 40⟩

/-- `MFPCA.fit(data, points=[None, grid])` as seeded in round 5: fills the `None` entries of the
CALLER's list (variable 2) in place -/
def skFitFillsPointsList : Skel :=
  ⟨[load 10 1 0, load 11 10 0, setFields 2 [11, 11], alloc 12, setCache 0 [12]], 12⟩

/-- `UFPCA.transform(data)` / `MFPCA.transform` / `FCPTPA.transform`: variable 1 is the data
argument (only read), the scores are a new array -/
def skTransform : Skel :=
  ⟨[loadCache 10 0 0, load 11 1 0, load 12 1 1, alloc 13], 13⟩

/-- `inverse_transform(scores)`: variable 1 is the caller's score array — only read; the result is
a new object on new argvals that hold the sampling arrays of the stored eigenfunctions -/
def skInverseTransform : Skel :=
  ⟨[loadCache 10 0 0, load 11 10 0, copyDict 12 11, move 13 1, alloc 14, alloc 15, setFields 15 [12, 14]], 15⟩

/-- `inverse_transform` as seeded in round 2 (`scores *= sqrt(weights)`): writes into the caller's array -/
def skInverseTransformInPlace : Skel :=
  ⟨[loadCache 10 0 0, load 11 10 0, copyDict 12 11, move 13 1, writeData 13 1, alloc 14, alloc 15,
    setFields 15 [12, 14]], 15⟩

/-- What the OWNER of a result may do to it afterwards — container methods of the returned object
(`result.pop()`, `result.reverse()`, `result.append(…)`, `del result[k]`, `popitem`): an in-place
write to the cell of the result. -/
def ownerEdits (ret : Nat) : List Stmt := [popKey ret 0, setFields ret []]

/-- the result is the caller's own: the method followed by the owner's edits still passes the
check, i.e. the returned variable holds a cell allocated inside the call -/
def resultOwned (sk : Skel) : Bool := check (sk.body ++ ownerEdits sk.ret) []

/-- A method that hands back the input container itself: `return self` (the `to_grid` fast path seeded
in round 6), and `MultivariateFunctionalData.copy()` of the current tree — `UserList.copy` calls
`self.__class__(self)` and the constructor stores its argument as `.data` without copying, so the
list the "copy" works on IS the original object. -/
def skReturnsInputContainer : Skel := ⟨[move 40 0], 40⟩

/-- the table used by the driver -/
def skelOf : String → Option Skel
  | "copy_argvals" => some skCopyArgvals
  | "share_argvals" => some skShareArgvals
  | "fresh" => some skFresh
  | "rescale" => some skRescale
  | "covariance_dense" => some skCovarianceDense
  | "to_basis_dense" => some skToBasisDense
  | "concat_irregular" => some skConcatIrregular
  | "basis_share" => some skBasisShare
  | "basis_rescale" => some skBasisRescale
  | "basis_covariance" => some skBasisCovariance
  | "basis_to_grid" => some skBasisToGrid
  | "basis_standardize" => some skBasisStandardize
  | "basis_standardize_nocenter" => some skBasisStandardizeNoCenter
  | "basis_standardize_coded" => some skBasisStandardizeCoded
  | "multi_copy_argvals" => some skMultiCopyArgvals
  | "multi_share_argvals" => some skMultiShareArgvals
  | "multi_covariance" => some skMultiCovariance
  | "multi_rescale" => some skMultiRescale
  | "multi_to_basis" => some skMultiToBasis
  | "multi_to_grid" => some skMultiToGrid
  | "returns_input_container" => some skReturnsInputContainer
  | "estimator_fit" => some skEstimatorFit
  | "estimator_apply" => some skEstimatorApply
  | "mfpca_fit" => some skMFPCAFit
  | "mfpca_fit_coded" => some skMFPCAFitCoded
  | "multi_on_points" => some skMultiOnPoints
  | "multi_covariance_on_points" => some skMultiCovarianceOnPoints
  | "getitem_view" => some skGetitemView
  | "multi_getitem_view" => some skMultiGetitemView
  | "transform" => some skTransform
  | "inverse_transform" => some skInverseTransform
  | name =>
    -- parametric: `getitem_irregular:<i.j.k>`
    match name.splitOn ":" with
    | ["getitem_irregular", idx] => ((idx.splitOn ".").mapM String.toNat?).map skGetitemIrregular
    | _ => none

end FDA.Alias
