/-
Fourier and Wiener basis functions over `ℝ` (`FDApy/misc/basis.py::_basis_fourier`,
`_basis_wiener`).  These need `sin`, `cos`, `π`, `√`, so they are noncomputable; the driver
evaluates the same formulas with `Float` (`Drivers/C18.lean`, tolerance 1e-12) — the link
between the two is by inspection only (partial clause of C18).

    # _basis_wiener, row k-1 (k = 1..K):   sqrt(2) * sin((k - 0.5) * pi * t)
    # _basis_fourier on a grid spanning [a, b], L = b - a, xx = 2*pi*(t - a)/L - pi:
    #   row 0: 1/sqrt(L);  row k odd: sqrt(2/L)*cos(((k+1)//2)*xx);  row k even: sqrt(2/L)*sin(((k+1)//2)*xx)
-/
import Mathlib.Analysis.SpecialFunctions.Trigonometric.Basic
import Mathlib.Analysis.SpecialFunctions.Sqrt
import Mathlib.Algebra.BigOperators.Group.Finset.Basic

namespace FDA.BasesReal
open Real Finset

/-- `_basis_wiener` row `k − 1`: `√2·sin((k − ½)πt)`, `k ≥ 1`. -/
noncomputable def wiener (k : ℕ) (t : ℝ) : ℝ := √2 * sin (((k : ℝ) - 1 / 2) * π * t)

/-- `xx = 2π(t − a)/(b − a) − π`. -/
noncomputable def fourierAngle (a b t : ℝ) : ℝ := 2 * π * (t - a) / (b - a) - π

/-- `_basis_fourier` row `k` on the interval `[a, b]` spanned by the grid. -/
noncomputable def fourier (a b : ℝ) (k : ℕ) (t : ℝ) : ℝ :=
  if k = 0 then 1 / √(b - a)
  else if k % 2 = 1 then √(2 / (b - a)) * cos ((((k + 1) / 2 : ℕ) : ℝ) * fourierAngle a b t)
  else √(2 / (b - a)) * sin ((((k + 1) / 2 : ℕ) : ℝ) * fourierAngle a b t)

/-- Trapezoid rule on the uniform grid `t_i = a + i·(b−a)/N`, `i = 0..N` (what `np.trapz` computes
there, over `ℝ`). -/
noncomputable def trapzU (a b : ℝ) (N : ℕ) (f : ℝ → ℝ) : ℝ :=
  ∑ i ∈ range N, ((b - a) / N) * ((f (a + (i : ℝ) * ((b - a) / N)) + f (a + ((i : ℝ) + 1) * ((b - a) / N))) / 2)

end FDA.BasesReal
