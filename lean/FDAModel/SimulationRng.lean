/-
C19 — model of the random sources and of the advertised structure of the
simulators (`FDApy/simulation/{simulation,karhunen,brownian,datasets}.py`).
Import-free.

Part 1 (reproducibility).  A generator is an abstract deterministic stream
(`next : G → D × G`).  The world holds the legacy global generator and one
generator per simulator.  Every simulator operation is a *random program*
(`Prog`): a tree of draws, each naming its source (`own` / `global`), whose
continuation may depend on the drawn value (the fallback draw of `sparsify`
does), returning the list of drawn values — the data are a pure function of
them.  `opProg` gives the program of each operation of each simulator
(draw counts of DESIGN A.6, re-measured by the harness on every run).

Part 2 (structure).  `labels` (`_make_coef`), `eigLinear/Quadratic/Inverse`
(`_eigenvalues_*`), `klData` (`BasisFunctionalData.to_grid`: coefficients times
basis), `standardPath` (`_standard_brownian`), `geomPath`
(`_geometric_brownian`, exp factors as inputs), `gridRegular`
(`Brownian.new`: `np.isclose(diff, diff[0])`).
-/
namespace FDA.Rng

inductive Src where
  | own
  | global
deriving DecidableEq, Repr

/-- A random program. -/
inductive Prog (D O : Type) where
  | ret (o : O)
  | draw (s : Src) (k : D → Prog D O)

def Prog.bind : Prog D O → (O → Prog D O') → Prog D O'
  | .ret o, f => f o
  | .draw s k, f => .draw s fun d => (k d).bind f

def Prog.map (f : O → O') (p : Prog D O) : Prog D O' := p.bind fun o => .ret (f o)

/-- The world: the global generator and the generator of every simulator (by identifier). -/
structure World (G : Type) where
  glob : G
  own : Nat → G

def setOwn (w : World G) (a : Nat) (g : G) : World G :=
  { w with own := fun b => if b = a then g else w.own b }

/-- Run a program of simulator `a` in the world. -/
def Prog.run (next : G → D × G) (a : Nat) : Prog D O → World G → O × World G
  | .ret o, w => (o, w)
  | .draw .own k, w => Prog.run next a (k (next (w.own a)).1) (setOwn w a (next (w.own a)).2)
  | .draw .global k, w => Prog.run next a (k (next w.glob).1) { w with glob := (next w.glob).2 }

/-- Run a program on a single generator (every draw from it). -/
def Prog.runOwn (next : G → D × G) : Prog D O → G → O × G
  | .ret o, g => (o, g)
  | .draw _ k, g => Prog.runOwn next (k (next g).1) (next g).2

/-- Every draw of the program uses the simulator's own generator. -/
inductive AllOwn : Prog D O → Prop where
  | ret (o : O) : AllOwn (.ret o)
  | draw (k : D → Prog D O) (h : ∀ d, AllOwn (k d)) : AllOwn (.draw .own k)

/-- `n` unrelated draws from the global generator -/
def drainGlobal (next : G → D × G) : Nat → G → G
  | 0, g => g
  | n + 1, g => drainGlobal next n (next g).2

/-- An interleaved history: operations of simulators and unrelated global activity. -/
inductive Ev (D O : Type) where
  | op (a : Nat) (p : Prog D O)
  | other (n : Nat)

def runTrace (next : G → D × G) : List (Ev D O) → World G → List (Nat × O) × World G
  | [], w => ([], w)
  | .op a p :: tr, w =>
    let r := p.run next a w
    let rest := runTrace next tr r.2
    ((a, r.1) :: rest.1, rest.2)
  | .other n :: tr, w => runTrace next tr { w with glob := drainGlobal next n w.glob }

/-- the outputs of simulator `a` in a history -/
def outputsOf (a : Nat) (l : List (Nat × O)) : List O :=
  l.filterMap fun x => if x.1 = a then some x.2 else none

/-- the operations of simulator `a` in a history -/
def opsOf (a : Nat) : List (Ev D O) → List (Prog D O)
  | [] => []
  | .op b p :: tr => if b = a then p :: opsOf a tr else opsOf a tr
  | .other _ :: tr => opsOf a tr

/-- a call sequence run on one generator alone -/
def runSeq (next : G → D × G) : List (Prog D O) → G → List O × G
  | [], g => ([], g)
  | p :: ps, g =>
    let r := p.runOwn next g
    let rest := runSeq next ps r.2
    (r.1 :: rest.1, rest.2)

/-! ### the programs of the simulator operations -/

/-- `n` draws from `s`, returned in order -/
def drawN (s : Src) : Nat → Prog D (List D)
  | 0 => .ret []
  | n + 1 => .draw s fun d => (drawN s n).map (d :: ·)

/-- one curve of `_sparsify_univariate_data`: the mask draw, then the fallback draw iff the
mask keeps fewer than two samples (`needs`) -/
def curveProg (needs : D → Bool) (s : Src) : Prog D (List D) :=
  .draw s fun m => if needs m then .draw s fun pr => .ret [m, pr] else .ret [m]

def curvesProg (needs : D → Bool) (s : Src) : Nat → Prog D (List D)
  | 0 => .ret []
  | n + 1 => (curveProg needs s).bind fun a => (curvesProg needs s n).map (a ++ ·)

/-- one component of `sparsify`: `runif`, then the curves -/
def sparsifyCompProg (needs : D → Bool) (s : Src) (nCurves : Nat) : Prog D (List D) :=
  .draw s fun u => (curvesProg needs s nCurves).map (u :: ·)

def sparsifyProg (needs : D → Bool) (s : Src) : List Nat → Prog D (List D)
  | [] => .ret []
  | n :: ns => (sparsifyCompProg needs s n).bind fun a => (sparsifyProg needs s ns).map (a ++ ·)

inductive SimKind where
  | kl | brownianStandard | brownianGeometric | brownianFractional | datasets
deriving DecidableEq, Repr

/-- number of generator calls of `new` (DESIGN A.6): KL one `multivariate_normal` per cluster;
standard Brownian one `normal` per grid step and curve; geometric one per curve; fractional two
per curve; Zhang–Chen two per curve -/
def newDraws (k : SimKind) (nObs nClusters nPoints : Nat) : Nat :=
  match k with
  | .kl => nClusters
  | .brownianStandard => nObs * (nPoints - 1)
  | .brownianGeometric => nObs
  | .brownianFractional => 2 * nObs
  | .datasets => 2 * nObs

/-- Configuration of the random sources of a simulator: was a seed given, and does `new`
thread the simulator's generator (in the tree before the repair `Datasets.new` did not). -/
structure Cfg where
  seeded : Bool
  newThreaded : Bool
deriving DecidableEq, Repr

def Cfg.src (c : Cfg) : Src := if c.seeded then .own else .global
def Cfg.newSrc (c : Cfg) : Src := if c.seeded && c.newThreaded then .own else .global

inductive Op where
  | new (k : SimKind) (nObs nClusters nPoints : Nat)
  | addNoise (nComp : Nat)
  | sparsify (curves : List Nat)          -- number of curves per component
  | combined (curves : List Nat)
deriving Repr

def opProg (needs : D → Bool) (c : Cfg) : Op → Prog D (List D)
  | .new k n kc m => drawN c.newSrc (newDraws k n kc m)
  | .addNoise nc => drawN c.src nc
  | .sparsify cs => sparsifyProg needs c.src cs
  | .combined cs => (drawN c.src cs.length).bind fun a => (sparsifyProg needs c.src cs).map (a ++ ·)

/-- the configuration of the target tree: every simulator threads its generator -/
def cfgTarget (seeded : Bool) (_k : SimKind) : Cfg := ⟨seeded, true⟩
/-- the tree before the repair: `Datasets.new` calls `_zhang_chen` without `rnorm` -/
def cfgBefore (seeded : Bool) (k : SimKind) : Cfg := ⟨seeded, k != .datasets⟩

/-- the next `k` values of a stream -/
def streamTake (next : G → D × G) : Nat → G → List D
  | 0, _ => []
  | k + 1, g => (next g).1 :: streamTake next k (next g).2

/-- the stream after `k` draws -/
def streamDrop (next : G → D × G) : Nat → G → G
  | 0, g => g
  | k + 1, g => streamDrop next k (next g).2

/-! ### Part 2: structure -/

/-- size of cluster `g`: `n // k`, plus one for the first `n % k` clusters -/
def clusterSize (n k g : Nat) : Nat := n / k + (if g < n % k then 1 else 0)

/-- `_make_coef`: labels of the observations, cluster after cluster -/
def labels (n k : Nat) : List Nat := (List.range k).flatMap fun g => List.replicate (clusterSize n k g) g

/-- `_eigenvalues_linear(n)[i] = (n - (i+1) + 1) / n` -/
def eigLinear (n i : Nat) : Rat := ((n : Rat) - (i : Rat)) / (n : Rat)
/-- `_eigenvalues_quadratic(n)[i] = (i+1)^-2` -/
def eigQuadratic (_n i : Nat) : Rat := 1 / (((i : Rat) + 1) * ((i : Rat) + 1))
/-- `_eigenvalues_inverse(n)[i] = (i+1)^-1` -/
def eigInverse (_n i : Nat) : Rat := 1 / ((i : Rat) + 1)

def dot (a b : List Rat) : Rat := (List.zipWith (· * ·) a b).foldr (· + ·) 0

/-- column `j` of a matrix given as rows -/
def col (B : List (List Rat)) (j : Nat) : List Rat := B.map fun r => r.getD j 0

/-- `to_grid`: `einsum("ij,j...->i...", coef, basis)`; basis as `K` rows of `m` values -/
def klData (coef B : List (List Rat)) (m : Nat) : List (List Rat) :=
  coef.map fun c => (List.range m).map fun j => dot c (col B j)

/-- `coefficients × basis` contracted over axis `ca` of the coefficients (rows = 0, columns = 1) and
axis `ba` of the basis values: entry `(i, j)` of the product -/
def contractEntry (ca ba : Nat) (coef B : List (List Rat)) (i j : Nat) : Rat :=
  dot (if ca = 1 then coef.getD i [] else col coef i) (if ba = 0 then col B j else B.getD j [])

/-- what `KarhunenLoeve.new` stores in `eigenvalues`: a column of `clusters_std` -/
def storedEigenvalues (clustersStd : List (List Rat)) (column : Nat) : List Rat := col clustersStd column

/-- multivariate Karhunen–Loève: the same coefficients in every component -/
def klMulti (coef : List (List Rat)) (Bs : List (List (List Rat) × Nat)) : List (List (List Rat)) :=
  Bs.map fun b => klData coef b.1 b.2

/-- `_standard_brownian`: `values[0] = init`, `values[i] = values[i-1] + sqrt(delta) * draw_i` -/
def standardPath (init sd : Rat) : List Rat → List Rat
  | [] => [init]
  | z :: zs => init :: standardPath (init + sd * z) sd zs

/-- `_geometric_brownian`: `init * cumprod(factors)` (the factors are the `exp(…)` values) -/
def geomPath (init : Rat) : List Rat → List Rat
  | [] => []
  | f :: fs => (init * f) :: geomPath (init * f) fs

/-- `_zhang_chen`, one curve: `mu + vi + eps` with `mu = 1.2 + 2.3 cos + 4.2 sin`,
`vi = c0 + c1 cos + c2 sin` (the `cos(2πt)`, `sin(2πt)` values and the scaled draws are inputs) -/
def zhangChenRow (cosv sinv : List Rat) (c0 c1 c2 : Rat) (eps : List Rat) : List Rat :=
  List.zipWith (fun (cs : Rat × Rat) (e : Rat) =>
    ((6 : Rat) / 5 + (23 : Rat) / 10 * cs.1 + (21 : Rat) / 5 * cs.2) + (c0 + c1 * cs.1 + c2 * cs.2) + e) (cosv.zip sinv) eps

def diffs : List Rat → List Rat
  | a :: b :: t => (b - a) :: diffs (b :: t)
  | _ => []

def ratAbs (q : Rat) : Rat := if q < 0 then -q else q

/-- `np.isclose(a, b)` with the default tolerances: `|a - b| ≤ 1e-8 + 1e-5 |b|` -/
def isclose (a b : Rat) : Bool := decide (ratAbs (a - b) ≤ 1 / 100000000 + 1 / 100000 * ratAbs b)

/-- `np.all(np.isclose(diff, diff[0]))` -/
def gridRegular (t : List Rat) : Bool :=
  match diffs t with
  | [] => true
  | d0 :: ds => (d0 :: ds).all fun d => isclose d d0

inductive GridErr where
  | irregular
deriving DecidableEq, Repr

/-- the guard of `Brownian.new` on user-supplied sampling points -/
def brownianGrid (t : List Rat) : Except GridErr (List Rat) :=
  if gridRegular t then .ok t else .error .irregular

end FDA.Rng
