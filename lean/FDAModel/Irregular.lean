/-
C15 — irregular 1-D data in their two encodings, every operation modelled AS THE
CODE TREATS EACH ENCODING.

Content of a dataset: a common grid `g : List ℚ` (strictly increasing) and per
curve a row `r : List (Option ℚ)` (`none` = not observed).

* NaN encoding (`_sparsify_univariate_data`): argvals = the whole grid for every
  curve, values = the row with `NaN` for `none`.
* Ragged encoding (`_read_csv_irregular`): argvals = the observed points,
  values = the observed values (`Tab.ragged g r`).

Mirrors `IrregularFunctionalData.{to_long, n_points, smooth, center, norm,
noise_variance, covariance, inner_product, _perform_computation*}` and
`IrregularArgvals.to_dense` of the tree with the candidate repairs (the LP branch
of `smooth` drops the NaN samples).
-/
import FDAModel.Core.Quadrature
import FDAModel.Tabular

namespace FDA.Irr
open FDA.Tab

abbrev Row := List (Option ℚ)

/-- A curve in the NaN encoding: `(argvals, values)` of equal length. -/
structure NaNCurve where
  pts : List ℚ
  vals : Row

/-- A curve in the ragged encoding: its `(point, value)` pairs. -/
abbrev RagCurve := List (ℚ × ℚ)

def encNaN (g : List ℚ) (r : Row) : NaNCurve := ⟨g, r⟩
def encRagged (g : List ℚ) (r : Row) : RagCurve := ragged g r

/-- `values[~np.isnan(values)]` together with `argvals[~np.isnan(values)]`
(`dropna`, the NaN filters of `noise_variance`, `covariance`, the repaired LP
branch): what the code keeps of a NaN-encoded curve. -/
def dropNaN (c : NaNCurve) : RagCurve := ragged c.pts c.vals

/-! ### to_long -/

/-- `to_long` on NaN-encoded curves (labels `i, i+1, …`): all cells, then `dropna()`. -/
def toLongNaN : ℕ → List NaNCurve → List (ℚ × ℕ × ℚ)
  | _, [] => []
  | i, c :: cs =>
    ((c.pts.zip c.vals).filterMap fun (x, v) => v.map fun y => (x, i, y)) ++ toLongNaN (i + 1) cs

/-- `to_long` on ragged curves. -/
def toLongRag : ℕ → List RagCurve → List (ℚ × ℕ × ℚ)
  | _, [] => []
  | i, c :: cs => (c.map fun (x, y) => (x, i, y)) ++ toLongRag (i + 1) cs

/-! ### number of sampling points (the default LP bandwidth is `mean(n_points)^(-1/5)`) -/

def nPointsNaN (c : NaNCurve) : ℕ := c.pts.length
def nPointsRag (c : RagCurve) : ℕ := c.length

/-! ### smoothing inputs -/

/-- Repaired LP branch of `smooth`: `y[mask], x[mask]` with `mask = ~isnan(y)`. -/
def lpInputsNaN (c : NaNCurve) : List (ℚ × ℚ) := dropNaN c
def lpInputsRag (c : RagCurve) : List (ℚ × ℚ) := c

/-- Unrepaired LP branch: the NaN values reach the regression. -/
def lpInputsNaNOld (c : NaNCurve) : List (ℚ × Option ℚ) := c.pts.zip c.vals

/-- A NaN-propagating weighted sum (`0 * NaN = NaN`): what any linear smoother
computes from inputs containing NaN. -/
def nanDot : List ℚ → List (Option ℚ) → Option ℚ
  | w :: ws, some y :: ys => (nanDot ws ys).map (w * y + ·)
  | _ :: _, none :: _ => none
  | _, _ => some 0

/-- P-spline branch on the NaN encoding: `weights[isnan(y)] = 0; y[isnan(y)] = 0`,
then `B W Bᵀ` and `B W y` over the whole grid.  `B k x` = basis function `k` at `x`
(same knots for both encodings: the domain is the range of the data). -/
def psW (v : Option ℚ) : ℚ := if v.isSome then 1 else 0

def psMatNaN (B : ℕ → ℚ → ℚ) (c : NaNCurve) (k l : ℕ) : ℚ :=
  ((c.pts.zip c.vals).map fun (x, v) => B k x * psW v * B l x).sum

def psRhsNaN (B : ℕ → ℚ → ℚ) (c : NaNCurve) (k : ℕ) : ℚ :=
  ((c.pts.zip c.vals).map fun (x, v) => B k x * psW v * v.getD 0).sum

/-- P-spline branch on the ragged encoding: unit weights on the observed points. -/
def psMatRag (B : ℕ → ℚ → ℚ) (c : RagCurve) (k l : ℕ) : ℚ :=
  (c.map fun (x, _) => B k x * 1 * B l x).sum

def psRhsRag (B : ℕ → ℚ → ℚ) (c : RagCurve) (k : ℕ) : ℚ :=
  (c.map fun (x, y) => B k x * 1 * y).sum

/-! ### inputs of `mean(method_smoothing="PS")` -/

/-- `_format_data(x, y)`: the long table laid on the sorted distinct points by
`new_y[indices] = obs`, which OVERWRITES: at every point the value listed LAST survives
(`0` where nothing is listed). -/
def formatData (d : List ℚ) (long : List (ℚ × ℕ × ℚ)) : List ℚ :=
  d.map fun x => ((long.filter fun row => row.1 = x).getLast?.map fun row => row.2.2).getD 0

/-- `weights[new_y == 0] = 0`. -/
def formatWeights (ys : List ℚ) : List ℚ := ys.map fun y => if y = 0 then 0 else 1

/-! ### interpolation (`smooth(method="interpolation")`, used by `norm` and `inner_product`) -/

/-- `np.interp(x, xp, fp)` for increasing `xp`: linear between samples, constant
outside. (`np.interp` raises on empty input: the empty case is guarded by the callers.) -/
def interp : List (ℚ × ℚ) → ℚ → ℚ
  | [], _ => 0
  | [(_, y0)], _ => y0
  | (x0, y0) :: (x1, y1) :: rest, x =>
    if x ≤ x0 then y0
    else if x ≤ x1 then y0 + (x - x0) * ((y1 - y0) / (x1 - x0))
    else interp ((x1, y1) :: rest) x

/-- NaN encoding: `obs.to_long()` (with `dropna`) feeds `np.interp`. -/
def interpNaN (c : NaNCurve) (x : ℚ) : ℚ := interp (dropNaN c) x
def interpRag (c : RagCurve) (x : ℚ) : ℚ := interp c x

/-- `norm(squared=True)` of one curve: the dense squared norm of the interpolant on
the union grid `d` (`m = d.length`). -/
def normSqNaN (d : List ℚ) (c : NaNCurve) : ℚ :=
  normSq d.length (fun j => d.getD j 0) (fun j => interpNaN c (d.getD j 0))
def normSqRag (d : List ℚ) (c : RagCurve) : ℚ :=
  normSq d.length (fun j => d.getD j 0) (fun j => interpRag c (d.getD j 0))

/-! ### centring (positional: `np.isin` mask on the union grid) -/

/-- `a[mask]`. -/
def select {α : Type} : List Bool → List α → List α
  | true :: ms, a :: as => a :: select ms as
  | false :: ms, _ :: as => select ms as
  | _, _ => []

/-- `np.isin(d, pts)`. -/
def isin (d pts : List ℚ) : List Bool := d.map fun x => decide (x ∈ pts)

/-- `center` on a NaN-encoded curve: `values - mean[isin(d, argvals)]` (NaN stays NaN). -/
def centerNaN (d μ : List ℚ) (c : NaNCurve) : NaNCurve :=
  ⟨c.pts, List.zipWith (fun v m => v.map (· - m)) c.vals (select (isin d c.pts) μ)⟩

def centerRag (d μ : List ℚ) (c : RagCurve) : RagCurve :=
  List.zipWith (fun p m => (p.1, p.2 - m)) c (select (isin d (c.map Prod.fst)) μ)

/-! ### noise variance -/

/-- `_estimate_noise_variance(x, order)` with the difference sequence `w`
(`order = w.length - 1`): `0` for a curve with fewer than `order + 1` samples, else the
mean of the squared differences. -/
def noiseVar1 (w xs : List ℚ) : ℚ :=
  if xs.length < w.length then 0
  else
    let k := xs.length + 1 - w.length
    ((List.range k).map fun i =>
        ((List.zipWith (· * ·) w (xs.drop i)).sum) ^ 2).sum / k

/-- `noise_variance`: `np.nanmean` over the curves (every term is a number here). -/
def noiseVarNaN (w : List ℚ) (cs : List NaNCurve) : ℚ :=
  (cs.map fun c => noiseVar1 w (c.vals.filterMap id)).sum / cs.length
def noiseVarRag (w : List ℚ) (cs : List RagCurve) : ℚ :=
  (cs.map fun c => noiseVar1 w (c.map Prod.snd)).sum / cs.length

/-! ### raw covariance (`covariance(smooth=False)`, after centring or with `center=False`) -/

/-- Values written at the `true` positions of a mask, in order
(`cov_sum[mask] += …` pairs the `p`-th `true` with the `p`-th value). -/
def scatter : List Bool → List ℚ → Row
  | true :: ms, v :: vs => some v :: scatter ms vs
  | true :: ms, [] => none :: scatter ms []
  | false :: ms, vs => none :: scatter ms vs
  | [], _ => []

/-- The row of a curve on the union grid as `covariance` sees it. -/
def onGridRag (d : List ℚ) (c : RagCurve) : Row := scatter (isin d (c.map Prod.fst)) (c.map Prod.snd)
/-- NaN encoding: the NaN samples are dropped first (`nan_mask`), then the same code. -/
def onGridNaN (d : List ℚ) (c : NaNCurve) : Row := onGridRag d (dropNaN c)

def prodOpt (a b : Option ℚ) : ℚ := match a, b with
  | some x, some y => x * y
  | _, _ => 0
def bothOpt (a b : Option ℚ) : ℚ := match a, b with
  | some _, some _ => 1
  | _, _ => 0

/-- `cov_sum / cov_count` with `where=(cov_count != 0)`, `out=zeros`. -/
def covRaw (rows : List Row) (j k : ℕ) : ℚ :=
  let s := (rows.map fun r => prodOpt (r.getD j none) (r.getD k none)).sum
  let n := (rows.map fun r => bothOpt (r.getD j none) (r.getD k none)).sum
  if n = 0 then 0 else s / n

def covCount (rows : List Row) (j k : ℕ) : ℚ :=
  (rows.map fun r => bothOpt (r.getD j none) (r.getD k none)).sum

def covNaN (d : List ℚ) (cs : List NaNCurve) (j k : ℕ) : ℚ := covRaw (cs.map (onGridNaN d)) j k
def covRag (d : List ℚ) (cs : List RagCurve) (j k : ℕ) : ℚ := covRaw (cs.map (onGridRag d)) j k

/-! ### Gram matrix (`inner_product`): centre, interpolate, dense Gram matrix -/

def gramNaN (d μ : List ℚ) (cs : List NaNCurve) (σ2 : ℚ) (i k : ℕ) : ℚ :=
  gramImpl cs.length d.length (fun j => d.getD j 0)
    (fun a j => interpNaN ((cs.map (centerNaN d μ)).getD a ⟨[], []⟩) (d.getD j 0)) σ2 i k

def gramRag (d μ : List ℚ) (cs : List RagCurve) (σ2 : ℚ) (i k : ℕ) : ℚ :=
  gramImpl cs.length d.length (fun j => d.getD j 0)
    (fun a j => interpRag ((cs.map (centerRag d μ)).getD a []) (d.getD j 0)) σ2 i k

/-! ### arithmetic -/

/-- NaN encoding: NumPy arithmetic on the value arrays (NaN propagates). -/
def opNaN (f : ℚ → ℚ → ℚ) (a b : NaNCurve) : NaNCurve :=
  ⟨a.pts, List.zipWith (fun u v => match u, v with
    | some x, some y => some (f x y)
    | _, _ => none) a.vals b.vals⟩

def opRag (f : ℚ → ℚ → ℚ) (a b : RagCurve) : RagCurve :=
  List.zipWith (fun p q => (p.1, f p.2 q.2)) a b

def opNumNaN (f : ℚ → ℚ → ℚ) (s : ℚ) (a : NaNCurve) : NaNCurve := ⟨a.pts, a.vals.map (Option.map (f · s))⟩
def opNumRag (f : ℚ → ℚ → ℚ) (s : ℚ) (a : RagCurve) : RagCurve := a.map fun p => (p.1, f p.2 s)

/-! ### union grid (`IrregularArgvals.to_dense`: `np.unique(np.concatenate(...))`) -/

/-- Sorted insertion without duplicates. -/
def insertU (x : ℚ) : List ℚ → List ℚ
  | [] => [x]
  | y :: ys => if x < y then x :: y :: ys else if x = y then y :: ys else y :: insertU x ys

/-- `np.unique` of a list: sorted, duplicates dropped. -/
def unique (l : List ℚ) : List ℚ := l.foldr insertU []

def toDenseNaN (cs : List NaNCurve) : List ℚ := unique (cs.flatMap (·.pts))
def toDenseRag (cs : List RagCurve) : List ℚ := unique (cs.flatMap fun c => c.map Prod.fst)

/-! ### the irregular mean: pooling, `approx` binning, a parameter smoother -/

/-- `fdata_long.groupby(points).mean()`: one row per distinct point (sorted), the average
of the values pooled at that point. -/
def binned (long : List (ℚ × ℕ × ℚ)) : List (ℚ × ℚ) :=
  (unique (long.map fun r => r.1)).map fun x =>
    let ys := (long.filter fun r => r.1 = x).map fun r => r.2.2
    (x, ys.sum / ys.length)

/-- `approx and len(fdata_long) > 2000`. -/
def approxSwitch (approx : Bool) (n : ℕ) : Bool := approx && decide (2000 < n)

/-- The samples handed to the mean smoother: the pooled long table, replaced by its
per-point averages when `approx` and more than 2000 samples are pooled. -/
def meanInputs (approx : Bool) (long : List (ℚ × ℕ × ℚ)) : List (ℚ × ℚ) :=
  if approxSwitch approx long.length then binned long else long.map fun r => (r.1, r.2.2)

/-- `mean(points=d, method_smoothing=…)` with the smoother as a parameter `S samples d`. -/
def meanNaN (S : List (ℚ × ℚ) → List ℚ → List ℚ) (approx : Bool) (d : List ℚ) (cs : List NaNCurve) : List ℚ :=
  S (meanInputs approx (toLongNaN 0 cs)) d
def meanRag (S : List (ℚ × ℚ) → List ℚ → List ℚ) (approx : Bool) (d : List ℚ) (cs : List RagCurve) : List ℚ :=
  S (meanInputs approx (toLongRag 0 cs)) d

/-- `inner_product(method_smoothing=…)` end to end: estimate the mean, centre, interpolate,
dense Gram matrix. -/
def innerProductNaN (S : List (ℚ × ℚ) → List ℚ → List ℚ) (approx : Bool) (d : List ℚ)
    (cs : List NaNCurve) (σ2 : ℚ) (i k : ℕ) : ℚ := gramNaN d (meanNaN S approx d cs) cs σ2 i k
def innerProductRag (S : List (ℚ × ℚ) → List ℚ → List ℚ) (approx : Bool) (d : List ℚ)
    (cs : List RagCurve) (σ2 : ℚ) (i k : ℕ) : ℚ := gramRag d (meanRag S approx d cs) cs σ2 i k

/-- `covariance(smooth=False)` end to end: estimate the mean, centre, pairwise-complete averages. -/
def covarianceNaN (S : List (ℚ × ℚ) → List ℚ → List ℚ) (approx : Bool) (d : List ℚ)
    (cs : List NaNCurve) (j k : ℕ) : ℚ := covNaN d (cs.map (centerNaN d (meanNaN S approx d cs))) j k
def covarianceRag (S : List (ℚ × ℚ) → List ℚ → List ℚ) (approx : Bool) (d : List ℚ)
    (cs : List RagCurve) (j k : ℕ) : ℚ := covRag d (cs.map (centerRag d (meanRag S approx d cs))) j k

/-! ### standardisation (`standardize`): guard and output buffer of the guarded division -/

/-- `where=(std_obs > 1e-12)`; `std_obs` is the square root of the smoothed variance, NaN
(`none`) where that variance is negative: a comparison with NaN is `False`. -/
def stdGuard : Option ℚ → Bool
  | none => false
  | some s => decide ((1 : ℚ) / 1000000000000 < s)

/-- `out=np.where(np.isnan(values), np.nan, 0.0)` (repaired code): what the result holds where
the guard is false — NaN at a missing sample, 0 at an observed one. -/
def stdBuffer : Option ℚ → Option ℚ
  | none => none
  | some _ => some 0

/-- Unrepaired buffer `np.zeros_like(values)`. -/
def stdBufferOld : Option ℚ → Option ℚ := fun _ => some 0

/-- One cell of `np.divide(values, std, out=buffer, where=guard)`. -/
def stdCell (v s : Option ℚ) : Option ℚ :=
  if stdGuard s then (match v, s with
    | some x, some y => some (x / y)
    | _, _ => none) else stdBuffer v

def stdCellOld (v s : Option ℚ) : Option ℚ :=
  if stdGuard s then (match v, s with
    | some x, some y => some (x / y)
    | _, _ => none) else stdBufferOld v

/-- `standardize` on a NaN-encoded curve: the deviations `sd` (on the union grid `d`) are
picked through the `np.isin` mask, then the guarded division. -/
def standardizeNaN (d : List ℚ) (sd : List (Option ℚ)) (c : NaNCurve) : NaNCurve :=
  ⟨c.pts, List.zipWith stdCell c.vals (select (isin d c.pts) sd)⟩

/-- On a ragged curve every value is a number. -/
def standardizeRag (d : List ℚ) (sd : List (Option ℚ)) (c : RagCurve) : RagCurve :=
  List.zipWith (fun p s => (p.1, (stdCell (some p.2) s).getD 0)) c (select (isin d (c.map Prod.fst)) sd)

/-! ### weights of the covariance smoothing -/

/-- `weights = np.ones_like(cov); weights[cov == 0] = 0`: a raw covariance that is exactly 0
(in particular a pair of points never observed together) does not enter the smoothing. -/
def covWeight (c : ℚ) : ℚ := if c = 0 then 0 else 1

end FDA.Irr
