/-
Post-processing of an eigen-decomposition in FDApy (C01), as executable
import-free definitions over core `Rat` and `List`.

Mirrors `FDApy/misc/utils.py`:
* `_select_number_eigencomponents`  ↦ `selectNpc`
* `_compute_eigen` *after* the LAPACK call ↦ `computeEigenImpl`
  (clip the negatives → `[:npc]`; **no sort**, as coded)
* what the property asks for ↦ `computeEigenSpec` (stable descending sort of
  the solver's pairs, then the same post-processing)
and the two callers' scaling (`ufpca.py:_fit_covariance` keeps the values,
`_fit_inner_product` / `mfpca.py:_fit_inner_product_multivariate` divide by `n_obs`).

The eigen-solver is a *parameter*: `raw` is whatever list of pairs
(value, vector) `np.linalg.eig` returned (real parts), in the solver's order.
-/
namespace FDA.Eigen

/-- One eigenpair as returned by the solver: value and the matching column. -/
abbrev Pair := Rat × List Rat

/-- The `n_components` / `percentage` argument, by Python class. -/
inductive Sel
  | int (k : Int)     -- `int` (and `bool`)
  | frac (p : Rat)    -- `float` / `np.float64`
  | all               -- `None`
  | bad               -- anything else (`np.int64`, `str`, …)
  deriving Repr, DecidableEq

/-- `eigenvalues[eigenvalues < 0] = 0`. -/
def clip (x : Rat) : Rat := if x < 0 then 0 else x

def clipPairs (l : List Pair) : List Pair := l.map fun p => (clip p.1, p.2)

def values (l : List Pair) : List Rat := l.map Prod.fst

def vectors (l : List Pair) : List (List Rat) := l.map Prod.snd

/-- `np.cumsum`, with the running total as accumulator. -/
def cumsumFrom (acc : Rat) : List Rat → List Rat
  | [] => []
  | x :: xs => (acc + x) :: cumsumFrom (acc + x) xs

def cumsum (l : List Rat) : List Rat := cumsumFrom 0 l

/-- `_select_number_eigencomponents(eigenvalues, percentage)`.
`int ↦ itself`; `float p < 1 ↦ 1 + #{i | cumsum_i / total < p}` (with `total = 0`
NumPy produces `nan`, every comparison is false and the answer is `1`; the
guard `total ≠ 0` mirrors that instead of relying on `x / 0 = 0`);
`None ↦ len`; everything else (a float `≥ 1` included) raises `ValueError`. -/
def selectNpc (vals : List Rat) : Sel → Except String Int
  | .int k => .ok k
  | .frac p =>
    if p < 1 then
      let total := vals.sum
      .ok ((((cumsum vals).filter fun c => decide (total ≠ 0) && decide (c / total < p)).length : Nat) + 1 : Int)
    else .error "ValueError"
  | .all => .ok (vals.length : Int)
  | .bad => .error "ValueError"

/-- Python's `l[:k]` for any integer `k` (negative counts from the end). -/
def pyTake {α : Type} (k : Int) (l : List α) : List α :=
  if 0 ≤ k then l.take k.toNat else l.take (l.length - (-k).toNat)

/-- `_compute_eigen` after the solver call, **as coded**: clip, select, slice. -/
def computeEigenImpl (raw : List Pair) (sel : Sel) : Except String (List Pair) :=
  let c := clipPairs raw
  match selectNpc (values c) sel with
  | .ok npc => .ok (pyTake npc c)
  | .error e => .error e

/-- Stable descending sort of the solver's pairs by value (pairs move together). -/
def sortDesc (raw : List Pair) : List Pair :=
  raw.mergeSort fun a b => decide (b.1 ≤ a.1)

/-- What the property asks of the eigen helper: sort, then the coded post-processing. -/
def computeEigenSpec (raw : List Pair) (sel : Sel) : Except String (List Pair) :=
  computeEigenImpl (sortDesc raw) sel

/-- Eigenvalues reported by the covariance route (`_fit_covariance`,
`_fit_covariance_multivariate`): the helper's values unchanged. -/
def eigenvaluesCov (out : List Pair) : List Rat := values out

/-- Eigenvalues reported by the Gram route (`_fit_inner_product`,
`_fit_inner_product_multivariate`): the helper's values divided by `n_obs`. -/
def eigenvaluesGram (n : Nat) (out : List Pair) : List Rat := (values out).map (· / (n : Rat))

/-- Is a list non-increasing?  (Executable form of `Pairwise (· ≥ ·)` for adjacent
entries; used by the driver to report the cause flag of the open finding.) -/
def nonIncreasing : List Rat → Bool
  | [] => true
  | [_] => true
  | a :: b :: t => decide (b ≤ a) && nonIncreasing (b :: t)

/-- `_select_number_eigencomponents` with the source-level choices left open: strictness of the
comparison `var_explained ? percentage` (`strict = true` for `<`), the added constant, and the guard
`percentage ? bound` of the float branch.  `harness/c01.py:translate()` extracts these from
`FDApy/misc/utils.py` with `ast` into `Generated/SelectNpc.lean`; `C01.source_selectNpc` proves that the
extracted instance is the model's `selectNpc`. -/
def selectNpcParam (strict : Bool) (offset : Nat) (boundStrict : Bool) (bound : Rat)
    (vals : List Rat) : Sel → Except String Int
  | .int k => .ok k
  | .frac p =>
    if (if boundStrict then decide (p < bound) else decide (p ≤ bound)) then
      let total := vals.sum
      .ok ((((cumsum vals).filter fun c =>
        decide (total ≠ 0) && (if strict then decide (c / total < p) else decide (c / total ≤ p))).length : Nat)
          + offset : Int)
    else .error "ValueError"
  | .all => .ok (vals.length : Int)
  | .bad => .error "ValueError"

/-- Solver pairs of `G − σ²I` from those of `G`: values shifted, vectors unchanged. -/
def shiftPairs (σ2 : Rat) (l : List Pair) : List Pair := l.map fun p => (p.1 - σ2, p.2)

end FDA.Eigen
