/-
C11 — the functional-data containers as a state machine over *shapes* (import-free).

The state holds what the consistency invariant talks about and nothing else:
numbers of sampling points, array shapes, labels, and opaque content tags (a
grid tag `g` per `DenseArgvals`, a row tag `r` per observation) that only `==`
(used by `MultivariateFunctionalData.remove`) looks at.

Mirrors (tree under validation):
  `DenseFunctionalData.__init__` / `argvals` / `values` setters, `__getitem__`, `concatenate`
  `IrregularFunctionalData.…` idem, `GridFunctionalData.argvals_stand` setter, `__eq__`
  `MultivariateFunctionalData.__init__`, `append`, `extend`, `insert`, `remove`, `pop`,
  `clear`, `reverse`, `__getitem__`, `concatenate`, `n_obs`, `n_functional`, `n_dimension`, `n_points`.
-/
import FDAModel.Select

namespace FDA.Containers
open FDA.Dict FDA.Slice FDA.Select

abbrev Shape := List Nat

/-- Sampling points of one observation of an `IrregularArgvals`: points per dimension, grid tag. -/
structure AObs where
  pts : Shape
  g : Nat
  deriving DecidableEq, Repr

/-- Values of one observation of an `IrregularValues`: array shape, content tag. -/
structure VObs where
  shape : Shape
  r : Nat
  deriving DecidableEq, Repr

/-- What can be offered where sampling points are expected. -/
inductive ArgV
  | dense (pts : Shape) (g : Nat)     -- a `DenseArgvals`
  | irreg (obs : D AObs)              -- an `IrregularArgvals`
  | other                             -- not an `Argvals` (a number, a plain dict, an array)
  | bad                               -- building the typed dictionary raises `TypeError`
  deriving DecidableEq, Repr

/-- What can be offered where values are expected. -/
inductive ValV
  | dense (rows : List Nat) (pts : Shape)  -- a `DenseValues` of shape `(len rows, *pts)`, row tags
  | irreg (obs : D VObs)                   -- an `IrregularValues`
  | other
  | bad
  deriving DecidableEq, Repr

/-- Shape of the standardised sampling points. -/
inductive Stand
  | dense (pts : Shape)
  | irreg (obs : D Shape)
  deriving DecidableEq, Repr

/-- A `DenseFunctionalData` / `IrregularFunctionalData` object. -/
inductive Grid
  | dense (pts : Shape) (g : Nat) (rows : List Nat) (vpts : Shape) (stand : Stand)
  | irreg (a : D AObs) (v : D VObs) (stand : Stand)
  deriving DecidableEq, Repr

/-- The variable the history acts on. -/
inductive State
  | empty
  | uni (g : Grid)
  | multi (cs : List Grid)
  deriving DecidableEq, Repr

/-- How to build a component handed to a list operation / `concatenate`. -/
inductive Recipe
  | dense (a : ArgV) (v : ValV)
  | irreg (a : ArgV) (v : ValV)
  deriving DecidableEq, Repr

/-- How to build a whole object (argument of `concatenate`). -/
inductive SRecipe
  | uni (r : Recipe)
  | multi (rs : List Recipe)
  deriving DecidableEq, Repr

inductive Op
  | mkDense (a : ArgV) (v : ValV)
  | mkIrreg (a : ArgV) (v : ValV)
  | mkMulti (rs : List Recipe)
  | setArg (a : ArgV)
  | setVal (v : ValV)
  | setStand (a : ArgV)
  | append (r : Recipe)
  | extend (rs : List Recipe)
  | insert (i : Int) (r : Recipe)
  | remove (r : Recipe)
  | pop (i : Option Int)
  | clear
  | reverse
  | getitem (ix : Index)
  | concat (others : List SRecipe)
  | badItem (onValues : Bool)     -- `obj.argvals[k] = w` / `obj.values[k] = w` with `k` or `w` of a wrong class
  deriving DecidableEq, Repr

inductive Out
  | ok
  | err (e : Err)
  | na            -- the operation does not exist on this kind of object (never generated)
  deriving DecidableEq, Repr

def Out.isErr : Out → Bool
  | .err _ => true
  | _ => false

/-! ### Constructors and setters -/

/-- `Argvals.normalization()` keeps the number of points. -/
def standOfDense (pts : Shape) : Stand := .dense pts
def standOfIrreg (a : D AObs) : Stand := .irreg (mapVals AObs.pts a)

/-- `Argvals.compatible_with(values)` for irregular data: `n_points` dictionaries equal. -/
def irregCompat (a : D AObs) (v : D VObs) : Bool := eqBy AObs.pts VObs.shape a v

/-- `DenseFunctionalData(argvals, values)`. -/
def mkDense (a : ArgV) (v : ValV) : Except Err Grid :=
  match a, v with
  | .dense pts g, .dense rows vpts =>
    if vpts = pts then .ok (.dense pts g rows vpts (standOfDense pts)) else .error .valueError
  | _, _ => .error .typeError

/-- `IrregularFunctionalData(argvals, values)`; a Python dictionary has distinct keys (`ofList`). -/
def mkIrreg (a : ArgV) (v : ValV) : Except Err Grid :=
  match a, v with
  | .irreg ao, .irreg vo =>
    let ao := ofList ao
    let vo := ofList vo
    if irregCompat ao vo then .ok (.irreg ao vo (standOfIrreg ao)) else .error .valueError
  | _, _ => .error .typeError

def build : Recipe → Except Err Grid
  | .dense a v => mkDense a v
  | .irreg a v => mkIrreg a v

def buildAll : List Recipe → Except Err (List Grid)
  | [] => .ok []
  | r :: rs =>
    match build r with
    | .error e => .error e
    | .ok g =>
      match buildAll rs with
      | .error e => .error e
      | .ok gs => .ok (g :: gs)

/-- `argvals` setter. -/
def setArg (x : Grid) (a : ArgV) : Except Err Grid :=
  match x, a with
  | .dense _ _ rows vpts _, .dense pts g =>
    if vpts = pts then .ok (.dense pts g rows vpts (standOfDense pts)) else .error .valueError
  | .irreg _ v _, .irreg ao =>
    let ao := ofList ao
    if irregCompat ao v then .ok (.irreg ao v (standOfIrreg ao)) else .error .valueError
  | _, _ => .error .typeError

/-- `values` setter. -/
def setVal (x : Grid) (v : ValV) : Except Err Grid :=
  match x, v with
  | .dense pts g _ _ st, .dense rows vpts =>
    if pts = vpts then .ok (.dense pts g rows vpts st) else .error .valueError
  | .irreg a _ st, .irreg vo =>
    let vo := ofList vo
    if irregCompat a vo then .ok (.irreg a vo st) else .error .valueError
  | _, _ => .error .typeError

def Grid.withStand : Grid → Stand → Grid
  | .dense pts g rows vpts _, st => .dense pts g rows vpts st
  | .irreg a v _, st => .irreg a v st

/-- The standardised points that track the sampling points of `x`. -/
def Grid.trackedStand : Grid → Stand
  | .dense pts _ _ _ _ => standOfDense pts
  | .irreg a _ _ => standOfIrreg a

def ArgV.standShape : ArgV → Option Stand
  | .dense pts _ => some (.dense pts)
  | .irreg ao => some (.irreg (mapVals AObs.pts (ofList ao)))
  | _ => none

/-- Do two dictionaries of shapes describe the same `n_points` (Python `dict.__eq__`)? -/
def Stand.same : Stand → Stand → Bool
  | .dense p, .dense q => decide (p = q)
  | .irreg a, .irreg b => eqBy id id a b
  | _, _ => false

def Stand.sameKind : Stand → Stand → Bool
  | .dense _, .dense _ => true
  | .irreg _, .irreg _ => true
  | _, _ => false

/-- `argvals_stand` setter.  `guard = false`: as coded (`isinstance(·, Argvals)` only);
`guard = true`: the proposed repair `fixes/C11-argvals-stand.diff` (same class as the
sampling points → else `TypeError`; same numbers of points → else `ValueError`). -/
def setStand (guard : Bool) (x : Grid) (a : ArgV) : Except Err Grid :=
  match a.standShape with
  | none => .error .typeError
  | some st =>
    if guard then
      if ¬ st.sameKind x.trackedStand then .error .typeError
      else if ¬ st.same x.trackedStand then .error .valueError
      else .ok (x.withStand st)
    else .ok (x.withStand st)

/-! ### Observers -/

def Grid.nObs : Grid → Nat
  | .dense _ _ rows _ _ => rows.length
  | .irreg _ v _ => v.length

/-- `n_dimension` (`none`: `IrregularArgvals.n_dimension` on an empty dictionary raises `StopIteration`). -/
def Grid.nDim : Grid → Option Nat
  | .dense pts _ _ _ _ => some pts.length
  | .irreg a _ _ => a.head?.map fun p => p.2.pts.length

/-- `n_points`: from the sampling points. -/
def Grid.nPoints : Grid → Stand
  | .dense pts _ _ _ _ => .dense pts
  | .irreg a _ _ => .irreg (mapVals AObs.pts a)

/-- The number of points per dimension the *values* have. -/
def Grid.valPoints : Grid → Stand
  | .dense _ _ _ vpts _ => .dense vpts
  | .irreg _ v _ => .irreg (mapVals VObs.shape v)

def Grid.stand : Grid → Stand
  | .dense _ _ _ _ st => st
  | .irreg _ _ st => st

def Grid.isDense : Grid → Bool
  | .dense .. => true
  | .irreg .. => false

/-! ### Equality (`GridFunctionalData.__eq__`, total and value-aware in this tree) -/

def Grid.same : Grid → Grid → Bool
  | .dense p g rows vp _, .dense p' g' rows' vp' _ =>
    decide (p = p') && decide (g = g') && decide (rows.length :: vp = rows'.length :: vp') && decide (rows = rows')
  | .irreg a v _, .irreg a' v' _ =>
    eqBy id id a a' &&
      v.all fun p => match get? v' p.1 with
        | some e => decide (p.2 = e)
        | none => false
  | _, _ => false

/-! ### Selection and concatenation of one grid object -/

def Grid.getitem (x : Grid) (ix : Index) : Except Err Grid :=
  match x with
  | .dense pts g rows vpts _ =>
    match denseGet rows ix with
    | .error e => .error e
    | .ok rows' => mkDense (.dense pts g) (.dense rows' vpts)
  | .irreg a v _ =>
    match selectLabels a ix with
    | .error e => .error e
    | .ok ls =>
      match restrict a ls, restrict v ls with
      | .ok a', .ok v' => mkIrreg (.irreg a') (.irreg v')
      | .error e, _ => .error e
      | _, .error e => .error e

def allDense : List Grid → Option (List (Shape × Nat × List Nat × Shape))
  | [] => some []
  | .dense p g rows vp _ :: t => (allDense t).map fun l => (p, g, rows, vp) :: l
  | .irreg .. :: _ => none

def allIrreg : List Grid → Option (List (D AObs × D VObs))
  | [] => some []
  | .irreg a v _ :: t => (allIrreg t).map fun l => (a, v) :: l
  | .dense .. :: _ => none

def allSome : List (Option Nat) → Option (List Nat)
  | [] => some []
  | none :: _ => none
  | some d :: t => (allSome t).map (d :: ·)

def allEq [DecidableEq α] : List α → Bool
  | [] => true
  | a :: t => t.all fun b => decide (b = a)

/-- `DenseFunctionalData.concatenate(*xs)` / `IrregularFunctionalData.concatenate(*xs)`
dispatched on the class of the first (`xs` non-empty). -/
def concatGrids (xs : List Grid) : Except Err Grid :=
  match xs with
  | [] => .error .other
  | .dense p g _ _ _ :: _ =>
    match allDense xs with
    | none => .error .typeError                         -- `_check_same_type`
    | some ds =>
      if ¬ allEq (ds.map fun d => d.1.length) then .error .valueError      -- `_check_same_ndim`
      else if ¬ ds.all (fun d => decide (d.1 = p) && decide (d.2.1 = g)) then .error .valueError   -- `DenseArgvals.concatenate`
      else match ds.map (fun d => d.2.2.2) with
        | [] => .error .other
        | vp :: vps =>
          if ¬ vps.all (fun q => decide (q = vp)) then .error .valueError      -- `np.vstack`
          else mkDense (.dense p g) (.dense (concatDense (ds.map fun d => d.2.2.1)) vp)
  | .irreg .. :: _ =>
    match allIrreg xs with
    | none => .error .typeError
    | some ds =>
      match allSome (ds.map fun d => d.1.head?.map fun p => p.2.pts.length) with
      | none => .error .other                            -- `n_dimension` of an empty dataset: `StopIteration`
      | some dims =>
        if ¬ allEq dims then .error .valueError
        else mkIrreg (.irreg (concatImpl (ds.map Prod.fst))) (.irreg (concatImpl (ds.map Prod.snd)))

/-! ### Multivariate list operations -/

/-- `FunctionalData._check_same_nobs`. -/
def sameNobs (cs : List Grid) : Bool := allEq (cs.map Grid.nObs)

/-- `list.insert` clamps its index. -/
def insertPos (n : Nat) (i : Int) : Nat :=
  if i < 0 then (if i + n < 0 then 0 else (i + n).toNat) else (if i > n then n else i.toNat)

/-- First position whose component equals `c` (`list.remove` / `in`). -/
def findSame (c : Grid) : List Grid → Option Nat
  | [] => none
  | x :: t => if x.same c then some 0 else (findSame c t).map (· + 1)

def getAll (ix : Index) : List Grid → Except Err (List Grid)
  | [] => .ok []
  | c :: cs =>
    match c.getitem ix with
    | .error e => .error e
    | .ok g =>
      match getAll ix cs with
      | .error e => .error e
      | .ok gs => .ok (g :: gs)

/-- `MultivariateFunctionalData(initlist)`. -/
def mkMulti (cs : List Grid) : Except Err (List Grid) :=
  if sameNobs cs then .ok cs else .error .valueError

def transposeComps (n : Nat) (objs : List (List Grid)) : List (List Grid) :=
  (List.range n).map fun k => objs.filterMap (·[k]?)

def concatComps : List (List Grid) → Except Err (List Grid)
  | [] => .ok []
  | col :: cols =>
    match concatGrids col with
    | .error e => .error e
    | .ok g =>
      match concatComps cols with
      | .error e => .error e
      | .ok gs => .ok (g :: gs)

/-- `MultivariateFunctionalData.concatenate(*objs)` (`objs` non-empty). -/
def concatMulti (objs : List (List Grid)) : Except Err (List Grid) :=
  match objs with
  | [] => .error .other
  | first :: _ =>
    if ¬ allEq (objs.map List.length) then .error .valueError
    else match concatComps (transposeComps first.length objs) with
      | .error e => .error e
      | .ok cs => mkMulti cs

def buildS : SRecipe → Except Err State
  | .uni r => (build r).map State.uni
  | .multi rs =>
    match buildAll rs with
    | .error e => .error e
    | .ok cs => (mkMulti cs).map State.multi

def buildSAll : List SRecipe → Except Err (List State)
  | [] => .ok []
  | r :: rs =>
    match buildS r with
    | .error e => .error e
    | .ok s =>
      match buildSAll rs with
      | .error e => .error e
      | .ok ss => .ok (s :: ss)

def allUni : List State → Option (List Grid)
  | [] => some []
  | .uni g :: t => (allUni t).map (g :: ·)
  | _ :: _ => none

def allMulti : List State → Option (List (List Grid))
  | [] => some []
  | .multi cs :: t => (allMulti t).map (cs :: ·)
  | _ :: _ => none

/-! ### The step function -/

/-- Keep the state on an error, replace it on success. -/
def settle (s : State) : Except Err State → State × Out
  | .ok s' => (s', .ok)
  | .error e => (s, .err e)

/-- One operation of a history.  `guard` selects the `argvals_stand` setter
(`false` = as coded, `true` = with the proposed check). -/
def step (guard : Bool) (s : State) (op : Op) : State × Out :=
  match op with
  | .mkDense a v => settle s ((mkDense a v).map State.uni)
  | .mkIrreg a v => settle s ((mkIrreg a v).map State.uni)
  | .mkMulti rs =>
    settle s (match buildAll rs with
      | .error e => .error e
      | .ok cs => (mkMulti cs).map State.multi)
  | .setArg a =>
    match s with
    | .uni x => settle s ((setArg x a).map State.uni)
    | _ => (s, .na)
  | .setVal v =>
    match s with
    | .uni x => settle s ((setVal x v).map State.uni)
    | _ => (s, .na)
  | .setStand a =>
    match s with
    | .uni x => settle s ((setStand guard x a).map State.uni)
    | _ => (s, .na)
  | .append r =>
    match s with
    | .multi cs =>
      settle s (match build r with
        | .error e => .error e
        | .ok c => if cs.isEmpty then .ok (.multi [c])
                   else if sameNobs (cs ++ [c]) then .ok (.multi (cs ++ [c])) else .error .valueError)
    | _ => (s, .na)
  | .extend rs =>
    match s with
    | .multi cs =>
      settle s (match buildAll rs with
        | .error e => .error e
        | .ok ds => if sameNobs (cs ++ ds) then .ok (.multi (cs ++ ds)) else .error .valueError)
    | _ => (s, .na)
  | .insert i r =>
    match s with
    | .multi cs =>
      settle s (match build r with
        | .error e => .error e
        | .ok c => if sameNobs (cs ++ [c]) then .ok (.multi (cs.insertIdx (insertPos cs.length i) c))
                   else .error .valueError)
    | _ => (s, .na)
  | .remove r =>
    match s with
    | .multi cs =>
      settle s (match build r with
        | .error e => .error e
        | .ok c => match findSame c cs with
          | some k => .ok (.multi (cs.eraseIdx k))
          | none => .error .valueError)
    | _ => (s, .na)
  | .pop i =>
    match s with
    | .multi cs =>
      settle s (match intPos cs.length (i.getD (-1)) with
        | some k => .ok (.multi (cs.eraseIdx k))
        | none => .error .indexError)
    | _ => (s, .na)
  | .clear =>
    match s with
    | .multi _ => (.multi [], .ok)
    | _ => (s, .na)
  | .reverse =>
    match s with
    | .multi cs => (.multi cs.reverse, .ok)
    | _ => (s, .na)
  | .getitem ix =>
    match s with
    | .uni x => settle s ((x.getitem ix).map State.uni)
    | .multi cs =>
      settle s (match getAll ix cs with
        | .error e => .error e
        | .ok ds => (mkMulti ds).map State.multi)
    | .empty => (s, .na)
  | .concat others =>
    match s with
    | .empty => (s, .na)
    | .uni x =>
      settle s (match buildSAll others with
        | .error e => .error e
        | .ok ss => match allUni ss with
          | none => .error .typeError
          | some gs => (concatGrids (x :: gs)).map State.uni)
    | .multi cs =>
      settle s (match buildSAll others with
        | .error e => .error e
        | .ok ss => match allMulti ss with
          | none => .error .other
          | some ms => (concatMulti (cs :: ms)).map State.multi)

  | .badItem onValues =>
    -- item assignment into the typed dictionaries (`DenseArgvals`, `IrregularArgvals`, `IrregularValues`):
    -- a key or a value of the wrong class — also one that is itself an `Argvals` / `Values` — is a `TypeError`;
    -- the values of a dense object are an array, not a typed dictionary
    match s with
    | .uni x => if onValues && x.isDense then (s, .na) else (s, .err .typeError)
    | _ => (s, .na)

/-- The state after a history. -/
def run (guard : Bool) (s : State) (ops : List Op) : State :=
  ops.foldl (fun s op => (step guard s op).1) s

/-- The tree under validation (setter as coded). -/
abbrev stepImpl := step false
/-- What the property asks for (setter guarded). -/
abbrev stepSpec := step true

/-! ### Inherited list operations that the property does not list (`collections.UserList`)

Modelled as they behave; `C11.xop_preserves` / `C11.xop_*_counterexample` say which keep the invariant.
`copy()` is left out on purpose: `UserList.copy` is `self.__class__(self)`, which with the overridden
constructor / `__getitem__` yields an object whose `data` *is* the original object (its `n_obs` then
reports 1): not a list of components at all, so nothing the shape model could mirror (docs/C11.md). -/

inductive XOp
  | setItem (i : Int) (r : Recipe)   -- `mfd[i] = c`          (`self.data[i] = c`, no check)
  | delItem (i : Int)                -- `del mfd[i]`
  | iadd (rs : List Recipe)          -- `mfd += [c, …]`       (`self.data += …`, no check)
  | add (rs : List Recipe)           -- `mfd + [c, …]`        (`self.__class__(self.data + …)`: through the constructor)
  | mul (k : Int)                    -- `mfd * k`, `k * mfd`  (through the constructor)
  | imul (k : Int)                   -- `mfd *= k`
  | sort                             -- `mfd.sort()`: components are not ordered (`TypeError` as soon as two are compared)
  deriving DecidableEq, Repr

def repeatList (cs : List Grid) (k : Int) : List Grid := (List.replicate k.toNat cs).flatten

def stepX (cs : List Grid) : XOp → Except Err (List Grid)
  | .setItem i r =>
    match build r with
    | .error e => .error e
    | .ok c => match intPos cs.length i with
      | some p => .ok (cs.set p c)
      | none => .error .indexError
  | .delItem i => match intPos cs.length i with
    | some p => .ok (cs.eraseIdx p)
    | none => .error .indexError
  | .iadd rs => match buildAll rs with
    | .error e => .error e
    | .ok ds => .ok (cs ++ ds)
  | .add rs => match buildAll rs with
    | .error e => .error e
    | .ok ds => mkMulti (cs ++ ds)
  | .mul k => mkMulti (repeatList cs k)
  | .imul k => .ok (repeatList cs k)
  | .sort => if cs.length ≤ 1 then .ok cs else .error .typeError

/-! ### `BasisFunctionalData` as a container (outside the property's object kinds)

`BasisFunctionalData.__init__` stores `basis` and `coefficients` as plain attributes: nothing relates the
number of basis functions to the width of the coefficient matrix. -/

structure BasisObj where
  nFun : Nat            -- number of basis functions (`basis.n_obs`)
  pts : Shape           -- sampling points of the basis
  rows : List Nat       -- row tags of the coefficient matrix
  width : Nat           -- number of columns of the coefficient matrix
  deriving DecidableEq, Repr

/-- `BasisFunctionalData(basis, coefficients)`: no check at all. -/
def mkBasis (nFun : Nat) (pts : Shape) (rows : List Nat) (width : Nat) : BasisObj := ⟨nFun, pts, rows, width⟩

/-- One coefficient per basis function (what `to_grid`'s `einsum` needs). -/
def BasisObj.consistent (b : BasisObj) : Bool := b.width == b.nFun

/-- `BasisFunctionalData.__getitem__`: NumPy indexing of the coefficient rows, the basis is shared. -/
def BasisObj.getitem (b : BasisObj) (ix : Index) : Except Err BasisObj :=
  (denseGet b.rows ix).map fun rows' => { b with rows := rows' }

/-- `b.coefficients = …` (a plain attribute). -/
def BasisObj.setCoef (b : BasisObj) (rows : List Nat) (width : Nat) : BasisObj := { b with rows := rows, width := width }

/-! ### `DenseArgvals.normalization`: the numeric content of a *computed* `argvals_stand`

`(points − min(points)) / (max(points) − min(points))`, point by point: the grid may contain repeated
points and need not be sorted.  `none`: all points equal (the code divides 0 by 0). -/

def pickMin (acc x : Rat) : Rat := if x < acc then x else acc
def pickMax (acc x : Rat) : Rat := if acc < x then x else acc

def listMin : List Rat → Option Rat
  | [] => none
  | a :: t => some (t.foldl pickMin a)

def listMax : List Rat → Option Rat
  | [] => none
  | a :: t => some (t.foldl pickMax a)

def normalizeGrid (t : List Rat) : Option (List Rat) :=
  match listMin t, listMax t with
  | some lo, some hi => if hi = lo then none else some (t.map fun x => (x - lo) / (hi - lo))
  | _, _ => none

/-! ### Observers of a state -/

def State.nObs : State → Option Nat
  | .empty => none
  | .uni x => some x.nObs
  | .multi cs => some (match cs with | [] => 0 | c :: _ => c.nObs)

def State.nFunctional : State → Option Nat
  | .multi cs => some cs.length
  | _ => none

/-! ### The consistency invariant, as a decidable check (used by the driver) and as a `Prop` -/

/-- Sampling points and values agree on the number of points in every dimension. -/
def Grid.pointsAgree : Grid → Bool
  | .dense pts _ _ vpts _ => decide (vpts = pts)
  | .irreg a v _ => irregCompat a v

/-- Standardised sampling points track the sampling points. -/
def Grid.standTracks (x : Grid) : Bool := x.stand.sameKind x.trackedStand && x.stand.same x.trackedStand

def Grid.consistent (x : Grid) : Bool := x.pointsAgree && x.standTracks

def State.consistent : State → Bool
  | .empty => true
  | .uni x => x.consistent
  | .multi cs => cs.all Grid.consistent && sameNobs cs

/-- Without the clause on the standardised points (what the tree as coded maintains). -/
def State.consistentNoStand : State → Bool
  | .empty => true
  | .uni x => x.pointsAgree
  | .multi cs => cs.all Grid.pointsAgree && sameNobs cs

end FDA.Containers
