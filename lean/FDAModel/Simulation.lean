/-
C20 — model of `FDApy/simulation/simulation.py` (noise, sparsification, the
combined operation) as programs in a state/exception monad with a fault
schedule.  Import-free (core `Rat`, `List`, `Option`, `Except`).

Mirrors (target tree):
* `_add_noise_univariate_data`            → `noiseComp` / `addScaled`
* `_sparsify_univariate_data`             → `sparsifyComp` / `sparsifyCurve`, `percOf`, `maskOf`, `setPair`
* `Simulation._check_data`                → `checkData`
* `Simulation._check_dimension`           → `checkDim`
* `Simulation.add_noise`                  → `addNoise`
* `Simulation.sparsify`                   → `sparsify`
* `Simulation.add_noise_and_sparsify`     → `combined` (`try/finally`; `combinedCoded` is the
                                            swap without `finally` of the tree before the repair)

Every internal call that the harness can make fail is a `call label body`:
a fault point before the body (`label`) and one after it (`label:ret`).  The
schedule `failAt = some k` makes the `k`-th fault point (0-based, counted over
the whole operation) raise; natural failures (`noData`, `dim`, `population`) are
raised where the Python code raises them.  The state (`Sim`) persists through
failures, exactly as object attributes do.

Random draws are *inputs* (scripts): the standard-normal array per component,
and per curve the uniform for the retained percentage, the uniforms of the
Bernoulli mask (inverse-cdf semantics of `choice(p=…)`) and the two draws of the
fallback `choice(arange(n), size=2, replace=False)`.
-/
namespace FDA.Sim

/-- One dense component: the grid (one list per input dimension) and the
`n_obs` curves, each flattened row-major to `∏ dims` values. -/
structure Comp where
  grid : List (List Rat)
  vals : List (List Rat)
deriving Repr, DecidableEq

/-- One sparsified component: same grid for every curve, `none` = NaN = missing. -/
structure SComp where
  grid : List (List Rat)
  vals : List (List (Option Rat))
deriving Repr, DecidableEq

/-- A dataset: univariate, or multivariate (list of components). -/
inductive Data (C : Type) where
  | uni (c : C)
  | multi (cs : List C)
deriving Repr, DecidableEq

/-- The three attributes of a simulator (`None`/absent = `none`). -/
structure Sim where
  data : Option (Data Comp) := none
  noisy : Option (Data Comp) := none
  sparse : Option (Data SComp) := none
deriving Repr, DecidableEq

inductive Err where
  | noData      -- `_check_data`: ValueError
  | dim         -- `_check_dimension`: ValueError
  | population  -- `choice(arange(n), 2, replace=False)` with n < 2: ValueError
  | script      -- the scripted draws do not fit the request (harness error, never defaulted)
  | injected    -- fault schedule
deriving Repr, DecidableEq

/-- Fault schedule + call trace (most recent first). -/
structure Sched where
  failAt : Option Nat := none
  tick : Nat := 0
  trace : List String := []
deriving Repr, DecidableEq

structure St where
  sim : Sim
  sc : Sched
deriving Repr, DecidableEq

/-- State + exception monad in which the state survives a failure. -/
def M (α : Type) : Type := St → Except Err α × St

@[inline] def M.pure (a : α) : M α := fun st => (.ok a, st)

@[inline] def M.bind (x : M α) (f : α → M β) : M β := fun st =>
  match x st with
  | (.ok a, st') => f a st'
  | (.error e, st') => (.error e, st')

instance : Monad M where
  pure := M.pure
  bind := M.bind

def raise (e : Err) : M α := fun st => (.error e, st)

/-- A fault point. -/
def tick (l : String) : M Unit := fun st =>
  if st.sc.failAt = some st.sc.tick then
    (.error .injected, { st with sc := { st.sc with trace := l :: st.sc.trace } })
  else
    (.ok (), { st with sc := { st.sc with tick := st.sc.tick + 1, trace := l :: st.sc.trace } })

/-- An internal call: may fail before it starts and after it has finished. -/
def call (l : String) (x : M α) : M α := do
  tick l
  let a ← x
  tick (l ++ ":ret")
  pure a

def getSim : M Sim := fun st => (.ok st.sim, st)
def setNoisy (d : Data Comp) : M Unit := fun st => (.ok (), { st with sim := { st.sim with noisy := some d } })
def setSparse (d : Data SComp) : M Unit := fun st => (.ok (), { st with sim := { st.sim with sparse := some d } })
def setData (d : Option (Data Comp)) : M Unit := fun st => (.ok (), { st with sim := { st.sim with data := d } })

/-- `try: x finally: fin` -/
def tryFinally (x : M α) (fin : M Unit) : M α := fun st =>
  match x st with
  | (r, st') =>
    match fin st' with
    | (.ok _, st'') => (r, st'')
    | (.error e, st'') => (.error e, st'')

/-! ### pure payloads -/

def Comp.nPoints (c : Comp) : Nat := c.grid.foldl (fun a g => a * g.length) 1

/-- `data.values + std * draws` -/
def addScaled (r : Rat) (X Z : List (List Rat)) : List (List Rat) :=
  List.zipWith (fun x z => List.zipWith (fun a b => a + r * b) x z) X Z

def sameShape (X Z : List (List Rat)) : Bool :=
  X.length == Z.length && (List.zipWith (fun x z => x.length == z.length) X Z).all id

def ratMax (a b : Rat) : Rat := if a ≤ b then b else a
def ratMin (a b : Rat) : Rat := if a ≤ b then a else b

/-- `max(0, percentage - epsilon)` -/
def percLo (p e : Rat) : Rat := ratMax 0 (p - e)
/-- `min(1, percentage + epsilon)` -/
def percHi (p e : Rat) : Rat := ratMin 1 (p + e)
/-- the uniform draw on `[lo, hi)` from a standard uniform `u` -/
def percOf (p e u : Rat) : Rat := percLo p e + (percHi p e - percLo p e) * u

/-- `choice([False, True], size=n, p=(1-perc, perc))` by inverse cdf: kept iff `1 - perc ≤ u`. -/
def maskOf (perc : Rat) (us : List Rat) : List Bool := us.map fun u => decide (1 - perc ≤ u)

def countTrue (m : List Bool) : Nat := m.count true

/-- the two indices of `choice(arange(n), size=2, replace=False)` from draws `a < n`, `b < n-1` -/
def pairIdx (pr : Nat × Nat) : Nat × Nat := (pr.1, if pr.2 < pr.1 then pr.2 else pr.2 + 1)

/-- the two indices with replacement (the tree before the repair): draws `a, b < n` as they come -/
def pairIdxRepl (pr : Nat × Nat) : Nat × Nat := pr

def setPair (m : List Bool) (ij : Nat × Nat) : List Bool := (m.set ij.1 true).set ij.2 true

/-- `val[~mask] = nan` -/
def applyMask (m : List Bool) (row : List Rat) : List (Option Rat) :=
  List.zipWith (fun b x => if b then some x else none) m row

/-- The mask finally applied to a curve (`n ≥ 2`, valid draws). -/
def finalMask (perc : Rat) (mu : List Rat) (pr : Nat × Nat) : List Bool :=
  let m0 := maskOf perc mu
  if countTrue m0 < 2 then setPair m0 (pairIdx pr) else m0

structure CurveScript where
  u : Rat
  m : List Rat
  pair : Nat × Nat
deriving Repr, DecidableEq

/-! ### the programs -/

def checkData : M Unit := fun st =>
  match st.sim.data with
  | none => (.error .noData, st)
  | some _ => (.ok (), st)

def dimTooLarge : Data Comp → Bool
  | .uni c => decide (1 < c.grid.length)
  | .multi cs => cs.all fun c => decide (1 < c.grid.length)

def checkDim : M Unit := fun st =>
  match st.sim.data with
  | none => (.ok (), st)
  | some d => if dimTooLarge d then (.error .dim, st) else (.ok (), st)

def getData : M (Data Comp) := fun st =>
  match st.sim.data with
  | none => (.error .noData, st)
  | some d => (.ok d, st)

def guardS (b : Bool) : M Unit := if b then pure () else raise .script

/-- `_add_noise_univariate_data(data, noise_variance, rnorm)`, `r = sqrt(noise_variance)` -/
def noiseComp (r : Rat) (c : Comp) (z : List (List Rat)) : M Comp :=
  call "_add_noise_univariate_data" do
    call "rnorm" (guardS (sameShape c.vals z))
    let g ← call "DenseArgvals" (pure c.grid)
    let v ← call "DenseValues" (pure (addScaled r c.vals z))
    call "DenseFunctionalData" (pure ⟨g, v⟩)

def noiseComps (r : Rat) : List Comp → List (List (List Rat)) → M (List Comp)
  | [], _ => pure []
  | _ :: _, [] => raise .script
  | c :: cs, z :: zs => do
    let c' ← noiseComp r c z
    let cs' ← noiseComps r cs zs
    pure (c' :: cs')

def noiseData (r : Rat) (zs : List (List (List Rat))) : Data Comp → M (Data Comp)
  | .uni c =>
    match zs with
    | [z] => do let c' ← noiseComp r c z; pure (.uni c')
    | _ => raise .script
  | .multi cs => do
    let cs' ← noiseComps r cs zs
    call "MultivariateFunctionalData" (pure (.multi cs'))

/-- `Simulation.add_noise` -/
def addNoise (r : Rat) (zs : List (List (List Rat))) : M Unit :=
  call "add_noise" do
    call "_check_data" checkData
    let d ← getData
    let nd ← noiseData r zs d
    setNoisy nd

/-- The fallback of `_sparsify_univariate_data`: if fewer than two samples are kept, a second
`choice` draws two indices.  `repl = true` is the fallback of the tree before the repair
(sampling with replacement). -/
def fallbackMask (repl : Bool) (n : Nat) (m0 : List Bool) (pair : Nat × Nat) : M (List Bool) :=
  if countTrue m0 < 2 then
    call "rchoice"
      (if repl then
        (if pair.1 < n ∧ pair.2 < n then pure (setPair m0 (pairIdxRepl pair)) else raise .script)
       else if n < 2 then raise .population
       else if pair.1 < n ∧ pair.2 < n - 1 then pure (setPair m0 (pairIdx pair))
       else raise .script)
  else pure m0

/-- One curve of `_sparsify_univariate_data`: first `choice`, then the fallback. -/
def sparsifyCurve (repl : Bool) (n : Nat) (p e : Rat) (row : List Rat) (s : CurveScript) :
    M (List (Option Rat)) := do
  call "rchoice" (guardS (s.m.length == n && row.length == n))
  let m ← fallbackMask repl n (maskOf (percOf p e s.u) s.m) s.pair
  pure (applyMask m row)

def sparsifyCurves (repl : Bool) (n : Nat) (p e : Rat) :
    List (List Rat) → List CurveScript → M (List (List (Option Rat)))
  | [], _ => pure []
  | _ :: _, [] => raise .script
  | row :: rows, s :: ss => do
    let r' ← sparsifyCurve repl n p e row s
    let rs' ← sparsifyCurves repl n p e rows ss
    pure (r' :: rs')

/-- `_sparsify_univariate_data(data, percentage, epsilon, runif, rchoice)` -/
def sparsifyComp (repl : Bool) (p e : Rat) (c : Comp) (s : List CurveScript) : M SComp :=
  call "_sparsify_univariate_data" do
    call "runif" (guardS (s.length == c.vals.length))
    let rows ← sparsifyCurves repl c.nPoints p e c.vals s
    let g ← call "IrregularArgvals" (pure c.grid)
    let v ← call "IrregularValues" (pure rows)
    call "IrregularFunctionalData" (pure ⟨g, v⟩)

def sparsifyComps (repl : Bool) (p e : Rat) : List Comp → List (List CurveScript) → M (List SComp)
  | [], _ => pure []
  | _ :: _, [] => raise .script
  | c :: cs, s :: ss => do
    let c' ← sparsifyComp repl p e c s
    let cs' ← sparsifyComps repl p e cs ss
    pure (c' :: cs')

def sparsifyData (repl : Bool) (p e : Rat) (ss : List (List CurveScript)) : Data Comp → M (Data SComp)
  | .uni c =>
    match ss with
    | [s] => do let c' ← sparsifyComp repl p e c s; pure (.uni c')
    | _ => raise .script
  | .multi cs => do
    let cs' ← sparsifyComps repl p e cs ss
    call "MultivariateFunctionalData" (pure (.multi cs'))

/-- `Simulation.sparsify` -/
def sparsify (repl : Bool) (p e : Rat) (ss : List (List CurveScript)) : M Unit :=
  call "sparsify" do
    call "_check_data" checkData
    call "_check_dimension" checkDim
    let d ← getData
    let sd ← sparsifyData repl p e ss d
    setSparse sd

/-- `Simulation.add_noise_and_sparsify` (target tree: swap protected by `try/finally`). -/
def combined (repl : Bool) (r : Rat) (zs : List (List (List Rat))) (p e : Rat)
    (ss : List (List CurveScript)) : M Unit := do
  addNoise r zs
  let s ← getSim                  -- tmp = self.data  (kept in `s.data`)
  setData s.noisy                 -- self.data = self.noisy_data
  tryFinally (sparsify repl p e ss) (setData s.data)

/-- The same operation as coded before the repair: no `finally`. -/
def combinedCoded (repl : Bool) (r : Rat) (zs : List (List (List Rat))) (p e : Rat)
    (ss : List (List CurveScript)) : M Unit := do
  addNoise r zs
  let s ← getSim
  setData s.noisy
  sparsify repl p e ss
  setData s.data

/-- Run an operation from a simulator state under a fault schedule. -/
def run (x : M Unit) (sim : Sim) (failAt : Option Nat) : Except Err Unit × St :=
  x { sim := sim, sc := { failAt := failAt } }

end FDA.Sim
