/-
C14 — basis-expansion data and their evaluation on the grid (numeric layer).

Conventions as in `Core/Quadrature.lean`: vectors `ℕ → ℚ` read on `range n`,
matrices `ℕ → ℕ → ℚ`, sums over `Finset.range`.  A 2-D grid function is stored
flat, row-major (`p = a * m₂ + b`), exactly as `reshape` does in NumPy.

Mirrors `FDApy/representation/functional_data.py` `BasisFunctionalData.to_grid`,
`.mean`, `.center`, `.inner_product`, `.norm`, `.normalize`, `.rescale`,
`.standardize`, `.covariance`; `FDApy/representation/basis.py`
`Basis.inner_product`, `Basis.__init__` (tensor basis by `np.kron` + `reshape`);
and the grid-side counterparts `DenseFunctionalData.covariance` (`/(n-1)`),
`.rescale` (`np.var`, `/n`).
-/
import FDAModel.Core.Quadrature

namespace FDA
open Finset

/-- `BasisFunctionalData.to_grid`: `np.einsum("ij,j... -> i...", coefficients,
basis.values)`: contraction over the function index (`j` is the flat grid index). -/
def toGrid (K : ℕ) (c Φ : ℕ → ℕ → ℚ) (i j : ℕ) : ℚ := ∑ k ∈ range K, c i k * Φ k j

/-- `BasisFunctionalData.mean`: the mean of the coefficients (one observation). -/
def meanCoef (N : ℕ) (c : ℕ → ℕ → ℚ) (_i k : ℕ) : ℚ := colMean N c k

/-- Closed form of the Gram matrix of the basis functions, `G = Φ W Φᵀ`. -/
def basisGram (m : ℕ) (t : ℕ → ℚ) (Φ : ℕ → ℕ → ℚ) (k l : ℕ) : ℚ := inner m t (Φ k) (Φ l)

/-- `inner_mat[np.abs(inner_mat) < 1e-12] = 0` of `Basis.inner_product`. -/
def thr12 (x : ℚ) : ℚ := if |x| < 1 / 1000000000000 then 0 else x

/-- The procedure of `Basis.inner_product`: upper triangle, entries below `1e-12`
zeroed, transpose added, diagonal halved.  (The Cholesky test that follows does not
change the matrix when it succeeds; when it fails the fallback needs `statsmodels`.) -/
def basisGramImpl (m : ℕ) (t : ℕ → ℚ) (Φ : ℕ → ℕ → ℚ) (k l : ℕ) : ℚ :=
  let U : ℕ → ℕ → ℚ := fun a b => if a ≤ b then thr12 (inner m t (Φ a) (Φ b)) else 0
  if k = l then (U k l + U l k) / 2 else U k l + U l k

/-- 2-D Gram matrix of the basis functions (flat row-major storage of each function),
closed form and the procedure of `Basis.inner_product` with the product quadrature. -/
def basisGram2 (m₁ m₂ : ℕ) (t₁ t₂ : ℕ → ℚ) (Φ : ℕ → ℕ → ℚ) (k l : ℕ) : ℚ :=
  inner2 m₁ m₂ t₁ t₂ (fun a b => Φ k (a * m₂ + b)) (fun a b => Φ l (a * m₂ + b))

def basisGramImpl2 (m₁ m₂ : ℕ) (t₁ t₂ : ℕ → ℚ) (Φ : ℕ → ℕ → ℚ) (k l : ℕ) : ℚ :=
  let U : ℕ → ℕ → ℚ := fun a b => if a ≤ b then thr12 (basisGram2 m₁ m₂ t₁ t₂ Φ a b) else 0
  if k = l then (U k l + U l k) / 2 else U k l + U l k

/-- `BasisFunctionalData.inner_product`: `C G Cᵀ` (NOT centred). -/
def innerBasis (K : ℕ) (G c : ℕ → ℕ → ℚ) (i l : ℕ) : ℚ :=
  ∑ a ∈ range K, ∑ b ∈ range K, c i a * G a b * c l b

/-- `BasisFunctionalData.norm(squared=True)`: the diagonal of `inner_product`. -/
def normSqBasis (K : ℕ) (G c : ℕ → ℕ → ℚ) (i : ℕ) : ℚ := innerBasis K G c i i

/-- `normalize` / `rescale` in coefficient space: every row divided by a number
(`r i` = the norm of observation `i`, resp. `√weight` for every `i`). -/
def scaleRows (c : ℕ → ℕ → ℚ) (r : ℕ → ℚ) (i k : ℕ) : ℚ := c i k / r i

/-- Coefficient-space covariance of `BasisFunctionalData.covariance`:
`centred.T @ centred / n_obs`. -/
def covCoef (N : ℕ) (c : ℕ → ℕ → ℚ) (k l : ℕ) : ℚ :=
  (∑ i ∈ range N, center N c i k * center N c i l) / N

/-- `np.kron(A, B)` of an `n₁ × m₁` and an `n₂ × m₂` matrix:
entry `[r, p] = A[r / n₂, p / m₂] * B[r % n₂, p % m₂]`. -/
def kron (n₂ m₂ : ℕ) (A B : ℕ → ℕ → ℚ) (r p : ℕ) : ℚ :=
  A (r / n₂) (p / m₂) * B (r % n₂) (p % m₂)

/-- 1-D `covariance().to_grid()`: coefficients `cov.flatten()` (index `k*K + l`)
contracted with `np.kron(Φ, Φ).reshape(K², m, m)` at `[·, j, j']` (flat `j*m + j'`). -/
def contractCov (K m : ℕ) (S Φ : ℕ → ℕ → ℚ) (j j' : ℕ) : ℚ :=
  ∑ r ∈ range (K * K), S (r / K) (r % K) * kron K m Φ Φ r (j * m + j')

def covBasisGrid (N K m : ℕ) (c Φ : ℕ → ℕ → ℚ) (j j' : ℕ) : ℚ :=
  contractCov K m (covCoef N c) Φ j j'

/-- `DenseFunctionalData.covariance` without smoothing: `Xcᵀ Xc / (n_obs - 1)`. -/
def covDense (N : ℕ) (X : ℕ → ℕ → ℚ) (j j' : ℕ) : ℚ :=
  (∑ i ∈ range N, center N X i j * center N X i j') / ((N : ℚ) - 1)

/-- `np.var(values, axis=0)` (population variance, `/n`). -/
def popVar (N : ℕ) (X : ℕ → ℕ → ℚ) (j : ℕ) : ℚ :=
  (∑ i ∈ range N, center N X i j * center N X i j) / N

/-- The weight of `BasisFunctionalData.rescale()` (1-D): the integral of the
diagonal of `covariance().to_grid()`. -/
def rescaleWeightBasis (N K m : ℕ) (t : ℕ → ℚ) (c Φ : ℕ → ℕ → ℚ) : ℚ :=
  trapz m t (fun j => covBasisGrid N K m c Φ j j)

/-- The weight of `DenseFunctionalData.rescale()` (1-D): the integral of `np.var`. -/
def rescaleWeightDense (N m : ℕ) (t : ℕ → ℚ) (X : ℕ → ℕ → ℚ) : ℚ :=
  trapz m t (popVar N X)

/-- `standardize`: the basis functions are divided pointwise by the standard
deviation curve `s` (`np.divide(..., out=zeros, where=(s != 0))`). -/
def divGuard (Φ : ℕ → ℕ → ℚ) (s : ℕ → ℚ) (k j : ℕ) : ℚ := if s j = 0 then 0 else Φ k j / s j

/-! ### Two-dimensional basis data: the covariance representation

`basis.values` has shape `(K, m₁, m₂)`; we store it as `Φ k a b`.
`np.kron` of two such arrays has shape `(K², m₁², m₂²)` with
`[k*K + l, a*m₁ + a', b*m₂ + b'] = Φ[k,a,b] * Φ[l,a',b']`.  Its row-major flat
buffer is then *reinterpreted* by `reshape(new_dim)`. -/

/-- Flat (row-major) buffer of `np.kron(Φ, Φ)` for 3-D `Φ`. -/
def kron3Flat (K m₁ m₂ : ℕ) (Φ : ℕ → ℕ → ℕ → ℚ) (f : ℕ) : ℚ :=
  let v := f % (m₂ * m₂)
  let u := (f / (m₂ * m₂)) % (m₁ * m₁)
  let r := f / (m₂ * m₂) / (m₁ * m₁)
  Φ (r / K) (u / m₁) (v / m₂) * Φ (r % K) (u % m₁) (v % m₂)

/-- Row-major flat index of `[r, i₁, i₂, i₃, i₄]` in an array of shape
`(·, d₁, d₂, d₃, d₄)`. -/
def lin5 (d₁ d₂ d₃ d₄ : ℕ) (r i₁ i₂ i₃ i₄ : ℕ) : ℕ :=
  (((r * d₁ + i₁) * d₂ + i₂) * d₃ + i₃) * d₄ + i₄

/-- The repaired layout `new_dim = (K², *np.repeat(n_points, 2)) = (K², m₁, m₁, m₂, m₂)`,
argvals `(t₁, t₁, t₂, t₂)`: entry `[r, a, a', b, b']` of the covariance basis. -/
def covBasis2 (K m₁ m₂ : ℕ) (Φ : ℕ → ℕ → ℕ → ℚ) (r a a' b b' : ℕ) : ℚ :=
  kron3Flat K m₁ m₂ Φ (lin5 m₁ m₁ m₂ m₂ r a a' b b')

/-- The layout of the unrepaired code, `new_dim = (K², *(2 * n_points)) =
(K², m₁, m₂, m₁, m₂)`, read at `[r, i₁, i₂, i₃, i₄]` (only constructible when it is
coherent with the argvals `(t₁, t₁, t₂, t₂)`, i.e. when `m₁ = m₂`). -/
def covBasis2Old (K m₁ m₂ : ℕ) (Φ : ℕ → ℕ → ℕ → ℚ) (r i₁ i₂ i₃ i₄ : ℕ) : ℚ :=
  kron3Flat K m₁ m₂ Φ (lin5 m₁ m₂ m₁ m₂ r i₁ i₂ i₃ i₄)

/-- 2-D `to_grid`. -/
def toGrid2 (K : ℕ) (c : ℕ → ℕ → ℚ) (Φ : ℕ → ℕ → ℕ → ℚ) (i a b : ℕ) : ℚ :=
  ∑ k ∈ range K, c i k * Φ k a b

/-- 2-D `covariance().to_grid()` at `[a, a', b, b']` as coded (repaired layout). -/
def contractCov2 (K m₁ m₂ : ℕ) (S : ℕ → ℕ → ℚ) (Φ : ℕ → ℕ → ℕ → ℚ) (a a' b b' : ℕ) : ℚ :=
  ∑ r ∈ range (K * K), S (r / K) (r % K) * covBasis2 K m₁ m₂ Φ r a a' b b'

def covBasisGrid2 (N K m₁ m₂ : ℕ) (c : ℕ → ℕ → ℚ) (Φ : ℕ → ℕ → ℕ → ℚ) (a a' b b' : ℕ) : ℚ :=
  contractCov2 K m₁ m₂ (covCoef N c) Φ a a' b b'

/-- What the covariance of 2-D data is: `(1/n) Σ_i Xc_i(a,b) Xc_i(a',b')`
(`X i p` = surface `i` stored flat, `p = a * m₂ + b`). -/
def covGrid2Spec (N m₂ : ℕ) (X : ℕ → ℕ → ℚ) (a a' b b' : ℕ) : ℚ :=
  (∑ i ∈ range N, center N X i (a * m₂ + b) * center N X i (a' * m₂ + b')) / N

/-- Spec of the 2-D rescaling weight: the integral of the variance surface
`[a, a, b, b]` (the code takes `np.diag` of the 4-D array and raises). -/
def rescaleWeight2 (m₁ m₂ : ℕ) (t₁ t₂ : ℕ → ℚ) (V : ℕ → ℕ → ℕ → ℕ → ℚ) : ℚ :=
  integrate2 m₁ m₂ t₁ t₂ (fun a b => V a a b b)

def rescaleWeightBasis2 (N K m₁ m₂ : ℕ) (t₁ t₂ : ℕ → ℚ) (c : ℕ → ℕ → ℚ)
    (Φ : ℕ → ℕ → ℕ → ℚ) : ℚ :=
  rescaleWeight2 m₁ m₂ t₁ t₂ (covBasisGrid2 N K m₁ m₂ c Φ)

/-! ### P-spline fit, abstractly (normal equations over a basis matrix `B : K × m`) -/

/-- `B W Bᵀ + λ P` (the matrix whose pseudo-inverse `_fit_one_dimensional` applies). -/
def normalMat (m : ℕ) (B : ℕ → ℕ → ℚ) (w : ℕ → ℚ) (lam : ℚ) (P : ℕ → ℕ → ℚ) (k l : ℕ) : ℚ :=
  (∑ j ∈ range m, B k j * w j * B l j) + lam * P k l

/-- `B W y`. -/
def normalRhs (m : ℕ) (B : ℕ → ℕ → ℚ) (w y : ℕ → ℚ) (k : ℕ) : ℚ :=
  ∑ j ∈ range m, B k j * w j * y j

/-- `β` solves the normal equations `A β = b` (what `pinv`/`lstsq` return when `A`
is non-singular). -/
def IsFit (K : ℕ) (A : ℕ → ℕ → ℚ) (b β : ℕ → ℚ) : Prop :=
  ∀ k, k < K → ∑ l ∈ range K, A k l * β l = b k

/-- Non-singularity on `range K`: the only solution of `A v = 0` is `v = 0`. -/
def NonSing (K : ℕ) (A : ℕ → ℕ → ℚ) : Prop :=
  ∀ v : ℕ → ℚ, (∀ k, k < K → ∑ l ∈ range K, A k l * v l = 0) → ∀ k, k < K → v k = 0

/-- `ps.predict(x)` / fitted values: `βᵀ B`. -/
def fitted (K : ℕ) (B : ℕ → ℕ → ℚ) (β : ℕ → ℚ) (j : ℕ) : ℚ := ∑ k ∈ range K, β k * B k j

/-- 2-D `predict`: `B₁ᵀ β B₂` (two rotated H-transforms). -/
def fitted2 (K₁ K₂ : ℕ) (B₁ B₂ : ℕ → ℕ → ℚ) (β : ℕ → ℕ → ℚ) (a b : ℕ) : ℚ :=
  ∑ k₁ ∈ range K₁, ∑ k₂ ∈ range K₂, β k₁ k₂ * B₁ k₁ a * B₂ k₂ b

/-! ### control flow and exponents of the coefficient-space methods (as coded) -/

/-- `rescale`: the weight is re-estimated exactly when `weights == 0.0`. -/
def rescaleReestimates (w : ℚ) : Bool := decide (w = 0)

/-- `rescale` divides the coefficients by `weights ** rescalePower` (`np.sqrt`). -/
def rescalePower : ℚ := 1 / 2

/-- `norm(squared=False)` is `np.power(diag, normPower)`. -/
def normPower : ℚ := 1 / 2

/-- `normalize(**kwargs)` divides by `self.norm(**kwargs)`: every keyword (`squared`,
`method_integration`, …) reaches `norm`, as in the grid classes. -/
def normalizeForwardsKeywords : Bool := true

end FDA
