/-
Local polynomial regression of FDApy as executable exact-rational definitions.

Mirrors `FDApy/preprocessing/smoothing/local_polynomial.py`:
  `_epanechnikov`, `_tri_cube`, `_bi_square`            → `epanechnikov`, `tricube`, `bisquare`, `ckernel`
  `_compute_kernel`                                       → `weight1`, `sqDist2`, `weight2`, `weight2Sq`
  `PolynomialFeatures(degree).fit_transform((x - x0)/h)`  → `design1`, `monos2`, `design2`
  `_local_regression` (`temp = dmatᵀ * k; lstsq(temp @ dmat, temp @ y)`; `dmat_x0 · β`)
                                                          → `normalMat`, `normalRhs`, `IsSol`, `est`, `certSolve`, `lpEstimate`
  `LocalPolynomial.predict` (one local problem per query point, design in centred,
  bandwidth-scaled coordinates, query row = features of the origin = `e₀`)
                                                          → `lpEstimate1`, `lpPredict1`, `lpEstimate2`, `lpPredict2`

Numeric layer convention: vectors `ℕ → ℚ` read on `range n`, matrices `ℕ → ℕ → ℚ`.

The linear solve is *certified*: `gaussInverse` is an untrusted exact Gauss–Jordan
elimination; `certSolve` accepts its output only after checking `N·X = I` and `X·N = I`
exactly, so that `certSolve p N r = some β` is proved (FDAProofs/Lemmas/LocalPoly.lean)
to mean "`β` is the unique solution of `N β = r`".  `none` = singular normal matrix
(the implementation then returns a minimum-norm `lstsq` solution; the harness only
checks finiteness there).

The Gaussian kernel is not rational: its weights enter `lpEstimate` as a parameter
`w` (the driver computes them with `Float`, the theorems about it are over `ℝ`).
-/
import FDAModel.Core.Quadrature

namespace FDA.LP
open Finset

/-! ### Kernels (compactly supported ones, exact) -/

inductive CKernel
  | epanechnikov | tricube | bisquare
  deriving DecidableEq, Repr

/-- `_epanechnikov`: `0.75 (1 - u²)` where `|u| ≤ 1`, else `0`. -/
def epanechnikov (u : ℚ) : ℚ := if |u| ≤ 1 then 3 / 4 * (1 - u ^ 2) else 0

/-- `_tri_cube`: `(1 - |u|³)³` where `|u| < 1`, else `0`. -/
def tricube (u : ℚ) : ℚ := if |u| < 1 then (1 - |u| ^ 3) ^ 3 else 0

/-- `_bi_square`: `(1 - u²)²` where `|u| < 1`, else `0`. -/
def bisquare (u : ℚ) : ℚ := if |u| < 1 then (1 - u ^ 2) ^ 2 else 0

/-- `_kernel(name)` for the three compactly supported kernels. -/
def ckernel : CKernel → ℚ → ℚ
  | .epanechnikov => epanechnikov
  | .tricube => tricube
  | .bisquare => bisquare

/-- `_compute_kernel` for one-dimensional sampling points: `K(|x - x₀| / h)`. -/
def weight1 (k : CKernel) (h x x0 : ℚ) : ℚ := ckernel k (|x - x0| / h)

/-- Squared Euclidean distance in the plane (`np.linalg.norm(x - x0, axis=1)²`). -/
def sqDist2 (x1 x2 x01 x02 : ℚ) : ℚ := (x1 - x01) ^ 2 + (x2 - x02) ^ 2

/-- `_compute_kernel` for two-dimensional sampling points, with the square root as a
parameter (`root s` stands for `√s`): `K(root(‖x - x₀‖²) / h)`. -/
def weight2 (root : ℚ → ℚ) (k : CKernel) (h x1 x2 x01 x02 : ℚ) : ℚ :=
  ckernel k (root (sqDist2 x1 x2 x01 x02) / h)

/-- The kernels that are polynomials of `u²`, as functions of `v = u²` (no square root). -/
def epanechnikovSq (v : ℚ) : ℚ := if v ≤ 1 then 3 / 4 * (1 - v) else 0
def bisquareSq (v : ℚ) : ℚ := if v < 1 then (1 - v) ^ 2 else 0

/-- Two-dimensional weight for Epanechnikov / bisquare, exact (proved equal to
`weight2` for every exact square-root function). -/
def weight2Sq (bisq : Bool) (h x1 x2 x01 x02 : ℚ) : ℚ :=
  let v := sqDist2 x1 x2 x01 x02 / h ^ 2
  if bisq then bisquareSq v else epanechnikovSq v

/-! ### Design matrices: monomials of the centred, bandwidth-scaled coordinates -/

/-- 1-D design: column `k` is `((x_i - x₀)/h)^k`, `k ≤ degree`
(`PolynomialFeatures(degree).fit_transform((x - x0) / h)`). -/
def design1 (h : ℚ) (x : ℕ → ℚ) (x0 : ℚ) (i k : ℕ) : ℚ := ((x i - x0) / h) ^ k

/-- Exponent pairs of the bivariate monomials of total degree `≤ d` in the order of
`sklearn.preprocessing.PolynomialFeatures`: graded, `(t,0), (t-1,1), …, (0,t)`. -/
def monos2 (d : ℕ) : List (ℕ × ℕ) :=
  (List.range (d + 1)).flatMap fun t => (List.range (t + 1)).map fun s => (t - s, s)

/-- Number of columns of the design. -/
def nFeatures (dim d : ℕ) : ℕ := if dim = 1 then d + 1 else (monos2 d).length

/-- 2-D design: column `a` is `z₁^e₁ z₂^e₂` with `(e₁,e₂) = monos2 d [a]`,
`z = (x_i - x₀)/h`. -/
def design2 (h : ℚ) (d : ℕ) (x1 x2 : ℕ → ℚ) (x01 x02 : ℚ) (i a : ℕ) : ℚ :=
  let e := (monos2 d).getD a (0, 0)
  ((x1 i - x01) / h) ^ e.1 * ((x2 i - x02) / h) ^ e.2

/-- Query row: the features of the origin, `(1, 0, …, 0)`. -/
def unit0 (a : ℕ) : ℚ := if a = 0 then 1 else 0

/-! ### Weighted normal equations -/

/-- `(dmatᵀ * k) @ dmat`. -/
def normalMat (n : ℕ) (w : ℕ → ℚ) (D : ℕ → ℕ → ℚ) (a b : ℕ) : ℚ :=
  ∑ i ∈ range n, D i a * w i * D i b

/-- `(dmatᵀ * k) @ y`. -/
def normalRhs (n : ℕ) (w : ℕ → ℚ) (D : ℕ → ℕ → ℚ) (y : ℕ → ℚ) (a : ℕ) : ℚ :=
  ∑ i ∈ range n, D i a * w i * y i

/-- `β` solves the `p × p` system `N β = r`. -/
def IsSol (p : ℕ) (N : ℕ → ℕ → ℚ) (r β : ℕ → ℚ) : Prop :=
  ∀ a, a < p → ∑ b ∈ range p, N a b * β b = r a

/-- `dmat_x0 · β`. -/
def est (p : ℕ) (d0 β : ℕ → ℚ) : ℚ := ∑ a ∈ range p, d0 a * β a

/-- Weighted residual sum of squares `Σ wᵢ (yᵢ - Σ_a D_{ia} β_a)²` (the criterion whose
minimiser the normal equations characterise). -/
def wrss (n p : ℕ) (w : ℕ → ℚ) (D : ℕ → ℕ → ℚ) (y β : ℕ → ℚ) : ℚ :=
  ∑ i ∈ range n, w i * (y i - ∑ a ∈ range p, D i a * β a) ^ 2

/-! ### Certified exact solve -/

/-- Untrusted Gauss–Jordan inversion over `ℚ` (partial pivoting on the first non-zero
entry).  Its result is only ever used after `isInverse` accepted it. -/
def gaussInverse (p : ℕ) (a : Array (Array ℚ)) : Option (Array (Array ℚ)) := Id.run do
  let mut m : Array (Array ℚ) :=
    Array.ofFn (n := p) fun i => Array.ofFn (n := 2 * p) fun j =>
      if j.val < p then (a.getD i.val #[]).getD j.val 0 else if j.val - p = i.val then 1 else 0
  for c in [0:p] do
    let mut piv := c
    for r in [c:p] do
      if (m.getD piv #[]).getD c 0 == 0 && (m.getD r #[]).getD c 0 != 0 then piv := r
    if (m.getD piv #[]).getD c 0 == 0 then return none
    let rowP := m.getD piv #[]
    let rowC := m.getD c #[]
    m := (m.setIfInBounds piv rowC).setIfInBounds c rowP
    let pv := rowP.getD c 0
    let rowN := rowP.map (· / pv)
    m := m.setIfInBounds c rowN
    for r in [0:p] do
      if r != c then
        let rr := m.getD r #[]
        let f := rr.getD c 0
        if f != 0 then
          m := m.setIfInBounds r (Array.ofFn (n := 2 * p) fun j => rr.getD j.val 0 - f * rowN.getD j.val 0)
  return some (m.map fun row => row.extract p (2 * p))

/-- Exact check `N·X = I ∧ X·N = I` on the leading `p × p` blocks. -/
def isInverse (p : ℕ) (N X : ℕ → ℕ → ℚ) : Bool :=
  (List.range p).all fun a => (List.range p).all fun b =>
    decide (∑ c ∈ range p, N a c * X c b = if a = b then 1 else 0) &&
    decide (∑ c ∈ range p, X a c * N c b = if a = b then 1 else 0)

/-- Certified solve of `N β = r`: `some β` only when an exact two-sided inverse of `N`
was exhibited and checked; `none` = no inverse found (singular). -/
def certSolve (p : ℕ) (N : ℕ → ℕ → ℚ) (r : ℕ → ℚ) : Option (Array ℚ) :=
  let Na := tabA2 p p N
  let ra := tabA p r
  match gaussInverse p Na with
  | none => none
  | some X =>
    if isInverse p (rd2 Na) (rd2 X) then
      some (tabA p fun a => ∑ b ∈ range p, rd2 X a b * rd ra b)
    else none

/-! ### The estimator -/

/-- `_local_regression` with query row `e₀`: solve the weighted normal equations of
the design `D` (`n × p`), weights `w`, responses `y`; the estimate is the intercept. -/
def lpEstimate (n p : ℕ) (w : ℕ → ℚ) (D : ℕ → ℕ → ℚ) (y : ℕ → ℚ) : Option ℚ :=
  let wa := tabA n w
  let Da := tabA2 n p D
  match certSolve p (normalMat n (rd wa) (rd2 Da)) (normalRhs n (rd wa) (rd2 Da) y) with
  | none => none
  | some β => some (est p unit0 (rd β))

/-- 1-D local polynomial estimate at `x0` (compact kernel `k`, bandwidth `h`, degree `d`). -/
def lpEstimate1 (k : CKernel) (h : ℚ) (d n : ℕ) (x y : ℕ → ℚ) (x0 : ℚ) : Option ℚ :=
  lpEstimate n (d + 1) (fun i => weight1 k h (x i) x0) (design1 h x x0) y

/-- `LocalPolynomial.predict(y, x, x_new)` in 1-D: one local problem per query point. -/
def lpPredict1 (k : CKernel) (h : ℚ) (d n : ℕ) (x y : ℕ → ℚ) (Q : List ℚ) : List (Option ℚ) :=
  Q.map (lpEstimate1 k h d n x y)

/-- 2-D local polynomial estimate at `(x01, x02)` with arbitrary weights (the weights
of the chosen kernel are supplied by `weight2` / `weight2Sq` / the Gaussian). -/
def lpEstimate2W (w : ℕ → ℚ) (h : ℚ) (d n : ℕ) (x1 x2 y : ℕ → ℚ) (x01 x02 : ℚ) : Option ℚ :=
  lpEstimate n (monos2 d).length w (design2 h d x1 x2 x01 x02) y

/-- 2-D estimate for the kernels that need no square root (Epanechnikov, bisquare). -/
def lpEstimate2 (bisq : Bool) (h : ℚ) (d n : ℕ) (x1 x2 y : ℕ → ℚ) (x01 x02 : ℚ) : Option ℚ :=
  lpEstimate2W (fun i => weight2Sq bisq h (x1 i) (x2 i) x01 x02) h d n x1 x2 y x01 x02

/-- `LocalPolynomial.predict` in 2-D: one local problem per query point. -/
def lpPredict2 (bisq : Bool) (h : ℚ) (d n : ℕ) (x1 x2 y : ℕ → ℚ) (Q : List (ℚ × ℚ)) :
    List (Option ℚ) :=
  Q.map fun q => lpEstimate2 bisq h d n x1 x2 y q.1 q.2

/-- 1-D estimate with externally supplied weights (Gaussian kernel). -/
def lpEstimate1W (w : ℕ → ℚ) (h : ℚ) (d n : ℕ) (x y : ℕ → ℚ) (x0 : ℚ) : Option ℚ :=
  lpEstimate n (d + 1) w (design1 h x x0) y

/-! ### The default bandwidth rule `n^(-1/5)`: which `n` each entry point uses

The rule-of-thumb bandwidth is `n^(-1/5)`; its rational skeleton is the count `n`, a function of the DATA only:
  `DenseFunctionalData.smooth` / `.mean`   : `np.prod(self.n_points)`            (sampling points per dimension)
  `IrregularFunctionalData.smooth` / `.mean`: `np.mean(self.n_points.values())`   (points per observation)
  `…covariance` (`_smooth_covariance`)      : `np.prod(argvals_cov.n_points)`     (the sampling grid squared)
None of them has the query set among its arguments. -/

inductive LPEntry
  | denseSmooth | irregularSmooth | covariance
  deriving DecidableEq, Repr

/-- The count `n` whose power `n^(-1/5)` is the default bandwidth.  `sizes`: numbers of sampling points per
dimension (dense), per observation (irregular), of the common sampling grid (covariance). -/
def bandwidthCount : LPEntry → List ℕ → ℚ
  | .denseSmooth, sizes => (sizes.prod : ℚ)
  | .irregularSmooth, sizes => (sizes.sum : ℚ) / (sizes.length : ℚ)
  | .covariance, sizes => (sizes.prod : ℚ) * (sizes.prod : ℚ)

/-! ### Constants, tables and defaults of the code path (tied to the source by `Generated/SmoothFormulas.lean`) -/

/-- `rcond` of the `lstsq` call in `_local_regression`: singular values below `rcond · σ_max` are dropped. -/
def lstsqRcond : ℚ := 1 / 10 ^ 10

/-- Largest condition number of the centred/scaled normal matrix for which the harness compares values with the exact
model (`COND_OK` of harness/c06.py): far below `1 / rcond`, so no singular value of a compared problem is truncated. -/
def condCompared : ℚ := 10 ^ 5

/-- `_kernel`: kernel name -> function of the module. -/
def kernelTable : List (String × String) :=
  [("gaussian", "_gaussian"), ("epanechnikov", "_epanechnikov"), ("tricube", "_tri_cube"), ("bisquare", "_bi_square")]

/-- Default options of `LocalPolynomial(kernel_name, bandwidth, degree, robust)`. -/
def initKernel : String := "epanechnikov"
def initBandwidth : ℚ := 1 / 20
def initDegree : ℕ := 1
def initRobust : Bool := false

/-- `PolynomialFeatures(degree)`: with the constant column, all monomials (not only interactions). -/
def polyIncludeBias : Bool := true
def polyInteractionOnly : Bool := false

/-! ### The uncentred ("raw") formulation, for the equivalence theorem -/

/-- Raw 1-D design: column `k` is `x_i^k`. -/
def rawDesign1 (x : ℕ → ℚ) (i k : ℕ) : ℚ := x i ^ k

/-- Raw query row: `x₀^k`. -/
def rawQuery1 (x0 : ℚ) (k : ℕ) : ℚ := x0 ^ k

end FDA.LP
