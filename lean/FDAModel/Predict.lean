/-
Prediction with a fitted smoother, as executable exact-rational definitions (C07).

Mirrors
  `FDApy/misc/basis.py::_basis_bsplines` (equally spaced extended knots laid on the
      *domain* `[dmin, dmax]`, truncated powers, difference matrix, end-knot mask)
                                                  → `knot`, `tpower`, `bspline`
  `PSplines.predict` (target tree: the basis is rebuilt on the domain stored by `fit`,
      `beta_hat @ basis` in 1-D, two rotated H-transforms in 2-D)
                                                  → `evalSpline`, `predict`, `evalSpline2`,
                                                     `predict2`, `predict2Glam`
  `PSplines.predict` (pristine tree: basis rebuilt on the range of the query points)
                                                  → `predictRebuilt`  (the repaired defect, kept
                                                     for the counterexample theorem)
  `DenseFunctionalData.smooth/.mean(points=…)`, `IrregularFunctionalData.smooth/.mean`
      (fit on the data's own domain, then `predict` at `points`)      → `smoothAt`
  `…covariance(points=…)` (`_smooth_covariance` on `points × points`, then `(C + Cᵀ)/2`)
                                                  → `covAt`
A fitted P-spline is `(dmin, dmax, n_segments, degree, β)`; the coefficients are a
parameter (they are the implementation's own `beta_hat` in the correspondence; what they
are is C05's business).  The B-spline evaluator here is self-contained.
-/
import FDAModel.Core.Quadrature

namespace FDA.PS
open Finset

/-- A fitted one-dimensional P-spline: the domain the knots were laid on at fit time,
the number of segments, the degree, the coefficients (`n_segments + degree` of them). -/
structure Fit1 where
  dmin : ℚ
  dmax : ℚ
  nseg : ℕ
  deg : ℕ
  beta : ℕ → ℚ

/-- Knot spacing `dx = (domain_max - domain_min) / n_segments`. -/
def dx (dmin dmax : ℚ) (nseg : ℕ) : ℚ := (dmax - dmin) / nseg

/-- `knots = np.linspace(dmin - deg·dx, dmax + deg·dx, nseg + 2·deg + 1)`: knot `i`. -/
def knot (dmin dmax : ℚ) (nseg deg i : ℕ) : ℚ := dmin + ((i : ℚ) - deg) * dx dmin dmax nseg

/-- `_tpower`: `(x - knot)^p · [x ≥ knot]`. -/
def tpower (x k : ℚ) (p : ℕ) : ℚ := if k ≤ x then (x - k) ^ p else 0

/-- Row `j` of `np.diff(np.eye(·), n = deg + 1, axis = 0)`: entry at column `j + r`. -/
def diffCoef (deg r : ℕ) : ℚ := (-1) ^ (deg + 1 - r) * (Nat.choose (deg + 1) r : ℚ)

/-- B-spline number `j` at `x`, exactly as `_basis_bsplines` computes it. -/
def bspline (dmin dmax : ℚ) (nseg deg j : ℕ) (x : ℚ) : ℚ :=
  if x < knot dmin dmax nseg deg (j + deg + 1) then
    (-1) ^ (deg + 1) *
      (∑ r ∈ range (deg + 2), tpower x (knot dmin dmax nseg deg (j + r)) deg * diffCoef deg r) /
        ((Nat.factorial deg : ℚ) * dx dmin dmax nseg ^ deg)
  else 0

/-- Number of basis functions. -/
def nFun (nseg deg : ℕ) : ℕ := nseg + deg

/-- Value of the fitted spline at one location (`beta_hat @ basis[:, q]`). -/
def evalSpline (f : Fit1) (q : ℚ) : ℚ :=
  ∑ j ∈ range (nFun f.nseg f.deg), f.beta j * bspline f.dmin f.dmax f.nseg f.deg j q

/-- `PSplines.predict(x)` in 1-D (target tree). -/
def predict (f : Fit1) (Q : List ℚ) : List ℚ := Q.map (evalSpline f)

/-- `y_hat = basis.T @ beta_hat` of `_fit_one_dimensional`: the fitted curve at the
sampling points `x` (the basis built on the fit domain). -/
def fittedValues (f : Fit1) (x : List ℚ) : List ℚ :=
  x.map fun t => ∑ j ∈ range (nFun f.nseg f.deg), bspline f.dmin f.dmax f.nseg f.deg j t * f.beta j

/-- `PSplines.predict` of the pristine tree: the basis is rebuilt on the range of the
query points (`np.min(argvals)`, `np.max(argvals)`). -/
def predictRebuilt (f : Fit1) (Q : List ℚ) : List ℚ :=
  match Q.min?, Q.max? with
  | some lo, some hi => Q.map (evalSpline { f with dmin := lo, dmax := hi })
  | _, _ => []

/-- A fitted two-dimensional (tensor-product) P-spline. -/
structure Fit2 where
  dmin1 : ℚ
  dmax1 : ℚ
  nseg1 : ℕ
  deg1 : ℕ
  dmin2 : ℚ
  dmax2 : ℚ
  nseg2 : ℕ
  deg2 : ℕ
  beta : ℕ → ℕ → ℚ

/-- `Σ_a Σ_b β_ab · b1_a · b2_b`: a coefficient matrix contracted with two vectors of
basis values. -/
def tensorEval (n1 n2 : ℕ) (β : ℕ → ℕ → ℚ) (b1 b2 : ℕ → ℚ) : ℚ :=
  ∑ a ∈ range n1, ∑ b ∈ range n2, β a b * b1 a * b2 b

/-- Value of the tensor-product spline at one location. -/
def evalSpline2 (f : Fit2) (q1 q2 : ℚ) : ℚ :=
  tensorEval (nFun f.nseg1 f.deg1) (nFun f.nseg2 f.deg2) f.beta
    (fun a => bspline f.dmin1 f.dmax1 f.nseg1 f.deg1 a q1)
    (fun b => bspline f.dmin2 f.dmax2 f.nseg2 f.deg2 b q2)

/-- `PSplines.predict([x₁, x₂])` on the product grid `Q₁ × Q₂` (specification). -/
def predict2 (f : Fit2) (Q1 Q2 : List ℚ) : List (List ℚ) :=
  Q1.map fun q1 => Q2.map fun q2 => evalSpline2 f q1 q2

/-- The procedure of the code: `_rotated_h_transform(B₁ᵀ, β)` (contract the first axis,
rotate), then `_rotated_h_transform(B₂ᵀ, ·)` (contract the second axis, rotate back). -/
def predict2Glam (f : Fit2) (Q1 Q2 : List ℚ) : List (List ℚ) :=
  -- first stage, rotated: `s b i = Σ_a B₁[a](q1_i) β[a][b]`
  let s : ℕ → ℚ → ℚ := fun b q1 =>
    ∑ a ∈ range (nFun f.nseg1 f.deg1), bspline f.dmin1 f.dmax1 f.nseg1 f.deg1 a q1 * f.beta a b
  Q1.map fun q1 => Q2.map fun q2 =>
    ∑ b ∈ range (nFun f.nseg2 f.deg2), bspline f.dmin2 f.dmax2 f.nseg2 f.deg2 b q2 * s b q1

/-- `DenseFunctionalData.smooth(points, method="PS")` / `IrregularFunctionalData.smooth`:
one fit per observation (on the data's own domain), each predicted at `points`. -/
def smoothAt (fits : List Fit1) (points : List ℚ) : List (List ℚ) := fits.map fun f => predict f points

/-- `covariance(points, method_smoothing="PS")`: the smoothed surface on `points × points`,
then `(C + Cᵀ)/2`. -/
def covAt (f : Fit2) (points : List ℚ) : List (List ℚ) :=
  points.map fun p => points.map fun q => (evalSpline2 f p q + evalSpline2 f q p) / 2

/-- Basis values at the query points, tabulated once per point (what the driver runs;
proved equal to `predict2` / `covAt` in FDAProofs/Lemmas/Predict.lean). -/
def basisTab (dmin dmax : ℚ) (nseg deg : ℕ) (Q : List ℚ) : List (Array ℚ) :=
  Q.map fun q => tabA (nFun nseg deg) fun a => bspline dmin dmax nseg deg a q

def predict2Tab (f : Fit2) (Q1 Q2 : List ℚ) : List (List ℚ) :=
  let B1 := basisTab f.dmin1 f.dmax1 f.nseg1 f.deg1 Q1
  let B2 := basisTab f.dmin2 f.dmax2 f.nseg2 f.deg2 Q2
  B1.map fun b1 => B2.map fun b2 =>
    tensorEval (nFun f.nseg1 f.deg1) (nFun f.nseg2 f.deg2) f.beta (rd b1) (rd b2)

def covAtTab (f : Fit2) (points : List ℚ) : List (List ℚ) :=
  let B1 := basisTab f.dmin1 f.dmax1 f.nseg1 f.deg1 points
  let B2 := basisTab f.dmin2 f.dmax2 f.nseg2 f.deg2 points
  (B1.zip B2).map fun p => (B1.zip B2).map fun q =>
    (tensorEval (nFun f.nseg1 f.deg1) (nFun f.nseg2 f.deg2) f.beta (rd p.1) (rd q.2) +
      tensorEval (nFun f.nseg1 f.deg1) (nFun f.nseg2 f.deg2) f.beta (rd q.1) (rd p.2)) / 2

/-! ### Request-independence logic of the entry points (tied to the source by `Generated/SmoothFormulas.lean`) -/

/-- `IrregularFunctionalData.mean`: the large-sample approximation is used when `approx` and more than 2000 pooled
observations — a function of the DATA, not of the request. -/
def approxSwitch (approx : Bool) (nPooled : ℕ) : Bool := approx && decide (2000 < nPooled)

/-- What `points=None` stands for: the data's own sampling points. -/
def pointsDefault : List (String × String) :=
  [("DenseFunctionalData.smooth", "self.argvals"), ("DenseFunctionalData.mean", "self.argvals"),
   ("DenseFunctionalData.covariance", "self.argvals"), ("IrregularFunctionalData.smooth", "self.argvals.to_dense()"),
   ("IrregularFunctionalData.mean", "self.argvals.to_dense()"), ("IrregularFunctionalData.covariance", "self.argvals.to_dense()")]

/-- `(cov + cov.T) / 2`, entry-wise. -/
def symmetrise (c ct : ℚ) : ℚ := (c + ct) / 2

/-- Σ|terms| of the evaluation (scale of the float tolerance): truncated-power terms of
every basis function, weighted by `|β_j|`. -/
def evalScale (f : Fit1) (q : ℚ) : ℚ :=
  ∑ j ∈ range (nFun f.nseg f.deg), |f.beta j| *
    ((∑ r ∈ range (f.deg + 2), |tpower q (knot f.dmin f.dmax f.nseg f.deg (j + r)) f.deg * diffCoef f.deg r|) /
      ((Nat.factorial f.deg : ℚ) * |dx f.dmin f.dmax f.nseg| ^ f.deg))

end FDA.PS
