/-
The array arithmetic (GLAM) of `FDApy/preprocessing/smoothing/psplines.py`
(`_row_tensor`, `_h_transform`, `_rotate`, `_rotated_h_transform`,
`_create_permutation`, `_tensor_product_penalties`, `_fit_n_dimensional`),
index-faithful, on flat row-major arrays.

An n-d array is its row-major flattening `Array ℚ` (read with `FDA.rd`, default 0)
together with an explicit shape; `reshape` is therefore the identity on the data.
Every operation materialises its result (`tabA`), so the definitions below are
what the driver runs *and* what the refinement theorems of C05 are about.
-/
import FDAModel.PSplines

namespace FDA.GLAM
open Finset FDA.PSpline

/-- Row-major linearisation of a multi-index. -/
def lin : List ℕ → List ℕ → ℕ
  | [], _ => 0
  | _ :: _, [] => 0
  | _ :: ss, i :: is => i * ss.prod + lin ss is

/-- Inverse of `lin`. -/
def unlin : List ℕ → ℕ → List ℕ
  | [], _ => []
  | _ :: ss, f => (f / ss.prod) :: unlin ss (f % ss.prod)

/-- `_row_tensor(x, y)[i, a·q + b] = x[i,a]·y[i,b]` (`y` has `q` columns):
`np.kron(x, 1ᵀ) * np.kron(1ᵀ, y)`. -/
def rowTensor (q : ℕ) (X Y : ℕ → ℕ → ℚ) (i c : ℕ) : ℚ := X i (c / q) * Y i (c % q)

/-- `_rotated_h_transform(x, y)` for `x` of shape `n × m` and `y` of shape `(m, R)` (flat, `R` the
product of the remaining axes): `_h_transform` multiplies along the first axis
(`(x @ y.reshape(m, R))`), `_rotate` moves that axis to the end, so the result has shape
`(R, n)`: `out[r·n + i] = Σ_k x[i,k]·y[k·R + r]`. -/
def rotatedH (n m R : ℕ) (x : ℕ → ℕ → ℚ) (y : Array ℚ) : Array ℚ :=
  tabA (R * n) fun f => ∑ k ∈ range m, x (f % n) k * rd y (k * R + f / n)

/-- `_create_permutation(p, k)`: `np.add.outer(arange(k)*p, arange(p)).flatten("F")`. -/
def createPermutation (p k : ℕ) : List ℕ := (List.range (k * p)).map fun t => (t % k) * p + t / k

/-- `a.reshape(shape).transpose(axes)` re-flattened (row-major):
`new[idx] = old[j ↦ idx[axes.indexOf j]]`, new shape `axes.map shape`. -/
def transposeA (shape axes : List ℕ) (a : Array ℚ) : Array ℚ :=
  let newShape := axes.map fun ax => shape.getD ax 1
  tabA shape.prod fun f =>
    let idx := unlin newShape f
    rd a (lin shape ((List.range shape.length).map fun j => idx.getD (axes.idxOf j) 0))

/-- One marginal basis: `m` functions on `n` points, `B k i`. -/
structure Dim where
  m : ℕ
  n : ℕ
  B : ℕ → ℕ → ℚ

/-- `_row_tensor(basis.T)`: shape `n × m²`, `[i, k·m + l] = B[k,i]·B[l,i]`. -/
def tensorRow (d : Dim) (i c : ℕ) : ℚ := rowTensor d.m (fun i k => d.B k i) (fun i k => d.B k i) i c

def prodN (dims : List Dim) : ℕ := (dims.map (·.n)).prod
def prodM (dims : List Dim) : ℕ := (dims.map (·.m)).prod

/-- `np.repeat(n_basis, 2)`. -/
def repeat2 (dims : List Dim) : List ℕ := dims.flatMap fun d => [d.m, d.m]
/-- `np.tile(n_basis, 2)`. -/
def tile2 (dims : List Dim) : List ℕ := dims.map (·.m) ++ dims.map (·.m)

/-- The loop `acc = _rotated_h_transform(X_idx, acc)` over the dimensions; `X d` is the
`rows d × d.n`-matrix used for dimension `d`; the state carries the flat data and its size. -/
def chain (rows : Dim → ℕ) (cols : Dim → ℕ) (X : Dim → ℕ → ℕ → ℚ) (dims : List Dim)
    (init : Array ℚ) (size : ℕ) : Array ℚ × ℕ :=
  dims.foldl (fun st d =>
    let R := st.2 / cols d
    (rotatedH (rows d) (cols d) R (X d) st.1, R * rows d)) (init, size)

/-- `bwb_mat`: rotated H-transforms of the weights with `tensor_list[idx].T`, then
`reshape(np.repeat(n_basis,2)).transpose(_create_permutation(2, d)).reshape(M, M)`. -/
def glamBWB (dims : List Dim) (W : Array ℚ) : Array ℚ :=
  let r := chain (fun d => d.m * d.m) (·.n) (fun d a i => tensorRow d i a) dims W (prodN dims)
  transposeA (repeat2 dims) (createPermutation 2 dims.length) r.1

/-- `bwy_mat`: rotated H-transforms of `data * sample_weights` with `basis_list[idx]`. -/
def glamBWY (dims : List Dim) (YW : Array ℚ) : Array ℚ :=
  (chain (·.m) (·.n) (fun d => d.B) dims YW (prodN dims)).1

/-- `y_hat` (and `predict`): rotated H-transforms of the coefficients with `basis_list[idx].T`. -/
def glamYhat (dims : List Dim) (β : Array ℚ) : Array ℚ :=
  (chain (·.n) (·.m) (fun d i k => d.B k i) dims β (prodM dims)).1

/-- The hat-matrix diagonal of the (repaired) code: the inverse `X` (flat `M × M`) is
`reshape(np.tile(n_basis,2)).transpose(_create_permutation(d, 2)).reshape(m₁², …, m_d²)`,
then rotated H-transforms with `tensor_list[idx]`, then multiplied by the weights. -/
def glamHat (dims : List Dim) (X W : Array ℚ) : Array ℚ :=
  let rot := transposeA (tile2 dims) (createPermutation dims.length 2) X
  let h := (chain (·.n) (fun d => d.m * d.m) (fun d => tensorRow d) dims rot (prodM dims * prodM dims)).1
  tabA (prodN dims) fun i => rd W i * rd h i

/-- The pristine (defective) arrangement of the inverse: `reshape(np.repeat(n_basis,2))
.transpose(_create_permutation(2, d))` — correct only when all basis sizes are equal and `d = 2`. -/
def glamHatPristine (dims : List Dim) (X W : Array ℚ) : Array ℚ :=
  let rot := transposeA (repeat2 dims) (createPermutation 2 dims.length) X
  let h := (chain (·.n) (fun d => d.m * d.m) (fun d => tensorRow d) dims rot (prodM dims * prodM dims)).1
  tabA (prodN dims) fun i => rd W i * rd h i

/-- `np.eye`. -/
def eyeQ (i j : ℕ) : ℚ := if i = j then 1 else 0

/-- `_tensor_product_penalties(penalties)[idx]`: Kronecker product of `penalties[idx]` with
identities in the other positions (`np.kron` folded from the left), then symmetrised.
`Ps` lists `(m_j, P_j)`. -/
def tensorPenalty (Ps : List (ℕ × (ℕ → ℕ → ℚ))) (idx : ℕ) : ℕ → ℕ → ℚ :=
  let pick : ℕ → ℕ × (ℕ → ℕ → ℚ) → ℕ → ℕ → ℚ := fun j mp => if j = idx then mp.2 else eyeQ
  match Ps with
  | [] => eyeQ
  | mp0 :: rest =>
    let left := (rest.zipIdx 1).foldl
      (fun acc (mpj : (ℕ × (ℕ → ℕ → ℚ)) × ℕ) => Bases.kron mpj.1.1 mpj.1.1 acc (pick mpj.2 mpj.1))
      (pick 0 mp0)
    fun K L => (left K L + left L K) / 2

/-- `penalty_mat = Σ_idx penalties[idx] · pen_mats[idx]`. -/
def penaltyND (lams : List ℚ) (Ps : List (ℕ × (ℕ → ℕ → ℚ))) (K L : ℕ) : ℚ :=
  ((lams.zipIdx).map fun (li : ℚ × ℕ) => li.1 * tensorPenalty Ps li.2 K L).sum

/-! ### NumPy combinators used by the translated source formulas (`Generated/PSplineFormulas.lean`) -/

/-- `np.arange(lo, hi)[i]`. -/
def arangeN (lo i : ℕ) : ℕ := lo + i
/-- `np.add.outer(f, g)[i, j]`. -/
def outerAdd (f g : ℕ → ℕ) (i j : ℕ) : ℕ := f i + g j
/-- `m.flatten("F")` of a `rows × cols` matrix (column-major). -/
def flattenF (rows cols : ℕ) (m : ℕ → ℕ → ℕ) : List ℕ := (List.range (rows * cols)).map fun t => m (t % rows) (t / rows)
/-- `m.flatten()` (row-major). -/
def flattenC (rows cols : ℕ) (m : ℕ → ℕ → ℕ) : List ℕ := (List.range (rows * cols)).map fun t => m (t / cols) (t % cols)
/-- `np.repeat(l, r)`. -/
def repeatL (r : ℕ) (l : List ℕ) : List ℕ := l.flatMap (List.replicate r)
/-- `np.tile(l, r)`. -/
def tileL (r : ℕ) (l : List ℕ) : List ℕ := (List.replicate r l).flatten
/-- `np.kron(X, np.ones((1, q)))[i, c] = X[i, c // q]`. -/
def kronOnesRight (q : ℕ) (X : ℕ → ℕ → ℚ) (i c : ℕ) : ℚ := X i (c / q)
/-- `np.kron(np.ones((1, n)), Y)[i, c] = Y[i, c % q]` for `Y` with `q` columns. -/
def kronOnesLeft (q : ℕ) (Y : ℕ → ℕ → ℚ) (i c : ℕ) : ℚ := Y i (c % q)

end FDA.GLAM
