/-
Closed-form basis families and the assembly done by
`FDApy/representation/basis.py` (`_simulate_basis`, `Basis.__init__`), as
executable exact-rational definitions.

* `legendre`     — `_basis_legendre` (`scipy.special.eval_legendre` = Bonnet's recursion)
* `simulate`     — `_simulate_basis`: ask for one more function and drop the first
                   one when `add_intercept=False`
* `normalizedSq` — `values / sqrt(simpson(values², x))`, square-root free: the square of
                   the normalised value and its sign
* `kron`, `basis2` — `reduce(np.kron, values_list).reshape(prod(n_functions), *n_points)`

Fourier and Wiener functions need `sin`, `cos`, `π`: the theorems about them are
stated over `ℝ` (FDAProofs/Props/C18.lean), the driver evaluates them with `Float`.
-/
import FDAModel.BSpline

namespace FDA.Bases
open Finset

/-- `(P_n(x), P_{n+1}(x))` by Bonnet's recursion
`(n+2)·P_{n+2} = (2n+3)·x·P_{n+1} − (n+1)·P_n`. -/
def legendrePair : ℕ → ℚ → ℚ × ℚ
  | 0, x => (1, x)
  | n + 1, x =>
    let ab := legendrePair n x
    (ab.2, ((2 * (n : ℚ) + 3) * x * ab.2 - ((n : ℚ) + 1) * ab.1) / ((n : ℚ) + 2))

/-- `eval_legendre(n, x)`. -/
def legendre (n : ℕ) (x : ℚ) : ℚ := (legendrePair n x).1

/-- `_basis_legendre(argvals, n_functions)[k, j]`. -/
def legendreBasis (t : ℕ → ℚ) (k j : ℕ) : ℚ := legendre k (t j)

/-! Coefficient lists (lowest degree first) of the Legendre polynomials, for the
orthogonality statements. -/

def polyAdd : List ℚ → List ℚ → List ℚ
  | [], q => q
  | p, [] => p
  | a :: p, b :: q => (a + b) :: polyAdd p q

def polyScale (c : ℚ) (p : List ℚ) : List ℚ := p.map (c * ·)

def polyMulX (p : List ℚ) : List ℚ := 0 :: p

def polyMul : List ℚ → List ℚ → List ℚ
  | [], _ => []
  | a :: p, q => polyAdd (polyScale a q) (polyMulX (polyMul p q))

def polyEval : List ℚ → ℚ → ℚ
  | [], _ => 0
  | a :: p, x => a + x * polyEval p x

/-- Exact integral over `[-1, 1]` of the polynomial with coefficient list `c`, term by term:
`∫ x^k = (1 − (−1)^(k+1))/(k+1)`. -/
def polyIntSymAux : List ℚ → ℕ → ℚ
  | [], _ => 0
  | a :: p, k => a * ((1 - (-1) ^ (k + 1)) / ((k : ℚ) + 1)) + polyIntSymAux p (k + 1)

def polyIntSym (c : List ℚ) : ℚ := polyIntSymAux c 0

def legendreCoeffPair : ℕ → List ℚ × List ℚ
  | 0 => ([1], [0, 1])
  | n + 1 =>
    let ab := legendreCoeffPair n
    (ab.2, polyScale (1 / ((n : ℚ) + 2))
      (polyAdd (polyScale (2 * (n : ℚ) + 3) (polyMulX ab.2)) (polyScale (-((n : ℚ) + 1)) ab.1)))

def legendreCoeffs (n : ℕ) : List ℚ := (legendreCoeffPair n).1

/-- `∫_{-1}^{1} P_m P_n` computed exactly on the coefficient lists. -/
def legendreInner (m n : ℕ) : ℚ := polyIntSym (polyMul (legendreCoeffs m) (legendreCoeffs n))

/-- Executable check: for all `m, n < N`: `∫ P_m P_n = 0` (`m ≠ n`) and `= 2/(2n+1)` (`m = n`). -/
def legendreOrthoCheck (N : ℕ) : Bool :=
  (List.range N).all fun m => (List.range N).all fun n =>
    decide (legendreInner m n = if m = n then 2 / (2 * (n : ℚ) + 1) else 0)

/-! ### Assembly -/

/-- `_simulate_basis(name, argvals, n_functions, add_intercept=…)` for a family
`F : n_functions ↦ (k, j) ↦ value`: without intercept the family is asked for one more
function and `values[1:]` is returned. -/
def simulate (F : ℕ → ℕ → ℕ → ℚ) (n : ℕ) (addIntercept : Bool) : ℕ → ℕ → ℚ :=
  if addIntercept then F n else fun k j => F (n + 1) (k + 1) j

/-- The B-spline family as `_simulate_basis` calls it. -/
def bsplineFamily (dmin dmax : ℚ) (p : ℕ) (t : ℕ → ℚ) (n : ℕ) (k j : ℕ) : ℚ :=
  BSpline.bsplineBasis dmin dmax n p (t j) k

def legendreFamily (t : ℕ → ℚ) (_n : ℕ) (k j : ℕ) : ℚ := legendreBasis t k j

/-- A quadrature rule given by its weights: `Q(f) = Σ_j w_j f_j`
(`scipy.integrate.simpson(·, x=argvals)` is of this form; its weights are a parameter). -/
def quad (m : ℕ) (w f : ℕ → ℚ) : ℚ := ∑ j ∈ range m, w j * f j

/-- Square of the normalised value `values[k, j] / sqrt(q_k)` for given squared norms `q`. -/
def normalizedSqQ (q : ℕ → ℚ) (V : ℕ → ℕ → ℚ) (k j : ℕ) : ℚ := V k j ^ 2 / q k

/-- Square of the normalised value `values[k, j] / sqrt(Q(values[k]²))`. -/
def normalizedSq (m : ℕ) (w : ℕ → ℚ) (V : ℕ → ℕ → ℚ) (k j : ℕ) : ℚ :=
  normalizedSqQ (fun k => quad m w (fun i => V k i ^ 2)) V k j

/-- Normalisation with an explicit root `r k` of the squared norm. -/
def normalizeWith (r : ℕ → ℚ) (V : ℕ → ℕ → ℚ) (k j : ℕ) : ℚ := V k j / r k

/-- `np.kron(A, B)` for `B` of shape `r₂ × c₂`. -/
def kron (r₂ c₂ : ℕ) (A B : ℕ → ℕ → ℚ) (I J : ℕ) : ℚ :=
  A (I / r₂) (J / c₂) * B (I % r₂) (J % c₂)

/-- `np.kron(V₁, V₂).reshape(K₁·K₂, m₁, m₂)[f, a, b]` (row-major reshape). -/
def basis2 (K₂ m₂ : ℕ) (V₁ V₂ : ℕ → ℕ → ℚ) (f a b : ℕ) : ℚ :=
  kron K₂ m₂ V₁ V₂ f (a * m₂ + b)

/-- Three input dimensions: `reduce(np.kron, [V₁, V₂, V₃]).reshape(K₁·K₂·K₃, m₁, m₂, m₃)[f, a, b, c]`
(`np.kron` folded from the left, row-major reshape). -/
def basis3 (K₂ m₂ K₃ m₃ : ℕ) (V₁ V₂ V₃ : ℕ → ℕ → ℚ) (f a b c : ℕ) : ℚ :=
  kron K₃ m₃ (kron K₂ m₂ V₁ V₂) V₃ f ((a * m₂ + b) * m₃ + c)

end FDA.Bases
