/-
Sample estimators of FDApy as executable exact-rational definitions (C09).

Numeric layer convention of `Core/Quadrature.lean`: vectors `ℕ → ℚ` read on
`range n`, matrices `ℕ → ℕ → ℚ`, sums over `Finset.range`.

Mirrors (FDApy/representation/functional_data.py, FDApy/misc/utils.py):
* `DenseFunctionalData.mean` (no smoothing)            → `colMean` (Core/Quadrature)
* `DenseFunctionalData.covariance(method_smoothing=None)` → `covImpl` = `symmetrise (cov N 1 X)`
  (`np.dot(Xc.T, Xc) / (n_obs - 1)`, then `(cov + cov.T) / 2`)
* `BasisFunctionalData.covariance` coefficient matrix     → `cov K 0 C` (divides by `n_obs`)
* `_estimate_noise_variance(x, order)`                    → `noiseVar1E` / `noiseVar1`
* `DenseFunctionalData.noise_variance`, `IrregularFunctionalData.noise_variance`
                                                          → `noiseVarE` / `noiseVar`
* `_estimate_noise_variance_with_covariance`              → `noiseFromCov` (the local-linear
  smoother of the raw diagonal is a parameter: `varHat`)
-/
import FDAModel.Core.Quadrature
import FDAModel.Generated.DiffSeq

namespace FDA
open Finset

/-! ### mean and covariance -/

/-- The code line `np.dot(data.values.T, data.values) / (N - ddof)` on whatever data
`D` it is given (centred or not). -/
def covOf (N ddof : ℕ) (D : ℕ → ℕ → ℚ) (a b : ℕ) : ℚ :=
  (∑ i ∈ range N, D i a * D i b) / ((N : ℚ) - ddof)

/-- `covOf` of the centred data `Xc = X - X.mean(axis=0)`:
`ddof = 1` is `DenseFunctionalData.covariance`, `ddof = 0` the basis-coefficient
covariance and `np.var`.  (`N = ddof` is a division by zero in the code —
`nan`/`inf`; the theorems carry `ddof < N`.) -/
def cov (N ddof : ℕ) (X : ℕ → ℕ → ℚ) (a b : ℕ) : ℚ := covOf N ddof (center N X) a b

/-- `covariance(center=False)`: `np.dot(X.T, X) / (N - 1)` on the raw values. -/
def covRaw (N : ℕ) (X : ℕ → ℕ → ℚ) (a b : ℕ) : ℚ := covOf N 1 X a b

/-- "Ensure the covariance is symmetric": `(M + M.T) / 2`, applied to whatever
the smoother returned. -/
def symmetrise (M : ℕ → ℕ → ℚ) (a b : ℕ) : ℚ := (M a b + M b a) / 2

/-- What `DenseFunctionalData.covariance(method_smoothing=None)` returns. -/
def covImpl (N : ℕ) (X : ℕ → ℕ → ℚ) : ℕ → ℕ → ℚ := symmetrise (cov N 1 X)

/-- `np.var(values, axis=0)` (population variance, `ddof = 0`). -/
def popVar (N : ℕ) (X : ℕ → ℕ → ℚ) (j : ℕ) : ℚ :=
  (∑ i ∈ range N, (X i j - colMean N X j) ^ 2) / N

/-! ### difference-based noise variance (Hall, Kay, Titterington) -/

/-- `np.matmul(weights, x[s : s + order + 1])`. -/
def window (q : ℕ) (d x : ℕ → ℚ) (s : ℕ) : ℚ := ∑ k ∈ range (q + 1), d k * x (s + k)

/-- `_estimate_noise_variance(x, q)` for a curve of length `L` once the order
guard has passed and the weights `d` are known: `0` for `L < q + 1`, otherwise
the mean of the `L - q` squared windows. -/
def noiseVar1 (q : ℕ) (d : ℕ → ℚ) (L : ℕ) (x : ℕ → ℚ) : ℚ :=
  if L < q + 1 then 0 else (∑ s ∈ range (L - q), window q d x s ^ 2) / ((L - q : ℕ) : ℚ)

/-- Mean of the windows (appears in the exact shift formula). -/
def windowMean (q : ℕ) (d : ℕ → ℚ) (L : ℕ) (x : ℕ → ℚ) : ℚ :=
  (∑ s ∈ range (L - q), window q d x s) / ((L - q : ℕ) : ℚ)

/-- `.noise_variance(order)`: mean over the curves of the per-curve estimates
(curve `i` has `L i` samples; dense data: `L` constant). -/
def noiseVar (q : ℕ) (d : ℕ → ℚ) (N : ℕ) (L : ℕ → ℕ) (X : ℕ → ℕ → ℚ) : ℚ :=
  (∑ i ∈ range N, noiseVar1 q d (L i) (X i)) / N

/-- The weights of order `q` from the table generated from the source. -/
def dseq (q : ℕ) : ℕ → ℚ := ofList ((Generated.diffSeq q).getD [])

/-- `_estimate_noise_variance(x, order)` with its guards, in the order of the
code: order outside `1..10` → `ValueError`; short curve → `0`; then the table
lookup (`DIFF_SEQUENCES.get(order)`; a missing entry would make `np.matmul`
raise `TypeError`). -/
def noiseVar1E (order : ℤ) (L : ℕ) (x : ℕ → ℚ) : Except String ℚ :=
  if order < 1 ∨ order > 10 then .error "ValueError"
  else if L < order.toNat + 1 then .ok 0
  else match Generated.diffSeq order.toNat with
    | some d => .ok (noiseVar1 order.toNat (ofList d) L x)
    | none => .error "TypeError"

/-- `.noise_variance(order)` of a data set (first error wins, as in the list
comprehension of the code). -/
def noiseVarE (order : ℤ) (N : ℕ) (L : ℕ → ℕ) (X : ℕ → ℕ → ℚ) : Except String ℚ :=
  match (List.range N).mapM (fun i => noiseVar1E order (L i) (X i)) with
  | .ok vs => .ok (vs.sum / N)
  | .error e => .error e

/-! ### noise variance from the covariance diagonal -/

/-- `int(np.round(x))` for a non-negative rational (NumPy rounds half to even). -/
def roundHalfEven (x : ℚ) : ℕ :=
  let f := x.floor.toNat
  let r := x - f
  if r < 1 / 2 then f else if 1 / 2 < r then f + 1 else if f % 2 = 0 then f else f + 1

/-- `_estimate_noise_variance_with_covariance`: with `varHat` the local-linear
smooth of the raw diagonal at the `p` points `pts` and `sm` the diagonal of the
(smoothed) covariance there: integrate `varHat - sm` over the central half
`pts[lo:hi]`, `lo = round(p/4)`, `hi = round(3p/4)`, double, divide by the
range, clip at zero. -/
def noiseFromCov (p : ℕ) (pts varHat sm : ℕ → ℚ) (rng : ℚ) : ℚ :=
  let lo := roundHalfEven ((p : ℚ) / 4)
  let hi := roundHalfEven (3 * (p : ℚ) / 4)
  let temp := trapz (hi - lo) (fun j => pts (lo + j)) (fun j => varHat (lo + j) - sm (lo + j))
  max (2 * temp / rng) 0

end FDA
